import PyrollProofs.GrooveRepChain
import PyrollProofs.GrooveRepInterp

/-! Helper lemmas for C10 (continued): sampled vertices, continuity of the translated depth function, the translated
surface grid, symmetry of mirrored lists, column / refinement lemmas for the spline groove, and the concrete instances
used by the non-vacuity examples of `PyrollProps/C10.lean`. -/

open GrooveRep Gen.C10 GrooveRepC GrooveRepI

namespace GrooveRepS

variable (σ : String → ℝ)

theorem D_even (z : ℝ) : D σ (-z) = D σ z := by
  rw [D_unfold, D_unfold, abs_neg]

theorem mem_ite_nil {α : Type} {c : Prop} [Decidable c] {l : List α} {v : α} (h : v ∈ if c then [] else l) : v ∈ l := by
  split_ifs at h
  · simp at h
  · exact h

/-- a sample of an arc between two junctions `hi ≥ lo ≥ 0` lies in the closed piece -/
theorem arc_sample (hi lo : ℝ) (n : ℕ) (hlo : 0 ≤ lo) (h : lo ≤ hi) (z : ℝ) (hz : z ∈ linspaceOpen hi lo n) :
    lo ≤ |z| ∧ |z| ≤ hi ∧ |z| = z := by
  obtain ⟨h1, h2⟩ := mem_linspaceOpen_bounds hi lo n h z hz
  have : |z| = z := abs_of_nonneg (le_trans hlo h1)
  rw [this]; exact ⟨h1, h2, rfl⟩

theorem right_vertices_on_depth (o : Ordered σ) (p : Params σ) (n : ℕ) :
    ∀ v ∈ rightSide σ n segments, D σ v.1 = v.2 := by
  have j := junctions_agree σ p
  obtain ⟨h7, h76, h65, h54, h43, h31, h10⟩ := id o
  have a0 : |Expr.eval σ z0| = Expr.eval σ z0 := abs_of_nonneg (by linarith)
  have a3 : |Expr.eval σ z3| = Expr.eval σ z3 := abs_of_nonneg (by linarith)
  intro v hv
  simp only [rightSide, segments, List.flatMap_cons, List.flatMap_nil, List.mem_append, segPoints,
    List.append_nil] at hv
  rcases hv with hv | hv | hv | hv | hv | hv | hv
  · -- outer end of the face padding
    simp only [List.mem_singleton] at hv; subst hv
    show D σ (Expr.eval σ z0) = Expr.eval σ y0
    rw [D_face σ o _ (by rw [a0]; exact h10), a0]
    exact face_at_z0 σ p.cpad.ne'
  · -- r1 arc
    obtain ⟨z, hz, rfl⟩ := List.mem_map.mp (mem_ite_nil hv)
    obtain ⟨b1, b2, b3⟩ := arc_sample _ _ n (by linarith) h31 z hz
    show D σ z = _
    rw [D_r1 σ o j z b1 b2, b3]; rfl
  · -- junction 3
    have hv := mem_ite_nil hv
    simp only [List.mem_singleton] at hv; subst hv
    show D σ (Expr.eval σ z3) = Expr.eval σ y3
    rw [D_flank σ o j _ (by rw [a3]; exact h43) (by rw [a3]), a3]
    exact flank_at_z3 σ
  · -- r2 arc
    obtain ⟨z, hz, rfl⟩ := List.mem_map.mp (mem_ite_nil hv)
    obtain ⟨b1, b2, b3⟩ := arc_sample _ _ n (by linarith) h54 z hz
    show D σ z = _
    rw [D_r2 σ o j z b1 b2, b3]; rfl
  · -- r3 arc
    obtain ⟨z, hz, rfl⟩ := List.mem_map.mp (mem_ite_nil hv)
    obtain ⟨b1, b2, b3⟩ := arc_sample _ _ n (by linarith) h65 z hz
    show D σ z = _
    rw [D_r3 σ o j z b1 b2, b3]; rfl
  · -- r4 arc
    obtain ⟨z, hz, rfl⟩ := List.mem_map.mp (mem_ite_nil hv)
    obtain ⟨b1, b2, b3⟩ := arc_sample _ _ n h7 h76 z hz
    show D σ z = _
    rw [D_r4 σ o j z b1 b2, b3]; rfl
  · -- centre
    simp only [List.mem_singleton] at hv; subst hv
    show D σ (Expr.eval σ z9) = Expr.eval σ y9
    rw [e_z9, D_ground σ o j 0 (by rw [abs_zero]; exact h7), abs_zero]
    unfold F; rw [ground_at, e_y7]

theorem surfacePoint_eq (ρ : String → ℝ) (cy sx : ℝ) :
    surfacePoint ρ surface_y cy sx
      = ρ "max_radius" - Real.sqrt ((ρ "max_radius" - cy) ^ 2 - sx ^ 2) := by
  simp [surfacePoint, surface_y, Expr.eval, setVar]

/-- at the high point (`x = 0`) the grid reproduces the contour ordinate -/
theorem surfacePoint_at_zero (ρ : String → ℝ) (cy : ℝ) (h : cy ≤ ρ "max_radius") :
    surfacePoint ρ surface_y cy 0 = cy := by
  rw [surfacePoint_eq]
  rw [show (ρ "max_radius" - cy) ^ 2 - (0 : ℝ) ^ 2 = (ρ "max_radius" - cy) ^ 2 by ring,
    Real.sqrt_sq (by linarith)]
  ring

theorem surface_even_in_x (ρ : String → ℝ) (cy sx : ℝ) :
    surfacePoint ρ surface_y cy (-sx) = surfacePoint ρ surface_y cy sx := by
  rw [surfacePoint_eq, surfacePoint_eq, neg_sq]

/-- the grid row at the abscissa `0` is the list of contour ordinates -/
theorem surface_row_at_high_point (ρ : String → ℝ) (ys : List ℝ) (h : ∀ y ∈ ys, y ≤ ρ "max_radius") :
    ys.map (fun y => surfacePoint ρ surface_y y 0) = ys := by
  conv_rhs => rw [← List.map_id ys]
  exact List.map_congr_left fun y hy => surfacePoint_at_zero ρ y (h y hy)

theorem zip_map_self {β : Type} (f : ℝ → β) : ∀ l : List ℝ, l.zip (l.map f) = l.map fun a => (a, f a)
  | [] => rfl
  | a :: l => by simp [zip_map_self f l]

theorem mem_zip_grid (ρ : String → ℝ) (ys xs : List ℝ) (x : ℝ) (hx : x ∈ xs) :
    (x, ys.map fun y => surfacePoint ρ surface_y y x) ∈ xs.zip (surfaceGridT ρ surface_y ys xs) := by
  have : xs.zip (surfaceGridT ρ surface_y ys xs)
      = xs.map fun x => (x, ys.map fun y => surfacePoint ρ surface_y y x) := by
    unfold surfaceGridT
    exact zip_map_self _ xs
  rw [this]
  exact List.mem_map.mpr ⟨x, hx, rfl⟩

theorem length_zip_grid (ρ : String → ℝ) (ys xs : List ℝ) :
    (xs.zip (surfaceGridT ρ surface_y ys xs)).length = xs.length := by
  simp [surfaceGridT]

theorem mirrored_list_symmetric (f : ℝ → ℝ) (hodd : ∀ t, f (-t) = -f t) (p0 : ℝ) (T : List ℝ) (h0 : f (-p0) = f p0) :
    ((((p0 :: T).reverse.map fun t => -t) ++ (p0 :: T).tail).map f |>.map fun t => -t).reverse
      = (((p0 :: T).reverse.map fun t => -t) ++ (p0 :: T).tail).map f := by
  have e1 : (fun t => -f (-t)) = f := by funext t; rw [hodd, neg_neg]
  have e2 : (fun t => -f t) = fun t => f (-t) := by funext t; rw [hodd]
  have e3 : -f (-p0) = f (-p0) := by
    have := hodd p0
    rw [h0] at this
    rw [h0]; linarith
  simp only [List.reverse_cons, List.map_append, List.map_cons, List.map_nil, List.tail_cons, List.reverse_append,
    List.map_reverse, List.reverse_reverse, List.map_map, List.nil_append, List.cons_append,
    List.append_assoc, Function.comp_def, e1, e2, e3]

theorem linspaceOpen_head (a b : ℝ) (m : ℕ) : ∃ T, linspaceOpen a b (m + 1) = a :: T := by
  refine ⟨((List.range m).map Nat.succ).map fun k => PyNum.nat k * ((b - a) / PyNum.nat (m + 1)) + a, ?_⟩
  simp only [linspaceOpen, List.range_succ_eq_map, List.map_cons]
  simp

theorem assemble_symmetric (r' : List (ℝ × ℝ)) (c : ℝ × ℝ) (hc : c.1 = 0) :
    mirror (assemble (r' ++ [c])) = assemble (r' ++ [c]) := by
  have hm : mirrorPt c = c := by
    rcases c with ⟨c1, c2⟩
    simp only at hc; subst hc; simp [mirrorPt]
  have inv : ∀ l : List (ℝ × ℝ), (l.map mirrorPt).map mirrorPt = l := by
    intro l; simp [mirrorPt, Function.comp_def]
  simp only [mirror, assemble, List.dropLast_concat, List.map_append, List.reverse_append, List.map_reverse,
    List.reverse_reverse, inv, List.map_cons, List.map_nil, hm, List.reverse_cons, List.reverse_nil, List.nil_append,
    List.append_assoc, List.cons_append]

theorem col0_shift (c : ℝ) (pts : List (ℝ × ℝ)) : col 0 (shiftX c pts) = (col 0 pts).map (· - c) := by
  simp [col, shiftX, Function.comp_def]

theorem col1_shift (c : ℝ) (pts : List (ℝ × ℝ)) : col 1 (shiftX c pts) = col 1 pts := by
  simp [col, shiftX, Function.comp_def]

theorem col_ne_nil (k : ℕ) {pts : List (ℝ × ℝ)} (h : pts ≠ []) : col k pts ≠ [] := by
  simpa [col] using h

theorem refines_getLast {l l' : List (ℝ × ℝ)} (h : Refines OnChord l l') : l'.getLast? = l.getLast? := by
  induction h with
  | refl => rfl
  | step l' l'' _ h1 ih => rw [refine1_getLast h1, ih]

theorem refines_minL (f : ℝ × ℝ → ℝ) (hf : ∀ p q r, OnChord p q r → min (f p) (f q) ≤ f r)
    {l l' : List (ℝ × ℝ)} (h : Refines OnChord l l') : minL (l'.map f) = minL (l.map f) := by
  induction h with
  | refl => rfl
  | step l' l'' _ h1 ih => rw [refine1_minL f hf h1, ih]

theorem refines_maxL (f : ℝ × ℝ → ℝ) (hf : ∀ p q r, OnChord p q r → f r ≤ max (f p) (f q))
    {l l' : List (ℝ × ℝ)} (h : Refines OnChord l l') : maxL (l'.map f) = maxL (l.map f) := by
  induction h with
  | refl => rfl
  | step l' l'' _ h1 ih => rw [refine1_maxL f hf h1, ih]

theorem col0_eq (pts : List (ℝ × ℝ)) : col 0 pts = pts.map Prod.fst := by simp [col]
theorem col1_eq (pts : List (ℝ × ℝ)) : col 1 pts = pts.map Prod.snd := by simp [col]

theorem getLastD_shift (c : ℝ) (pts : List (ℝ × ℝ)) (d : ℝ) :
    (col 0 (shiftX c pts)).getLastD d = (pts.getLast?.map fun p => p.1 - c).getD d := by
  rw [col0_shift, col0_eq, List.map_map, List.getLastD_eq_getLast?, List.getLast?_map]
  cases pts.getLast? <;> rfl


/-- the translated depth function is a continuous function of the width coordinate -/
theorem depth_continuous' (o : Ordered σ) (j : JunctionsAgree σ) : Continuous (D σ) := by
  have cabs : Continuous fun z : ℝ => |z| := continuous_abs
  have c0 : ContinuousOn (D σ) {z | |z| ≤ Expr.eval σ z7} :=
    (show Continuous fun z : ℝ => F σ fn_ground_contour_line |z| by
      simp only [F, fn_ground_eval]; fun_prop).continuousOn.congr fun z hz => D_ground σ o j z hz
  have c1 : ContinuousOn (D σ) {z | Expr.eval σ z7 ≤ |z| ∧ |z| ≤ Expr.eval σ z6} :=
    (show Continuous fun z : ℝ => F σ fn_r4_contour_line |z| by
      simp only [F, fn_r4_eval]; fun_prop).continuousOn.congr fun z hz => D_r4 σ o j z hz.1 hz.2
  have c2 : ContinuousOn (D σ) {z | Expr.eval σ z6 ≤ |z| ∧ |z| ≤ Expr.eval σ z5} :=
    (show Continuous fun z : ℝ => F σ fn_r3_contour_line |z| by
      simp only [F, fn_r3_eval]; fun_prop).continuousOn.congr fun z hz => D_r3 σ o j z hz.1 hz.2
  have c3 : ContinuousOn (D σ) {z | Expr.eval σ z5 ≤ |z| ∧ |z| ≤ Expr.eval σ z4} :=
    (show Continuous fun z : ℝ => F σ fn_r2_contour_line |z| by
      simp only [F, fn_r2_eval]; fun_prop).continuousOn.congr fun z hz => D_r2 σ o j z hz.1 hz.2
  have c4 : ContinuousOn (D σ) {z | Expr.eval σ z4 ≤ |z| ∧ |z| ≤ Expr.eval σ z3} :=
    (show Continuous fun z : ℝ => F σ fn_flank_contour_line |z| by
      simp only [F, fn_flank_eval]; fun_prop).continuousOn.congr fun z hz => D_flank σ o j z hz.1 hz.2
  have c5 : ContinuousOn (D σ) {z | Expr.eval σ z3 ≤ |z| ∧ |z| ≤ Expr.eval σ z1} :=
    (show Continuous fun z : ℝ => F σ fn_r1_contour_line |z| by
      simp only [F, fn_r1_eval]; fun_prop).continuousOn.congr fun z hz => D_r1 σ o j z hz.1 hz.2
  have c6 : ContinuousOn (D σ) {z | Expr.eval σ z1 ≤ |z|} :=
    (show Continuous fun z : ℝ => F σ fn_face_contour_line |z| by
      simp only [F, fn_face_eval]; fun_prop).continuousOn.congr fun z hz => D_face σ o z hz
  have kle : ∀ c : ℝ, IsClosed {z : ℝ | |z| ≤ c} := fun c => isClosed_le cabs continuous_const
  have kge : ∀ c : ℝ, IsClosed {z : ℝ | c ≤ |z|} := fun c => isClosed_le continuous_const cabs
  have kb : ∀ a b : ℝ, IsClosed {z : ℝ | a ≤ |z| ∧ |z| ≤ b} := fun a b => (kge a).inter (kle b)
  have u := (((((c0.union_of_isClosed c1 (kle _) (kb _ _)).union_of_isClosed c2 ((kle _).union (kb _ _)) (kb _ _)
    ).union_of_isClosed c3 (((kle _).union (kb _ _)).union (kb _ _)) (kb _ _)
    ).union_of_isClosed c4 ((((kle _).union (kb _ _)).union (kb _ _)).union (kb _ _)) (kb _ _)
    ).union_of_isClosed c5 (((((kle _).union (kb _ _)).union (kb _ _)).union (kb _ _)).union (kb _ _)) (kb _ _)
    ).union_of_isClosed c6 ((((((kle _).union (kb _ _)).union (kb _ _)).union (kb _ _)).union (kb _ _)).union (kb _ _)) (kge _)
  rw [← continuousOn_univ]
  refine u.mono fun z _ => ?_
  simp only [Set.mem_union, Set.mem_ofPred_eq]
  rcases le_total |z| (Expr.eval σ z7) with h | h7
  · tauto
  rcases le_total |z| (Expr.eval σ z6) with h | h6
  · tauto
  rcases le_total |z| (Expr.eval σ z5) with h | h5
  · tauto
  rcases le_total |z| (Expr.eval σ z4) with h | h4
  · tauto
  rcases le_total |z| (Expr.eval σ z3) with h | h3
  · tauto
  rcases le_total |z| (Expr.eval σ z1) with h | h1
  · tauto
  · tauto

/-! ### boundary stripping of the spline groove

Everything here is generic in the face predicate `f : ℝ → Bool` ("this ordinate lies on the face line"); the generated
model instantiates it with `spline_face.onFace pts` (the face test the translator read, with its tolerance evaluated on the
polyline as given). -/

theorem dropFaceRun_suffix (f : ℝ → Bool) : ∀ l : List (ℝ × ℝ), ∃ s, l = s ++ dropFaceRun f l
  | [] => ⟨[], rfl⟩
  | [p] => ⟨[], rfl⟩
  | p :: q :: rest => by
    simp only [dropFaceRun]
    split_ifs
    · obtain ⟨s, hs⟩ := dropFaceRun_suffix f (q :: rest)
      exact ⟨p :: s, by rw [List.cons_append, ← hs]⟩
    · exact ⟨[], rfl⟩

theorem dropFaceRun_ne_nil (f : ℝ → Bool) : ∀ l : List (ℝ × ℝ), l ≠ [] → dropFaceRun f l ≠ []
  | [], h => absurd rfl h
  | [p], _ => by simp [dropFaceRun]
  | p :: q :: rest, _ => by
    simp only [dropFaceRun]
    split_ifs
    · exact dropFaceRun_ne_nil f (q :: rest) (by simp)
    · simp

theorem dropFaceRun_getLast (f : ℝ → Bool) (l : List (ℝ × ℝ)) : (dropFaceRun f l).getLast? = l.getLast? := by
  rcases l with _ | ⟨a, l⟩
  · rfl
  · obtain ⟨s, hs⟩ := dropFaceRun_suffix f (a :: l)
    conv_rhs => rw [hs]
    rw [List.getLast?_append_of_ne_nil _ (dropFaceRun_ne_nil f _ (by simp))]

/-- a vertex off the face line survives, provided the first vertex lies on the face line -/
theorem dropFaceRun_mem (f : ℝ → Bool) : ∀ (l : List (ℝ × ℝ)), (∀ a ∈ l.head?, f a.2 = true) →
    ∀ p ∈ l, f p.2 = false → p ∈ dropFaceRun f l
  | [], _, p, hp, _ => by simp at hp
  | [a], _, p, hp, _ => by simpa [dropFaceRun] using hp
  | a :: q :: rest, hh, p, hp, hc => by
    simp only [dropFaceRun]
    split_ifs with hq
    · have ha : f a.2 = true := hh a (by simp)
      rcases List.mem_cons.mp hp with rfl | hp'
      · rw [ha] at hc; exact absurd hc (by simp)
      · exact dropFaceRun_mem f (q :: rest) (by intro b hb; simp at hb; subst hb; exact hq) p hp' hc
    · exact hp

theorem stripFaceRuns_spec (f : ℝ → Bool) (pts : List (ℝ × ℝ)) (hacc : splineAccepts f pts = true) :
    (∃ s t, pts = s ++ stripFaceRuns f pts ++ t)
      ∧ ∀ p ∈ pts, f p.2 = false → p ∈ stripFaceRuns f pts := by
  unfold stripFaceRuns
  split_ifs with hall
  · exact ⟨⟨[], [], by simp⟩, fun p hp _ => hp⟩
  · have hhead : ∀ a ∈ pts.head?, f a.2 = true := by
      intro a ha
      rcases pts with _ | ⟨b, t⟩
      · simp at ha
      · simp only [List.head?_cons, Option.mem_def, Option.some.injEq] at ha; subst ha
        simp only [splineAccepts, col, List.map_cons, List.headD_cons, Bool.and_eq_true] at hacc
        simpa using hacc.1
    have hlast : ∀ a ∈ pts.getLast?, f a.2 = true := by
      intro a ha
      simp only [splineAccepts, Bool.and_eq_true] at hacc
      have h2 := hacc.2
      rw [List.getLastD_eq_getLast?, show col 1 pts = pts.map (fun p => p.2) by simp [col], List.getLast?_map] at h2
      simp only [Option.mem_def] at ha
      rw [ha] at h2
      simpa using h2
    obtain ⟨s, hs⟩ := dropFaceRun_suffix f pts
    obtain ⟨s', hs'⟩ := dropFaceRun_suffix f (dropFaceRun f pts).reverse
    constructor
    · refine ⟨s, s'.reverse, ?_⟩
      have : dropFaceRun f pts = (dropFaceRun f (dropFaceRun f pts).reverse).reverse ++ s'.reverse := by
        rw [← List.reverse_append, ← hs', List.reverse_reverse]
      rw [List.append_assoc, ← this, ← hs]
    · intro p hp hc
      have h1 := dropFaceRun_mem f pts hhead p hp hc
      have h2 := dropFaceRun_mem f (dropFaceRun f pts).reverse (by
        intro a ha
        rw [List.head?_reverse, dropFaceRun_getLast] at ha
        exact hlast a ha) p (List.mem_reverse.mpr h1) hc
      exact List.mem_reverse.mpr h2

/-! ### the face test -/

/-- both kinds of face test say `|y| ≤ tolerance`, the tolerance being `FaceTest.tol` of the polyline as given
    (`np.isclose(y, 0)`: `|y − 0| ≤ 1e-8 + 1e-5·|0|`) -/
theorem onFace_iff (ft : FaceTest) (pts : List (ℝ × ℝ)) (y : ℝ) : ft.onFace pts y = true ↔ |y| ≤ ft.tol pts := by
  cases ft with
  | isclose =>
    simp only [FaceTest.onFace, FaceTest.tol, isclose, PyNum.le, PyNum.dec_real, PyNum.abs_real, PyNum.nat_real,
      decide_eq_true_eq]
    norm_num
  | within t => simp only [FaceTest.onFace, FaceTest.tol, PyNum.le, PyNum.abs_real, decide_eq_true_eq]

/-- the larger of the two extents of a polyline -/
noncomputable def extent (pts : List (ℝ × ℝ)) : ℝ :=
  max (maxL (col 0 pts) - minL (col 0 pts)) (maxL (col 1 pts) - minL (col 1 pts))

theorem extent_nonneg {pts : List (ℝ × ℝ)} (h : pts ≠ []) : 0 ≤ extent pts := by
  have hne := col_ne_nil 0 h
  have h1 := (minL_spec _ hne).2 _ (maxL_spec _ hne).1
  exact le_max_of_le_left (by linarith)

theorem maxL_pair (a b : ℝ) : maxL [a, b] = max a b := by
  simp only [maxL, PyNum.lt]
  by_cases h : a < b
  · simp [h, max_eq_right (le_of_lt h)]
  · simp [h, max_eq_left (not_lt.mp h)]

/-- what a face test has to be for the instances below: its tolerance is non-negative (an ordinate that IS 0 lies on the face
    line) and at most `max 1e-8 (1e-9 · extent)` (an ordinate beyond that never does) -/
def FaceBounded (ft : FaceTest) : Prop :=
  ∀ pts : List (ℝ × ℝ), pts ≠ [] → 0 ≤ ft.tol pts ∧ ft.tol pts ≤ max (1 / 10 ^ 8) (1 / 10 ^ 9 * extent pts)

theorem faceBounded_isclose : FaceBounded .isclose := by
  intro pts _
  simp only [FaceTest.tol, PyNum.dec_real]
  exact ⟨by positivity, le_max_of_le_left (by norm_num)⟩

/-- `1e-9 * np.max(np.ptp(contour_points, axis=0))` -/
theorem faceBounded_within_extent :
    FaceBounded (.within (.mul (.dec 1 9) (.max (.sub (.colMax 0) (.colMin 0)) (.sub (.colMax 1) (.colMin 1))))) := by
  intro pts h
  have he : (FaceTest.within (.mul (.dec 1 9) (.max (.sub (.colMax 0) (.colMin 0))
      (.sub (.colMax 1) (.colMin 1))))).tol pts = 1 / 10 ^ 9 * extent pts := by
    simp only [FaceTest.tol, LTerm.eval, PyNum.dec_real, maxL_pair, extent]; norm_num
  rw [he]
  exact ⟨mul_nonneg (by positivity) (extent_nonneg h), le_max_right _ _⟩

/-- a polyline inside the square `|x|, |y| ≤ B` has an extent of at most `2B` -/
theorem extent_le {pts : List (ℝ × ℝ)} (h : pts ≠ []) (B : ℝ) (hB : ∀ p ∈ pts, |p.1| ≤ B ∧ |p.2| ≤ B) :
    extent pts ≤ 2 * B := by
  have bound : ∀ k, maxL (col k pts) - minL (col k pts) ≤ 2 * B := by
    intro k
    have hne := col_ne_nil k h
    obtain ⟨hM, _⟩ := maxL_spec _ hne
    obtain ⟨hm, _⟩ := minL_spec _ hne
    have mem : ∀ v ∈ col k pts, |v| ≤ B := by
      intro v hv
      simp only [col, List.mem_map] at hv
      obtain ⟨p, hp, rfl⟩ := hv
      split_ifs
      · exact (hB p hp).1
      · exact (hB p hp).2
    have a := abs_le.mp (mem _ hM)
    have b := abs_le.mp (mem _ hm)
    linarith
  exact max_le (bound 0) (bound 1)

/-- for a bounded face test on a polyline inside `|x|, |y| ≤ B`, `B ≤ 10⁸`: the ordinate 0 is on the face line, an ordinate of at least 1 is not -/
theorem faceBounded_zero {ft : FaceTest} (hb : FaceBounded ft) {pts : List (ℝ × ℝ)} (h : pts ≠ []) :
    ft.onFace pts 0 = true := by
  rw [onFace_iff, abs_zero]; exact (hb pts h).1

theorem faceBounded_off {ft : FaceTest} (hb : FaceBounded ft) {pts : List (ℝ × ℝ)} (h : pts ≠ []) (B : ℝ)
    (hB : ∀ p ∈ pts, |p.1| ≤ B ∧ |p.2| ≤ B) (hB8 : B ≤ 10 ^ 8) (y : ℝ) (hy : 1 ≤ y) : ft.onFace pts y = false := by
  rw [Bool.eq_false_iff, Ne, onFace_iff, not_le, abs_of_pos (by linarith)]
  have h2 := (hb pts h).2
  have h3 := extent_le h B hB
  have : max ((1 : ℝ) / 10 ^ 8) (1 / 10 ^ 9 * extent pts) < 1 := by
    apply max_lt (by norm_num)
    have : (1 : ℝ) / 10 ^ 9 * extent pts ≤ 1 / 10 ^ 9 * (2 * 10 ^ 8) :=
      mul_le_mul_of_nonneg_left (by linarith) (by positivity)
    linarith [show (1 : ℝ) / 10 ^ 9 * (2 * 10 ^ 8) < 1 by norm_num]
  linarith

/-- conversions that keep the dtype or turn integers into floats leave the POSITION an entry stands for unchanged
    (only `np.abs` moves it) -/
theorem convElem_val_of_no_abs (ops : List ArgOp) (h : ArgOp.abs ∉ ops) (s : PyScalar ℝ) :
    (convElem ops s).val = s.val := by
  induction ops generalizing s with
  | nil => rfl
  | cons o t ih =>
    have ho : o ≠ ArgOp.abs := fun e => h (e ▸ List.mem_cons_self)
    have ht : ArgOp.abs ∉ t := fun m => h (List.mem_cons_of_mem _ m)
    simp only [convElem, List.foldl_cons] at ih ⊢
    rw [ih ht]
    cases o with
    | abs => exact absurd rfl ho
    | asArray => rfl
    | asFloat => rfl

/-! ### concrete instances for the non-vacuity examples -/

/-- a trapezoidal groove: usable width 4, ground width 2, depth 1, flank 45°, face padding 1, sharp corners -/
noncomputable def σ0 : String → ℝ := fun n =>
  if n = "usable_width" then 4 else if n = "depth" then 1 else if n = "even_ground_width" then 2
  else if n = "flank_angle" then Real.pi / 4 else if n = "pad" then 1 else 0

theorem σ0_z : Expr.eval σ0 z7 = 1 ∧ Expr.eval σ0 z6 = 1 ∧ Expr.eval σ0 z5 = 1 ∧ Expr.eval σ0 z4 = 1
    ∧ Expr.eval σ0 z3 = 2 ∧ Expr.eval σ0 z1 = 2 ∧ Expr.eval σ0 z0 = 3 ∧ Expr.eval σ0 y4 = 1 ∧ Expr.eval σ0 y3 = 0 := by
  have e7 : Expr.eval σ0 z7 = 1 := by simp [z7, Expr.eval, σ0]
  have e2 : Expr.eval σ0 z2 = 2 := by simp [z2, Expr.eval, σ0]; norm_num
  have el : Expr.eval σ0 l12 = 0 := by simp [l12, Expr.eval, σ0]
  have e9 : Expr.eval σ0 y9 = 1 := by simp [y9, Expr.eval, σ0]
  refine ⟨e7, ?_, ?_, ?_, ?_, ?_, ?_, ?_, ?_⟩
  all_goals
    simp only [e_z6, e_z8, e_z5, e_z10, e_z4, e_z11, e_z3, e_z12, e_z1, e_z0, e_y4, e_y11, e_y10, e_y6, e_y8, e_y3,
      e_y12, e_y1, e7, e2, el, e9]
    simp [σ0]
    try norm_num

theorem σ0_ordered : Ordered σ0 := by
  obtain ⟨h7, h6, h5, h4, h3, h1, h0, _, _⟩ := σ0_z
  constructor <;> simp only [h7, h6, h5, h4, h3, h1, h0] <;> norm_num

theorem σ0_params : Params σ0 := by
  obtain ⟨h7, h6, h5, h4, h3, h1, h0, y4', y3'⟩ := σ0_z
  have c0 : Real.cos (σ0 "pad_angle") = 1 := by simp [σ0]
  refine ⟨by simp [σ0], by simp [σ0], by simp [σ0], by simp [σ0], by rw [c0]; norm_num, ?_, by simp [σ0], by simp [σ0], ?_⟩
  · have : σ0 "flank_angle" = Real.pi / 4 := by simp [σ0]
    rw [this, Real.cos_pi_div_four]; positivity
  · have : σ0 "flank_angle" = Real.pi / 4 := by simp [σ0]
    rw [y4', y3', h4, h3, this, Real.tan_pi_div_four]; norm_num

/-- a trapezoidal groove whose junctions lie at half-integers: usable width 5, ground width 3, depth 1, flank 45°, face
    padding 1, sharp corners; at the whole-numbered abscissa 2 (on the flank) it is 1/2 deep -/
noncomputable def σ1 : String → ℝ := fun n =>
  if n = "usable_width" then 5 else if n = "depth" then 1 else if n = "even_ground_width" then 3
  else if n = "flank_angle" then Real.pi / 4 else if n = "pad" then 1 else 0

theorem σ1_z : Expr.eval σ1 z7 = 3 / 2 ∧ Expr.eval σ1 z6 = 3 / 2 ∧ Expr.eval σ1 z5 = 3 / 2 ∧ Expr.eval σ1 z4 = 3 / 2
    ∧ Expr.eval σ1 z3 = 5 / 2 ∧ Expr.eval σ1 z1 = 5 / 2 ∧ Expr.eval σ1 z0 = 7 / 2 ∧ Expr.eval σ1 y4 = 1 ∧ Expr.eval σ1 y3 = 0 := by
  have e7 : Expr.eval σ1 z7 = 3 / 2 := by simp [z7, Expr.eval, σ1]
  have e2 : Expr.eval σ1 z2 = 5 / 2 := by simp [z2, Expr.eval, σ1]
  have el : Expr.eval σ1 l12 = 0 := by simp [l12, Expr.eval, σ1]
  have e9 : Expr.eval σ1 y9 = 1 := by simp [y9, Expr.eval, σ1]
  refine ⟨e7, ?_, ?_, ?_, ?_, ?_, ?_, ?_, ?_⟩
  all_goals
    simp only [e_z6, e_z8, e_z5, e_z10, e_z4, e_z11, e_z3, e_z12, e_z1, e_z0, e_y4, e_y11, e_y10, e_y6, e_y8, e_y3,
      e_y12, e_y1, e7, e2, el, e9]
    simp [σ1]
    try norm_num

theorem σ1_ordered : Ordered σ1 := by
  obtain ⟨h7, h6, h5, h4, h3, h1, h0, _, _⟩ := σ1_z
  constructor <;> simp only [h7, h6, h5, h4, h3, h1, h0] <;> norm_num

theorem σ1_params : Params σ1 := by
  obtain ⟨h7, h6, h5, h4, h3, h1, h0, y4', y3'⟩ := σ1_z
  have c0 : Real.cos (σ1 "pad_angle") = 1 := by simp [σ1]
  refine ⟨by simp [σ1], by simp [σ1], by simp [σ1], by simp [σ1], by rw [c0]; norm_num, ?_, by simp [σ1], by simp [σ1], ?_⟩
  · have : σ1 "flank_angle" = Real.pi / 4 := by simp [σ1]
    rw [this, Real.cos_pi_div_four]; positivity
  · have : σ1 "flank_angle" = Real.pi / 4 := by simp [σ1]
    rw [y4', y3', h4, h3, this, Real.tan_pi_div_four]; norm_num

/-- the groove `σ1` is 1/2 deep at the abscissa 2 -/
theorem σ1_depth_at_two : D σ1 2 = 1 / 2 := by
  obtain ⟨h7, h6, h5, h4, h3, h1, h0, y4', y3'⟩ := σ1_z
  have a2 : |(2 : ℝ)| = 2 := abs_of_nonneg (by norm_num)
  rw [D_flank σ1 σ1_ordered (junctions_agree σ1 σ1_params) 2 (by rw [h4, a2]; norm_num) (by rw [h3, a2]; norm_num)]
  have : σ1 "flank_angle" = Real.pi / 4 := by simp [σ1]
  rw [F, fn_flank_eval, y3', h3, this, Real.tan_pi_div_four, a2]; norm_num

/-- handed the INTEGER 2 without a conversion to float, the result has an integer dtype: the depth 1/2 is truncated to 0 -/
theorem σ1_unconverted_int : localDepthElem [.abs] pieces depth_default σ1 (.int 2) = .int 0 := by
  have h := σ1_depth_at_two
  rw [D_unfold, abs_of_nonneg (by norm_num : (0:ℝ) ≤ 2), F] at h
  have e : (ofInt (Int.natAbs 2 : ℕ) : ℝ) = 2 := by rw [ofInt_real]; norm_num
  simp only [localDepthElem, convElem, List.foldl, ArgOp.onElem, PyScalar.val, storeLike, depth_default, e]
  rw [h]
  simp only [PyTrunc.trunc]
  norm_num

noncomputable def P0 : List (ℝ × ℝ) := [(-8, 0), (-4, 4), (4, 4), (8, 0)]
noncomputable def P1 : List (ℝ × ℝ) := [(-8, 0), (-7, 1), (-6, 2), (-4, 4), (4, 4), (8, 0)]

theorem P0_bound : ∀ p ∈ P0, |p.1| ≤ (8 : ℝ) ∧ |p.2| ≤ (8 : ℝ) := by
  intro p hp; simp [P0] at hp; rcases hp with rfl | rfl | rfl | rfl <;> norm_num [abs_le]
theorem P1_bound : ∀ p ∈ P1, |p.1| ≤ (8 : ℝ) ∧ |p.2| ≤ (8 : ℝ) := by
  intro p hp; simp [P1] at hp; rcases hp with rfl | rfl | rfl | rfl | rfl | rfl <;> norm_num [abs_le]

/-- stripping the face runs of `P0` / `P1` with ANY face predicate that puts 0 on the face line and 1, 2, 4 off it -/
theorem strip_P0 (f : ℝ → Bool) (h0 : f 0 = true) (h4 : f 4 = false) : strip .faceRuns f P0 = P0 := by
  simp [strip, stripFaceRuns, dropFaceRun, P0, col, h0, h4]

theorem strip_P1 (f : ℝ → Bool) (h0 : f 0 = true) (h1 : f 1 = false) (h2 : f 2 = false) (h4 : f 4 = false) :
    strip .faceRuns f P1 = P1 := by
  simp [strip, stripFaceRuns, dropFaceRun, P1, col, h0, h1, h2, h4]

/-- two V-shaped grooves side by side -/
noncomputable def twinV : List (ℝ × ℝ) := [(0, 0), (1, 1), (2, 0), (3, 1), (4, 0)]

theorem twinV_bound : ∀ p ∈ twinV, |p.1| ≤ (4 : ℝ) ∧ |p.2| ≤ (4 : ℝ) := by
  intro p hp; simp [twinV] at hp; rcases hp with rfl | rfl | rfl | rfl | rfl <;> norm_num [abs_le]

theorem stripBoth_twinV (f : ℝ → Bool) (h0 : f 0 = true) (h1 : f 1 = false) :
    strip .bothNeighbours f twinV = [(0, 0), (2, 0), (4, 0)] := by
  simp [strip, stripBoth, twinV, col, rollR, rollL, h0, h1]

theorem P0_refines_P1 : Refines OnChord P0 P1 := by
  refine .step _ [(-8, 0), (-6, 2), (-4, 4), (4, 4), (8, 0)] _ (.step _ _ _ (.refl _) ?_) ?_
  · exact .here _ _ _ _ ⟨by norm_num, by norm_num, by norm_num [lerp]⟩
  · exact .here _ _ _ _ ⟨by norm_num, by norm_num, by norm_num [lerp]⟩

end GrooveRepS
