import PyrollModel.OutCS
import PyrollProofs.PassGeomClip

/-! Helper lemmas for C08 about `PyrollModel/OutCS.lean`: the term language under every interpretation, and the
    vertex-list interpretation over ℝ (ring closure, the one-walk strip clip, half-plane clips). -/

namespace OutCS
open PassGeom

/-! ### terms -/

section terms
variable {α G : Type} [PyNum α]

/-- evaluating a term whose sources were redirected = evaluating it in the interpretation with redirected sources -/
theorem eval_mapSrc (S : Sig α G) (ρ : String → α) (f : Src → Src) (g : GT) :
    (g.mapSrc f).eval S ρ = g.eval { S with src := fun s => S.src (f s) } ρ := by
  induction g with
  | src s => rfl
  | translate g dx dy ih => simp only [GT.mapSrc, GT.eval, ih]
  | rotate g a ih => simp only [GT.mapSrc, GT.eval, ih]
  | scale g fx fy ih => simp only [GT.mapSrc, GT.eval, ih]
  | reverse g ih => simp only [GT.mapSrc, GT.eval, ih]
  | concat a b iha ihb => simp only [GT.mapSrc, GT.eval, iha, ihb]
  | polygon g ih => simp only [GT.mapSrc, GT.eval, ih]
  | clipRect g b0 b1 b2 b3 ih => simp only [GT.mapSrc, GT.eval, ih]
  | refine g ih => simp only [GT.mapSrc, GT.eval, ih]
  | dedupe g r ih => simp only [GT.mapSrc, GT.eval, ih]

/-- when the roll's contour is the groove's contour, redirecting every source to the groove changes nothing -/
theorem eval_toGroove (S : Sig α G) (ρ : String → α) (h : S.src .rollContour = S.src .grooveContour) (g : GT) :
    (g.mapSrc toGroove).eval S ρ = g.eval S ρ := by
  induction g with
  | src s => cases s <;> simp [GT.mapSrc, GT.eval, toGroove, h]
  | translate g dx dy ih => simp only [GT.mapSrc, GT.eval, ih]
  | rotate g a ih => simp only [GT.mapSrc, GT.eval, ih]
  | scale g fx fy ih => simp only [GT.mapSrc, GT.eval, ih]
  | reverse g ih => simp only [GT.mapSrc, GT.eval, ih]
  | concat a b iha ihb => simp only [GT.mapSrc, GT.eval, iha, ihb]
  | polygon g ih => simp only [GT.mapSrc, GT.eval, ih]
  | clipRect g b0 b1 b2 b3 ih => simp only [GT.mapSrc, GT.eval, ih]
  | refine g ih => simp only [GT.mapSrc, GT.eval, ih]
  | dedupe g r ih => simp only [GT.mapSrc, GT.eval, ih]

/-- a term depends on the environment only through the values of its scalar arguments -/
theorem Bnd.eval_congr (ρ σ : String → α) (b : Bnd) (h : ∀ e : Expr, e.eval ρ = e.eval σ) : b.eval ρ = b.eval σ := by
  cases b <;> simp [Bnd.eval, h]

end terms

/-! ### ring closure -/

@[simp] theorem samePt_iff (p q : Pt ℝ) : samePt p q = true ↔ p = q := by
  simp only [samePt, le_real, Bool.and_eq_true, decide_eq_true_eq]
  constructor
  · rintro ⟨⟨⟨h1, h2⟩, h3⟩, h4⟩
    exact Pt.ext' (le_antisymm h1 h2) (le_antisymm h3 h4)
  · rintro rfl
    exact ⟨⟨⟨le_refl _, le_refl _⟩, le_refl _⟩, le_refl _⟩

theorem closeRing_cases {α : Type} [PyNum α] (l : List (Pt α)) :
    closeRing l = l ∨ ∃ h : l ≠ [], closeRing l = l ++ [l.head h] := by
  cases l with
  | nil => left; rfl
  | cons p rest =>
    have hl : (p :: rest).getLast? = some ((p :: rest).getLast (by simp)) := List.getLast?_eq_getLast_of_ne_nil (by simp)
    simp only [closeRing, List.head?_cons, hl]
    split
    · left; rfl
    · right; exact ⟨by simp, rfl⟩

theorem mem_closeRing {α : Type} [PyNum α] (l : List (Pt α)) (q : Pt α) : q ∈ closeRing l ↔ q ∈ l := by
  rcases closeRing_cases l with h | ⟨hne, h⟩
  · rw [h]
  · rw [h]
    simp only [List.mem_append, List.mem_singleton]
    constructor
    · rintro (h | rfl)
      · exact h
      · exact List.head_mem hne
    · exact fun h => Or.inl h

theorem closeRing_ne_nil {α : Type} [PyNum α] (l : List (Pt α)) (h : l ≠ []) : closeRing l ≠ [] := by
  intro h0
  obtain ⟨p, hp⟩ := List.exists_mem_of_ne_nil l h
  have := (mem_closeRing l p).mpr hp
  rw [h0] at this
  exact absurd this (List.not_mem_nil)

/-- the segments of a vertex list -/
abbrev segsOf {β : Type} (l : List β) : List (β × β) := l.zip l.tail

theorem mem_segs_append_singleton {β : Type} (l : List β) (c a b : β) :
    (a, b) ∈ segsOf (l ++ [c]) ↔ (a, b) ∈ segsOf l ∨ (∃ h : l ≠ [], a = l.getLast h ∧ b = c) := by
  simp only [segsOf]
  rw [mem_segs_iff, mem_segs_iff]
  constructor
  · rintro ⟨l1, l2, h⟩
    rcases List.eq_nil_or_concat l2 with rfl | ⟨l2', c', rfl⟩
    · right
      have h' : l ++ [c] = (l1 ++ [a]) ++ [b] := by simpa using h
      obtain ⟨h1, h2⟩ := List.append_inj' h' rfl
      simp only [List.cons.injEq, and_true] at h2
      subst h2
      subst h1
      exact ⟨by simp, by simp, rfl⟩
    · left
      have h' : l ++ [c] = (l1 ++ a :: b :: l2') ++ [c'] := by simpa using h
      exact ⟨l1, l2', (List.append_inj' h' rfl).1⟩
  · rintro (⟨l1, l2, h⟩ | ⟨hne, rfl, rfl⟩)
    · exact ⟨l1, l2 ++ [c], by simp [h]⟩
    · refine ⟨l.dropLast, [], ?_⟩
      conv_lhs => rw [← List.dropLast_append_getLast hne]
      simp

/-- closing a ring adds (at most) the edge from the last vertex back to the first -/
theorem mem_segs_closeRing {α : Type} [PyNum α] (l : List (Pt α)) (a b : Pt α) :
    (a, b) ∈ segsOf (closeRing l) → (a, b) ∈ segsOf l ∨ (∃ h : l ≠ [], a = l.getLast h ∧ b = l.head h) := by
  rcases closeRing_cases l with h | ⟨hne, h⟩
  · rw [h]; exact fun h => Or.inl h
  · rw [h, mem_segs_append_singleton]
    rintro (h | ⟨_, h1, h2⟩)
    · exact Or.inl h
    · exact Or.inr ⟨hne, h1, h2⟩

theorem segs_subset_closeRing {α : Type} [PyNum α] (l : List (Pt α)) (a b : Pt α) (h : (a, b) ∈ segsOf l) :
    (a, b) ∈ segsOf (closeRing l) := by
  rcases closeRing_cases l with h' | ⟨hne, h'⟩
  · rw [h']; exact h
  · rw [h', mem_segs_append_singleton]; exact Or.inl h

/-- over ℝ: a ring is left alone only when it is closed already -/
theorem closeRing_real (l : List (Pt ℝ)) (hne : l ≠ []) :
    (l.head hne = l.getLast hne ∧ closeRing l = l) ∨ closeRing l = l ++ [l.head hne] := by
  have h1 : l.head? = some (l.head hne) := List.head?_eq_some_head hne
  have h2 : l.getLast? = some (l.getLast hne) := List.getLast?_eq_getLast_of_ne_nil hne
  simp only [closeRing, h1, h2]
  by_cases hc : (samePt (l.head hne) (l.getLast hne) && decide (1 < l.length)) = true
  · left
    simp only [hc, if_true, and_true]
    simp only [Bool.and_eq_true, samePt_iff] at hc
    exact hc.1
  · right
    simp [hc]

/-! ### the one-walk strip clip -/

theorem crossOn_x_eq_crossAt (v : ℝ) (p q : Pt ℝ) : crossOn .x v p q = crossAt v p q := rfl

theorem mem_crossBoth (lo hi : ℝ) (a b q : Pt ℝ) : q ∈ crossBoth lo hi a b ↔ q ∈ crossings lo hi (a, b) := by
  simp only [crossBoth, crossings, crossOn_x_eq_crossAt]
  split
  · simp only [List.mem_append]
  · simp only [List.mem_append]; tauto

theorem mem_clipWalkX_aux (lo hi : ℝ) (l : List (Pt ℝ)) (q : Pt ℝ) :
    q ∈ clipWalkX lo hi l ↔
      (q ∈ l ∧ lo ≤ q.x ∧ q.x ≤ hi) ∨ ∃ a b, (a, b) ∈ l.zip l.tail ∧ q ∈ crossings lo hi (a, b) := by
  induction l with
  | nil => simp [clipWalkX]
  | cons p rest ih =>
    have hp : q ∈ (if insideX lo hi p = true then [p] else []) ↔ (q = p ∧ lo ≤ q.x ∧ q.x ≤ hi) := by
      by_cases hin : insideX lo hi p = true
      · have := (insideX_iff lo hi p).mp hin
        simp only [hin, if_true, List.mem_singleton]
        constructor
        · rintro rfl; exact ⟨rfl, this⟩
        · exact fun h => h.1
      · simp only [hin]
        constructor
        · intro h; simp at h
        · rintro ⟨rfl, h⟩; exact absurd ((insideX_iff lo hi q).mpr h) hin
    cases rest with
    | nil =>
      simp only [clipWalkX, List.mem_append, hp, crossBothNext, List.not_mem_nil, or_false, List.tail_cons,
        List.zip_nil_right, false_and, exists_false, List.mem_singleton]
    | cons r rest' =>
      rw [show clipWalkX lo hi (p :: r :: rest') = (if insideX lo hi p = true then [p] else []) ++ crossBoth lo hi p r ++
        clipWalkX lo hi (r :: rest') from rfl]
      simp only [List.mem_append, hp, mem_crossBoth, ih]
      simp only [List.tail_cons, List.zip_cons_cons, List.mem_cons, Prod.mk.injEq]
      constructor
      · rintro ((h | h) | (⟨h, h1⟩ | ⟨a, b, hab, hq⟩))
        · exact Or.inl ⟨Or.inl h.1, h.2⟩
        · exact Or.inr ⟨p, r, Or.inl ⟨rfl, rfl⟩, h⟩
        · exact Or.inl ⟨Or.inr h, h1⟩
        · exact Or.inr ⟨a, b, Or.inr hab, hq⟩
      · rintro (⟨(h | h), h1⟩ | ⟨a, b, (⟨rfl, rfl⟩ | hab), hq⟩)
        · exact Or.inl (Or.inl ⟨h, h1⟩)
        · exact Or.inr (Or.inl ⟨h, h1⟩)
        · exact Or.inl (Or.inr hq)
        · exact Or.inr (Or.inr ⟨a, b, hab, hq⟩)

theorem mem_clipWalkX (lo hi : ℝ) (l : List (Pt ℝ)) (q : Pt ℝ) : q ∈ clipWalkX lo hi l ↔ q ∈ clipCands lo hi l := by
  rw [mem_clipWalkX_aux, mem_clipCands]

/-- what the strip clip of a ring consists of -/
theorem mem_clipStripRing (lo hi : ℝ) (l : List (Pt ℝ)) (q : Pt ℝ) :
    q ∈ clipRectVL l (.fin lo) .ninf (.fin hi) .pinf ↔
      (q ∈ l ∧ lo ≤ q.x ∧ q.x ≤ hi) ∨ ∃ a b, (a, b) ∈ segsOf l ∧ q ∈ crossings lo hi (a, b) := by
  simp only [clipRectVL, mem_closeRing, mem_clipWalkX, mem_clipCands]

end OutCS
