import PyrollProofs.HeapSolve
import PyrollProofs.HeapVel

/-! Helper lemmas for C12, part 6: the list edits and histories.  `Good` (well-formed and typed) is kept by every
op; objects of a kind that is never owned (plain / in-profiles, values, grooves, roll templates, atoms) are never
changed by any op. -/

namespace Heap

structure Good (s : S) : Prop where
  wf : Wf s.h
  typed : Typed s.h

theorem Good.empty : Good { h := H.empty } :=
  ⟨Wf.empty, ⟨by intro o f v _ h; simp [getF, H.empty] at h, by intro l c _ h; simp [H.empty] at h⟩⟩

/-- building a concrete heap: allocation (all side conditions are decidable for concrete data) -/
theorem Good.alloc {s : S} (g : Good s) (ob : Obj) (hp : ∀ v ∈ ob.ptrs, v < s.h.next)
    (hown : ∀ e ∈ ob.fields, isOwn e.1 = true → (s.h.obj e.2).kind = ownKind e.1)
    (hit : ob.kind = .subList → ∀ c ∈ ob.items, (s.h.obj c).kind = .unit) : Good (s.alloc ob).1 := by
  have hk : ∀ v, v < s.h.next → ((s.alloc ob).1.h.obj v).kind = (s.h.obj v).kind := by
    intro v hv; rw [alloc_obj]; have : v ≠ s.h.next := by omega
    simp only [this, if_false]
  refine ⟨g.wf.alloc ob hp, ?_, ?_⟩
  · intro o f v hf hg
    rw [getF_alloc] at hg
    split at hg
    · have hm := mem_of_lookup hg
      have hv : v < s.h.next := hp v (mem_ptrs.2 (Or.inl ⟨f, hm⟩))
      rw [hk v hv]; exact hown (f, v) hm hf
    · have hv : v < s.h.next := g.wf.getF_lt hg
      rw [hk v hv]; exact g.typed.own o f v hf hg
  · intro l c hl hc
    rw [alloc_obj] at hl hc
    split at hl
    · rename_i he
      simp only [he, if_true] at hc
      have hv : c < s.h.next := hp c (mem_ptrs.2 (Or.inr (Or.inr hc)))
      rw [hk c hv]; exact hit hl c hc
    · rename_i he
      simp only [he, if_false] at hc
      have hv : c < s.h.next := g.wf.closed l c (mem_ptrs.2 (Or.inr (Or.inr hc)))
      rw [hk c hv]; exact g.typed.items l c hl hc

theorem Good.write {s : S} (g : Good s) {o f v : Nat} (ho : o < s.h.next) (hv : v < s.h.next)
    (hty : isOwn f = true → (s.h.obj v).kind = ownKind f) : Good (s.write o f v) := by
  refine ⟨g.wf.write ho hv, ?_, ?_⟩
  · intro o' f' v' hf hg
    rw [getF_write] at hg
    rw [kind_write]
    split at hg
    · rename_i he
      simp only [Option.some.injEq] at hg
      subst hg; rw [he.2] at hf ⊢; exact hty hf
    · exact g.typed.own o' f' v' hf hg
  · intro l c hl hc
    rw [kind_write] at hl ⊢
    rw [items_write] at hc
    exact g.typed.items l c hl hc

theorem Good.setWeak {s : S} (g : Good s) {o : Nat} {w : Option Nat} (ho : o < s.h.next)
    (hw : ∀ t, w = some t → t < s.h.next) : Good (s.setWeak o w) := by
  refine ⟨g.wf.setWeak ho hw, ?_, ?_⟩
  · intro x f v hf hg
    rw [getF_setWeak] at hg; rw [kind_setWeak]; exact g.typed.own x f v hf hg
  · intro l c hl hc
    rw [kind_setWeak] at hl ⊢; rw [items_setWeak] at hc; exact g.typed.items l c hl hc

/-- the caller reads a hook on an object he holds: its cache gains a name (any object, any names) -/
theorem Good.setCache {s : S} (g : Good s) {o : Nat} {c : List Nat} (ho : o < s.h.next) : Good (s.setCache o c) := by
  refine ⟨g.wf.setCache ho, ?_, ?_⟩
  · intro x f v hf hg
    rw [getF_setCache] at hg; rw [kind_setCache]; exact g.typed.own x f v hf hg
  · intro l x hl hc
    rw [kind_setCache] at hl ⊢; rw [items_setCache] at hc; exact g.typed.items l x hl hc

/-- kinds of objects no unit owns: the caller's and the returned profiles, in-profiles, values, grooves, templates,
callables given as explicit values -/
def stableKind (k : Kind) : Prop :=
  k = .profile ∨ k = .inProfile ∨ k = .value ∨ k = .groove ∨ k = .rollTemplate ∨ k = .atom ∨ k = .closure

theorem stable_not_owned {k : Kind} (h : stableKind k) : ¬ ownedKind k := by
  unfold stableKind at h; unfold ownedKind
  rcases h with h | h | h | h | h | h | h <;> subst h <;> simp

/-- what an op guarantees -/
structure Keeps (s s' : S) : Prop where
  good : Good s'
  mono : s.h.next ≤ s'.h.next
  stable : ∀ q, q < s.h.next → stableKind (s.h.obj q).kind → s'.h.obj q = s.h.obj q

theorem Keeps.refl {s : S} (g : Good s) : Keeps s s := ⟨g, Nat.le_refl _, fun _ _ _ => rfl⟩

theorem Keeps.trans {a b c : S} (h1 : Keeps a b) (h2 : Keeps b c) : Keeps a c where
  good := h2.good
  mono := Nat.le_trans h1.mono h2.mono
  stable := by
    intro q hq hk
    have e := h1.stable q hq hk
    rw [h2.stable q (Nat.lt_of_lt_of_le hq h1.mono) (by rw [e]; exact hk), e]

/-- re-pointing the weak link of a unit -/
theorem keeps_setWeak {s : S} (g : Good s) {o : Nat} {w : Option Nat} (ho : o < s.h.next)
    (hk : ¬ stableKind (s.h.obj o).kind) (hw : ∀ t, w = some t → t < s.h.next) : Keeps s (s.setWeak o w) where
  good := by
    refine ⟨g.wf.setWeak ho hw, ?_, ?_⟩
    · intro x f v hf hg
      rw [getF_setWeak] at hg; rw [kind_setWeak]; exact g.typed.own x f v hf hg
    · intro l c hl hc
      rw [kind_setWeak] at hl ⊢; rw [items_setWeak] at hc; exact g.typed.items l c hl hc
  mono := by simp
  stable := by
    intro q _ hq
    rw [setWeak_obj]
    have : q ≠ o := by intro e; subst e; exact hk hq
    simp only [this, if_false]

/-- replacing the content of a sub-unit list by units -/
theorem keeps_setItems {s : S} (g : Good s) {o : Nat} {l : List Nat} (ho : o < s.h.next)
    (hk : (s.h.obj o).kind = .subList) (hl : ∀ c ∈ l, c < s.h.next ∧ (s.h.obj c).kind = .unit) :
    Keeps s (s.setItems o l) where
  good := by
    refine ⟨g.wf.setItems ho (fun c hc => (hl c hc).1), ?_, ?_⟩
    · intro x f v hf hg
      rw [getF_setItems] at hg; rw [kind_setItems]; exact g.typed.own x f v hf hg
    · intro x c hx hc
      rw [kind_setItems] at hx ⊢
      rw [items_setItems] at hc
      split at hc
      · exact (hl c hc).2
      · exact g.typed.items x c hx hc
  mono := by simp
  stable := by
    intro q _ hq
    rw [setItems_obj]
    have : q ≠ o := by
      intro e; subst e; rw [hk] at hq
      unfold stableKind at hq; simp at hq
    simp only [this, if_false]

theorem unit_not_stable {k : Kind} (h : k = .unit) : ¬ stableKind k := by
  subst h; unfold stableKind; simp

theorem keeps_append {s : S} (g : Good s) (q u : Nat) (hu : u < s.h.next) (hk : (s.h.obj u).kind = .unit) :
    Keeps s (appendUnit s q u) := by
  unfold appendUnit
  split
  · rename_i l hl
    have hll : l < s.h.next := g.wf.getF_lt hl
    have hkl : (s.h.obj l).kind = .subList := by
      have := g.typed.own q fSUB l (by decide) hl
      simpa [ownKind, fSUB, fOUT, fROLL] using this
    have k1 := keeps_setWeak g (o := u) (w := (s.h.obj l).weak) hu (unit_not_stable hk)
      (fun t ht => g.wf.closed l t (mem_ptrs.2 (Or.inr (Or.inl ht))))
    have k2 := keeps_setItems k1.good (o := l) (l := ((s.setWeak u (s.h.obj l).weak).h.obj l).items ++ [u])
      (by simpa using hll) (by rw [kind_setWeak]; exact hkl) (by
        intro c hc
        simp only [List.mem_append, List.mem_singleton, items_setWeak] at hc
        simp only [setWeak_next, kind_setWeak]
        rcases hc with hc | hc
        · exact ⟨g.wf.closed l c (mem_ptrs.2 (Or.inr (Or.inr hc))), g.typed.items l c hkl hc⟩
        · subst hc; exact ⟨hu, hk⟩)
    have e : ((s.setWeak u (s.h.obj l).weak).h.obj l).items = (s.h.obj l).items := items_setWeak _ _ _ _
    rw [e] at k2
    exact k1.trans k2
  · exact Keeps.refl g

theorem mem_set {l : List Nat} {i u c : Nat} (h : c ∈ l.set i u) : c ∈ l ∨ c = u := by
  induction l generalizing i with
  | nil => simp at h
  | cons a r ih =>
    cases i with
    | zero =>
      simp only [List.set_cons_zero, List.mem_cons] at h
      rcases h with h | h
      · right; exact h
      · left; exact List.mem_cons_of_mem _ h
    | succ i =>
      simp only [List.set_cons_succ, List.mem_cons] at h
      rcases h with h | h
      · left; rw [h]; exact List.mem_cons_self
      · rcases ih h with h | h
        · left; exact List.mem_cons_of_mem _ h
        · right; exact h

theorem keeps_replace {s : S} (g : Good s) (q i u : Nat) (hu : u < s.h.next) (hk : (s.h.obj u).kind = .unit) :
    Keeps s (replaceUnit s q i u) := by
  unfold replaceUnit
  split
  · rename_i l hl
    have hll : l < s.h.next := g.wf.getF_lt hl
    have hkl : (s.h.obj l).kind = .subList := by
      have := g.typed.own q fSUB l (by decide) hl
      simpa [ownKind, fSUB, fOUT, fROLL] using this
    split
    · rename_i cur hcur
      have hmem : cur ∈ (s.h.obj l).items := List.mem_of_getElem? hcur
      have hcl : cur < s.h.next := g.wf.closed l cur (mem_ptrs.2 (Or.inr (Or.inr hmem)))
      have hck : (s.h.obj cur).kind = .unit := g.typed.items l cur hkl hmem
      have k1 := keeps_setItems g (o := l) (l := (s.h.obj l).items.set i u) hll hkl (by
        intro c hc
        rcases mem_set hc with hc | hc
        · exact ⟨g.wf.closed l c (mem_ptrs.2 (Or.inr (Or.inr hc))), g.typed.items l c hkl hc⟩
        · subst hc; exact ⟨hu, hk⟩)
      have k2 := keeps_setWeak k1.good (o := cur) (w := none) (by simpa using hcl)
        (by rw [kind_setItems]; exact unit_not_stable hck) (by intro t h; cases h)
      have k12 := k1.trans k2
      have k3 := keeps_setWeak k12.good (o := u)
        (w := (((s.setItems l ((s.h.obj l).items.set i u)).setWeak cur none).h.obj l).weak)
        (by simpa using hu) (by rw [kind_setWeak, kind_setItems]; exact unit_not_stable hk)
        (fun t ht => k12.good.wf.closed l t (mem_ptrs.2 (Or.inr (Or.inl ht))))
      exact k12.trans k3
    · exact Keeps.refl g
  · exact Keeps.refl g

theorem keeps_gap {s : S} (g : Good s) (u : Nat) (hu : u < s.h.next) (hk : (s.h.obj u).kind = .unit) :
    Keeps s (setGap s u) := by
  have T := Trk.refl g.wf u
  have st := T.allocWrite .atom [] (o := u) (f := fGAP) (Or.inr (Owned.self u)) hu (by decide)
  unfold setGap
  refine ⟨⟨st.trk.wf, st.trk.typed g.typed⟩, st.mono, ?_⟩
  intro q hq hs
  apply st.trk.frame q hq
  intro ho
  exact stable_not_owned hs (ho.kind g.typed hk)

theorem keeps_solve (P : Producers) (hP : P.Safe) {s : S} (g : Good s) (fuel u p : Nat) (hu : u < s.h.next)
    (hp : p < s.h.next) (hk : (s.h.obj u).kind = .unit) : Keeps s (solveU P fuel s u p).1 := by
  have sp := solveU_spec P hP fuel s u p g.wf hu hp
  refine ⟨⟨sp.trk.wf, sp.trk.typed g.typed⟩, sp.trk.next_le, ?_⟩
  intro q hq hs
  apply sp.trk.frame q hq
  intro ho
  exact stable_not_owned hs (ho.kind g.typed hk)

/-- a velocity solver of a sequence (any number of rounds) -/
theorem keeps_solveVel (P : Producers) (hP : P.Safe) {s : S} (g : Good s) (n u p : Nat) (hu : u < s.h.next)
    (hp : p < s.h.next) (hk : (s.h.obj u).kind = .unit) : Keeps s (solveVel P n s u p) := by
  have T := solveVel_spec P hP n s u p g.wf hu hp
  refine ⟨⟨T.wf, T.typed g.typed⟩, T.next_le, ?_⟩
  intro q hq hs
  apply T.frame q hq
  intro ho
  exact stable_not_owned hs (ho.kind g.typed hk)

/-- the caller binds an explicit value of a unit to a callable that refers to another object -/
theorem keeps_bind {s : S} (g : Good s) (u f t : Nat) (hu : u < s.h.next) (ht : t < s.h.next)
    (hk : (s.h.obj u).kind = .unit) (hf : isPublic f = true) : Keeps s (bindCallable s u f t) := by
  have g1 := g.alloc { kind := .closure, fields := [(fBIND, t)] }
    (by intro v hv; simp [Obj.ptrs] at hv; omega)
    (by intro e he hown; simp at he; subst he; exact absurd hown (show ¬ isOwn fBIND = true by decide))
    (by intro h; cases h)
  have g2 := g1.write (o := u) (f := f) (v := s.h.next) (by simp only [alloc_next]; omega) (by simp)
    (by intro h; rw [isOwn_of_public hf] at h; cases h)
  refine ⟨g2, by simp [bindCallable], ?_⟩
  intro q hq hs
  show ((s.alloc { kind := .closure, fields := [(fBIND, t)] }).1.write u f s.h.next).h.obj q = s.h.obj q
  rw [write_obj]
  have h1 : q ≠ u := by intro e; subst e; exact unit_not_stable hk hs
  simp only [h1, if_false]
  rw [alloc_obj]
  have h2 : q ≠ s.h.next := by omega
  simp only [h2, if_false]

theorem keeps_step (P : Producers) (hP : P.Safe) {s : S} (g : Good s) (op : Op) : Keeps s (step P s op) := by
  cases op with
  | solve u p =>
    simp only [step]
    split
    · rename_i h; exact keeps_solve P hP g _ u p h.1 h.2.1 h.2.2
    · exact Keeps.refl g
  | append q u =>
    simp only [step]
    split
    · rename_i h; exact keeps_append g q u h.1 h.2
    · exact Keeps.refl g
  | replace q i u =>
    simp only [step]
    split
    · rename_i h; exact keeps_replace g q i u h.1 h.2
    · exact Keeps.refl g
  | gap u =>
    simp only [step]
    split
    · rename_i h; exact keeps_gap g u h.1 h.2
    · exact Keeps.refl g
  | solveVel u p n =>
    simp only [step]
    split
    · rename_i h; exact keeps_solveVel P hP g n u p h.1 h.2.1 h.2.2
    · exact Keeps.refl g
  | bind u f t =>
    simp only [step]
    split
    · rename_i h; exact keeps_bind g u f t h.1 h.2.1 h.2.2.1 h.2.2.2
    · exact Keeps.refl g

theorem keeps_run (P : Producers) (hP : P.Safe) : ∀ (ops : List Op) (s : S), Good s → Keeps s (run P s ops) := by
  intro ops
  induction ops with
  | nil => intro s g; exact Keeps.refl g
  | cons op rest ih =>
    intro s g
    have k1 := keeps_step P hP g op
    have e : run P s (op :: rest) = run P (step P s op) rest := rfl
    rw [e]
    exact k1.trans (ih _ k1.good)

end Heap
