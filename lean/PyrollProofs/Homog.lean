import PyrollProofs.RealNum

/-! Dimensional homogeneity metatheorem for `Expr` (used by C11): a term whose `dim` certificate is
`is d` scales by `k^d` when every variable is scaled by `k` to the power of its declared dimension. -/

namespace Expr

/-- environment with every variable scaled by `k ^ (its declared length dimension)` -/
noncomputable def scaleEnv (Γ : String → Option Int) (k : ℝ) (ρ : String → ℝ) : String → ℝ :=
  fun n => k ^ ((Γ n).getD 0) * ρ n

def Homog (Γ : String → Option Int) (k : ℝ) (ρ : String → ℝ) (e : Expr) : Prop :=
  (∀ d, dim Γ e = .is d → eval (scaleEnv Γ k ρ) e = k ^ d * eval ρ e) ∧
  (dim Γ e = .zero → eval (scaleEnv Γ k ρ) e = 0 ∧ eval ρ e = 0)

private theorem pure0_is {x : Dim} {d : Int} (h : x.pure0 = .is d) : x = .is 0 ∧ d = 0 := by
  cases x with
  | bad => simp [Dim.pure0] at h
  | zero => simp [Dim.pure0] at h
  | is a =>
    by_cases ha : a = 0
    · subst ha; simp [Dim.pure0] at h; exact ⟨rfl, h.symm⟩
    · unfold Dim.pure0 at h
      split at h <;> simp_all

private theorem pure0_zero {x : Dim} (h : x.pure0 = .zero) : False := by
  unfold Dim.pure0 at h
  split at h <;> simp_all

private theorem homog_fun (f : ℝ → ℝ) (Γ : String → Option Int) (k : ℝ) (ρ : String → ℝ) (a : Expr)
    (ih : Homog Γ k ρ a) :
    (∀ d, (dim Γ a).pure0 = .is d → f (eval (scaleEnv Γ k ρ) a) = k ^ d * f (eval ρ a)) ∧
    ((dim Γ a).pure0 = .zero → f (eval (scaleEnv Γ k ρ) a) = 0 ∧ f (eval ρ a) = 0) := by
  refine ⟨?_, fun h => (pure0_zero h).elim⟩
  intro d h
  obtain ⟨h0, hd⟩ := pure0_is h
  subst hd
  have := ih.1 0 h0
  simp at this
  simp [this]

theorem homogeneity (Γ : String → Option Int) (k : ℝ) (hk : 0 < k) (ρ : String → ℝ) (e : Expr) :
    Homog Γ k ρ e := by
  have hk0 : k ≠ 0 := ne_of_gt hk
  induction e with
  | var n =>
    constructor
    · intro d h
      simp only [dim] at h
      split at h
      · rename_i d' hd'
        simp only [Dim.is.injEq] at h
        subst h
        simp [eval, scaleEnv, hd']
      · simp at h
    · intro h
      simp only [dim] at h
      split at h <;> simp at h
  | nat n =>
    cases n with
    | zero =>
      constructor
      · intro d h; simp [dim] at h
      · intro _; simp [eval]
    | succ m =>
      constructor
      · intro d h
        simp only [dim, Dim.is.injEq] at h
        subst h; simp [eval]
      · intro h; simp [dim] at h
  | dec m e =>
    constructor
    · intro d h
      simp only [dim, Dim.is.injEq] at h
      subst h; simp [eval]
    · intro h; simp [dim] at h
  | pi =>
    constructor
    · intro d h
      simp only [dim, Dim.is.injEq] at h
      subst h; simp [eval]
    · intro h; simp [dim] at h
  | add a b iha ihb =>
    constructor
    · intro d h
      simp only [dim] at h
      cases hda : dim Γ a <;> cases hdb : dim Γ b <;> rw [hda, hdb] at h <;> simp [Dim.addD] at h
      · obtain ⟨ea, ea'⟩ := iha.2 hda
        subst h
        simp [eval, ea, ea', ihb.1 _ hdb]
      · obtain ⟨eb, eb'⟩ := ihb.2 hdb
        subst h
        simp [eval, eb, eb', iha.1 _ hda]
      · split at h
        · rename_i hab
          simp only [Dim.is.injEq] at h
          subst hab; subst h
          simp [eval, iha.1 _ hda, ihb.1 _ hdb]; ring
        · simp at h
    · intro h
      simp only [dim] at h
      cases hda : dim Γ a <;> cases hdb : dim Γ b <;> rw [hda, hdb] at h <;> simp [Dim.addD] at h
      · obtain ⟨ea, ea'⟩ := iha.2 hda
        obtain ⟨eb, eb'⟩ := ihb.2 hdb
        simp [eval, ea, ea', eb, eb']
      · split at h <;> simp at h
  | sub a b iha ihb =>
    constructor
    · intro d h
      simp only [dim] at h
      cases hda : dim Γ a <;> cases hdb : dim Γ b <;> rw [hda, hdb] at h <;> simp [Dim.addD] at h
      · obtain ⟨ea, ea'⟩ := iha.2 hda
        subst h
        simp [eval, ea, ea', ihb.1 _ hdb]
      · obtain ⟨eb, eb'⟩ := ihb.2 hdb
        subst h
        simp [eval, eb, eb', iha.1 _ hda]
      · split at h
        · rename_i hab
          simp only [Dim.is.injEq] at h
          subst hab; subst h
          simp [eval, iha.1 _ hda, ihb.1 _ hdb]; ring
        · simp at h
    · intro h
      simp only [dim] at h
      cases hda : dim Γ a <;> cases hdb : dim Γ b <;> rw [hda, hdb] at h <;> simp [Dim.addD] at h
      · obtain ⟨ea, ea'⟩ := iha.2 hda
        obtain ⟨eb, eb'⟩ := ihb.2 hdb
        simp [eval, ea, ea', eb, eb']
      · split at h <;> simp at h
  | mul a b iha ihb =>
    constructor
    · intro d h
      simp only [dim] at h
      cases hda : dim Γ a <;> cases hdb : dim Γ b <;> rw [hda, hdb] at h <;> simp [Dim.mulD] at h
      subst h
      simp [eval, iha.1 _ hda, ihb.1 _ hdb, zpow_add₀ hk0]; ring
    · intro h
      simp only [dim] at h
      cases hda : dim Γ a <;> cases hdb : dim Γ b <;> rw [hda, hdb] at h <;> simp [Dim.mulD] at h
      · obtain ⟨ea, ea'⟩ := iha.2 hda
        simp [eval, ea, ea']
      · obtain ⟨ea, ea'⟩ := iha.2 hda
        simp [eval, ea, ea']
      · obtain ⟨eb, eb'⟩ := ihb.2 hdb
        simp [eval, eb, eb']
  | div a b iha ihb =>
    constructor
    · intro d h
      simp only [dim] at h
      cases hda : dim Γ a <;> cases hdb : dim Γ b <;> rw [hda, hdb] at h <;> simp [Dim.divD] at h
      subst h
      simp [eval, iha.1 _ hda, ihb.1 _ hdb, zpow_sub₀ hk0]
      field_simp
    · intro h
      simp only [dim] at h
      cases hda : dim Γ a <;> cases hdb : dim Γ b <;> rw [hda, hdb] at h <;> simp [Dim.divD] at h
      obtain ⟨ea, ea'⟩ := iha.2 hda
      simp [eval, ea, ea']
  | neg a ih =>
    constructor
    · intro d h
      simp only [dim] at h
      simp [eval, ih.1 _ h]
    · intro h
      simp only [dim] at h
      obtain ⟨ea, ea'⟩ := ih.2 h
      simp [eval, ea, ea']
  | abs a ih =>
    constructor
    · intro d h
      simp only [dim] at h
      have hp : 0 < k ^ d := zpow_pos hk d
      simp [eval, ih.1 _ h, abs_mul, abs_of_pos hp]
    · intro h
      simp only [dim] at h
      obtain ⟨ea, ea'⟩ := ih.2 h
      simp [eval, ea, ea']
  | pow a n ih =>
    constructor
    · intro d h
      simp only [dim] at h
      cases hda : dim Γ a <;> rw [hda] at h <;> simp at h
      · split at h
        · rename_i hn
          simp only [Dim.is.injEq] at h
          subst hn; subst h
          simp [eval]
        · simp at h
      · subst h
        simp [eval, ih.1 _ hda, mul_pow, zpow_mul, zpow_natCast]
    · intro h
      simp only [dim] at h
      cases hda : dim Γ a <;> rw [hda] at h <;> simp at h
      obtain ⟨ea, ea'⟩ := ih.2 hda
      simp [eval, ea, ea', h]
  | sqrt a ih =>
    constructor
    · intro d h
      simp only [dim] at h
      cases hda : dim Γ a <;> rw [hda] at h <;> simp at h
      rename_i da
      split at h
      case isFalse => simp at h
      rename_i hev
      simp only [Dim.is.injEq] at h
      subst h
      have hp : (0:ℝ) ≤ k ^ (da / 2) := le_of_lt (zpow_pos hk _)
      have hsq : k ^ da = (k ^ (da / 2)) ^ 2 := by
        rw [← zpow_natCast, ← zpow_mul]
        congr 1
        omega
      simp only [eval, ih.1 _ hda, PyNum.sqrt_real]
      rw [hsq, Real.sqrt_mul (sq_nonneg _), Real.sqrt_sq hp]
    · intro h
      simp only [dim] at h
      cases hda : dim Γ a <;> rw [hda] at h <;> simp at h
      · obtain ⟨ea, ea'⟩ := ih.2 hda
        simp [eval, ea, ea']
      · split at h <;> simp at h
  | sin a ih => exact homog_fun Real.sin Γ k ρ a ih
  | cos a ih => exact homog_fun Real.cos Γ k ρ a ih
  | tan a ih => exact homog_fun Real.tan Γ k ρ a ih
  | asin a ih => exact homog_fun Real.arcsin Γ k ρ a ih
  | acos a ih => exact homog_fun Real.arccos Γ k ρ a ih
  | atan a ih => exact homog_fun Real.arctan Γ k ρ a ih
  | log a ih => exact homog_fun Real.log Γ k ρ a ih
  | exp a ih => exact homog_fun Real.exp Γ k ρ a ih

/-- The form used by the per-formula certificates. -/
theorem homogeneous_of_dim (Γ : String → Option Int) (e : Expr) (d : Int) (h : dim Γ e = .is d)
    (k : ℝ) (hk : 0 < k) (ρ : String → ℝ) :
    eval (scaleEnv Γ k ρ) e = k ^ d * eval ρ e :=
  (homogeneity Γ k hk ρ e).1 d h

end Expr
