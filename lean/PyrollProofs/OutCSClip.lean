import PyrollProofs.OutCS

/-! The strip clip of a vertex ring over ℝ: extreme coordinates (width), where its vertices come from (containment),
    and its behaviour under the half turn; the half-plane clip used by the three-roll construction. -/

namespace OutCS
open PassGeom

/-! ### a discrete intermediate-value lemma -/

theorem list_ivt (f : Pt ℝ → ℝ) (v : ℝ) (l : List (Pt ℝ)) :
    ∀ a b, a ∈ l → b ∈ l → f a < v → v < f b →
      (∃ p ∈ l, f p = v) ∨ ∃ p p', (p, p') ∈ l.zip l.tail ∧ ((f p < v ∧ v < f p') ∨ (f p' < v ∧ v < f p)) := by
  induction l with
  | nil => intro a b ha; simp at ha
  | cons x rest ih =>
    intro a b ha hb hav hbv
    cases rest with
    | nil =>
      simp only [List.mem_singleton] at ha hb
      subst ha; subst hb
      linarith
    | cons y rest' =>
      have lift : ((∃ p ∈ y :: rest', f p = v) ∨ ∃ p p', (p, p') ∈ (y :: rest').zip (y :: rest').tail ∧
            ((f p < v ∧ v < f p') ∨ (f p' < v ∧ v < f p))) →
          ((∃ p ∈ x :: y :: rest', f p = v) ∨ ∃ p p', (p, p') ∈ (x :: y :: rest').zip (x :: y :: rest').tail ∧
            ((f p < v ∧ v < f p') ∨ (f p' < v ∧ v < f p))) := by
        rintro (⟨p, hp, h⟩ | ⟨p, p', hp, h⟩)
        · exact Or.inl ⟨p, List.mem_cons_of_mem _ hp, h⟩
        · refine Or.inr ⟨p, p', ?_, h⟩
          simp only [List.tail_cons, List.zip_cons_cons, List.mem_cons]
          exact Or.inr hp
      rcases lt_trichotomy (f x) v with hx | hx | hx
      · -- x is below: look at y
        have hb' : b ∈ y :: rest' := by
          rcases List.mem_cons.mp hb with rfl | h
          · linarith
          · exact h
        rcases lt_trichotomy (f y) v with hy | hy | hy
        · exact lift (ih y b List.mem_cons_self hb' hy hbv)
        · exact Or.inl ⟨y, by simp, hy⟩
        · refine Or.inr ⟨x, y, ?_, Or.inl ⟨hx, hy⟩⟩
          simp
      · exact Or.inl ⟨x, List.mem_cons_self, hx⟩
      · have ha' : a ∈ y :: rest' := by
          rcases List.mem_cons.mp ha with rfl | h
          · linarith
          · exact h
        rcases lt_trichotomy (f y) v with hy | hy | hy
        · refine Or.inr ⟨x, y, ?_, Or.inr ⟨hy, hx⟩⟩
          simp
        · exact Or.inl ⟨y, by simp, hy⟩
        · exact lift (ih a y ha' List.mem_cons_self hav hy)

/-! ### crossing points -/

theorem crossAt_x (v : ℝ) (a b : Pt ℝ) : (crossAt v a b).x = v := rfl

/-- a point of the closed segment from `a` to `b` -/
def OnSeg (q a b : Pt ℝ) : Prop :=
  ∃ t : ℝ, 0 ≤ t ∧ t ≤ 1 ∧ q.x = a.x + t * (b.x - a.x) ∧ q.y = a.y + t * (b.y - a.y)

theorem crossAt_onSeg (v : ℝ) (a b : Pt ℝ) (h : (a.x < v ∧ v < b.x) ∨ (b.x < v ∧ v < a.x)) : OnSeg (crossAt v a b) a b := by
  refine ⟨(v - a.x) / (b.x - a.x), ?_, ?_, ?_, ?_⟩
  · rcases h with h | h
    · exact div_nonneg (by linarith) (by linarith)
    · exact div_nonneg_of_nonpos (by linarith) (by linarith)
  · rcases h with h | h
    · rw [div_le_one (by linarith)]; linarith
    · rw [div_le_one_of_neg (by linarith)]; linarith
  · have : b.x - a.x ≠ 0 := by rcases h with h | h <;> intro h0 <;> linarith
    simp only [crossAt]
    field_simp
    ring
  · simp only [crossAt]
    ring

theorem mem_crossings_x (lo hi : ℝ) (a b q : Pt ℝ) (h : q ∈ crossings lo hi (a, b)) :
    (q.x = lo ∨ q.x = hi) ∧ OnSeg q a b ∧ ((a.x < q.x ∧ q.x < b.x) ∨ (b.x < q.x ∧ q.x < a.x)) := by
  rcases (mem_crossings lo hi a b q).mp h with ⟨hb, rfl⟩ | ⟨hb, rfl⟩
  · exact ⟨Or.inl rfl, crossAt_onSeg _ _ _ hb, hb⟩
  · exact ⟨Or.inr rfl, crossAt_onSeg _ _ _ hb, hb⟩

/-! ### the x-range of a strip clip -/

/-- every vertex has its abscissa in `[A, B]` and both ends are attained -/
structure XRange (l : List (Pt ℝ)) (A B : ℝ) : Prop where
  within : ∀ p ∈ l, A ≤ p.x ∧ p.x ≤ B
  left : ∃ p ∈ l, p.x = A
  right : ∃ p ∈ l, p.x = B

theorem XRange.le {l : List (Pt ℝ)} {A B : ℝ} (h : XRange l A B) : A ≤ B := by
  obtain ⟨p, hp, hx⟩ := h.left
  have := (h.within p hp).2
  linarith

/-- clipping a ring with x-range `[A, B]` to the strip `[lo, hi]` (overlapping it) leaves the x-range `[max A lo, min B hi]` -/
theorem xrange_clipStripRing (l : List (Pt ℝ)) (A B lo hi : ℝ) (h : XRange l A B) (hlh : lo < hi) (h1 : lo ≤ B) (h2 : A ≤ hi) :
    XRange (clipRectVL l (.fin lo) .ninf (.fin hi) .pinf) (max A lo) (min B hi) := by
  have hAB := h.le
  obtain ⟨a, ha, hax⟩ := h.left
  obtain ⟨b, hb, hbx⟩ := h.right
  refine ⟨?_, ?_, ?_⟩
  · intro q hq
    rcases (mem_clipStripRing lo hi l q).mp hq with ⟨hq, h3, h4⟩ | ⟨p, p', hpp, hq⟩
    · have := h.within q hq
      exact ⟨max_le this.1 h3, le_min this.2 h4⟩
    · obtain ⟨hx, _, hbt⟩ := mem_crossings_x lo hi p p' q hq
      have hp := h.within p ((List.of_mem_zip hpp).1)
      have hp' := h.within p' (List.mem_of_mem_tail (List.of_mem_zip hpp).2)
      constructor
      · apply max_le
        · rcases hbt with hbt | hbt <;> linarith [hp.1, hp'.1]
        · rcases hx with hx | hx <;> linarith
      · apply le_min
        · rcases hbt with hbt | hbt <;> linarith [hp.2, hp'.2]
        · rcases hx with hx | hx <;> linarith
  · -- a vertex with abscissa max A lo
    by_cases hc : lo ≤ A
    · refine ⟨a, (mem_clipStripRing lo hi l a).mpr (Or.inl ⟨ha, by linarith, by linarith⟩), ?_⟩
      rw [max_eq_left hc]; exact hax
    · have hc : A < lo := not_le.mp hc
      rw [max_eq_right hc.le]
      rcases eq_or_lt_of_le h1 with h1 | h1
      · exact ⟨b, (mem_clipStripRing lo hi l b).mpr (Or.inl ⟨hb, by linarith, by linarith⟩), by linarith⟩
      · rcases list_ivt (·.x) lo l a b ha hb (by simpa [hax] using hc) (by simpa [hbx] using h1) with
          ⟨p, hp, hpx⟩ | ⟨p, p', hpp, hbt⟩
        · exact ⟨p, (mem_clipStripRing lo hi l p).mpr (Or.inl ⟨hp, by linarith, by linarith⟩), hpx⟩
        · refine ⟨crossAt lo p p', (mem_clipStripRing lo hi l _).mpr (Or.inr ⟨p, p', hpp, ?_⟩), rfl⟩
          exact (mem_crossings lo hi p p' _).mpr (Or.inl ⟨hbt, rfl⟩)
  · by_cases hc : B ≤ hi
    · refine ⟨b, (mem_clipStripRing lo hi l b).mpr (Or.inl ⟨hb, by linarith, by linarith⟩), ?_⟩
      rw [min_eq_left hc]; exact hbx
    · have hc : hi < B := not_le.mp hc
      rw [min_eq_right hc.le]
      rcases eq_or_lt_of_le h2 with h2 | h2
      · exact ⟨a, (mem_clipStripRing lo hi l a).mpr (Or.inl ⟨ha, by linarith, by linarith⟩), by linarith⟩
      · rcases list_ivt (·.x) hi l a b ha hb (by simpa [hax] using h2) (by simpa [hbx] using hc) with
          ⟨p, hp, hpx⟩ | ⟨p, p', hpp, hbt⟩
        · exact ⟨p, (mem_clipStripRing lo hi l p).mpr (Or.inl ⟨hp, by linarith, by linarith⟩), hpx⟩
        · refine ⟨crossAt hi p p', (mem_clipStripRing lo hi l _).mpr (Or.inr ⟨p, p', hpp, ?_⟩), rfl⟩
          exact (mem_crossings lo hi p p' _).mpr (Or.inr ⟨hbt, rfl⟩)

theorem XRange.bounds {l : List (Pt ℝ)} {A B : ℝ} (h : XRange l A B) : bound 0 l = A ∧ bound 2 l = B := by
  obtain ⟨a, ha, hax⟩ := h.left
  obtain ⟨b, hb, hbx⟩ := h.right
  constructor
  · simp only [bound]
    apply minOf_eq_of
    · exact List.mem_map.mpr ⟨a, ha, hax⟩
    · intro x hx
      obtain ⟨p, hp, rfl⟩ := List.mem_map.mp hx
      exact (h.within p hp).1
  · simp only [bound]
    apply maxOf_eq_of
    · exact List.mem_map.mpr ⟨b, hb, hbx⟩
    · intro x hx
      obtain ⟨p, hp, rfl⟩ := List.mem_map.mp hx
      exact (h.within p hp).2

/-! ### the opening ring of a two-roll pass: an upper chain and its half-turn image -/

/-- the closed ring `Polygon(np.concatenate([upper.coords, lower.coords]))` with `lower` the half turn of `upper` -/
noncomputable def ring (u : List (Pt ℝ)) : List (Pt ℝ) := closeRing (u ++ u.map ht)

theorem clipStrip_eq (w : ℝ) (u : List (Pt ℝ)) :
    clipStrip w u = clipRectVL (ring u) (.fin (-w / 2)) .ninf (.fin (w / 2)) .pinf := by
  simp only [clipStrip, ring, PyNum.nat_real, Nat.cast_ofNat]

@[simp] theorem ht_ht (p : Pt ℝ) : ht (ht p) = p := by
  ext <;> simp [ht]

@[simp] theorem ht_x (p : Pt ℝ) : (ht p).x = -p.x := rfl
@[simp] theorem ht_y (p : Pt ℝ) : (ht p).y = -p.y := rfl

theorem mem_ring (u : List (Pt ℝ)) (q : Pt ℝ) : q ∈ ring u ↔ q ∈ u ∨ ∃ p ∈ u, q = ht p := by
  simp only [ring, mem_closeRing, List.mem_append, List.mem_map]
  constructor
  · rintro (h | ⟨p, hp, rfl⟩)
    · exact Or.inl h
    · exact Or.inr ⟨p, hp, rfl⟩
  · rintro (h | ⟨p, hp, rfl⟩)
    · exact Or.inl h
    · exact Or.inr ⟨p, hp, rfl⟩

theorem mem_ring_ht (u : List (Pt ℝ)) (q : Pt ℝ) (h : q ∈ ring u) : ht q ∈ ring u := by
  rw [mem_ring] at h ⊢
  rcases h with h | ⟨p, hp, rfl⟩
  · exact Or.inr ⟨q, h, rfl⟩
  · left; simpa using hp

/-- the contour spans the extent `E` symmetrically: all abscissae in `[-E/2, E/2]`, both ends attained -/
structure Spans (u : List (Pt ℝ)) (E : ℝ) : Prop where
  pos : 0 < E
  range : XRange u (-E / 2) (E / 2)

theorem ring_xrange (u : List (Pt ℝ)) (E : ℝ) (h : Spans u E) : XRange (ring u) (-E / 2) (E / 2) := by
  obtain ⟨a, ha, hax⟩ := h.range.left
  obtain ⟨b, hb, hbx⟩ := h.range.right
  refine ⟨?_, ⟨a, (mem_ring u a).mpr (Or.inl ha), hax⟩, ⟨b, (mem_ring u b).mpr (Or.inl hb), hbx⟩⟩
  intro q hq
  rcases (mem_ring u q).mp hq with hq | ⟨p, hp, rfl⟩
  · exact h.range.within q hq
  · have := h.range.within p hp
    simp only [ht_x]
    constructor <;> linarith [this.1, this.2]

/-! ### segments of a concatenation, of a mapped list -/

theorem mem_segs_append {β : Type} (l1 l2 : List β) (a b : β) :
    (a, b) ∈ segsOf (l1 ++ l2) ↔
      (a, b) ∈ segsOf l1 ∨ (∃ (h1 : l1 ≠ []) (h2 : l2 ≠ []), a = l1.getLast h1 ∧ b = l2.head h2) ∨ (a, b) ∈ segsOf l2 := by
  induction l2 using List.reverseRecOn generalizing a b with
  | nil => simp [segsOf]
  | append_singleton l2 c ih =>
    rw [← List.append_assoc, mem_segs_append_singleton, ih, mem_segs_append_singleton]
    constructor
    · rintro ((h | ⟨h1, h2, ha, hb⟩ | h) | ⟨hne, ha, hb⟩)
      · exact Or.inl h
      · exact Or.inr (Or.inl ⟨h1, by simp, ha, by rw [List.head_append_of_ne_nil h2]; exact hb⟩)
      · exact Or.inr (Or.inr (Or.inl h))
      · by_cases h2 : l2 = []
        · subst h2
          simp only [List.append_nil] at ha hne
          exact Or.inr (Or.inl ⟨hne, by simp, ha, by simpa using hb⟩)
        · refine Or.inr (Or.inr (Or.inr ⟨h2, ?_, hb⟩))
          rw [ha, List.getLast_append_of_ne_nil _ h2]
    · rintro (h | ⟨h1, _, ha, hb⟩ | h | ⟨h2, ha, hb⟩)
      · exact Or.inl (Or.inl h)
      · by_cases h2 : l2 = []
        · subst h2
          right
          exact ⟨by simpa using h1, by simpa using ha, by simpa using hb⟩
        · left; right; left
          exact ⟨h1, h2, ha, by rw [List.head_append_of_ne_nil h2] at hb; exact hb⟩
      · exact Or.inl (Or.inr (Or.inr h))
      · right
        refine ⟨by simp [h2], ?_, hb⟩
        rw [ha, List.getLast_append_of_ne_nil _ h2]

theorem getLast_map_ht (u : List (Pt ℝ)) (h : u ≠ []) : (u.map ht).getLast (by simpa using h) = ht (u.getLast h) := by
  simp [List.getLast_map]

theorem head_map_ht (u : List (Pt ℝ)) (h : u ≠ []) : (u.map ht).head (by simpa using h) = ht (u.head h) := by
  simp [List.head_map]

/-- the edges of the opening ring are carried to edges of the ring by the half turn (degenerate edges aside) -/
theorem segs_ring_ht (u : List (Pt ℝ)) (a b : Pt ℝ) (h : (a, b) ∈ segsOf (ring u)) (hab : a ≠ b) :
    (ht a, ht b) ∈ segsOf (ring u) := by
  by_cases hu : u = []
  · subst hu; simp [ring, closeRing, segsOf] at h
  have hv : u ++ u.map ht ≠ [] := by simp [hu]
  have hm : u.map ht ≠ [] := by simpa using hu
  have hlast : (u ++ u.map ht).getLast hv = ht (u.getLast hu) := by
    rw [List.getLast_append_of_ne_nil _ hm, getLast_map_ht u hu]
  have hhead : (u ++ u.map ht).head hv = u.head hu := by
    rw [List.head_append_of_ne_nil hu]
  -- the four kinds of edges of `u ++ map ht u` closed
  have inU : ∀ x y, (x, y) ∈ segsOf u → (x, y) ∈ segsOf (ring u) := fun x y hxy =>
    segs_subset_closeRing _ _ _ ((mem_segs_append _ _ _ _).mpr (Or.inl hxy))
  have inH : ∀ x y, (x, y) ∈ segsOf (u.map ht) → (x, y) ∈ segsOf (ring u) := fun x y hxy =>
    segs_subset_closeRing _ _ _ ((mem_segs_append _ _ _ _).mpr (Or.inr (Or.inr hxy)))
  have bridge : (u.getLast hu, ht (u.head hu)) ∈ segsOf (ring u) :=
    segs_subset_closeRing _ _ _ ((mem_segs_append _ _ _ _).mpr (Or.inr (Or.inl ⟨hu, hm, rfl, (head_map_ht u hu).symm⟩)))
  have mapU : ∀ x y, (x, y) ∈ segsOf u → (ht x, ht y) ∈ segsOf (u.map ht) := fun x y hxy =>
    (mem_segs_map ht u _ _).mpr ⟨x, y, hxy, rfl, rfl⟩
  rcases mem_segs_closeRing _ a b h with h | ⟨_, ha, hb⟩
  · rcases (mem_segs_append _ _ _ _).mp h with h | ⟨_, _, ha, hb⟩ | h
    · exact inH _ _ (mapU a b h)
    · -- the bridge from the end of `u` to the start of its image: carried to the closing edge
      rw [head_map_ht u hu] at hb
      subst ha; subst hb
      simp only [ht_ht]
      rcases closeRing_real (u ++ u.map ht) hv with ⟨hc, _⟩ | hc
      · exfalso
        rw [hlast, hhead] at hc
        apply hab
        rw [hc]; simp
      · simp only [ring]
        rw [hc, mem_segs_append_singleton]
        exact Or.inr ⟨hv, hlast.symm, hhead.symm⟩
    · obtain ⟨x, y, hxy, rfl, rfl⟩ := (mem_segs_map ht u a b).mp h
      simp only [ht_ht]
      exact inU x y hxy
  · -- the closing edge: carried to the bridge
    rw [hlast] at ha
    rw [hhead] at hb
    subst ha; subst hb
    simp only [ht_ht]
    exact bridge

/-! ### crossing points under the half turn -/

theorem crossAt_ht (v : ℝ) (a b : Pt ℝ) (h : a.x ≠ b.x) : ht (crossAt v a b) = crossAt (-v) (ht a) (ht b) := by
  have h1 : b.x - a.x ≠ 0 := sub_ne_zero.mpr (Ne.symm h)
  have h2 : -b.x - -a.x ≠ 0 := by intro h0; apply h1; linarith
  ext
  · simp [crossAt, ht]
  · simp only [crossAt, ht]
    field_simp
    ring

theorem crossings_ht (w : ℝ) (a b q : Pt ℝ) (h : q ∈ crossings (-w) w (a, b)) : ht q ∈ crossings (-w) w (ht a, ht b) := by
  rw [mem_crossings] at h ⊢
  rcases h with ⟨hb, rfl⟩ | ⟨hb, rfl⟩
  · right
    have hne : a.x ≠ b.x := by rcases hb with hb | hb <;> intro h0 <;> linarith [hb.1, hb.2]
    refine ⟨?_, ?_⟩
    · simp only [ht_x]
      rcases hb with hb | hb
      · right; constructor <;> linarith [hb.1, hb.2]
      · left; constructor <;> linarith [hb.1, hb.2]
    · rw [crossAt_ht _ _ _ hne]; simp
  · left
    have hne : a.x ≠ b.x := by rcases hb with hb | hb <;> intro h0 <;> linarith [hb.1, hb.2]
    refine ⟨?_, ?_⟩
    · simp only [ht_x]
      rcases hb with hb | hb
      · right; constructor <;> linarith [hb.1, hb.2]
      · left; constructor <;> linarith [hb.1, hb.2]
    · rw [crossAt_ht _ _ _ hne]

/-! ### the three statements about `clipStrip` -/

/-- width: the clipped ring spans exactly `[-min w E / 2, min w E / 2]` -/
theorem clipStrip_xrange (w E : ℝ) (u : List (Pt ℝ)) (h : Spans u E) (hw : 0 < w) :
    XRange (clipStrip w u) (-(min w E) / 2) (min w E / 2) := by
  have hE := h.pos
  have := xrange_clipStripRing (ring u) (-E / 2) (E / 2) (-w / 2) (w / 2) (ring_xrange u E h) (by linarith) (by linarith)
    (by linarith)
  rw [clipStrip_eq]
  have e1 : max (-E / 2) (-w / 2) = -(min w E) / 2 := by
    rcases le_total w E with hc | hc
    · rw [min_eq_left hc, max_eq_right (by linarith)]
    · rw [min_eq_right hc, max_eq_left (by linarith)]
  have e2 : min (E / 2) (w / 2) = min w E / 2 := by
    rcases le_total w E with hc | hc
    · rw [min_eq_left hc, min_eq_right (by linarith)]
    · rw [min_eq_right hc, min_eq_left (by linarith)]
  rw [e1, e2] at this
  exact this

/-- containment: every vertex of the clipped ring is a vertex of the opening ring or lies on one of its edges -/
theorem clipStrip_contained (w : ℝ) (u : List (Pt ℝ)) (q : Pt ℝ) (h : q ∈ clipStrip w u) :
    q ∈ ring u ∨ ∃ a b, (a, b) ∈ segsOf (ring u) ∧ OnSeg q a b := by
  rw [clipStrip_eq, mem_clipStripRing] at h
  rcases h with ⟨h, _⟩ | ⟨a, b, hab, hq⟩
  · exact Or.inl h
  · exact Or.inr ⟨a, b, hab, (mem_crossings_x _ _ a b q hq).2.1⟩

/-- symmetry: the vertex set of the clipped ring is invariant under the half turn -/
theorem clipStrip_ht (w : ℝ) (u : List (Pt ℝ)) (q : Pt ℝ) (h : q ∈ clipStrip w u) : ht q ∈ clipStrip w u := by
  rw [clipStrip_eq, mem_clipStripRing] at h ⊢
  rcases h with ⟨h, h1, h2⟩ | ⟨a, b, hab, hq⟩
  · left
    refine ⟨mem_ring_ht u q h, ?_, ?_⟩ <;> simp only [ht_x] <;> linarith
  · right
    have hq' : q ∈ crossings (-(w / 2)) (w / 2) (a, b) := by
      rw [show -(w / 2) = -w / 2 by ring]; exact hq
    have hne : a ≠ b := by
      intro h0
      have := (mem_crossings_x _ _ a b q hq).2.2
      rw [h0] at this
      rcases this with t | t <;> linarith [t.1, t.2]
    refine ⟨ht a, ht b, segs_ring_ht u a b hab hne, ?_⟩
    have := crossings_ht (w / 2) a b q hq'
    rw [show -(w / 2) = -w / 2 by ring] at this
    exact this

end OutCS
