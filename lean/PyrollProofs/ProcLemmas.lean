import PyrollModel.Proc
import PyrollModel.ProcProg

/-! Helper lemmas for C18 (core Lean only, no Mathlib): the per-class lists and the MRO walk (part 1),
the processor chain and the solve procedures (part 2). -/

namespace Proc

/-! ## Part 1 — lists and walks -/

theorem flatMap_congr' {α β : Type} (l : List α) (f g : α → List β) (h : ∀ a ∈ l, f a = g a) :
    l.flatMap f = l.flatMap g := by
  induction l with
  | nil => rfl
  | cons a l ih =>
    simp only [List.flatMap_cons]
    rw [h a (by simp), ih (fun b hb => h b (by simp [hb]))]

theorem lookup_eq_none {own : Nat → Option (List Nat)} {l : List Nat} :
    lookup own l = none ↔ ∀ k ∈ l, own k = none := by
  induction l with
  | nil => simp [lookup]
  | cons k ks ih =>
    simp only [lookup]
    cases hk : own k with
    | none => simp [ih, hk]
    | some v => simp [hk]

theorem lookup_head {own : Nat → Option (List Nat)} {s : Nat} {t l : List Nat} (h : own s = some l) :
    lookup own (s :: t) = some l := by
  simp [lookup, h]

theorem owner_head {own : Nat → Option (List Nat)} {s : Nat} {t l : List Nat} (h : own s = some l) :
    owner own (s :: t) = some s := by
  simp [owner, h]

/-- every class along the MRO of `c` whose attribute lookup can see a list has a list of its own, and the MRO of a
class starts with the class (CPython).  This is what `Unit.__init_subclass__` establishes as long as no class of the
hierarchy swallows the `__init_subclass__` call (`coop_history_ownLists`). -/
structure OwnLists (H : Hier) (w : Bool) (c : Nat) : Prop where
  head : ∀ s ∈ H.mro c, ∃ t, H.mro s = s :: t
  own : ∀ s ∈ H.mro c, H.lists w s = none → lookup (H.lists w) (H.mro s) = none

theorem walk_eq_yieldOf {H : Hier} {w : Bool} {c : Nat} (h : OwnLists H w c) : walk H w c = yieldOf H w c := by
  unfold walk yieldOf
  apply flatMap_congr'
  intro s hs
  have hs' : s ∈ H.mro c := by simpa using hs
  obtain ⟨t, ht⟩ := h.head s hs'
  cases hl : H.lists w s with
  | none => simp [h.own s hs' hl, ownList, hl]
  | some l => rw [ht, lookup_head hl]; simp [ownList, hl]

theorem yieldOf_split (H : Hier) (w : Bool) (c b d : Nat) (l1 l2 l3 : List Nat)
    (hm : H.mro c = l1 ++ d :: (l2 ++ b :: l3)) :
    yieldOf H w c = l3.reverse.flatMap (ownList H w) ++ ownList H w b ++ l2.reverse.flatMap (ownList H w)
      ++ ownList H w d ++ l1.reverse.flatMap (ownList H w) := by
  simp [yieldOf, hm, List.flatMap_append, List.reverse_append]

theorem mem_yieldOf {H : Hier} {w : Bool} {c g : Nat} :
    g ∈ yieldOf H w c ↔ ∃ s ∈ H.mro c, g ∈ ownList H w s := by
  simp [yieldOf, List.mem_flatMap]

/-! ### registration -/

theorem setList_lists (H : Hier) (w : Bool) (c : Nat) (l : Option (List Nat)) (w' : Bool) (k : Nat) :
    (setList H w c l).lists w' k = if w' = w ∧ k = c then l else H.lists w' k := rfl

theorem setList_mro (H : Hier) (w : Bool) (c : Nat) (l : Option (List Nat)) : (setList H w c l).mro = H.mro := rfl
theorem setList_n (H : Hier) (w : Bool) (c : Nat) (l : Option (List Nat)) : (setList H w c l).n = H.n := rfl
theorem setList_isub (H : Hier) (w : Bool) (c : Nat) (l : Option (List Nat)) : (setList H w c l).isub = H.isub := rfl

theorem register_own {H : Hier} {w : Bool} {c f : Nat} {l t : List Nat} (hl : H.lists w c = some l)
    (hm : H.mro c = c :: t) : register H w c f = (setList H w c (some (l ++ [f])), .ok) := by
  simp [register, hm, owner_head hl, hl]

theorem ownList_setList (H : Hier) (w : Bool) (c : Nat) (l : List Nat) (w' : Bool) (k : Nat) :
    ownList (setList H w c (some l)) w' k = if w' = w ∧ k = c then l else ownList H w' k := by
  simp only [ownList, setList_lists]
  split <;> rfl

/-- the three list operations keep `mro`, `n`, `isub` and the set of classes that have lists -/
theorem step_lists_isSome (H : Hier) (op : COp) (hop : ∀ t i b, op ≠ .defClass t i b) (w : Bool) (k : Nat) :
    ((step H op).1.lists w k).isSome = (H.lists w k).isSome := by
  have key : ∀ (w0 : Bool) (c0 : Nat) (l : List Nat), (H.lists w0 c0).isSome →
      ((setList H w0 c0 (some l)).lists w k).isSome = (H.lists w k).isSome := by
    intro w0 c0 l h0
    rw [setList_lists]
    split
    · rename_i h; obtain ⟨rfl, rfl⟩ := h; simp [h0]
    · rfl
  have ownerSome : ∀ (w0 : Bool) (l : List Nat) (k0 : Nat), owner (H.lists w0) l = some k0 → (H.lists w0 k0).isSome := by
    intro w0 l
    induction l with
    | nil => intro k0 h; simp [owner] at h
    | cons a l ih =>
      intro k0 h
      simp only [owner] at h
      cases ha : H.lists w0 a with
      | none => rw [ha] at h; exact ih k0 h
      | some v => rw [ha] at h; simp at h; subst h; simp [ha]
  cases op with
  | defClass t i b => exact absurd rfl (hop t i b)
  | register w0 c f =>
    simp only [step, register]
    cases ho : owner (H.lists w0) (H.mro c) with
    | none => rfl
    | some k0 => exact key w0 k0 _ (ownerSome w0 _ k0 ho)
  | unregister w0 c f =>
    simp only [step, unregister]
    cases ho : owner (H.lists w0) (H.mro c) with
    | none => rfl
    | some k0 =>
      simp only
      split
      · exact key w0 k0 _ (ownerSome w0 _ k0 ho)
      · rfl
  | clear w0 c =>
    simp only [step, clear]
    cases ho : owner (H.lists w0) (H.mro c) with
    | none => rfl
    | some k0 => exact key w0 k0 _ (ownerSome w0 _ k0 ho)

theorem step_keeps (H : Hier) (op : COp) (hop : ∀ t i b, op ≠ .defClass t i b) :
    (step H op).1.mro = H.mro ∧ (step H op).1.n = H.n ∧ (step H op).1.isub = H.isub := by
  cases op with
  | defClass t i b => exact absurd rfl (hop t i b)
  | register w0 c f =>
    simp only [step, register]
    cases owner (H.lists w0) (H.mro c) <;> simp [setList_mro, setList_n, setList_isub]
  | unregister w0 c f =>
    simp only [step, unregister]
    cases owner (H.lists w0) (H.mro c) with
    | none => simp
    | some k0 => simp only; split <;> simp [setList_mro, setList_n, setList_isub]
  | clear w0 c =>
    simp only [step, clear]
    cases owner (H.lists w0) (H.mro c) <;> simp [setList_mro, setList_n, setList_isub]

/-! ### class definition -/

theorem defClass_mro (H : Hier) (tail : List Nat) (isub : InitSub) (body : Bool) (k : Nat) :
    (defClass H tail isub body).mro k = if k = H.n then H.n :: tail else H.mro k := rfl

theorem defClass_lists (H : Hier) (tail : List Nat) (isub : InitSub) (body : Bool) (w : Bool) (k : Nat) :
    (defClass H tail isub body).lists w k =
      if k = H.n then (if reaches H.isub tail || body then some [] else none) else H.lists w k := rfl

theorem defClass_isub (H : Hier) (tail : List Nat) (isub : InitSub) (body : Bool) (k : Nat) :
    (defClass H tail isub body).isub k = if k = H.n then isub else H.isub k := rfl

theorem defClass_n (H : Hier) (tail : List Nat) (isub : InitSub) (body : Bool) :
    (defClass H tail isub body).n = H.n + 1 := rfl

theorem reaches_iff {isub : Nat → InitSub} {l : List Nat} (hn : ∀ k ∈ l, isub k ≠ .noncoop) :
    reaches isub l = true ↔ ∃ k ∈ l, isub k = .unitImpl := by
  induction l with
  | nil => simp [reaches]
  | cons a l ih =>
    have ih' := ih (fun k hk => hn k (by simp [hk]))
    have ha := hn a (by simp)
    simp only [reaches]
    cases h : isub a with
    | absent => simp [ih', h]
    | coop => simp [ih', h]
    | noncoop => exact absurd h ha
    | unitImpl => simp [h]

/-! ### the contract on histories, and the invariant it maintains -/

/-- what the contract demands of a class definition: the class does not swallow `__init_subclass__`; only the
class that implements the hook (`Unit`) defines lists in its body; the MRO handed in consists of existing classes
and contains the MRO of each of its members (C3 linearisation guarantees both) -/
def CoopOp (H : Hier) : COp → Prop
  | .defClass tail isub body =>
      isub ≠ .noncoop ∧ (isub = .unitImpl ↔ body = true) ∧ (∀ k ∈ tail, k < H.n ∧ ∀ j ∈ H.mro k, j ∈ tail)
  | _ => True

def CoopRun : Hier → List COp → Prop
  | _, [] => True
  | H, op :: ops => CoopOp H op ∧ CoopRun (step H op).1 ops

instance : ∀ (H : Hier) (op : COp), Decidable (CoopOp H op)
  | H, .defClass tail isub body =>
    inferInstanceAs (Decidable (isub ≠ .noncoop ∧ (isub = .unitImpl ↔ body = true) ∧
      (∀ k ∈ tail, k < H.n ∧ ∀ j ∈ H.mro k, j ∈ tail)))
  | _, .register _ _ _ => inferInstanceAs (Decidable True)
  | _, .unregister _ _ _ => inferInstanceAs (Decidable True)
  | _, .clear _ _ => inferInstanceAs (Decidable True)

def CoopRun.dec : ∀ (ops : List COp) (H : Hier), Decidable (CoopRun H ops)
  | [], _ => inferInstanceAs (Decidable True)
  | op :: ops, H =>
    have := CoopRun.dec ops (step H op).1
    inferInstanceAs (Decidable (CoopOp H op ∧ CoopRun (step H op).1 ops))

instance (H : Hier) (ops : List COp) : Decidable (CoopRun H ops) := CoopRun.dec ops H

structure HInv (H : Hier) : Prop where
  head : ∀ k, k < H.n → ∃ t, H.mro k = k :: t
  closed : ∀ k, k < H.n → ∀ j ∈ H.mro k, j < H.n ∧ ∀ i ∈ H.mro j, i ∈ H.mro k
  nonc : ∀ k, k < H.n → H.isub k ≠ .noncoop
  some_iff : ∀ w k, k < H.n → ((H.lists w k).isSome ↔ ∃ j ∈ H.mro k, H.isub j = .unitImpl)

theorem hinv_init : HInv init := by
  constructor <;> intro <;> simp [init] at *

theorem hinv_step (H : Hier) (op : COp) (h : HInv H) (hc : CoopOp H op) : HInv (step H op).1 := by
  by_cases hop : ∀ t i b, op ≠ .defClass t i b
  · obtain ⟨hm, hn, hi⟩ := step_keeps H op hop
    constructor
    · intro k hk; rw [hm]; rw [hn] at hk; exact h.head k hk
    · intro k hk; rw [hm, hn]; rw [hn] at hk; exact h.closed k hk
    · intro k hk; rw [hi]; rw [hn] at hk; exact h.nonc k hk
    · intro w k hk; rw [step_lists_isSome H op hop, hm, hi]; rw [hn] at hk; exact h.some_iff w k hk
  · have : ∃ t i b, op = .defClass t i b := by
      apply Classical.byContradiction
      intro hne
      exact hop (fun t i b heq => hne ⟨t, i, b, heq⟩)
    obtain ⟨tail, isub, body, rfl⟩ := this
    obtain ⟨hnc, hbody, htail⟩ := hc
    simp only [step]
    have hold : ∀ k, k < H.n → k ≠ H.n := fun k hk => Nat.ne_of_lt hk
    constructor
    · intro k hk
      rw [defClass_n] at hk
      rw [defClass_mro]
      by_cases hkn : k = H.n
      · subst hkn; exact ⟨tail, by simp⟩
      · rw [if_neg hkn]; exact h.head k (by omega)
    · intro k hk j hj
      rw [defClass_n] at hk
      rw [defClass_mro] at hj
      rw [defClass_n]
      by_cases hkn : k = H.n
      · subst hkn
        rw [if_pos rfl] at hj
        rcases List.mem_cons.1 hj with hjn | hjt
        · subst hjn
          exact ⟨by omega, fun i hi => hi⟩
        · have := htail j hjt
          refine ⟨by omega, ?_⟩
          intro i hi
          rw [defClass_mro, if_neg (hold j this.1)] at hi
          rw [defClass_mro H tail isub body H.n, if_pos rfl]
          exact List.mem_cons_of_mem _ (this.2 i hi)
      · rw [if_neg hkn] at hj
        have := h.closed k (by omega) j hj
        refine ⟨by omega, ?_⟩
        intro i hi
        rw [defClass_mro, if_neg (hold j this.1)] at hi
        rw [defClass_mro H tail isub body k, if_neg hkn]
        exact this.2 i hi
    · intro k hk
      rw [defClass_n] at hk
      rw [defClass_isub]
      by_cases hkn : k = H.n
      · rw [if_pos hkn]; exact hnc
      · rw [if_neg hkn]; exact h.nonc k (by omega)
    · intro w k hk
      rw [defClass_n] at hk
      rw [defClass_lists, defClass_mro]
      by_cases hkn : k = H.n
      · subst hkn
        simp only [if_true]
        have hr := reaches_iff (isub := H.isub) (l := tail) (fun k hk => h.nonc k (htail k hk).1)
        have hmem : (∃ j ∈ H.n :: tail, (defClass H tail isub body).isub j = .unitImpl) ↔
            (isub = .unitImpl ∨ ∃ j ∈ tail, H.isub j = .unitImpl) := by
          constructor
          · rintro ⟨j, hj, hu⟩
            rcases List.mem_cons.1 hj with rfl | hjt
            · left; simpa [defClass_isub] using hu
            · right
              refine ⟨j, hjt, ?_⟩
              rw [defClass_isub, if_neg (hold j (htail j hjt).1)] at hu
              exact hu
          · rintro (hu | ⟨j, hjt, hu⟩)
            · exact ⟨H.n, by simp, by simp [defClass_isub, hu]⟩
            · exact ⟨j, List.mem_cons_of_mem _ hjt, by rw [defClass_isub, if_neg (hold j (htail j hjt).1)]; exact hu⟩
        rw [hmem, hbody, ← hr]
        cases reaches H.isub tail <;> cases body <;> simp
      · rw [if_neg hkn, if_neg hkn]
        rw [h.some_iff w k (by omega)]
        constructor
        · rintro ⟨j, hj, hu⟩
          exact ⟨j, hj, by rw [defClass_isub, if_neg (hold j (h.closed k (by omega) j hj).1)]; exact hu⟩
        · rintro ⟨j, hj, hu⟩
          rw [defClass_isub, if_neg (hold j (h.closed k (by omega) j hj).1)] at hu
          exact ⟨j, hj, hu⟩

theorem hinv_run (ops : List COp) : ∀ H, HInv H → CoopRun H ops → HInv (run H ops) := by
  induction ops with
  | nil => intro H h _; exact h
  | cons op ops ih =>
    intro H h hc
    simp only [run, List.foldl_cons]
    exact ih _ (hinv_step H op h hc.1) hc.2

theorem hinv_ownLists (H : Hier) (h : HInv H) (w : Bool) (c : Nat) (hc : c < H.n) : OwnLists H w c := by
  constructor
  · intro s hs; exact h.head s (h.closed c hc s hs).1
  · intro s hs hn
    have hsn := (h.closed c hc s hs).1
    apply lookup_eq_none.2
    intro j hj
    cases hlj : H.lists w j with
    | none => rfl
    | some v =>
      exfalso
      have hjn := (h.closed s hsn j hj).1
      obtain ⟨i, hi, hu⟩ := (h.some_iff w j hjn).1 (by simp [hlj])
      have : (H.lists w s).isSome := (h.some_iff w s hsn).2 ⟨i, (h.closed s hsn j hj).2 i hi, hu⟩
      simp [hn] at this

/-! ## Part 2 — the processor chain -/

theorem chain_nil (E : Env) (w : Bool) (u : Nat) (h : Heap) (cur : Nat) : chain E w u [] h cur = (h, cur, []) := rfl

theorem chain_none (E : Env) (w : Bool) (u f : Nat) (fs : List Nat) (h : Heap) (cur : Nat)
    (hf : E.fac f u = none) :
    chain E w u (f :: fs) h cur =
      ((chain E w u fs h cur).1, (chain E w u fs h cur).2.1, .consult w f u :: (chain E w u fs h cur).2.2) := by
  simp [chain, hf]

theorem chain_some (E : Env) (w : Bool) (u f p : Nat) (fs : List Nat) (h : Heap) (cur : Nat)
    (hf : E.fac f u = some p) :
    chain E w u (f :: fs) h cur =
      ((chain E w u fs (applyProc E.beh h p cur).1 (applyProc E.beh h p cur).2).1,
       (chain E w u fs (applyProc E.beh h p cur).1 (applyProc E.beh h p cur).2).2.1,
       .consult w f u :: .proc w p cur (applyProc E.beh h p cur).2 ::
         (chain E w u fs (applyProc E.beh h p cur).1 (applyProc E.beh h p cur).2).2.2) := by
  simp [chain, hf]

/-- the factories consulted, in order -/
def consults : List Ev → List Nat
  | [] => []
  | .consult _ f _ :: evs => f :: consults evs
  | _ :: evs => consults evs

/-- the processors that ran, in order -/
def procsRun : List Ev → List Nat
  | [] => []
  | .proc _ p _ _ :: evs => p :: procsRun evs
  | _ :: evs => procsRun evs

/-- the phase an event belongs to (`true` = pre-processing, `false` = post-processing) -/
def Ev.phase : Ev → Option Bool
  | .consult w _ _ => some w
  | .proc w _ _ _ => some w
  | _ => none

/-- the unit an event of a chain is about -/
def Ev.consulted : Ev → Option (Bool × Nat × Nat)
  | .consult w f u => some (w, f, u)
  | _ => none

/-- every processor receives what its predecessor returned, the first one receives `cur` -/
def threads : Nat → List Ev → Prop
  | _, [] => True
  | cur, .proc _ _ r t :: evs => r = cur ∧ threads t evs
  | cur, _ :: evs => threads cur evs

/-- what the last processor returned (`cur` if none ran) -/
def lastRet : Nat → List Ev → Nat
  | cur, [] => cur
  | _, .proc _ _ _ t :: evs => lastRet t evs
  | cur, _ :: evs => lastRet cur evs

theorem consults_append (a b : List Ev) : consults (a ++ b) = consults a ++ consults b := by
  induction a with
  | nil => rfl
  | cons e a ih => cases e <;> simp [consults, ih]

theorem chain_consults (E : Env) (w : Bool) (u : Nat) (fs : List Nat) :
    ∀ h cur, consults (chain E w u fs h cur).2.2 = fs := by
  induction fs with
  | nil => intro h cur; rfl
  | cons f fs ih =>
    intro h cur
    cases hf : E.fac f u with
    | none => rw [chain_none E w u f fs h cur hf]; simp [consults, ih]
    | some p => rw [chain_some E w u f p fs h cur hf]; simp [consults, ih]

theorem chain_phase (E : Env) (w : Bool) (u : Nat) (fs : List Nat) :
    ∀ h cur, ∀ e ∈ (chain E w u fs h cur).2.2, e.phase = some w := by
  induction fs with
  | nil => intro h cur e he; simp [chain] at he
  | cons f fs ih =>
    intro h cur e he
    cases hf : E.fac f u with
    | none =>
      rw [chain_none E w u f fs h cur hf] at he
      simp only [List.mem_cons] at he
      rcases he with rfl | he
      · rfl
      · exact ih _ _ e he
    | some p =>
      rw [chain_some E w u f p fs h cur hf] at he
      simp only [List.mem_cons] at he
      rcases he with rfl | rfl | he
      · rfl
      · rfl
      · exact ih _ _ e he

/-- every consultation of a chain asks a factory of the list, with the unit being solved -/
theorem chain_consulted (E : Env) (w : Bool) (u : Nat) (fs : List Nat) :
    ∀ h cur, ∀ e ∈ (chain E w u fs h cur).2.2, ∀ w' f v, e = .consult w' f v → w' = w ∧ f ∈ fs ∧ v = u := by
  induction fs with
  | nil => intro h cur e he; simp [chain] at he
  | cons f fs ih =>
    intro h cur e he w' g v hev
    cases hf : E.fac f u with
    | none =>
      rw [chain_none E w u f fs h cur hf] at he
      simp only [List.mem_cons] at he
      rcases he with rfl | he
      · cases hev; simp
      · obtain ⟨a, b, c⟩ := ih _ _ e he w' g v hev; exact ⟨a, by simp [b], c⟩
    | some p =>
      rw [chain_some E w u f p fs h cur hf] at he
      simp only [List.mem_cons] at he
      rcases he with rfl | rfl | he
      · cases hev; simp
      · cases hev
      · obtain ⟨a, b, c⟩ := ih _ _ e he w' g v hev; exact ⟨a, by simp [b], c⟩

theorem chain_threads (E : Env) (w : Bool) (u : Nat) (fs : List Nat) :
    ∀ h cur, threads cur (chain E w u fs h cur).2.2 := by
  induction fs with
  | nil => intro h cur; trivial
  | cons f fs ih =>
    intro h cur
    cases hf : E.fac f u with
    | none => rw [chain_none E w u f fs h cur hf]; exact ih h cur
    | some p => rw [chain_some E w u f p fs h cur hf]; exact ⟨rfl, ih _ _⟩

theorem chain_lastRet (E : Env) (w : Bool) (u : Nat) (fs : List Nat) :
    ∀ h cur, (chain E w u fs h cur).2.1 = lastRet cur (chain E w u fs h cur).2.2 := by
  induction fs with
  | nil => intro h cur; rfl
  | cons f fs ih =>
    intro h cur
    cases hf : E.fac f u with
    | none => rw [chain_none E w u f fs h cur hf]; exact ih h cur
    | some p => rw [chain_some E w u f p fs h cur hf]; exact ih _ _

/-- only the processors that were created run, in the order of their factories; `None` results leave no trace -/
theorem chain_procsRun (E : Env) (w : Bool) (u : Nat) (fs : List Nat) :
    ∀ h cur, procsRun (chain E w u fs h cur).2.2 = fs.filterMap (fun f => E.fac f u) := by
  induction fs with
  | nil => intro h cur; rfl
  | cons f fs ih =>
    intro h cur
    cases hf : E.fac f u with
    | none => rw [chain_none E w u f fs h cur hf]; simp [procsRun, ih, hf]
    | some p => rw [chain_some E w u f p fs h cur hf]; simp [procsRun, ih, hf]

/-! ### what a chain can change in the heap -/

theorem applyProc_spec (beh : Nat → Beh) (h : Heap) (p cur : Nat) (hc : cur < h.n) :
    h.n ≤ (applyProc beh h p cur).1.n ∧ (applyProc beh h p cur).2 < (applyProc beh h p cur).1.n ∧
    ((applyProc beh h p cur).2 = cur ∨ h.n ≤ (applyProc beh h p cur).2) ∧
    (∀ o, o < h.n → o ≠ cur → (applyProc beh h p cur).1.marks o = h.marks o) := by
  unfold applyProc
  cases beh p with
  | inplace =>
    refine ⟨Nat.le_refl _, hc, Or.inl rfl, ?_⟩
    intro o _ hne
    simp [Heap.setMarks, hne]
  | fresh =>
    refine ⟨by simp [Heap.alloc], by simp [Heap.alloc], Or.inr (by simp [Heap.alloc]), ?_⟩
    intro o ho _
    have : o ≠ h.n := Nat.ne_of_lt ho
    simp [Heap.alloc, this]
  | same => exact ⟨Nat.le_refl _, hc, Or.inl rfl, fun _ _ _ => rfl⟩

/-- a chain started on object `cur` changes no object that existed before, except possibly `cur` itself
(in-place processors); its result is `cur` or a new object -/
theorem chain_frame (E : Env) (w : Bool) (u : Nat) (fs : List Nat) :
    ∀ h cur, cur < h.n →
      h.n ≤ (chain E w u fs h cur).1.n ∧ (chain E w u fs h cur).2.1 < (chain E w u fs h cur).1.n ∧
      ((chain E w u fs h cur).2.1 = cur ∨ h.n ≤ (chain E w u fs h cur).2.1) ∧
      (∀ o, o < h.n → o ≠ cur → (chain E w u fs h cur).1.marks o = h.marks o) := by
  induction fs with
  | nil => intro h cur hc; exact ⟨Nat.le_refl _, hc, Or.inl rfl, fun _ _ _ => rfl⟩
  | cons f fs ih =>
    intro h cur hc
    cases hf : E.fac f u with
    | none => rw [chain_none E w u f fs h cur hf]; exact ih h cur hc
    | some p =>
      rw [chain_some E w u f p fs h cur hf]
      obtain ⟨a1, a2, a3, a4⟩ := applyProc_spec E.beh h p cur hc
      obtain ⟨b1, b2, b3, b4⟩ := ih (applyProc E.beh h p cur).1 (applyProc E.beh h p cur).2 a2
      refine ⟨Nat.le_trans a1 b1, b2, ?_, ?_⟩
      · rcases b3 with b3 | b3
        · rcases a3 with a3 | a3
          · exact Or.inl (b3.trans a3)
          · exact Or.inr (by have := a3; rw [← b3] at this; exact this)
        · exact Or.inr (Nat.le_trans a1 b3)
      · intro o ho hne
        have h1 : o < (applyProc E.beh h p cur).1.n := Nat.lt_of_lt_of_le ho a1
        have h2 : o ≠ (applyProc E.beh h p cur).2 := by
          rcases a3 with a3 | a3
          · rw [a3]; exact hne
          · exact Nat.ne_of_lt (Nat.lt_of_lt_of_le ho a3)
        rw [b4 o h1 h2, a4 o ho hne]

/-! ## Part 2b — `init_solve`, `solve` in projection form -/

/-- the pre-processor chain run by `init_solve` -/
def preChain (E : Env) (st : RState) (u inp : Nat) : Heap × Nat × List Ev :=
  chain E true u (walk E.H true (E.ucls u)) st.heap inp

theorem initSolve_evs (E : Env) (st : RState) (u inp : Nat) :
    (initSolve E st u inp).2 = (preChain E st u inp).2.2 := by
  unfold initSolve preChain
  cases st.uout u <;> rfl

theorem initSolve_uin (E : Env) (st : RState) (u inp : Nat) (x : Nat) :
    (initSolve E st u inp).1.uin x = if x = u then some (preChain E st u inp).1.n else st.uin x := by
  unfold initSolve preChain
  cases st.uout u <;> rfl

theorem initSolve_uout (E : Env) (st : RState) (u inp : Nat) (x : Nat) :
    (initSolve E st u inp).1.uout x =
      if x = u then (match st.uout u with | some o => some o | none => some ((preChain E st u inp).1.n + 1))
      else st.uout x := by
  unfold initSolve preChain
  cases h : st.uout u with
  | none => rfl
  | some o => simp only []; split <;> simp_all

theorem initSolve_marks (E : Env) (st : RState) (u inp : Nat) (o : Nat) :
    (initSolve E st u inp).1.heap.marks o =
      if o = (preChain E st u inp).1.n then (preChain E st u inp).1.marks (preChain E st u inp).2.1
      else if (o = (preChain E st u inp).1.n + 1 ∧ st.uout u = none) ∨ st.uout u = some o then
        (preChain E st u inp).1.marks (preChain E st u inp).2.1
      else (preChain E st u inp).1.marks o := by
  unfold initSolve preChain
  cases h : st.uout u with
  | none =>
    simp only [Heap.alloc]
    by_cases h1 : o = (chain E true u (walk E.H true (E.ucls u)) st.heap inp).1.n
    · simp [h1]
    · by_cases h2 : o = (chain E true u (walk E.H true (E.ucls u)) st.heap inp).1.n + 1
      · simp [h2]
      · simp [h1, h2]
  | some o' =>
    simp only [Heap.alloc, Heap.setMarks]
    by_cases h1 : o = (chain E true u (walk E.H true (E.ucls u)) st.heap inp).1.n
    · by_cases h3 : o = o'
      · simp [h1, h3]
      · simp [h1, h3]
    · by_cases h3 : o = o'
      · subst h3; simp [h1]
      · have h4 : o' ≠ o := fun e => h3 e.symm
        simp [h1, h3, h4]

/-- `init_solve` allocates the in profile, and the out profile unless the unit has one already -/
theorem initSolve_heap_n (E : Env) (st : RState) (u inp : Nat) :
    (initSolve E st u inp).1.heap.n =
      (preChain E st u inp).1.n + (if (st.uout u).isSome then 1 else 2) := by
  unfold initSolve preChain
  cases h : st.uout u <;> simp [Heap.alloc, Heap.setMarks]

/-- the marks of the last pre-processor's output (of the handed-in profile if no processor ran) when `init_solve` is
done -/
def preOutMarks (E : Env) (st : RState) (u inp : Nat) : List Mark :=
  (initSolve E st u inp).1.heap.marks (lastRet inp (initSolve E st u inp).2)

/-- a chain whose factories all return nothing leaves heap and profile as they are -/
theorem chain_all_none (E : Env) (w : Bool) (u : Nat) (fs : List Nat) (h : Heap) (cur : Nat)
    (hn : ∀ f ∈ fs, E.fac f u = none) :
    (chain E w u fs h cur).1 = h ∧ (chain E w u fs h cur).2.1 = cur := by
  induction fs with
  | nil => exact ⟨rfl, rfl⟩
  | cons f fs ih =>
    rw [chain_none E w u f fs h cur (hn f (by simp))]
    exact ih (fun g hg => hn g (by simp [hg]))

theorem ownStep_uout (st : RState) (u : Nat) : (ownStep st u).uout = st.uout := rfl
theorem ownStep_uin (st : RState) (u : Nat) : (ownStep st u).uin = st.uin := rfl
theorem ownStep_n (st : RState) (u : Nat) : (ownStep st u).heap.n = st.heap.n := rfl
theorem ownStep_marks (st : RState) (u o : Nat) :
    (ownStep st u).heap.marks o =
      if o = (st.uout u).getD 0 then st.heap.marks o ++ [.own u] else st.heap.marks o := by
  unfold ownStep
  simp only [Heap.setMarks]
  split
  · next h => rw [h]
  · rfl

/-- the post-processor chain run by `solve`: it starts on a NEW object (index `st.heap.n`) that copies the marks of
`unit.out_profile` -/
def postChain (E : Env) (st : RState) (u : Nat) : Heap × Nat × List Ev :=
  chain E false u (walk E.H false (E.ucls u)) (st.heap.alloc (st.heap.marks ((st.uout u).getD 0))).1 st.heap.n

def leaveEv (E : Env) (st : RState) (u : Nat) : Ev :=
  .leave u (postChain E st u).2.1 ((st.uin u).getD 0) ((st.uout u).getD 0)
    ((postChain E st u).1.marks (postChain E st u).2.1) ((postChain E st u).1.marks ((st.uin u).getD 0))
    ((postChain E st u).1.marks ((st.uout u).getD 0))

theorem finishSolve_eq (E : Env) (st : RState) (u : Nat) :
    finishSolve E st u =
      ({ st with heap := (postChain E st u).1 }, (postChain E st u).2.1, (postChain E st u).2.2 ++ [leaveEv E st u]) := rfl

theorem solveLeaf_eq (E : Env) (st : RState) (u inp : Nat) :
    solveLeaf E st u inp =
      ((finishSolve E (ownStep (initSolve E st u inp).1 u) u).1,
       (finishSolve E (ownStep (initSolve E st u inp).1 u) u).2.1,
       .enter u inp :: (initSolve E st u inp).2 ++ .own u :: (finishSolve E (ownStep (initSolve E st u inp).1 u) u).2.2) := rfl

theorem solveLeaf_uout (E : Env) (st : RState) (u inp : Nat) (x : Nat) :
    (solveLeaf E st u inp).1.uout x = (initSolve E st u inp).1.uout x := by
  rw [solveLeaf_eq, finishSolve_eq]; rfl

theorem solveSubs_cons (E : Env) (c : Nat) (cs : List Nat) (st : RState) (cur : Nat) :
    solveSubs E (c :: cs) st cur =
      ((solveSubs E cs (solveLeaf E st c cur).1 (solveLeaf E st c cur).2.1).1,
       (solveSubs E cs (solveLeaf E st c cur).1 (solveLeaf E st c cur).2.1).2.1,
       (solveLeaf E st c cur).2.2 ++ (solveSubs E cs (solveLeaf E st c cur).1 (solveLeaf E st c cur).2.1).2.2) := rfl

theorem iterate_succ (E : Env) (s : Nat) (subs : List Nat) (k : Nat) (st : RState) :
    iterate E s subs (k + 1) st =
      ((iterate E s subs k (solveSubs E subs st ((st.uin s).getD 0)).1).1,
       .own s :: (solveSubs E subs st ((st.uin s).getD 0)).2.2 ++
         (iterate E s subs k (solveSubs E subs st ((st.uin s).getD 0)).1).2) := rfl

theorem solveSeq_eq (E : Env) (st : RState) (s : Nat) (subs : List Nat) (iters inp : Nat) :
    solveSeq E st s subs iters inp =
      ((finishSolve E (iterate E s subs iters (ownStep (initSolve E st s inp).1 s)).1 s).1,
       (finishSolve E (iterate E s subs iters (ownStep (initSolve E st s inp).1 s)).1 s).2.1,
       .enter s inp :: (initSolve E st s inp).2 ++ (iterate E s subs iters (ownStep (initSolve E st s inp).1 s)).2 ++
         (finishSolve E (iterate E s subs iters (ownStep (initSolve E st s inp).1 s)).1 s).2.2) := rfl

/-- the post-processors change no object that existed before they started (in particular not `unit.out_profile`
and `unit.in_profile`), and what `solve` returns is an object that did not exist before -/
theorem postChain_frame (E : Env) (st : RState) (u : Nat) :
    st.heap.n ≤ (postChain E st u).2.1 ∧ (postChain E st u).2.1 < (postChain E st u).1.n ∧
    st.heap.n < (postChain E st u).1.n ∧
    ∀ o, o < st.heap.n → (postChain E st u).1.marks o = st.heap.marks o := by
  have hc : st.heap.n < (st.heap.alloc (st.heap.marks ((st.uout u).getD 0))).1.n := by simp [Heap.alloc]
  obtain ⟨a1, a2, a3, a4⟩ := chain_frame E false u (walk E.H false (E.ucls u)) _ _ hc
  refine ⟨?_, a2, Nat.lt_of_lt_of_le hc a1, ?_⟩
  · rcases a3 with a3 | a3
    · exact Nat.le_of_eq a3.symm
    · exact Nat.le_trans (Nat.le_of_lt hc) a3
  · intro o ho
    have h1 : o < (st.heap.alloc (st.heap.marks ((st.uout u).getD 0))).1.n := Nat.lt_trans ho hc
    have h2 : o ≠ st.heap.n := Nat.ne_of_lt ho
    have := a4 o h1 h2
    unfold postChain
    rw [this]
    simp [Heap.alloc, h2]

/-- every consultation in the trace asks a factory that the walk of the consulted unit's own class yields -/
def ConsultsOwnClass (E : Env) (evs : List Ev) : Prop :=
  ∀ e ∈ evs, ∀ w f v, e = Ev.consult w f v → f ∈ walk E.H w (E.ucls v)

theorem ConsultsOwnClass.append {E : Env} {a b : List Ev} (ha : ConsultsOwnClass E a) (hb : ConsultsOwnClass E b) :
    ConsultsOwnClass E (a ++ b) := by
  intro e he
  rcases List.mem_append.1 he with h | h
  · exact ha e h
  · exact hb e h

theorem ConsultsOwnClass.cons_other {E : Env} {e : Ev} {a : List Ev} (he : ∀ w f v, e ≠ Ev.consult w f v)
    (ha : ConsultsOwnClass E a) : ConsultsOwnClass E (e :: a) := by
  intro e' he'
  rcases List.mem_cons.1 he' with h | h
  · subst h; intro w f v hh; exact absurd hh (he w f v)
  · exact ha e' h

theorem chain_consultsOwn (E : Env) (w : Bool) (u : Nat) (h : Heap) (cur : Nat) :
    ConsultsOwnClass E (chain E w u (walk E.H w (E.ucls u)) h cur).2.2 := by
  intro e he w' f v hev
  obtain ⟨rfl, hf, rfl⟩ := chain_consulted E w u _ h cur e he w' f v hev
  exact hf

theorem solveLeaf_consultsOwn (E : Env) (st : RState) (u inp : Nat) :
    ConsultsOwnClass E (solveLeaf E st u inp).2.2 := by
  rw [solveLeaf_eq]
  refine ConsultsOwnClass.cons_other (by intro w f v h; cases h) ?_
  refine ConsultsOwnClass.append ?_ (ConsultsOwnClass.cons_other (by intro w f v h; cases h) ?_)
  · rw [initSolve_evs]; exact chain_consultsOwn E true u _ _
  · rw [finishSolve_eq]
    refine ConsultsOwnClass.append (chain_consultsOwn E false u _ _) ?_
    intro e he w f v hev
    simp only [List.mem_singleton] at he
    subst he
    cases hev

theorem solveSubs_consultsOwn (E : Env) (cs : List Nat) :
    ∀ st cur, ConsultsOwnClass E (solveSubs E cs st cur).2.2 := by
  induction cs with
  | nil => intro st cur e he; simp [solveSubs] at he
  | cons c cs ih =>
    intro st cur
    rw [solveSubs_cons]
    exact ConsultsOwnClass.append (solveLeaf_consultsOwn E st c cur) (ih _ _)

theorem iterate_consultsOwn (E : Env) (s : Nat) (subs : List Nat) (k : Nat) :
    ∀ st, ConsultsOwnClass E (iterate E s subs k st).2 := by
  induction k with
  | zero => intro st e he; simp [iterate] at he
  | succ k ih =>
    intro st
    rw [iterate_succ]
    refine ConsultsOwnClass.cons_other (by intro w f v h; cases h) ?_
    exact ConsultsOwnClass.append (solveSubs_consultsOwn E subs _ _) (ih _)

/-! ## Part 3 — helpers for the source tie (interpreter of the generated programs, `PyrollModel/ProcProg.lean`) -/

/-- a walk none of whose rounds raises yields the concatenation of the rounds -/
theorem collect_total (step : Nat → Option (List Nat)) (g : Nat → List Nat) (h : ∀ s, step s = some (g s))
    (l : List Nat) : collect step l = some (l.flatMap g) := by
  induction l with
  | nil => rfl
  | cons s ss ih => simp [collect, h s, ih]

/-- `member` solves each of the listed sub-units like the model's leaf solve -/
def SolvesLeaves (E : Env) (member : RState → Nat → Nat → Option (RState × Nat × List Ev)) (subs : List Nat) : Prop :=
  ∀ c ∈ subs, ∀ st x, member st c x = some (solveLeaf E st c x)

/-- a unit without sub-units is a sequence with no members whose loop is observed once -/
theorem solveLeaf_eq_solveSeq (E : Env) (st : RState) (u inp : Nat) :
    solveLeaf E st u inp = solveSeq E st u [] 1 inp := by
  simp [solveLeaf, solveSeq, iterate, solveSubs]

end Proc
