import PyrollProofs.HeapEdit

/-! Helper lemmas for C12, part 7: a RE-USED out-profile and the profile of the current solve.

`Unit.init_solve` in the form `Reuse.handOver` hands the public non-root-hook entries of the incoming profile over to
an out-profile left by a previous solve (`reuseOut_getF`, HeapSolve.lean).  Here: the rest of `solve` leaves exactly
these entries of the out-profile alone (`Pres`: the root hooks write under root-hook names only, producers only
allocate and change sets they created, sub-solves do not touch an object no sub-unit owns), the throw-away rotator of
a pass's pre-processor returns the incoming profile's entries (`RotSpec`), hence after the whole solve the out-profile
and the returned profile have, under every public name that is not a root hook, what the caller's profile of THIS
solve has (`solveU_reuse_current`). -/

namespace Heap

/-! ### what a solve does to the entries of ONE object (the unit's out-profile) outside the root hooks -/

theorem fields_alloc {s : S} {ob : Obj} {x : Nat} (hx : x < s.h.next) :
    ((s.alloc ob).1.h.obj x).fields = (s.h.obj x).fields := by
  rw [alloc_obj]; have : x ≠ s.h.next := by omega
  simp only [this, if_false]

theorem fields_setContent (s : S) (o : Nat) (c : List Nat) (x : Nat) :
    ((s.setContent o c).h.obj x).fields = (s.h.obj x).fields := by
  rw [setContent_obj]; split
  · rename_i h; subst h; rfl
  · rfl

theorem evalS_fields (fe : Nat → Nat) (env : Env) : ∀ (e : SExpr) (s : S) (x : Nat), x < s.h.next →
    ((evalS fe env e s).1.h.obj x).fields = (s.h.obj x).fields ∧ s.h.next ≤ (evalS fe env e s).1.h.next := by
  intro e
  induction e with
  | foreign p => intro s x _; exact ⟨rfl, Nat.le_refl _⟩
  | var v => intro s x _; exact ⟨rfl, Nat.le_refl _⟩
  | newSet e ih =>
    intro s x hx
    obtain ⟨h1, h2⟩ := ih s x hx
    simp only [evalS]
    refine ⟨?_, ?_⟩
    · rw [fields_alloc (by omega)]; exact h1
    · simp only [alloc_next]; omega
  | union a b iha ihb =>
    intro s x hx
    obtain ⟨a1, a2⟩ := iha s x hx
    obtain ⟨b1, b2⟩ := ihb (evalS fe env a s).1 x (by omega)
    simp only [evalS]
    refine ⟨?_, ?_⟩
    · rw [fields_alloc (by omega), b1, a1]
    · simp only [alloc_next]; omega
  | lit el => intro s x hx; simp only [evalS]; exact ⟨fields_alloc hx, by simp⟩

theorem runProg_fields (fe : Nat → Nat) (gd : Nat → Bool) : ∀ (p : Prog) (env : Env) (s : S) (x : Nat), x < s.h.next →
    ((runProg fe gd p env s).1.h.obj x).fields = (s.h.obj x).fields ∧ s.h.next ≤ (runProg fe gd p env s).1.h.next := by
  intro p
  induction p with
  | nil => intro env s x _; exact ⟨rfl, Nat.le_refl _⟩
  | cons st rest ih =>
    intro env s x hx
    rw [runProg_cons]
    by_cases hg : guardHolds gd st = true
    · simp only [hg, if_true]
      cases hact : st.act with
      | assign v e =>
        simp only
        obtain ⟨e1, e2⟩ := evalS_fields fe env e s x hx
        obtain ⟨r1, r2⟩ := ih ((v, (evalS fe env e s).2) :: env) (evalS fe env e s).1 x (by omega)
        exact ⟨by rw [r1, e1], by omega⟩
      | add v y =>
        simp only
        obtain ⟨r1, r2⟩ := ih env (s.setContent ((env.lookup v).getD 0) ((s.h.obj ((env.lookup v).getD 0)).content ++ [y]))
          x (by simpa using hx)
        exact ⟨by rw [r1, fields_setContent], by simpa using r2⟩
      | ior v e =>
        simp only
        obtain ⟨e1, e2⟩ := evalS_fields fe env e s x hx
        obtain ⟨r1, r2⟩ := ih env ((evalS fe env e s).1.setContent ((env.lookup v).getD 0)
              (((evalS fe env e s).1.h.obj ((env.lookup v).getD 0)).content ++
                ((evalS fe env e s).1.h.obj (evalS fe env e s).2).content)) x (by simp only [setContent_next]; omega)
        exact ⟨by rw [r1, fields_setContent, e1], by simp only [setContent_next] at r2; omega⟩
      | update v e =>
        simp only
        obtain ⟨e1, e2⟩ := evalS_fields fe env e s x hx
        obtain ⟨r1, r2⟩ := ih env ((evalS fe env e s).1.setContent ((env.lookup v).getD 0)
              (((evalS fe env e s).1.h.obj ((env.lookup v).getD 0)).content ++
                ((evalS fe env e s).1.h.obj (evalS fe env e s).2).content)) x (by simp only [setContent_next]; omega)
        exact ⟨by rw [r1, fields_setContent, e1], by simp only [setContent_next] at r2; omega⟩
      | ret e => simp only; exact evalS_fields fe env e s x hx
    · simp only [hg]
      exact ih env s x hx

theorem runOn_fields (p : Prog) (s : S) (src : Option Nat) (x : Nat) (hx : x < s.h.next) :
    ((runOn p s src).1.h.obj x).fields = (s.h.obj x).fields ∧ s.h.next ≤ (runOn p s src).1.h.next := by
  unfold runOn
  cases src with
  | none => exact ⟨rfl, Nat.le_refl _⟩
  | some v => exact runProg_fields _ _ p [] s x hx

/-- the heap grew, and `o` answers for every public name outside `R` as before -/
def Pres (o : Nat) (R : List Nat) (s s' : S) : Prop :=
  s.h.next ≤ s'.h.next ∧ ∀ g, isPublic g = true → R.contains g = false → getF s'.h o g = getF s.h o g

theorem Pres.refl (o : Nat) (R : List Nat) (s : S) : Pres o R s s := ⟨Nat.le_refl _, fun _ _ _ => rfl⟩

theorem Pres.trans {o : Nat} {R : List Nat} {a b c : S} (h1 : Pres o R a b) (h2 : Pres o R b c) : Pres o R a c :=
  ⟨Nat.le_trans h1.1 h2.1, fun g hp hr => by rw [h2.2 g hp hr, h1.2 g hp hr]⟩

theorem Pres.of_fields {o : Nat} {R : List Nat} {s s' : S} (hm : s.h.next ≤ s'.h.next)
    (h : (s'.h.obj o).fields = (s.h.obj o).fields) : Pres o R s s' :=
  ⟨hm, fun g _ _ => by unfold getF; rw [h]⟩

theorem Pres.alloc {o : Nat} {R : List Nat} {s : S} (ob : Obj) (ho : o < s.h.next) : Pres o R s (s.alloc ob).1 :=
  Pres.of_fields (by simp) (fields_alloc ho)

theorem Pres.setCache {o : Nat} {R : List Nat} (s : S) (x : Nat) (c : List Nat) : Pres o R s (s.setCache x c) :=
  ⟨by simp, fun g _ _ => getF_setCache s x c o g⟩

/-- a write elsewhere, under a root-hook name, or under a private name -/
theorem Pres.write {o : Nat} {R : List Nat} (s : S) (x f v : Nat)
    (h : x ≠ o ∨ R.contains f = true ∨ isPublic f = false) : Pres o R s (s.write x f v) := by
  refine ⟨by simp, ?_⟩
  intro g hp hr
  rw [getF_write]
  have : ¬ (o = x ∧ g = f) := by
    rintro ⟨rfl, rfl⟩
    rcases h with h | h | h
    · exact h rfl
    · rw [hr] at h; cases h
    · rw [hp] at h; cases h
  rw [if_neg this]

theorem Pres.writeOpt {o : Nat} {R : List Nat} (s : S) (x f : Nat) (vo : Option Nat)
    (h : x ≠ o ∨ R.contains f = true ∨ isPublic f = false) : Pres o R s (writeOpt s x f vo) := by
  unfold Heap.writeOpt
  cases vo with
  | none => exact Pres.refl _ _ _
  | some v => exact Pres.write s x f v h

theorem Pres.allocWrite {o : Nat} {R : List Nat} {s : S} (ob : Obj) (x f : Nat) (ho : o < s.h.next)
    (h : x ≠ o ∨ R.contains f = true ∨ isPublic f = false) :
    Pres o R s ((s.alloc ob).1.write x f (s.alloc ob).2) :=
  (Pres.alloc ob ho).trans (Pres.write _ x f _ h)

theorem Pres.lt {o : Nat} {R : List Nat} {s s' : S} (h : Pres o R s s') (ho : o < s.h.next) : o < s'.h.next :=
  Nat.lt_of_lt_of_le ho h.1

theorem outRoots_cs (tag : Nat) : (outRoots tag).contains fCS = true := by unfold outRoots; split <;> rfl
theorem outRoots_cl (tag : Nat) : (outRoots tag).contains fCL = true := by unfold outRoots; split <;> rfl
theorem outRoots_t (tag : Nat) : (outRoots tag).contains fT = true := by unfold outRoots; split <;> rfl
theorem outRoots_tocs {tag : Nat} (h : tag = 1) : (outRoots tag).contains fTOCS = true := by subst h; rfl

theorem outHooks_pres (P : Producers) (s : S) (tag : Nat) (ovr : Bool) (i o : Nat) (cs : List Nat) (roll : Option Nat)
    (ho : o < s.h.next) : Pres o (outRoots tag) s (outHooks P s tag ovr i o cs roll) := by
  unfold outHooks
  -- cross_section
  have a : Pres o (outRoots tag) s (hookCS s tag i o cs) := by
    unfold hookCS
    split
    · exact Pres.allocWrite _ o fCS ho (Or.inr (Or.inl (outRoots_cs tag)))
    · exact Pres.writeOpt _ o fCS _ (Or.inr (Or.inl (outRoots_cs tag)))
  have hoa := a.lt ho
  -- classifiers
  have b : Pres o (outRoots tag) (hookCS s tag i o cs) (hookCL P (hookCS s tag i o cs) tag ovr i o cs roll) := by
    unfold hookCL
    split
    · simp only
      obtain ⟨f1, m1⟩ := runOn_fields P.sym (hookCS s tag i o cs)
        ((roll.bind fun r => getF (hookCS s tag i o cs).h r fGROOVE).bind fun g => getF (hookCS s tag i o cs).h g fCL) o hoa
      obtain ⟨f2, m2⟩ := runOn_fields P.pass (runOn P.sym (hookCS s tag i o cs)
        ((roll.bind fun r => getF (hookCS s tag i o cs).h r fGROOVE).bind fun g => getF (hookCS s tag i o cs).h g fCL)).1
        (runOn P.sym (hookCS s tag i o cs)
        ((roll.bind fun r => getF (hookCS s tag i o cs).h r fGROOVE).bind fun g => getF (hookCS s tag i o cs).h g fCL)).2 o
        (by omega)
      exact ((Pres.of_fields m1 f1).trans (Pres.of_fields m2 f2)).trans
        (Pres.writeOpt _ o fCL _ (Or.inr (Or.inl (outRoots_cl tag))))
    · split
      · simp only
        obtain ⟨f1, m1⟩ := runOn_fields P.rot (hookCS s tag i o cs) (getF (hookCS s tag i o cs).h i fCL) o hoa
        exact (Pres.of_fields m1 f1).trans (Pres.writeOpt _ o fCL _ (Or.inr (Or.inl (outRoots_cl tag))))
      · split
        · exact Pres.allocWrite _ o fCL hoa (Or.inr (Or.inl (outRoots_cl tag)))
        · exact Pres.writeOpt _ o fCL _ (Or.inr (Or.inl (outRoots_cl tag)))
  have hob := b.lt hoa
  have c : Pres o (outRoots tag) (hookCL P (hookCS s tag i o cs) tag ovr i o cs roll)
      (hookT (hookCL P (hookCS s tag i o cs) tag ovr i o cs roll) o) :=
    Pres.allocWrite _ o fT hob (Or.inr (Or.inl (outRoots_t tag)))
  have d : Pres o (outRoots tag) (hookT (hookCL P (hookCS s tag i o cs) tag ovr i o cs roll) o)
      (hookTOCS (hookT (hookCL P (hookCS s tag i o cs) tag ovr i o cs roll) o) tag o) := by
    unfold hookTOCS
    split
    · rename_i h1; exact Pres.writeOpt _ o fTOCS _ (Or.inr (Or.inl (outRoots_tocs h1)))
    · exact Pres.refl _ _ _
  exact a.trans (b.trans (c.trans d))


theorem reCache_pres {o : Nat} {R : List Nat} {s : S} (_ho : o < s.h.next) (x : Nat) : Pres o R s (reCache s x) :=
  Pres.setCache s x _

theorem cacheAdd_pres {o : Nat} {R : List Nat} {s : S} (_ho : o < s.h.next) (x c : Nat) : Pres o R s (cacheAdd s x c) :=
  Pres.setCache s x _

theorem onRoll_pres {o : Nat} {R : List Nat} {s : S} (_ho : o < s.h.next) (g : S → Nat → S) (roll : Option Nat)
    (hg : ∀ r, roll = some r → Pres o R s (g s r)) : Pres o R s (onRoll g s roll) := by
  unfold onRoll
  cases roll with
  | none => exact Pres.refl _ _ _
  | some r => exact hg r rfl

theorem inHooks_pres {o : Nat} {R : List Nat} {s : S} (ho : o < s.h.next) (tag : Nat) {i : Nat} (hoi : i ≠ o) :
    Pres o R s (inHooks s tag i) := by
  unfold inHooks
  split
  · exact Pres.allocWrite _ i fVEL ho (Or.inl hoi)
  · exact Pres.refl _ _ _

theorem unitHooks_pres {o : Nat} {R : List Nat} {s : S} (ho : o < s.h.next) {u : Nat} (hou : u ≠ o) :
    Pres o R s (unitHooks s u) :=
  Pres.allocWrite _ u fRES ho (Or.inl hou)

theorem rollHooks_pres {o : Nat} {R : List Nat} {s : S} (ho : o < s.h.next) (roll : Option Nat)
    (hor : ∀ r, roll = some r → r ≠ o) : Pres o R s (rollHooks s roll) := by
  unfold rollHooks
  cases roll with
  | none => exact Pres.refl _ _ _
  | some r => exact Pres.allocWrite _ r fTORQUE ho (Or.inl (hor r rfl))

theorem cacheHooks_pres {o : Nat} {R : List Nat} {s : S} (ho : o < s.h.next) (u i : Nat) (roll : Option Nat) :
    Pres o R s (cacheHooks s u i o roll) := by
  unfold cacheHooks
  have a := cacheAdd_pres (R := R) ho i cIN
  have b := cacheAdd_pres (R := R) (a.lt ho) o cOUT
  have c := cacheAdd_pres (R := R) (b.lt (a.lt ho)) u cUNIT
  have d := onRoll_pres (R := R) (c.lt (b.lt (a.lt ho))) (fun a r => cacheAdd a r cROLL) roll
    (fun r _ => cacheAdd_pres (c.lt (b.lt (a.lt ho))) r cROLL)
  exact a.trans (b.trans (c.trans d))

/-- sub-solves leave `o` alone when no sub-unit owns it -/
theorem solveChildren_obj {hb : H} {u : Nat} {tr0 : List Eff} (wb : Wf hb) {f : Rec} (hf : RecSpec f) {o : Nat} :
    ∀ (cs : List Nat) (s : S) (p : Nat), Trk hb u tr0 s → p < s.h.next →
      (∀ c ∈ cs, Callee hb u c ∧ c < s.h.next) → o < s.h.next →
      (∀ c ∈ cs, o < hb.next ∧ (c < hb.next → ¬ Owned hb c o)) →
      (solveChildren f cs s p).1.h.obj o = s.h.obj o := by
  intro cs
  induction cs with
  | nil => intro s p _ _ _ _ _; rfl
  | cons c rest ih =>
    intro s p T hp hcs ho hsep
    obtain ⟨hc, hcl⟩ := hcs c List.mem_cons_self
    obtain ⟨st, hr⟩ := T.sub wb hf hc hcl hp
    have sp := hf s c p T.wf hcl hp
    have hno : ¬ Owned s.h c o := by
      intro h
      obtain ⟨hob, hold⟩ := hsep c List.mem_cons_self
      have := owned_of_ext wb T.ext h
      by_cases hcb : c < hb.next
      · rcases this.1 hcb with h' | h'
        · omega
        · exact hold hcb h'
      · have := this.2 (Nat.le_of_not_lt hcb); omega
    have e1 : (f s c p).1.h.obj o = s.h.obj o := sp.trk.frame o ho hno
    have e : solveChildren f (c :: rest) s p = solveChildren f rest (f s c p).1 (f s c p).2 := rfl
    have hrest : ∀ x ∈ rest, Callee hb u x ∧ x < (f s c p).1.h.next := by
      intro x hx
      obtain ⟨h1, h2⟩ := hcs x (List.mem_cons_of_mem _ hx)
      exact ⟨h1, Nat.lt_of_lt_of_le h2 st.mono⟩
    rw [e, ih (f s c p).1 (f s c p).2 st.trk hr hrest (Nat.lt_of_lt_of_le ho st.mono)
      (fun x hx => hsep x (List.mem_cons_of_mem _ hx)), e1]

theorem iterBody_pres {hb : H} {u : Nat} {tr0 : List Eff} (wb : Wf hb) (_hu : u < hb.next) (P : Producers)
    {f : Rec} (hf : RecSpec f) {i o : Nat} {roll : Option Nat} (tag : Nat) (ovr : Bool) {cs : List Nat}
    {s : S} (T : Trk hb u tr0 s) (L : Locals hb u i o roll cs s) (hoi : i ≠ o) (hou : u ≠ o)
    (hor : ∀ r, roll = some r → r ≠ o) (hsep : ∀ c ∈ cs, o < hb.next ∧ (c < hb.next → ¬ Owned hb c o)) :
    Pres o (outRoots tag) s (iterBody P f u i o roll tag ovr cs s) := by
  unfold iterBody
  have ho := L.ho.2
  have z := reCache_spec T (Or.inl L.hi.1) L.hi.2
  have Lz := L.mono z.mono
  have pz := reCache_pres (R := outRoots tag) ho i
  have hoz := pz.lt ho
  obtain ⟨a, _⟩ := solveChildren_spec wb hf cs _ i z.trk Lz.hi.2 Lz.hc
  have pa : Pres o (outRoots tag) (reCache s i) (solveChildren f cs (reCache s i) i).1 :=
    Pres.of_fields a.mono (by rw [solveChildren_obj wb hf cs _ i z.trk Lz.hi.2 Lz.hc hoz hsep])
  have hoa := pa.lt hoz
  have p1 := reCache_pres (R := outRoots tag) hoa u
  have ho1 := p1.lt hoa
  have p2 := onRoll_pres (R := outRoots tag) ho1 reCache roll (fun r _ => reCache_pres ho1 r)
  have ho2 := p2.lt ho1
  have p3 := reCache_pres (R := outRoots tag) ho2 o
  have ho3 := p3.lt ho2
  have pb := inHooks_pres (R := outRoots tag) ho3 tag hoi
  have hob := pb.lt ho3
  have pc := outHooks_pres P _ tag ovr i o cs roll hob
  have hoc := pc.lt hob
  have pd := unitHooks_pres (R := outRoots tag) hoc hou
  have hod := pd.lt hoc
  have pe := rollHooks_pres (R := outRoots tag) hod roll hor
  have hoe := pe.lt hod
  have pg := cacheHooks_pres (R := outRoots tag) hoe u i roll
  exact pz.trans (pa.trans (p1.trans (p2.trans (p3.trans (pb.trans (pc.trans (pd.trans (pe.trans pg))))))))

theorem iterN_pres {hb : H} {u : Nat} {tr0 : List Eff} {i o : Nat} {roll : Option Nat} {cs : List Nat} (R : List Nat)
    (g : S → S) (hg : ∀ s, Trk hb u tr0 s → Locals hb u i o roll cs s → Step hb u tr0 s (g s) ∧ Pres o R s (g s)) :
    ∀ (k : Nat) (s : S), Trk hb u tr0 s → Locals hb u i o roll cs s → Pres o R s (iterN k g s) := by
  intro k
  induction k with
  | zero => intro s _ _; exact Pres.refl _ _ _
  | succ k ih =>
    intro s T L
    obtain ⟨a, pa⟩ := hg s T L
    exact pa.trans (ih (g s) a.trk (L.mono a.mono))

/-! ### `init_solve` and the entries of existing objects -/

theorem fields_setCache (s : S) (o : Nat) (c : List Nat) (x : Nat) :
    ((s.setCache o c).h.obj x).fields = (s.h.obj x).fields := by
  rw [setCache_obj]; split
  · rename_i h; subst h; rfl
  · rfl

theorem mkDisks_fields (p : Nat) : ∀ (n : Nat) (s : S) (x : Nat), x < s.h.next →
    ((mkDisks n s p).1.h.obj x).fields = (s.h.obj x).fields ∧ s.h.next ≤ (mkDisks n s p).1.h.next := by
  intro n
  induction n with
  | zero => intro s x _; exact ⟨rfl, Nat.le_refl _⟩
  | succ n ih =>
    intro s x hx
    simp only [mkDisks, alloc_id, alloc_next]
    obtain ⟨h1, h2⟩ := ih (((s.alloc { kind := .unit, tag := 5, weak := some p }).1.alloc
      { kind := .subList, weak := some s.h.next }).1.write s.h.next fSUB (s.h.next + 1)) x
      (by simp only [write_next, alloc_next]; omega)
    refine ⟨?_, ?_⟩
    · rw [h1, write_obj]
      have : x ≠ s.h.next := by omega
      simp only [this, if_false]
      rw [fields_alloc (by simp only [alloc_next]; omega), fields_alloc hx]
    · simp only [write_next, alloc_next] at h2; omega

theorem ensureDisks_pres {o : Nat} {R : List Nat} {s : S} (ho : o < s.h.next) (u : Nat) (ob : Obj) :
    Pres o R s (ensureDisks s u ob) := by
  unfold ensureDisks
  split
  · simp only
    obtain ⟨h1, h2⟩ := mkDisks_fields u ob.disks s o ho
    have a : Pres o R s (mkDisks ob.disks s u).1 := Pres.of_fields h2 h1
    exact a.trans (Pres.allocWrite _ u fSUB (a.lt ho) (Or.inr (Or.inr (by decide))))
  · exact Pres.refl _ _ _

theorem passInit_pres {o : Nat} {s : S} (ho : o < s.h.next) (tag : Nat) (ob : Obj) :
    Pres o (outRoots tag) s (passInit s ob o) := by
  unfold passInit
  split
  · exact Pres.allocWrite _ o fCS ho (Or.inr (Or.inl (outRoots_cs tag)))
  · exact Pres.refl _ _ _

/-- what a solve of the throw-away rotator of a pass's pre-processor returns: under every public name that is not a
root hook of its out-profile, what the incoming profile has -/
def RotSpec (f : Rec) : Prop :=
  ∀ s r p, Wf s.h → r < s.h.next → p < s.h.next → (s.h.obj r).tag = 4 → getF s.h r fOUT = none →
    subItems s.h r = [] → ∀ g, isPublic g = true → (outRoots 4).contains g = false →
      getF (f s r p).1.h (f s r p).2 g = getF s.h p g

/-- the rotator pre-processor: existing objects keep their entries; the profile it returns has the incoming profile's
entries outside the root hooks -/
theorem runRotator_facts {f : Rec} (hf : RecSpec f) (hrot : RotSpec f) {s : S} {u p : Nat} (w : Wf s.h)
    (hu : u < s.h.next) (hp : p < s.h.next) :
    (∀ x, x < s.h.next → (runRotator f s u p).1.h.obj x = s.h.obj x) ∧
    (∀ g, isPublic g = true → (outRoots 4).contains g = false →
      getF (runRotator f s u p).1.h (runRotator f s u p).2 g = getF s.h p g) := by
  unfold runRotator
  simp only [alloc_id, alloc_next]
  have T := Trk.refl w u
  have T1 : Trk s.h u s.tr (s.alloc { kind := .unit, tag := 4, weak := some u }).1 := by
    apply T.allocPlain
    · intro v hv; simp [Obj.ptrs] at hv; omega
    · intro g v h; simp [List.lookup] at h
    · rfl
  have T2 : Trk s.h u s.tr
      ((s.alloc { kind := .unit, tag := 4, weak := some u }).1.alloc { kind := .subList, weak := some s.h.next }).1 := by
    apply T1.allocPlain
    · intro v hv; simp [Obj.ptrs] at hv; simp only [alloc_next]; omega
    · intro g v h; simp [List.lookup] at h
    · rfl
  have T3 := T2.write (o := s.h.next) (f := fSUB) (v := s.h.next + 1) (Or.inl (Nat.le_refl _))
    (by simp only [alloc_next]; omega) (by simp only [alloc_next]; omega) (fun _ => by omega)
    (by intro _ _; simp [alloc_obj, ownKind, fSUB, fOUT, fROLL])
  have sp := hf _ s.h.next p T3.wf (by simp only [write_next, alloc_next]; omega)
    (by simp only [write_next, alloc_next]; omega)
  have hold : ∀ x, x < s.h.next →
      (((s.alloc { kind := .unit, tag := 4, weak := some u }).1.alloc { kind := .subList, weak := some s.h.next }).1.write
        s.h.next fSUB (s.h.next + 1)).h.obj x = s.h.obj x := by
    intro x hx
    have h1 : x ≠ s.h.next := by omega
    have h2 : x ≠ s.h.next + 1 := by omega
    simp [write_obj, alloc_obj, h1, h2]
  refine ⟨?_, ?_⟩
  · intro x hx
    rw [sp.trk.frame x (by simp only [write_next, alloc_next]; omega) ?_, hold x hx]
    intro h
    have := (owned_of_ext w T3.ext h).2 (Nat.le_refl _)
    omega
  · intro g hpub hnr
    rw [hrot _ s.h.next p T3.wf (by simp only [write_next, alloc_next]; omega)
      (by simp only [write_next, alloc_next]; omega) (by simp [write_obj, alloc_obj])
      (by simp [getF, write_obj, alloc_obj, setF]; decide)
      (by simp [subItems, getF, write_obj, alloc_obj, setF]) g hpub hnr]
    unfold getF; rw [hold p hp]

theorem outRoots_base {tag g : Nat} (h : (outRoots tag).contains g = false) : (outRoots 4).contains g = false := by
  unfold outRoots at h ⊢
  split at h
  · simp only [List.contains_cons, List.contains_nil, Bool.or_false, Bool.or_eq_false_iff] at h
    simp only [beq_eq_false_iff_ne, ne_eq] at h
    simp [h.1, h.2.1, h.2.2.1]
  · simpa using h

theorem preProcess_facts {f : Rec} (hf : RecSpec f) (hrot : RotSpec f) {s : S} {u p : Nat} (w : Wf s.h)
    (hu : u < s.h.next) (hp : p < s.h.next) :
    (∀ x, x < s.h.next → ((preProcess f s u p).1.h.obj x).fields = (s.h.obj x).fields) ∧
    (∀ g, isPublic g = true → (outRoots 4).contains g = false →
      getF (preProcess f s u p).1.h (preProcess f s u p).2 g = getF s.h p g) := by
  unfold preProcess
  simp only
  split
  · split
    · obtain ⟨h1, h2⟩ := runRotator_facts hf hrot (s := s.setCache u ((s.h.obj u).cache.filter (· != cROT))) (u := u) (p := p)
        (w.setCache hu) (by simpa using hu) (by simpa using hp)
      refine ⟨?_, ?_⟩
      · intro x hx; rw [h1 x (by simpa using hx), fields_setCache]
      · intro g hpub hnr; rw [h2 g hpub hnr, getF_setCache]
    · exact ⟨fun x _ => fields_setCache _ _ _ _, fun g _ _ => getF_setCache _ _ _ _ _⟩
  · exact ⟨fun _ _ => rfl, fun _ _ _ => rfl⟩

/-! ### the loop and the returned profile -/

theorem final_getF (F : S) (o g : Nat) (ho : o < F.h.next) (hpub : isPublic g = true) :
    getF (F.alloc (profCopy F.h .profile none o)).1.h o g = getF F.h o g ∧
    getF (F.alloc (profCopy F.h .profile none o)).1.h (F.alloc (profCopy F.h .profile none o)).2 g = getF F.h o g := by
  refine ⟨?_, ?_⟩
  · rw [getF_alloc]; have : o ≠ F.h.next := by omega
    simp only [this, if_false]
  · rw [getF_alloc]; simp only [alloc_id, if_true]
    exact getF_pubFields hpub

/-- `solve` after `init_solve`: when the in-profile, the unit and the pass roll are other objects than the out-profile
`o` and no sub-unit owns `o`, the loop leaves the entries of `o` outside the root hooks as `init_solve` left them, and
the returned profile has them too -/
theorem solveBody_out (P : Producers) (hP : P.Safe) {f : Rec} (hf : RecSpec f) (s : S) (u p : Nat) (w : Wf s.h)
    (hu : u < s.h.next) (hp : p < s.h.next)
    (hoi : (initSolve P.reuse f s.popIt.2 u p).2.1 ≠ (initSolve P.reuse f s.popIt.2 u p).2.2)
    (hou : u ≠ (initSolve P.reuse f s.popIt.2 u p).2.2)
    (hor : (s.popIt.2.h.obj u).tag = 1 → ∀ r, getF (initSolve P.reuse f s.popIt.2 u p).1.h u fROLL = some r →
      r ≠ (initSolve P.reuse f s.popIt.2 u p).2.2)
    (hsep : ∀ c ∈ subItems (initSolve P.reuse f s.popIt.2 u p).1.h u,
      (initSolve P.reuse f s.popIt.2 u p).2.2 < s.h.next ∧
        (c < s.h.next → ¬ Owned s.h c (initSolve P.reuse f s.popIt.2 u p).2.2))
    (g : Nat) (hpub : isPublic g = true) (hnr : (outRoots (s.popIt.2.h.obj u).tag).contains g = false) :
    getF (solveBody P f s u p).1.h (initSolve P.reuse f s.popIt.2 u p).2.2 g =
      getF (initSolve P.reuse f s.popIt.2 u p).1.h (initSolve P.reuse f s.popIt.2 u p).2.2 g ∧
    getF (solveBody P f s u p).1.h (solveBody P f s u p).2 g =
      getF (initSolve P.reuse f s.popIt.2 u p).1.h (initSolve P.reuse f s.popIt.2 u p).2.2 g := by
  have T0 : Trk s.h u s.tr s.popIt.2 := by
    have := Trk.refl (s := s.popIt.2) (by rw [popIt_h]; exact w) u
    rw [popIt_h, popIt_tr] at this; exact this
  obtain ⟨a, hi, ho⟩ := initSolve_spec w hu P.reuse hf T0 (by rw [popIt_h]; exact hp)
  have L : Locals s.h u (initSolve P.reuse f s.popIt.2 u p).2.1 (initSolve P.reuse f s.popIt.2 u p).2.2
      (if (s.popIt.2.h.obj u).tag = 1 then getF (initSolve P.reuse f s.popIt.2 u p).1.h u fROLL else none)
      (subItems (initSolve P.reuse f s.popIt.2 u p).1.h u) (initSolve P.reuse f s.popIt.2 u p).1 := by
    refine ⟨hi, ho, ?_, ?_⟩
    · intro r hr
      split at hr
      · exact ⟨a.trk.ownTarget hu (by decide) hr, a.trk.wf.getF_lt hr⟩
      · cases hr
    · intro c hc
      unfold subItems at hc
      split at hc
      · rename_i l hl
        exact a.trk.children w hu hl hc
      · cases hc
  have hor' : ∀ r, (if (s.popIt.2.h.obj u).tag = 1 then getF (initSolve P.reuse f s.popIt.2 u p).1.h u fROLL else none)
      = some r → r ≠ (initSolve P.reuse f s.popIt.2 u p).2.2 := by
    intro r hr
    split at hr
    · rename_i h1; exact hor h1 r hr
    · cases hr
  have b := iterN_pres (hb := s.h) (u := u) (tr0 := s.tr) (outRoots (s.popIt.2.h.obj u).tag) _
    (fun s' T' L' => ⟨iterBody_spec w hu P hP hf (s.popIt.2.h.obj u).tag (s.popIt.2.h.obj u).ovr T' L',
      iterBody_pres w hu P hf (s.popIt.2.h.obj u).tag (s.popIt.2.h.obj u).ovr T' L' hoi hou hor' hsep⟩)
    s.popIt.1 _ a.trk L
  have e : solveBody P f s u p =
      (iterN s.popIt.1 (iterBody P f u (initSolve P.reuse f s.popIt.2 u p).2.1 (initSolve P.reuse f s.popIt.2 u p).2.2
          (if (s.popIt.2.h.obj u).tag = 1 then getF (initSolve P.reuse f s.popIt.2 u p).1.h u fROLL else none)
          (s.popIt.2.h.obj u).tag (s.popIt.2.h.obj u).ovr (subItems (initSolve P.reuse f s.popIt.2 u p).1.h u))
        (initSolve P.reuse f s.popIt.2 u p).1).alloc
        (profCopy (iterN s.popIt.1 (iterBody P f u (initSolve P.reuse f s.popIt.2 u p).2.1 (initSolve P.reuse f s.popIt.2 u p).2.2
          (if (s.popIt.2.h.obj u).tag = 1 then getF (initSolve P.reuse f s.popIt.2 u p).1.h u fROLL else none)
          (s.popIt.2.h.obj u).tag (s.popIt.2.h.obj u).ovr (subItems (initSolve P.reuse f s.popIt.2 u p).1.h u))
        (initSolve P.reuse f s.popIt.2 u p).1).h .profile none (initSolve P.reuse f s.popIt.2 u p).2.2) := rfl
  rw [e]
  obtain ⟨f1, f2⟩ := final_getF _ (initSolve P.reuse f s.popIt.2 u p).2.2 g (b.lt ho.2) hpub
  rw [f1, f2, b.2 g hpub hnr]
  exact ⟨rfl, rfl⟩

/-! ### `init_solve`, the two cases needed: a unit solved before (form `handOver`), the fresh throw-away rotator -/

theorem delOutdated_next (roots : List Nat) (handed : List (Nat × Nat)) (o : Nat) :
    ∀ (fs : List (Nat × Nat)) (s : S), (delOutdated roots handed o fs s).h.next = s.h.next := by
  intro fs
  induction fs with
  | nil => intro s; rfl
  | cons e r ih => intro s; simp only [delOutdated]; rw [ih]; split <;> rfl

theorem handOver_next (roots : List Nat) (handed : List (Nat × Nat)) (o : Nat) :
    ∀ (l : List (Nat × Nat)) (s : S), (handOver roots handed o l s).h.next = s.h.next := by
  intro l
  induction l with
  | nil => intro s; rfl
  | cons e r ih => intro s; simp only [handOver]; rw [ih]; split <;> rfl

theorem reuseOut_next (tag : Nat) (s : S) (o p1 : Nat) : (reuseOut tag s o p1).h.next = s.h.next := by
  unfold reuseOut; simp only; rw [handOver_next, delOutdated_next]

theorem ensureOut_reuse_eq (tag : Nat) (s : S) (u p1 o : Nat) (ho : getF s.h u fOUT = some o) :
    ensureOut .handOver tag s u p1 = (reuseOut tag s o p1, o) := by
  unfold ensureOut
  rw [ho]

theorem ensureOut_create_eq (rf : Reuse) (tag : Nat) (s : S) (u p1 : Nat) (ho : getF s.h u fOUT = none) :
    ensureOut rf tag s u p1 =
      ((s.alloc (profCopy s.h .outProfile (some u) p1)).1.write u fOUT s.h.next, s.h.next) := by
  unfold ensureOut
  rw [ho]
  rfl

theorem storeIn_facts (s : S) (u p1 : Nat) :
    (storeIn s u p1).2 = s.h.next ∧ (storeIn s u p1).1.h.next = s.h.next + 1 ∧
    (∀ x g, x < s.h.next → g ≠ fIN → getF (storeIn s u p1).1.h x g = getF s.h x g) ∧
    (∀ x, x < s.h.next → ((storeIn s u p1).1.h.obj x).items = (s.h.obj x).items) := by
  unfold storeIn
  simp only [alloc_id]
  refine ⟨by simp, by simp, ?_, ?_⟩
  · intro x g hx hg
    rw [getF_write]
    have : ¬ (x = u ∧ g = fIN) := fun h => hg h.2
    rw [if_neg this, getF_alloc]
    have : x ≠ s.h.next := by omega
    simp only [this, if_false]
  · intro x hx
    rw [items_write, alloc_obj]
    have : x ≠ s.h.next := by omega
    simp only [this, if_false]

/-- `init_solve` (form `handOver`) of a unit that has an out-profile `o`: `o` is used again, the in-profile is a new
object, and `o` has under every public name outside the root hooks what the caller's profile `p` has -/
theorem initSolve_reuse {f : Rec} (hf : RecSpec f) (hrot : RotSpec f) {s : S} {u p o : Nat} (w : Wf s.h)
    (hu : u < s.h.next) (hp : p < s.h.next) (ho : getF s.h u fOUT = some o) :
    (initSolve .handOver f s u p).2.2 = o ∧ s.h.next ≤ (initSolve .handOver f s u p).2.1 ∧
    ∀ g, isPublic g = true → (outRoots (s.h.obj u).tag).contains g = false →
      getF (initSolve .handOver f s u p).1.h o g = getF s.h p g := by
  obtain ⟨pf1, pf2⟩ := preProcess_facts hf hrot w hu hp
  obtain ⟨pst, pret⟩ := preProcess_spec w hf (Trk.refl w u) hu hp
  have hle := pst.mono
  obtain ⟨si, sn, sg, _⟩ := storeIn_facts (preProcess f s u p).1 u (preProcess f s u p).2
  have hout : getF (storeIn (preProcess f s u p).1 u (preProcess f s u p).2).1.h u fOUT = some o := by
    rw [sg u fOUT (by omega) (by decide)]
    unfold getF; rw [pf1 u hu]; exact ho
  have hol : o < s.h.next := w.getF_lt ho
  have E := ensureOut_reuse_eq (s.h.obj u).tag _ u (preProcess f s u p).2 o hout
  have E1 : (initSolve .handOver f s u p).2.2 =
      (ensureOut .handOver (s.h.obj u).tag (storeIn (preProcess f s u p).1 u (preProcess f s u p).2).1 u
        (preProcess f s u p).2).2 := rfl
  have E2 : (initSolve .handOver f s u p).1 =
      passInit (ensureDisks (ensureOut .handOver (s.h.obj u).tag (storeIn (preProcess f s u p).1 u (preProcess f s u p).2).1 u
        (preProcess f s u p).2).1 u (s.h.obj u)) (s.h.obj u)
        (ensureOut .handOver (s.h.obj u).tag (storeIn (preProcess f s u p).1 u (preProcess f s u p).2).1 u
        (preProcess f s u p).2).2 := rfl
  have E3 : (initSolve .handOver f s u p).2.1 = (storeIn (preProcess f s u p).1 u (preProcess f s u p).2).2 := rfl
  refine ⟨by rw [E1, E], by rw [E3, si]; exact hle, ?_⟩
  intro g hpub hnr
  rw [E2, E]
  simp only
  have ho3 : o < (reuseOut (s.h.obj u).tag (storeIn (preProcess f s u p).1 u (preProcess f s u p).2).1 o
      (preProcess f s u p).2).h.next := by rw [reuseOut_next, sn]; omega
  have d := ensureDisks_pres (R := outRoots (s.h.obj u).tag) ho3 u (s.h.obj u)
  have e := passInit_pres (d.lt ho3) (s.h.obj u).tag (s.h.obj u)
  rw [e.2 g hpub hnr, d.2 g hpub hnr, reuseOut_getF _ _ _ _ g hpub hnr,
    sg _ g pret (by intro h; subst h; revert hpub; decide), pf2 g hpub (outRoots_base hnr)]

/-- `init_solve` of a unit without out-profile, without pre-processor, disk elements and roll (a rotator): in-profile
and out-profile are the next two objects, the out-profile is a public copy of the caller's profile -/
theorem initSolve_fresh (rf : Reuse) (f : Rec) {s : S} {r p : Nat} (w : Wf s.h) (hr : r < s.h.next) (hp : p < s.h.next)
    (ht : (s.h.obj r).tag = 4) (hno : getF s.h r fOUT = none) :
    (initSolve rf f s r p).2.1 = s.h.next ∧ (initSolve rf f s r p).2.2 = s.h.next + 1 ∧
    subItems (initSolve rf f s r p).1.h r = subItems s.h r ∧
    ∀ g, isPublic g = true → getF (initSolve rf f s r p).1.h (s.h.next + 1) g = getF s.h p g := by
  have hpre : preProcess f s r p = (s, p) := by
    unfold preProcess; simp [ht]
  obtain ⟨si, sn, sg, sit⟩ := storeIn_facts s r p
  have hout : getF (storeIn s r p).1.h r fOUT = none := by rw [sg r fOUT hr (by decide)]; exact hno
  have E := ensureOut_create_eq rf (s.h.obj r).tag (storeIn s r p).1 r p hout
  have hd : ∀ s', ensureDisks s' r (s.h.obj r) = s' := by
    intro s'; unfold ensureDisks; simp [ht]
  have hpi : ∀ s' o, passInit s' (s.h.obj r) o = s' := by
    intro s' o; unfold passInit; simp [ht]
  have E1 : (initSolve rf f s r p).2.2 =
      (ensureOut rf (s.h.obj r).tag (storeIn (preProcess f s r p).1 r (preProcess f s r p).2).1 r
        (preProcess f s r p).2).2 := rfl
  have E2 : (initSolve rf f s r p).1 =
      passInit (ensureDisks (ensureOut rf (s.h.obj r).tag (storeIn (preProcess f s r p).1 r (preProcess f s r p).2).1 r
        (preProcess f s r p).2).1 r (s.h.obj r)) (s.h.obj r)
        (ensureOut rf (s.h.obj r).tag (storeIn (preProcess f s r p).1 r (preProcess f s r p).2).1 r
        (preProcess f s r p).2).2 := rfl
  have E3 : (initSolve rf f s r p).2.1 = (storeIn (preProcess f s r p).1 r (preProcess f s r p).2).2 := rfl
  rw [hpre] at E1 E2 E3
  simp only at E1 E2 E3
  rw [hpi, hd, E] at E2
  rw [E] at E1
  simp only at E1 E2
  refine ⟨by rw [E3, si], by rw [E1, sn], ?_, ?_⟩
  · rw [E2]
    unfold subItems
    have e1 : getF (((storeIn s r p).1.alloc (profCopy (storeIn s r p).1.h Kind.outProfile (some r) p)).1.write r fOUT
        (storeIn s r p).1.h.next).h r fSUB = getF s.h r fSUB := by
      rw [getF_write]
      have hne : fSUB ≠ fOUT := by decide
      have : ¬ (r = r ∧ fSUB = fOUT) := fun h => hne h.2
      rw [if_neg this, getF_alloc]
      have : r ≠ (storeIn s r p).1.h.next := by omega
      simp only [this, if_false]
      exact sg r fSUB hr (by decide)
    rw [e1]
    cases hl : getF s.h r fSUB with
    | none => rfl
    | some l =>
      simp only
      have hl' : l < s.h.next := w.getF_lt hl
      rw [items_write, alloc_obj]
      have : l ≠ (storeIn s r p).1.h.next := by omega
      simp only [this, if_false]
      exact sit l hl'
  · intro g hpub
    rw [E2, getF_write]
    have : ¬ (s.h.next + 1 = r ∧ g = fOUT) := by intro h; omega
    rw [if_neg this, getF_alloc, sn]
    simp only [if_true]
    show List.lookup g (pubFields (storeIn s r p).1.h p) = _
    rw [getF_pubFields hpub]
    exact sg p g hp (by intro h; subst h; revert hpub; decide)

theorem rotSpec_solveU (P : Producers) (hP : P.Safe) : ∀ fuel, RotSpec (solveU P fuel) := by
  intro fuel s r p w hr hp ht hno hsub g hpub hnr
  cases fuel with
  | zero =>
    show getF (s.alloc (profCopy s.h .profile none p)).1.h (s.alloc (profCopy s.h .profile none p)).2 g = _
    rw [getF_alloc]; simp only [alloc_id, if_true]; exact getF_pubFields hpub
  | succ fuel =>
    show getF (solveBody P (solveU P fuel) s r p).1.h (solveBody P (solveU P fuel) s r p).2 g = _
    have hf := solveU_spec P hP fuel
    obtain ⟨i1, i2, i3, i4⟩ := initSolve_fresh P.reuse (solveU P fuel) (s := s.popIt.2) (r := r) (p := p)
      (by rw [popIt_h]; exact w) (by rw [popIt_h]; exact hr) (by rw [popIt_h]; exact hp)
      (by rw [popIt_h]; exact ht) (by rw [popIt_h]; exact hno)
    rw [popIt_h] at i1 i2 i3 i4
    have q := (solveBody_out P hP hf s r p w hr hp (by rw [i1, i2]; omega) (by rw [i2]; omega)
      (by intro h1; rw [popIt_h, ht] at h1; omega) (by rw [i3, hsub]; intro c hc; cases hc) g hpub
      (by rw [popIt_h, ht]; exact hnr)).2
    rw [q, i2, i4 g hpub]

/-- a unit that was solved before is solved again (form `handOver`): under every public name that is not a root hook
its out-profile `o` - and the profile returned - has what the caller's profile `p` of THIS solve has -/
theorem solveBody_reuse_current (P : Producers) (hP : P.Safe) (hre : P.reuse = .handOver) {f : Rec} (hf : RecSpec f)
    (hrot : RotSpec f) (s : S) (u p o : Nat) (gd : Good s) (hu : u < s.h.next) (hp : p < s.h.next)
    (hk : (s.h.obj u).kind = .unit) (ho : getF s.h u fOUT = some o)
    (hsep : ∀ l c, getF s.h u fSUB = some l → c ∈ (s.h.obj l).items → ¬ Owned s.h c o)
    (g : Nat) (hpub : isPublic g = true) (hnr : (outRoots (s.h.obj u).tag).contains g = false) :
    getF (solveBody P f s u p).1.h o g = getF s.h p g ∧
    getF (solveBody P f s u p).1.h (solveBody P f s u p).2 g = getF s.h p g := by
  have w := gd.wf
  have T0 : Trk s.h u s.tr s.popIt.2 := by
    have := Trk.refl (s := s.popIt.2) (by rw [popIt_h]; exact w) u
    rw [popIt_h, popIt_tr] at this; exact this
  obtain ⟨a, _, _⟩ := initSolve_spec w hu .handOver hf T0 (by rw [popIt_h]; exact hp)
  obtain ⟨r1, r2, r3⟩ := initSolve_reuse hf hrot (s := s.popIt.2) (u := u) (p := p) (o := o)
    (by rw [popIt_h]; exact w) (by rw [popIt_h]; exact hu) (by rw [popIt_h]; exact hp) (by rw [popIt_h]; exact ho)
  rw [popIt_h] at r2 r3
  have hol : o < s.h.next := w.getF_lt ho
  have ko : (s.h.obj o).kind = .outProfile := by
    have := gd.typed.own u fOUT o (by decide) ho
    simpa [ownKind] using this
  have h := solveBody_out P hP hf s u p w hu hp
  rw [hre, r1] at h
  obtain ⟨q1, q2⟩ := h (by omega) (by intro e; subst e; rw [hk] at ko; cases ko)
    (by
      intro _ r hr
      rcases a.trk.ext.oldOwn u fROLL r hu (by decide) hr with h' | h'
      · intro e; subst e
        have := gd.typed.own u fROLL r (by decide) h'
        rw [ko] at this; simp [ownKind, fROLL, fOUT] at this
      · omega)
    (by
      intro c hc
      refine ⟨hol, fun hcl => ?_⟩
      unfold subItems at hc
      split at hc
      · rename_i l hl
        rcases a.trk.ext.oldOwn u fSUB l hu (by decide) hl with h' | h'
        · have hl' := w.getF_lt h'
          rw [a.trk.ext.oldItems l hl'] at hc
          exact hsep l c h' hc
        · have := a.trk.ext.newItems l c h' hc; omega
      · cases hc)
    g hpub (by rw [popIt_h]; exact hnr)
  rw [q1, q2, r3 g hpub hnr]
  exact ⟨rfl, rfl⟩

theorem solveU_reuse_current (P : Producers) (hP : P.Safe) (hre : P.reuse = .handOver) (fuel : Nat) (s : S)
    (u p o : Nat) (gd : Good s) (hu : u < s.h.next) (hp : p < s.h.next) (hk : (s.h.obj u).kind = .unit)
    (ho : getF s.h u fOUT = some o)
    (hsep : ∀ l c, getF s.h u fSUB = some l → c ∈ (s.h.obj l).items → ¬ Owned s.h c o)
    (g : Nat) (hpub : isPublic g = true) (hnr : (outRoots (s.h.obj u).tag).contains g = false) :
    getF (solveU P (fuel + 1) s u p).1.h o g = getF s.h p g ∧
    getF (solveU P (fuel + 1) s u p).1.h (solveU P (fuel + 1) s u p).2 g = getF s.h p g :=
  solveBody_reuse_current P hP hre (solveU_spec P hP fuel) (rotSpec_solveU P hP fuel) s u p o gd hu hp hk ho hsep g hpub hnr

end Heap
