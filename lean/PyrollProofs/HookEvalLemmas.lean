import PyrollModel.HookEval

/-!
  C01 helper lemmas about `ev` (the model of `Hook.get_result` / `HookFunction.__call__`): on a chain
  `wrappers ++ plain implementations` whose wrappers follow the protocol, the evaluation is `specM`.
-/

namespace Hooks

theorem foldW_cons (w : HF) (ws : List HF) (v : Option Nat) :
    foldW (w :: ws) v = if w.body = .decline then foldW ws v else wapply w.body (foldW ws v) := by
  by_cases h : w.body = .decline <;> simp [foldW, h]

theorem specM_val (ps : List HF) : ∀ (ws pre : List HF), (specM ps pre ws).1 = foldW ws (firstSome ps) := by
  intro ws
  induction ws with
  | nil => intro pre; simp [specM, foldW, firstSome]
  | cons w ws ih =>
    intro pre
    rw [foldW_cons]
    by_cases h : w.body = .decline <;> simp [specM, h, ih]

/-- plain implementations: consulted in order up to the first result that is not `None` -/
theorem ev_plain (chainOf : Cls → List HF) (full : List HF) (i depth : Nat) (act : List (Nat × Nat)) :
    ∀ (ps : List HF) (fuel : Nat) (tr : List Ev), (∀ p ∈ ps, p.wrapper = false) →
      (depth ≠ 0 ∨ ∀ p ∈ ps, ∀ c, p.body ≠ .delegate c) → ps.length + 1 ≤ fuel →
      ev chainOf fuel full ps i depth act tr = ((plainSpec ps).1, tr ++ (plainSpec ps).2) := by
  intro ps
  induction ps with
  | nil =>
    intro fuel tr _ _ hf
    obtain ⟨f, rfl⟩ : ∃ f, fuel = f + 1 := ⟨fuel - 1, by omega⟩
    simp [ev, plainSpec]
  | cons p ps ih =>
    intro fuel tr hp hd hf
    obtain ⟨f, rfl⟩ : ∃ f, fuel = f + 1 := ⟨fuel - 1, by omega⟩
    have hw : p.wrapper = false := hp p (by simp)
    have hp' : ∀ q ∈ ps, q.wrapper = false := fun q hq => hp q (by simp [hq])
    have hd' : depth ≠ 0 ∨ ∀ q ∈ ps, ∀ c, q.body ≠ .delegate c := by
      rcases hd with hd | hd
      · exact Or.inl hd
      · exact Or.inr fun q hq => hd q (by simp [hq])
    have hf' : ps.length + 1 ≤ f := by simp at hf; omega
    have hrec := fun tr' => ih f tr' hp' hd' hf'
    cases hb : p.body with
    | ret v =>
      cases v with
      | none => simp [ev, hw, hb, plainSpec, hrec]
      | some x => simp [ev, hw, hb, plainSpec]
    | delegate c =>
      rcases hd with hd | hd
      · simp [ev, hw, hb, plainSpec, hd, hrec]
      · exact absurd hb (hd p (by simp) c)
    | wrap k d => simp [ev, hw, hb, plainSpec, hrec]
    | decline => simp [ev, hw, hb, plainSpec, hrec]

/-- wrappers that are passed over: the active ones are cycled, the declining ones decline -/
def SkipOk (i : Nat) (act : List (Nat × Nat)) (pre : List HF) : Prop :=
  ∀ h ∈ pre, h.wrapper = true ∧ (h.body = .decline → (h.id, i) ∉ act) ∧ (h.body ≠ .decline → (h.id, i) ∈ act)

theorem ev_skip (chainOf : Cls → List HF) (full : List HF) (i depth : Nat) (act : List (Nat × Nat)) :
    ∀ (pre : List HF) (n : Nat) (rest : List HF) (tr : List Ev), SkipOk i act pre →
      ev chainOf (pre.length + n) full (pre ++ rest) i depth act tr =
        ev chainOf n full rest i depth act (tr ++ pre.map skipEv) := by
  intro pre
  induction pre with
  | nil => intro n rest tr _; simp
  | cons h pre ih =>
    intro n rest tr hs
    obtain ⟨hw, hdecl, hact⟩ := hs h (by simp)
    have hs' : SkipOk i act pre := fun x hx => hs x (by simp [hx])
    have hlen : (h :: pre).length + n = (pre.length + n) + 1 := by simp; omega
    rw [hlen, List.cons_append]
    by_cases hb : h.body = .decline
    · have hna := hdecl hb
      simp only [ev, hw, if_true, hna, if_false, hb]
      rw [ih n rest _ hs']
      simp [skipEv, hb]
    · have ha := hact hb
      simp only [ev, hw, if_true, ha]
      rw [ih n rest _ hs']
      simp [skipEv, hb]

theorem needM_pos (ps : List HF) (pre ws : List HF) : 1 ≤ needM ps pre ws := by
  cases ws with
  | nil => simp [needM]
  | cons w ws => by_cases h : w.body = .decline <;> simp [needM, h] <;> omega

/-- the evaluation of a chain `wrappers ++ plain` under the protocol -/
theorem ev_wrappers (chainOf : Cls → List HF) (ps : List HF) (i depth : Nat)
    (hp : ∀ p ∈ ps, p.wrapper = false) (hd : depth ≠ 0 ∨ ∀ p ∈ ps, ∀ c, p.body ≠ .delegate c) :
    ∀ (ws pre : List HF) (fuel : Nat) (act : List (Nat × Nat)) (tr : List Ev),
      (∀ w ∈ ws, w.wrapper = true) → SkipOk i act pre →
      ((pre ++ ws).map (·.id)).Nodup →
      (∀ w ∈ ws, (w.id, i) ∉ act) →
      coop (firstSome ps) ws = true →
      needM ps pre ws ≤ fuel →
      ev chainOf fuel (pre ++ ws ++ ps) (ws ++ ps) i depth act tr =
        ((specM ps pre ws).1, tr ++ (specM ps pre ws).2) := by
  intro ws
  induction ws with
  | nil =>
    intro pre fuel act tr _ _ _ _ _ hf
    simp only [List.nil_append, specM]
    exact ev_plain chainOf _ i depth act ps fuel tr hp hd (by simpa [needM] using hf)
  | cons w ws ih =>
    intro pre fuel act tr hws hskip hnd hna hcoop hf
    obtain ⟨f, rfl⟩ : ∃ f, fuel = f + 1 := ⟨fuel - 1, by have := needM_pos ps pre (w :: ws); omega⟩
    have hw : w.wrapper = true := hws w (by simp)
    have hws' : ∀ x ∈ ws, x.wrapper = true := fun x hx => hws x (by simp [hx])
    have hwa : (w.id, i) ∉ act := hna w (by simp)
    have hfull : pre ++ w :: ws ++ ps = (pre ++ [w]) ++ ws ++ ps := by simp
    have hnd' : (((pre ++ [w]) ++ ws).map (·.id)).Nodup := by simpa using hnd
    -- ids of pre, w, ws are pairwise different
    have hnd2 := hnd
    simp only [List.map_append, List.map_cons, List.nodup_append, List.nodup_cons, List.mem_map, List.mem_cons] at hnd2
    obtain ⟨_, ⟨hw_ws, _⟩, hpre_ne⟩ := hnd2
    have hpre_w : ∀ h ∈ pre, h.id ≠ w.id := fun h hh => hpre_ne h.id ⟨h, hh, rfl⟩ w.id (Or.inl rfl)
    have hws_w : ∀ x ∈ ws, x.id ≠ w.id := fun x hx e => hw_ws ⟨x, hx, e⟩
    simp only [coop, Bool.and_eq_true, Bool.or_eq_true, decide_eq_true_eq] at hcoop
    obtain ⟨hcoop', hcw⟩ := hcoop
    rw [List.cons_append]
    by_cases hb : w.body = .decline
    · -- the wrapper declines: the chain goes on
      have hf' : needM ps (pre ++ [w]) ws ≤ f := by simp [needM, hb] at hf; omega
      have hskip' : SkipOk i act (pre ++ [w]) := by
        intro h hh
        simp only [List.mem_append, List.mem_singleton] at hh
        rcases hh with hh | rfl
        · exact hskip h hh
        · exact ⟨hw, fun _ => hwa, fun e => absurd hb e⟩
      have hna' : ∀ x ∈ ws, (x.id, i) ∉ act := fun x hx => hna x (by simp [hx])
      simp only [ev, hw, if_true, hwa, if_false, hb]
      rw [hfull, ih (pre ++ [w]) f act _ hws' hskip' hnd' hna' hcoop' hf']
      simp [specM, hb]
    · -- the wrapper wraps: the whole chain is evaluated again with it marked active
      have hsome : (wapply w.body (foldW ws (firstSome ps))).isSome := by
        rcases hcw with hcw | hcw
        · exact absurd hcw hb
        · exact hcw
      obtain ⟨n, hn⟩ : ∃ n, f = (pre ++ [w]).length + n ∧ needM ps (pre ++ [w]) ws ≤ n := by
        refine ⟨f - (pre.length + 1), ?_, ?_⟩ <;> simp [needM, hb] at hf ⊢ <;> omega
      obtain ⟨hfn, hf'⟩ := hn
      have hskip' : SkipOk i ((w.id, i) :: act) (pre ++ [w]) := by
        intro h hh
        simp only [List.mem_append, List.mem_singleton] at hh
        rcases hh with hh | rfl
        · obtain ⟨a1, a2, a3⟩ := hskip h hh
          refine ⟨a1, fun e => ?_, fun e => List.mem_cons_of_mem _ (a3 e)⟩
          simp only [List.mem_cons, Prod.mk.injEq, and_true, not_or]
          exact ⟨hpre_w h hh, a2 e⟩
        · exact ⟨hw, fun e => absurd e hb, fun _ => by simp⟩
      have hna' : ∀ x ∈ ws, (x.id, i) ∉ (w.id, i) :: act := by
        intro x hx
        simp only [List.mem_cons, Prod.mk.injEq, and_true, not_or]
        exact ⟨hws_w x hx, hna x (by simp [hx])⟩
      have inner : ∀ tr', ev chainOf f (pre ++ [w] ++ ws ++ ps) (pre ++ [w] ++ ws ++ ps) i depth ((w.id, i) :: act) tr' =
          ((specM ps (pre ++ [w]) ws).1, tr' ++ (pre ++ [w]).map skipEv ++ (specM ps (pre ++ [w]) ws).2) := by
        intro tr'
        have e1 : pre ++ [w] ++ ws ++ ps = (pre ++ [w]) ++ (ws ++ ps) := by simp
        conv => lhs; arg 4; rw [e1]
        rw [hfn, ev_skip chainOf _ i depth _ (pre ++ [w]) n (ws ++ ps) tr' hskip']
        exact ih (pre ++ [w]) n _ _ hws' hskip' hnd' hna' hcoop' hf'
      rw [specM_val] at inner
      cases hwb : w.body with
      | decline => exact absurd hwb hb
      | ret v => simp [hwb, wapply] at hsome
      | delegate c => simp [hwb, wapply] at hsome
      | wrap k d =>
        obtain ⟨x, hx⟩ := Option.isSome_iff_exists.1 hsome
        rw [hwb] at hx
        simp only [ev, hw, if_true, hwa, if_false, hwb]
        rw [hfull, inner, hx]
        simp [specM, hwb, specM_val, hx]

/-! ### what the recorded trace of `specM` contains -/

theorem enters_append (a b : List Ev) : enters (a ++ b) = enters a ++ enters b := by
  induction a with
  | nil => rfl
  | cons e a ih => cases e <;> simp [enters, ih]

theorem exits_append (a b : List Ev) : exits (a ++ b) = exits a ++ exits b := by
  induction a with
  | nil => rfl
  | cons e a ih => cases e <;> simp [exits, ih]

theorem calls_append (a b : List Ev) : calls (a ++ b) = calls a ++ calls b := by
  induction a with
  | nil => rfl
  | cons e a ih => cases e <;> simp [calls, ih]

theorem enters_skip (l : List HF) : enters (l.map skipEv) = [] := by
  induction l with
  | nil => rfl
  | cons h l ih => by_cases hb : h.body = .decline <;> simp [skipEv, hb, enters, ih]

theorem exits_skip (l : List HF) : exits (l.map skipEv) = [] := by
  induction l with
  | nil => rfl
  | cons h l ih => by_cases hb : h.body = .decline <;> simp [skipEv, hb, exits, ih]

theorem calls_skip (l : List HF) : calls (l.map skipEv) = [] := by
  induction l with
  | nil => rfl
  | cons h l ih => by_cases hb : h.body = .decline <;> simp [skipEv, hb, calls, ih]

theorem enters_plain (ps : List HF) : enters (plainSpec ps).2 = [] := by
  induction ps with
  | nil => rfl
  | cons p ps ih =>
    cases hb : p.body with
    | ret v => cases v <;> simp [plainSpec, hb, enters, ih]
    | _ => simp [plainSpec, hb, enters, ih]

theorem exits_plain (ps : List HF) : exits (plainSpec ps).2 = [] := by
  induction ps with
  | nil => rfl
  | cons p ps ih =>
    cases hb : p.body with
    | ret v => cases v <;> simp [plainSpec, hb, exits, ih]
    | _ => simp [plainSpec, hb, exits, ih]

/-- the wrappers entered: the wrapping wrappers in priority order, each exactly once -/
theorem enters_specM (ps : List HF) : ∀ (ws pre : List HF),
    enters (specM ps pre ws).2 = (ws.filter fun w => w.body != .decline).map (·.id) := by
  intro ws
  induction ws with
  | nil => intro pre; simp [specM, enters_plain]
  | cons w ws ih =>
    intro pre
    by_cases hb : w.body = .decline
    · simp [specM, hb, enters, ih]
    · simp [specM, hb, enters, enters_append, enters_skip, skipEv, ih]

/-- … and left in the opposite order -/
theorem exits_specM (ps : List HF) : ∀ (ws pre : List HF),
    exits (specM ps pre ws).2 = ((ws.filter fun w => w.body != .decline).map (·.id)).reverse := by
  intro ws
  induction ws with
  | nil => intro pre; simp [specM, exits_plain]
  | cons w ws ih =>
    intro pre
    by_cases hb : w.body = .decline
    · simp [specM, hb, exits, ih]
    · simp [specM, hb, exits, exits_append, exits_skip, skipEv, ih]

/-- the plain implementations called: in order, up to the first result that is not `None` -/
theorem calls_specM (ps : List HF) : ∀ (ws pre : List HF), calls (specM ps pre ws).2 = calls (plainSpec ps).2 := by
  intro ws
  induction ws with
  | nil => intro pre; simp [specM]
  | cons w ws ih =>
    intro pre
    by_cases hb : w.body = .decline
    · simp [specM, hb, calls, ih]
    · simp [specM, hb, calls, calls_append, calls_skip, skipEv, ih]

theorem needM_le (ps : List HF) : ∀ (ws pre : List HF),
    needM ps pre ws ≤ ps.length + 1 + ws.length * (pre.length + ws.length + 2) := by
  intro ws
  induction ws with
  | nil => intro pre; simp [needM]
  | cons w ws ih =>
    intro pre
    have := ih (pre ++ [w])
    simp only [List.length_append, List.length_cons, List.length_nil, Nat.zero_add] at this
    have e : (ws.length + 1) * (pre.length + (ws.length + 1) + 2) =
        ws.length * (pre.length + 1 + ws.length + 2) + (pre.length + ws.length + 3) := by
      simp only [Nat.add_mul, Nat.mul_add]; omega
    by_cases hb : w.body = .decline <;> simp only [needM, hb, if_true, if_false, List.length_cons, e] <;> omega

theorem noDelegate_iff {l : List HF} (h : noDelegate l = true) : ∀ p ∈ l, ∀ k, p.body ≠ .delegate k := by
  intro p hp k e
  simp only [noDelegate, List.all_eq_true] at h
  have := h p hp
  simp [e] at this

end Hooks
