import PyrollProofs.OutCSClip

/-! z-monotone contours: the strip clip of a chain whose abscissae strictly increase is a PART of the chain —
    consecutive vertices of the result lie on one common edge of the input. -/

namespace OutCS
open PassGeom

/-- abscissae strictly increasing along the vertex list -/
def Incr : List (Pt ℝ) → Prop
  | [] => True
  | [_] => True
  | p :: q :: rest => p.x < q.x ∧ Incr (q :: rest)

theorem Incr.tail {p : Pt ℝ} {l : List (Pt ℝ)} (h : Incr (p :: l)) : Incr l := by
  cases l with
  | nil => trivial
  | cons q rest => exact h.2

theorem Incr.head_lt {p : Pt ℝ} {l : List (Pt ℝ)} (h : Incr (p :: l)) : ∀ q ∈ l, p.x < q.x := by
  induction l generalizing p with
  | nil => intro q hq; simp at hq
  | cons r rest ih =>
    intro q hq
    rcases List.mem_cons.mp hq with rfl | hq
    · exact h.1
    · exact lt_trans h.1 (ih h.2 q hq)

/-- beyond the right border nothing is kept -/
theorem clipWalkX_nil_of_gt (lo hi : ℝ) (hlh : lo < hi) (l : List (Pt ℝ)) (_hl : Incr l) (h : ∀ p ∈ l, hi < p.x) : clipWalkX lo hi l = [] := by
  rw [List.eq_nil_iff_forall_not_mem]
  intro q hq
  rcases (mem_clipWalkX_aux lo hi l q).mp hq with ⟨hq, _, h2⟩ | ⟨a, b, hab, hq⟩
  · linarith [h q hq]
  · have ha := h a (List.of_mem_zip hab).1
    have hb := h b (List.mem_of_mem_tail (List.of_mem_zip hab).2)
    rcases (mem_crossings lo hi a b q).mp hq with ⟨hb', _⟩ | ⟨hb', _⟩
    · rcases hb' with t | t <;> linarith [t.1, t.2]
    · rcases hb' with t | t <;> linarith [t.1, t.2]

theorem onSeg_left (a b : Pt ℝ) : OnSeg a a b := ⟨0, le_refl _, by norm_num, by ring, by ring⟩
theorem onSeg_right (a b : Pt ℝ) : OnSeg b a b := ⟨1, by norm_num, le_refl _, by ring, by ring⟩

/-- what one step of the walk emits lies on the segment it walks along -/
theorem step_onSeg (lo hi : ℝ) (p q r : Pt ℝ)
    (h : r ∈ (if insideX lo hi p = true then [p] else []) ++ crossBoth lo hi p q) : OnSeg r p q := by
  rcases List.mem_append.mp h with h | h
  · split at h
    · simp only [List.mem_singleton] at h; subst h; exact onSeg_left _ _
    · simp at h
  · exact (mem_crossings_x lo hi p q r ((mem_crossBoth lo hi p q r).mp h)).2.1

/-- **the clipped chain is a part of the chain**: for a z-monotone vertex list, any two consecutive vertices of its strip
    clip lie on one common edge of the list -/
theorem clipWalkX_edges_of_incr (lo hi : ℝ) (hlh : lo < hi) (l : List (Pt ℝ)) (hl : Incr l) :
    ∀ r r', (r, r') ∈ segsOf (clipWalkX lo hi l) → ∃ a b, (a, b) ∈ segsOf l ∧ OnSeg r a b ∧ OnSeg r' a b := by
  induction l with
  | nil => intro r r' h; simp [clipWalkX, segsOf] at h
  | cons p rest ih =>
    cases rest with
    | nil =>
      intro r r' h
      simp only [clipWalkX, crossBothNext, List.append_nil] at h
      split at h <;> simp [segsOf] at h
    | cons q rest' =>
      intro r r' h
      rw [show clipWalkX lo hi (p :: q :: rest') = ((if insideX lo hi p = true then [p] else []) ++ crossBoth lo hi p q) ++
        clipWalkX lo hi (q :: rest') from by simp [clipWalkX, crossBothNext]] at h
      have lift : ∀ a b, (a, b) ∈ segsOf (q :: rest') → (a, b) ∈ segsOf (p :: q :: rest') := by
        intro a b hab
        simp only [segsOf, List.tail_cons, List.zip_cons_cons, List.mem_cons]
        exact Or.inr hab
      have hpq : (p, q) ∈ segsOf (p :: q :: rest') := by simp [segsOf]
      rcases (mem_segs_append _ _ r r').mp h with h | ⟨h1, h2, hr, hr'⟩ | h
      · -- both emitted while walking along (p, q)
        have hm := List.of_mem_zip h
        exact ⟨p, q, hpq, step_onSeg lo hi p q r hm.1, step_onSeg lo hi p q r' (List.mem_of_mem_tail hm.2)⟩
      · -- the last vertex emitted along (p, q) and the first one emitted afterwards
        have hr1 : OnSeg r p q := by
          rw [hr]; exact step_onSeg lo hi p q _ (List.getLast_mem h1)
        -- the first vertex emitted afterwards is q itself (if q were outside, nothing would be emitted on one side)
        by_cases hq : insideX lo hi q = true
        · have : (clipWalkX lo hi (q :: rest')).head h2 = q := by
            simp [clipWalkX, hq]
          rw [this] at hr'
          exact ⟨p, q, hpq, hr1, by rw [hr']; exact onSeg_right _ _⟩
        · exfalso
          have hq' : ¬ (lo ≤ q.x ∧ q.x ≤ hi) := fun t => hq ((insideX_iff lo hi q).mpr t)
          rcases lt_or_ge q.x lo with hlo | hlo
          · -- q left of the strip: then nothing was emitted along (p, q)
            apply h1
            have hpx : p.x < lo := lt_trans hl.1 hlo
            have : insideX lo hi p = false := by
              cases hh : insideX lo hi p
              · rfl
              · have := (insideX_iff lo hi p).mp hh; linarith [this.1]
            rw [List.eq_nil_iff_forall_not_mem]
            intro x hx
            rcases List.mem_append.mp hx with hx | hx
            · simp [this] at hx
            · have := (mem_crossings_x lo hi p q x ((mem_crossBoth lo hi p q x).mp hx))
              rcases this.1 with e | e <;> rcases this.2.2 with t | t <;> linarith [t.1, t.2, hl.1]
          · -- q right of the strip: then nothing is emitted afterwards
            have hhi : hi < q.x := by
              by_contra hc
              exact hq' ⟨hlo, not_lt.mp hc⟩
            apply h2
            apply clipWalkX_nil_of_gt lo hi hlh _ hl.tail
            intro x hx
            rcases List.mem_cons.mp hx with rfl | hx
            · exact hhi
            · exact lt_trans hhi (hl.tail.head_lt x hx)
      · obtain ⟨a, b, hab, h1, h2⟩ := ih hl.tail r r' h
        exact ⟨a, b, lift a b hab, h1, h2⟩

/-! ### the walk commutes with the half turn (symmetric window), as LISTS -/

theorem insideX_ht (h : ℝ) (p : Pt ℝ) : insideX (-h) h (ht p) = insideX (-h) h p := by
  have e : (insideX (-h) h (ht p) = true) ↔ (insideX (-h) h p = true) := by
    rw [insideX_iff, insideX_iff]; simp only [ht_x]
    constructor <;> rintro ⟨a, b⟩ <;> constructor <;> linarith
  cases h1 : insideX (-h) h (ht p) <;> cases h2 : insideX (-h) h p <;> simp_all

theorem between_ht (v a b : ℝ) : between (-v) (-a) (-b) = between v a b := by
  have e : (between (-v) (-a) (-b) = true) ↔ (between v a b = true) := by
    rw [between_iff, between_iff]
    constructor <;> rintro (t | t)
    · right; constructor <;> linarith [t.1, t.2]
    · left; constructor <;> linarith [t.1, t.2]
    · right; constructor <;> linarith [t.1, t.2]
    · left; constructor <;> linarith [t.1, t.2]
  cases h1 : between (-v) (-a) (-b) <;> cases h2 : between v a b <;> simp_all

theorem crossBoth_ht (h : ℝ) (p q : Pt ℝ) : crossBoth (-h) h (ht p) (ht q) = (crossBoth (-h) h p q).map ht := by
  have c1 : between h p.x q.x = true → crossOn .x (-h) (ht p) (ht q) = ht (crossOn .x h p q) := by
    intro hb
    have hne : p.x ≠ q.x := by
      rcases (between_iff _ _ _).mp hb with t | t <;> intro h0 <;> linarith [t.1, t.2]
    rw [crossOn_x_eq_crossAt, crossOn_x_eq_crossAt, crossAt_ht _ _ _ hne]
  have c2 : between (-h) p.x q.x = true → crossOn .x h (ht p) (ht q) = ht (crossOn .x (-h) p q) := by
    intro hb
    have hne : p.x ≠ q.x := by
      rcases (between_iff _ _ _).mp hb with t | t <;> intro h0 <;> linarith [t.1, t.2]
    rw [crossOn_x_eq_crossAt, crossOn_x_eq_crossAt, crossAt_ht _ _ _ hne, neg_neg]
  have b1 : between (-h) (-p.x) (-q.x) = between h p.x q.x := between_ht h p.x q.x
  have b2 : between h (-p.x) (-q.x) = between (-h) p.x q.x := by
    have := between_ht (-h) p.x q.x
    rw [neg_neg] at this
    exact this
  simp only [crossBoth, lt_real, ht_x, b1, b2]
  by_cases hpq : p.x < q.x
  · have hqp : ¬ (-p.x < -q.x) := by linarith
    simp only [hpq, hqp, decide_true, decide_false, if_true, Bool.false_eq_true, if_false]
    by_cases hb1 : between h p.x q.x = true <;> by_cases hb2 : between (-h) p.x q.x = true <;>
      simp [hb1, hb2, c1, c2]
  · by_cases hqp : q.x < p.x
    · have hqp' : -p.x < -q.x := by linarith
      simp only [hpq, hqp', decide_true, decide_false, if_true, Bool.false_eq_true, if_false]
      by_cases hb1 : between h p.x q.x = true <;> by_cases hb2 : between (-h) p.x q.x = true <;>
        simp [hb1, hb2, c1, c2]
    · -- vertical segment: no crossings at all
      have e : p.x = q.x := le_antisymm (not_lt.mp hqp) (not_lt.mp hpq)
      have n1 : between h p.x q.x = false := by
        cases hh : between h p.x q.x
        · rfl
        · rcases (between_iff _ _ _).mp hh with t | t <;> linarith [t.1, t.2]
      have n2 : between (-h) p.x q.x = false := by
        cases hh : between (-h) p.x q.x
        · rfl
        · rcases (between_iff _ _ _).mp hh with t | t <;> linarith [t.1, t.2]
      simp [n1, n2]

theorem clipWalkX_map_ht (h : ℝ) (l : List (Pt ℝ)) : clipWalkX (-h) h (l.map ht) = (clipWalkX (-h) h l).map ht := by
  induction l with
  | nil => rfl
  | cons p rest ih =>
    cases rest with
    | nil =>
      simp only [List.map_cons, List.map_nil, clipWalkX, crossBothNext, List.append_nil, insideX_ht]
      split <;> simp
    | cons q rest' =>
      rw [show (p :: q :: rest').map ht = ht p :: ht q :: rest'.map ht from rfl]
      rw [show clipWalkX (-h) h (ht p :: ht q :: rest'.map ht) = (if insideX (-h) h (ht p) = true then [ht p] else []) ++
        crossBoth (-h) h (ht p) (ht q) ++ clipWalkX (-h) h ((q :: rest').map ht) from rfl]
      rw [show clipWalkX (-h) h (p :: q :: rest') = (if insideX (-h) h p = true then [p] else []) ++
        crossBoth (-h) h p q ++ clipWalkX (-h) h (q :: rest') from rfl]
      rw [ih, insideX_ht, crossBoth_ht]
      simp only [List.map_append]
      split <;> simp

end OutCS
