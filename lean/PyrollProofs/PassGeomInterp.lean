import PyrollProofs.PassGeomClip

/-! Helper lemmas about the symbolic results of the hook interpreter of `PyrollModel/PassGeom.lean`. -/

namespace PassGeom
open Expr

theorem lookup_mem {β : Type} (n : String) (xs : List (String × β)) (v : β) (h : lookup n xs = some v) :
    (n, v) ∈ xs := by
  induction xs with
  | nil => simp [lookup] at h
  | cons x xs ih =>
    obtain ⟨k, w⟩ := x
    simp only [lookup] at h
    by_cases hk : k = n
    · simp only [hk, if_true, Option.some.injEq] at h
      simp [hk, h]
    · simp only [hk, if_false] at h
      exact List.mem_cons_of_mem _ (ih h)

/-- substituting terms that evaluate to the value of the variable they replace does not change the value -/
theorem eval_substE (ρ : String → ℝ) (env : List (String × Expr)) (henv : ∀ x ∈ env, eval ρ x.2 = ρ x.1) (e : Expr) :
    eval ρ (substE env e) = eval ρ e := by
  induction e with
  | var n =>
    simp only [substE]
    cases h : lookup n env with
    | none => rfl
    | some v => simpa [eval] using henv (n, v) (lookup_mem n env v h)
  | nat n => rfl
  | dec m e => rfl
  | pi => rfl
  | add a b iha ihb => simp only [substE, eval, iha, ihb]
  | sub a b iha ihb => simp only [substE, eval, iha, ihb]
  | mul a b iha ihb => simp only [substE, eval, iha, ihb]
  | div a b iha ihb => simp only [substE, eval, iha, ihb]
  | neg a ih => simp only [substE, eval, ih]
  | pow a n ih => simp only [substE, eval, ih]
  | sqrt a ih => simp only [substE, eval, ih]
  | sin a ih => simp only [substE, eval, ih]
  | cos a ih => simp only [substE, eval, ih]
  | tan a ih => simp only [substE, eval, ih]
  | asin a ih => simp only [substE, eval, ih]
  | acos a ih => simp only [substE, eval, ih]
  | atan a ih => simp only [substE, eval, ih]
  | log a ih => simp only [substE, eval, ih]
  | exp a ih => simp only [substE, eval, ih]
  | abs a ih => simp only [substE, eval, ih]

/-- every read of a session answered a value that is one of the allowed terms for (given member, name), and the memoised
    contour lines were built from allowed terms -/
def okIn (canon : List (String × String × Expr)) (g : String) (r : List (String × Res) × HState) : Bool :=
  (r.1.all fun x => match x.2 with
    | .val e => decide ((g, x.1, e) ∈ canon)
    | _ => false) &&
  (match r.2.contour with
    | some xs => xs.all fun x => decide ((g, x.1, x.2) ∈ canon)
    | Option.none => true)

theorem okIn_sound (ρ : String → ℝ) (canon : List (String × String × Expr)) (g : String)
    (r : List (String × Res) × HState)
    (hc : ∀ x ∈ canon, x.1 = g → eval ρ x.2.2 = ρ x.2.1) (h : okIn canon g r = true) :
    (∀ x ∈ r.1, ∃ e, x.2 = Res.val e ∧ eval ρ e = ρ x.1) ∧
    (∀ xs, r.2.contour = some xs → ∀ x ∈ xs, eval ρ x.2 = ρ x.1) := by
  simp only [okIn, Bool.and_eq_true, List.all_eq_true] at h
  obtain ⟨h1, h2⟩ := h
  constructor
  · intro x hx
    have := h1 x hx
    cases hv : x.2 with
    | val e =>
      rw [hv] at this
      simp only [decide_eq_true_eq] at this
      exact ⟨e, rfl, hc _ this rfl⟩
    | none => rw [hv] at this; simp at this
    | bool b => rw [hv] at this; simp at this
    | env xs => rw [hv] at this; simp at this
    | unit => rw [hv] at this; simp at this
    | attrErr => rw [hv] at this; simp at this
    | unsupported w => rw [hv] at this; simp at this
    | fuelOut => rw [hv] at this; simp at this
  · intro xs hxs x hx
    rw [hxs] at h2
    simp only [List.all_eq_true, decide_eq_true_eq] at h2
    exact hc _ (h2 x hx) rfl

end PassGeom
