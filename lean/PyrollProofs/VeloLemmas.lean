import PyrollModel.Velo
import PyrollProofs.RealNum

/-!
Helper lemmas for C19 about the hand-written model `PyrollModel/Velo.lean`, over ℝ.
They are generic in the recurrence `f`: all they need is `f v a a' * a' = v * a` whenever `a' ≠ 0`
(`FluxStep f`), which `PyrollProps/C19.lean` proves for the formula generated from the source.
-/

namespace Velo

/-- every pass carries the flux `Φ`: `vᵢ · Aᵢ = Φ` for all passes `i` -/
def ConstFlux (Φ : ℝ) (v A : List ℝ) : Prop := List.Forall₂ (fun x a => x * a = Φ) v A

/-- the recurrence hands the flux of the neighbour on to the index it writes -/
def FluxStep (f : ℝ → ℝ → ℝ → ℝ) : Prop := ∀ v a a', a' ≠ 0 → f v a a' * a' = v * a

/-- one entry per roll pass, none of them zero -/
def AreasOK (n : ℕ) (A : List ℝ) : Prop := A.length = n ∧ ∀ a ∈ A, a ≠ 0

theorem constFlux_length {Φ : ℝ} {v A : List ℝ} (h : ConstFlux Φ v A) : v.length = A.length :=
  List.Forall₂.length_eq h

/-! ### sweeps -/

theorem chain_flux {f : ℝ → ℝ → ℝ → ℝ} (hf : FluxStep f) :
    ∀ (as : List ℝ) (v a : ℝ), (∀ x ∈ as, x ≠ 0) → ConstFlux (v * a) (chain f v a as) as := by
  intro as
  induction as with
  | nil => intro v a _; exact List.Forall₂.nil
  | cons a' as ih =>
    intro v a h
    have ha' : a' ≠ 0 := h a' (by simp)
    have hrest : ∀ x ∈ as, x ≠ 0 := fun x hx => h x (by simp [hx])
    have h1 : f v a a' * a' = v * a := hf v a a' ha'
    refine List.Forall₂.cons h1 ?_
    have := ih (f v a a') a' hrest
    rw [h1] at this
    exact this

theorem chain_length (f : ℝ → ℝ → ℝ → ℝ) : ∀ (as : List ℝ) (v a : ℝ), (chain f v a as).length = as.length := by
  intro as
  induction as with
  | nil => intro v a; rfl
  | cons a' as ih => intro v a; simp [chain, ih]

/-- forward sweep: every pass carries the flux of pass 0 -/
theorem sweepF_flux {f : ℝ → ℝ → ℝ → ℝ} (hf : FluxStep f) (a x : ℝ) (as vs : List ℝ)
    (h : ∀ y ∈ as, y ≠ 0) : ConstFlux (x * a) (sweepF f (a :: as) (x :: vs)) (a :: as) := by
  simp only [sweepF]
  exact List.Forall₂.cons rfl (chain_flux hf as x a h)

theorem sweepF_head (f : ℝ → ℝ → ℝ → ℝ) (a x : ℝ) (as vs : List ℝ) :
    (sweepF f (a :: as) (x :: vs)).head? = some x := by simp [sweepF]

theorem sweepF_length (f : ℝ → ℝ → ℝ → ℝ) (A v : List ℝ) (h : v.length = A.length) :
    (sweepF f A v).length = A.length := by
  cases A with
  | nil => simpa [sweepF] using h
  | cons a as =>
    cases v with
    | nil => simp at h
    | cons x vs => simp [sweepF, chain_length]

/-- a sweep only reads the anchor entry of the velocities: sweeping again over the same areas changes nothing -/
theorem sweepF_idem (f : ℝ → ℝ → ℝ → ℝ) (A v : List ℝ) : sweepF f A (sweepF f A v) = sweepF f A v := by
  cases A with
  | nil => simp [sweepF]
  | cons a as =>
    cases v with
    | nil => simp [sweepF]
    | cons x vs => simp [sweepF]

theorem sweepB_length (f : ℝ → ℝ → ℝ → ℝ) (A v : List ℝ) (h : v.length = A.length) :
    (sweepB f A v).length = A.length := by
  simp [sweepB, sweepF_length f A.reverse v.reverse (by simpa using h)]

theorem sweepB_idem (f : ℝ → ℝ → ℝ → ℝ) (A v : List ℝ) : sweepB f A (sweepB f A v) = sweepB f A v := by
  simp [sweepB, sweepF_idem]

theorem getLast?_eq_head?_reverse (l : List ℝ) : l.getLast? = l.reverse.head? := by
  simp [List.head?_reverse]

/-- backward sweep: the last entry is kept -/
theorem sweepB_last (f : ℝ → ℝ → ℝ → ℝ) (A v : List ℝ) (x : ℝ) (hA : A ≠ []) (hx : v.getLast? = some x) :
    (sweepB f A v).getLast? = some x := by
  rw [getLast?_eq_head?_reverse] at hx ⊢
  simp only [sweepB, List.reverse_reverse]
  cases hr : A.reverse with
  | nil => simp at hr; exact absurd hr hA
  | cons a as =>
    cases hv : v.reverse with
    | nil => rw [hv] at hx; simp at hx
    | cons y vs =>
      rw [hv] at hx
      simp only [List.head?_cons, Option.some.injEq] at hx
      subst hx
      exact sweepF_head f a y as vs

/-- backward sweep: every pass carries the flux of the last pass -/
theorem sweepB_flux {f : ℝ → ℝ → ℝ → ℝ} (hf : FluxStep f) (A v : List ℝ) (x a : ℝ)
    (hx : v.getLast? = some x) (ha : A.getLast? = some a) (h : ∀ y ∈ A, y ≠ 0) :
    ConstFlux (x * a) (sweepB f A v) A := by
  rw [getLast?_eq_head?_reverse] at hx ha
  unfold ConstFlux sweepB
  rw [← List.forall₂_reverse_iff, List.reverse_reverse]
  cases hr : A.reverse with
  | nil => rw [hr] at ha; simp at ha
  | cons a' as =>
    cases hv : v.reverse with
    | nil => rw [hv] at hx; simp at hx
    | cons y vs =>
      rw [hr] at ha; rw [hv] at hx
      simp only [List.head?_cons, Option.some.injEq] at hx ha
      subst hx; subst ha
      have hz : ∀ z ∈ as, z ≠ 0 := by
        intro z hz
        apply h z
        have : z ∈ A.reverse := by rw [hr]; simp [hz]
        simpa using this
      exact sweepF_flux hf a' y as vs hz

/-! ### seeding helpers -/

theorem zerosLast_length (l : List ℝ) (x : ℝ) : (zerosLast l x).length = l.length := by
  induction l with
  | nil => rfl
  | cons a t ih =>
    cases t with
    | nil => rfl
    | cons b t' => simp only [zerosLast, List.length_cons] at ih ⊢; omega

theorem zerosLast_last (l : List ℝ) (x : ℝ) (h : l ≠ []) : (zerosLast l x).getLast? = some x := by
  induction l with
  | nil => exact absurd rfl h
  | cons a t ih =>
    cases t with
    | nil => rfl
    | cons b t' =>
      have := ih (by simp)
      simp only [zerosLast] at this ⊢
      simp [List.getLast?_cons, this]

theorem setLast_length (l : List ℝ) (x : ℝ) : (setLast l x).length = l.length := by
  induction l with
  | nil => rfl
  | cons a t ih =>
    cases t with
    | nil => rfl
    | cons b t' => simp only [setLast, List.length_cons] at ih ⊢; omega

theorem setLast_last (l : List ℝ) (x : ℝ) (h : l ≠ []) : (setLast l x).getLast? = some x := by
  induction l with
  | nil => exact absurd rfl h
  | cons a t ih =>
    cases t with
    | nil => rfl
    | cons b t' =>
      have := ih (by simp)
      simp only [setLast] at this ⊢
      simp [List.getLast?_cons, this]

theorem setLast_mem (l : List ℝ) (x y : ℝ) (h : y ∈ setLast l x) : y = x ∨ y ∈ l := by
  induction l with
  | nil => simp [setLast] at h
  | cons a t ih =>
    cases t with
    | nil => simp [setLast] at h; exact Or.inl h
    | cons b t' =>
      simp only [setLast, List.mem_cons] at h
      rcases h with h | h
      · exact Or.inr (by simp [h])
      · rcases ih (by simpa [List.mem_cons] using h) with h' | h'
        · exact Or.inl h'
        · exact Or.inr (List.mem_cons_of_mem _ h')

/-! ### the stop test -/

theorem within_iff (tol : ℝ) : ∀ (p c : List ℝ), p.length = c.length →
    (within tol p c = true ↔ List.Forall₂ (fun x y => |x - y| < tol) p c) := by
  intro p
  induction p with
  | nil =>
    intro c h
    cases c with
    | nil => simp [within]
    | cons y cs => simp at h
  | cons x ps ih =>
    intro c h
    cases c with
    | nil => simp at h
    | cons y cs =>
      have hl : ps.length = cs.length := by simpa using h
      simp only [within, Bool.and_eq_true, List.forall₂_cons, ih cs hl]
      constructor
      · rintro ⟨h1, h2⟩
        exact ⟨by simpa [PyNum.lt, PyNum.abs] using h1, h2⟩
      · rintro ⟨h1, h2⟩
        exact ⟨by simpa [PyNum.lt, PyNum.abs] using h1, h2⟩

theorem within_self (tol : ℝ) (h : 0 < tol) : ∀ p : List ℝ, within tol p p = true := by
  intro p
  rw [within_iff tol p p rfl]
  induction p with
  | nil => exact List.Forall₂.nil
  | cons x ps ih => exact List.Forall₂.cons (by simpa using h) ih

/-! ### the loop -/

variable {sw : List ℝ → List ℝ → List ℝ} {tol : ℝ} {S : ℕ → List ℝ → List ℝ}

/-- an invariant of the loop body holds of the state the loop ends in -/
theorem loop_inv (P : St ℝ → Prop) (hstep : ∀ s, P s → P (next sw S s)) :
    ∀ (fuel : ℕ) (s : St ℝ), P s → P (loop sw tol S fuel s).st := by
  intro fuel
  induction fuel with
  | zero => intro s h; simpa [loop] using h
  | succ n ih =>
    intro s h
    unfold loop
    split
    · exact hstep s h
    · exact ih _ (hstep s h)

/-- left by `break`: the stop test held between the last two velocity vectors, and at least one iteration ran -/
theorem loop_converged : ∀ (fuel : ℕ) (s : St ℝ), (loop sw tol S fuel s).converged = true →
    within tol (loop sw tol S fuel s).st.prev (loop sw tol S fuel s).st.cur = true ∧
    s.k < (loop sw tol S fuel s).st.k := by
  intro fuel
  induction fuel with
  | zero => intro s h; simp [loop] at h
  | succ n ih =>
    intro s h
    unfold loop at h ⊢
    split
    · next hw => exact ⟨by simpa [next] using hw, by simp [next]⟩
    · next hw =>
      rw [if_neg hw] at h
      have := ih _ h
      have hk : (next sw S s).k = s.k + 1 := rfl
      exact ⟨this.1, by have h2 := this.2; omega⟩

/-- budget exhausted: exactly `fuel` iterations ran and (if any ran) the last stop test failed -/
theorem loop_exhausted : ∀ (fuel : ℕ) (s : St ℝ), (loop sw tol S fuel s).converged = false →
    (loop sw tol S fuel s).st.k = s.k + fuel ∧
    (0 < fuel → within tol (loop sw tol S fuel s).st.prev (loop sw tol S fuel s).st.cur = false) := by
  intro fuel
  induction fuel with
  | zero => intro s _; simp [loop]
  | succ n ih =>
    intro s h
    unfold loop at h ⊢
    split
    · next hw => rw [if_pos hw] at h; simp at h
    · next hw =>
      rw [if_neg hw] at h
      have := ih _ h
      have hk : (next sw S s).k = s.k + 1 := rfl
      refine ⟨by have h1 := this.1; omega, fun _ => ?_⟩
      cases n with
      | zero => simpa [loop, next] using hw
      | succ m => exact this.2 (by omega)

/-- never more iterations than the budget -/
theorem loop_k_le : ∀ (fuel : ℕ) (s : St ℝ), (loop sw tol S fuel s).st.k ≤ s.k + fuel := by
  intro fuel
  induction fuel with
  | zero => intro s; simp [loop]
  | succ n ih =>
    intro s
    unfold loop
    split
    · simp [next]
    · have := ih (next sw S s)
      have hk : (next sw S s).k = s.k + 1 := rfl
      omega

/-! ### flux against areas that moved -/

/-- If velocities `v` carry flux `Φ` through areas `Au` and the areas `Af` differ from `Au` by at most the relative
    amount `ε`, the flux through `Af` is within `ε·|Φ|` of `Φ` in every pass. -/
theorem flux_perturbed {Φ ε : ℝ} : ∀ (v Au Af : List ℝ), ConstFlux Φ v Au →
    List.Forall₂ (fun af au => |af - au| ≤ ε * |au|) Af Au →
    List.Forall₂ (fun x af => |x * af - Φ| ≤ ε * |Φ|) v Af := by
  intro v
  induction v with
  | nil =>
    intro Au Af h1 h2
    cases h1
    cases h2
    exact List.Forall₂.nil
  | cons x vs ih =>
    intro Au Af h1 h2
    cases h1 with
    | cons hx hrest =>
      cases h2 with
      | cons ha harest =>
        refine List.Forall₂.cons ?_ (ih _ _ hrest harest)
        rename_i au Aus af Afs
        have e : x * af - Φ = x * (af - au) := by rw [← hx]; ring
        rw [e, abs_mul, ← hx, abs_mul]
        calc |x| * |af - au| ≤ |x| * (ε * |au|) := mul_le_mul_of_nonneg_left ha (abs_nonneg x)
          _ = ε * (|x| * |au|) := by ring

end Velo
