import PyrollModel.Handover
/-!
Helper lemmas about the hand-over model `PyrollModel/Handover.lean` (C06): python-dict algebra (`get`/`set`/`pub`),
the value `evaluate_and_set_hooks` leaves under a name (`evalSet_get`), and the anatomy of a successful `run` /
`runList` (`run_spec`, `runList_cons`, `runList_step`, `runList_first`).  Core Lean only.
-/
namespace Handover

section Dicts
variable {K V : Type} [DecidableEq K]

theorem get_set_same (d : Dict K V) (k : K) (v : V) : get (set d k v) k = some v := by
  induction d with
  | nil => simp [set, get]
  | cons p r ih =>
    obtain ⟨k', v'⟩ := p
    by_cases h : k' = k <;> simp [set, get, h, ih]

theorem get_set_other (d : Dict K V) {k k' : K} (v : V) (h : k ≠ k') : get (set d k v) k' = get d k' := by
  induction d with
  | nil => simp [set, get, h]
  | cons p r ih =>
    obtain ⟨k1, v1⟩ := p
    by_cases h1 : k1 = k
    · subst h1; simp [set, get, h]
    · by_cases h2 : k1 = k'
      · subst h2; simp [set, get, h1]
      · simp [set, get, h1, h2, ih]

theorem get_pub (priv : K → Bool) (d : Dict K V) (k : K) :
    get (pub priv d) k = if priv k then none else get d k := by
  induction d with
  | nil => simp [pub, get]
  | cons p r ih =>
    obtain ⟨k1, v1⟩ := p
    simp only [pub] at ih
    by_cases hp : priv k1
    · by_cases h2 : k1 = k
      · subst h2; simp [pub, List.filter, hp, ih]
      · simp [pub, List.filter, hp, get, ih, h2]
    · by_cases h2 : k1 = k
      · subst h2; simp [pub, List.filter, hp, get]
      · simp [pub, List.filter, hp, get, ih, h2]

theorem applies_cons (owners : List String) (o : String) (k' : K) (hs : List (String × K)) (k : K) :
    applies owners ((o, k') :: hs) k = ((decide (o ∈ owners) && decide (k' = k)) || applies owners hs k) := by
  simp [applies]

/-- the value `evaluate_and_set_hooks` leaves under a name -/
theorem evalSet_get (owners : List String) (impl : Dict K V) (fb : K → Option V) (hs : List (String × K))
    (d d' : Dict K V) (h : evalSet owners impl fb hs d = .ok d') (k : K) :
    get d' k = if applies owners hs k then (match get impl k with | some v => some v | none => fb k) else get d k := by
  induction hs generalizing d with
  | nil => simp [evalSet] at h; subst h; simp [applies]
  | cons p hs ih =>
    obtain ⟨o, k1⟩ := p
    rw [applies_cons]
    simp only [evalSet] at h
    by_cases ho : o ∈ owners
    · simp only [ho, if_true] at h
      by_cases hk : k1 = k
      · subst hk
        cases hi : get impl k1 with
        | some v =>
          simp only [hi] at h
          have := ih _ h
          rw [this]; simp [ho, hi, get_set_same]
        | none =>
          simp only [hi] at h
          cases hf : fb k1 with
          | some v =>
            simp only [hf] at h
            have := ih _ h
            rw [this]; simp [ho, hi, hf, get_set_same]
          | none => simp [hf] at h
      · cases hi : get impl k1 with
        | some v =>
          simp only [hi] at h
          have := ih _ h
          rw [this]; simp [hk, get_set_other _ _ hk]
        | none =>
          simp only [hi] at h
          cases hf : fb k1 with
          | some v =>
            simp only [hf] at h
            have := ih _ h
            rw [this]; simp [hk, get_set_other _ _ hk]
          | none => simp [hf] at h
    · simp only [ho, if_false] at h
      have := ih _ h
      rw [this]; simp [ho]

theorem evalSet_some (owners : List String) (impl : Dict K V) (fb : K → Option V) (hs : List (String × K))
    (d d' : Dict K V) (h : evalSet owners impl fb hs d = .ok d') (k : K) (hk : applies owners hs k = true) :
    ∃ v, get d' k = some v := by
  induction hs generalizing d with
  | nil => simp [applies] at hk
  | cons p hs ih =>
    obtain ⟨o, k1⟩ := p
    rw [applies_cons] at hk
    simp only [evalSet] at h
    by_cases ho : o ∈ owners
    · simp only [ho, if_true] at h
      by_cases hk1 : k1 = k
      · subst hk1
        cases hi : get impl k1 with
        | some v =>
          simp only [hi] at h
          refine ⟨v, ?_⟩
          rw [evalSet_get _ _ _ _ _ _ h]
          simp [hi, get_set_same]
        | none =>
          simp only [hi] at h
          cases hf : fb k1 with
          | some v =>
            simp only [hf] at h
            refine ⟨v, ?_⟩
            rw [evalSet_get _ _ _ _ _ _ h]
            simp [hi, hf, get_set_same]
          | none => simp [hf] at h
      · have hk' : applies owners hs k = true := by simpa [hk1] using hk
        cases hi : get impl k1 with
        | some v => simp only [hi] at h; exact ih _ h hk'
        | none =>
          simp only [hi] at h
          cases hf : fb k1 with
          | some v => simp only [hf] at h; exact ih _ h hk'
          | none => simp [hf] at h
    · simp only [ho, if_false] at h
      have hk' : applies owners hs k = true := by simpa [ho] using hk
      exact ih _ h hk'

end Dicts

section Runs
variable {K V : Type}

/-- what a successful `run` consists of -/
theorem run_spec [DecidableEq K] {hooks : List (String × K)} {priv : K → Bool} {io oo : List String} {ii oi idf : Dict K V}
    {pre post subs : List (UnitT K V)} {P : Dict K V} {r : Solved K V}
    (h : run hooks priv (.mk io oo ii oi idf pre post subs) P = .ok r) :
    ∃ rpre rs rpost,
      runList hooks priv pre P = .ok rpre ∧ r.received = lastRet P rpre ∧
      evalSet io ii noFallback hooks (pub priv r.received) = .ok r.inP ∧
      runList hooks priv subs r.inP = .ok rs ∧
      evalSet oo oi (outFallback rs r.inP idf) hooks (pub priv r.received) = .ok r.outP ∧
      runList hooks priv post (pub priv r.outP) = .ok rpost ∧ r.ret = lastRet (pub priv r.outP) rpost := by
  rw [run] at h
  split at h
  · cases h
  · rename_i rpre hpre
    dsimp only at h
    split at h
    · cases h
    · rename_i inP hin
      split at h
      · cases h
      · rename_i rs hrs
        split at h
        · cases h
        · rename_i outP hout
          split at h
          · cases h
          · rename_i rpost hpost
            cases h
            exact ⟨rpre, rs, rpost, hpre, rfl, hin, hrs, hout, hpost, rfl⟩

theorem runList_nil [DecidableEq K] {hooks : List (String × K)} {priv : K → Bool} (P : Dict K V) :
    runList hooks priv ([] : List (UnitT K V)) P = .ok [] := by rw [runList]

theorem runList_cons [DecidableEq K] {hooks : List (String × K)} {priv : K → Bool} {u : UnitT K V} {us : List (UnitT K V)}
    {P : Dict K V} {rs : List (Solved K V)} (h : runList hooks priv (u :: us) P = .ok rs) :
    ∃ r rs', rs = r :: rs' ∧ run hooks priv u P = .ok r ∧ runList hooks priv us r.ret = .ok rs' := by
  rw [runList] at h
  split at h
  · cases h
  · rename_i r hr
    split at h
    · cases h
    · rename_i rs' hrs
      cases h
      exact ⟨r, rs', rfl, hr, hrs⟩

theorem runList_length [DecidableEq K] {hooks : List (String × K)} {priv : K → Bool} {us : List (UnitT K V)}
    {P : Dict K V} {rs : List (Solved K V)} (h : runList hooks priv us P = .ok rs) : rs.length = us.length := by
  induction us generalizing P rs with
  | nil => rw [runList] at h; cases h; rfl
  | cons u us ih =>
    obtain ⟨r, rs', rfl, _, h2⟩ := runList_cons h
    simp [ih h2]

/-- every unit of a chain is solved on exactly what its predecessor returned -/
theorem runList_step [DecidableEq K] {hooks : List (String × K)} {priv : K → Bool} {us : List (UnitT K V)}
    {P : Dict K V} {rs : List (Solved K V)} (h : runList hooks priv us P = .ok rs)
    (i : Nat) {u' : UnitT K V} {r r' : Solved K V}
    (hu : us[i + 1]? = some u') (hr : rs[i]? = some r) (hr' : rs[i + 1]? = some r') :
    run hooks priv u' r.ret = .ok r' := by
  induction us generalizing P rs i with
  | nil => simp at hu
  | cons u us ih =>
    obtain ⟨r0, rs', rfl, h1, h2⟩ := runList_cons h
    cases i with
    | zero =>
      simp at hr; subst hr
      cases us with
      | nil => simp at hu
      | cons u1 us1 =>
        obtain ⟨r1, rs1, rfl, h3, _⟩ := runList_cons h2
        simp at hu hr'; subst hu; subst hr'; exact h3
    | succ j =>
      simp at hu hr hr'
      exact ih h2 j hu hr hr'

theorem runList_first [DecidableEq K] {hooks : List (String × K)} {priv : K → Bool} {us : List (UnitT K V)}
    {P : Dict K V} {rs : List (Solved K V)} (h : runList hooks priv us P = .ok rs)
    {u : UnitT K V} {r : Solved K V} (hu : us[0]? = some u) (hr : rs[0]? = some r) :
    run hooks priv u P = .ok r := by
  cases us with
  | nil => simp at hu
  | cons u0 us =>
    obtain ⟨r0, rs', rfl, h1, _⟩ := runList_cons h
    simp at hu hr; subst hu; subst hr; exact h1

theorem lastOut_eq_getLast? (rs : List (Solved K V)) : lastOut rs = rs.getLast?.map (·.outP) := by
  induction rs with
  | nil => rfl
  | cons r rs ih =>
    cases rs with
    | nil => rfl
    | cons r1 rs1 => simp only [lastOut]; rw [ih]; simp [List.getLast?_cons_cons]

theorem lastRet_eq (P : Dict K V) (rs : List (Solved K V)) :
    lastRet P rs = match rs.getLast? with | some r => r.ret | none => P := by
  induction rs with
  | nil => rfl
  | cons r rs ih =>
    cases rs with
    | nil => rfl
    | cons r1 rs1 => simp only [lastRet]; rw [ih]; simp [List.getLast?_cons_cons]
theorem runList_get [DecidableEq K] {hooks : List (String × K)} {priv : K → Bool} {us : List (UnitT K V)}
    {P : Dict K V} {rs : List (Solved K V)} (h : runList hooks priv us P = .ok rs)
    (i : Nat) {u : UnitT K V} {r : Solved K V} (hu : us[i]? = some u) (hr : rs[i]? = some r) :
    ∃ P', run hooks priv u P' = .ok r := by
  induction us generalizing P rs i with
  | nil => simp at hu
  | cons u0 us ih =>
    obtain ⟨r0, rs', rfl, h1, h2⟩ := runList_cons h
    cases i with
    | zero => simp at hu hr; subst hu; subst hr; exact ⟨P, h1⟩
    | succ j => simp at hu hr; exact ih h2 j hu hr
end Runs

end Handover
