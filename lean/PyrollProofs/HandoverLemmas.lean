import PyrollModel.Handover
/-!
Helper lemmas about the hand-over model `PyrollModel/Handover.lean` (C06): python-dict algebra (`get`/`set`/`pub`),
the value `evaluate_and_set_hooks` leaves under a name (`evalSet_get`), and the anatomy of a successful `run` /
`runList` (`run_spec`, `runList_cons`, `runList_step`, `runList_first`); for the second solve of a used unit: the value
`init_solve` leaves under every name of a re-used out profile (`get_handOver_new`, `get_initOut_new`), the anatomy of
`runM` (`runM_spec`, `runListM_cons`), a first solve is `run` (`runM_fresh`), and a name that is no root hook keeps
the caller's value through a whole solved tree (`run_keeps`, `runM_keeps`; mutual structural recursion on the unit
tree).  Core Lean only.
-/
namespace Handover

section Dicts
variable {K V : Type} [DecidableEq K]

theorem get_set_same (d : Dict K V) (k : K) (v : V) : get (set d k v) k = some v := by
  induction d with
  | nil => simp [set, get]
  | cons p r ih =>
    obtain ⟨k', v'⟩ := p
    by_cases h : k' = k <;> simp [set, get, h, ih]

theorem get_set_other (d : Dict K V) {k k' : K} (v : V) (h : k ≠ k') : get (set d k v) k' = get d k' := by
  induction d with
  | nil => simp [set, get, h]
  | cons p r ih =>
    obtain ⟨k1, v1⟩ := p
    by_cases h1 : k1 = k
    · subst h1; simp [set, get, h]
    · by_cases h2 : k1 = k'
      · subst h2; simp [set, get, h1]
      · simp [set, get, h1, h2, ih]

theorem get_pub (priv : K → Bool) (d : Dict K V) (k : K) :
    get (pub priv d) k = if priv k then none else get d k := by
  induction d with
  | nil => simp [pub, get]
  | cons p r ih =>
    obtain ⟨k1, v1⟩ := p
    simp only [pub] at ih
    by_cases hp : priv k1
    · by_cases h2 : k1 = k
      · subst h2; simp [pub, List.filter, hp, ih]
      · simp [pub, List.filter, hp, get, ih, h2]
    · by_cases h2 : k1 = k
      · subst h2; simp [pub, List.filter, hp, get]
      · simp [pub, List.filter, hp, get, ih, h2]

theorem applies_cons (owners : List String) (o : String) (k' : K) (hs : List (String × K)) (k : K) :
    applies owners ((o, k') :: hs) k = ((decide (o ∈ owners) && decide (k' = k)) || applies owners hs k) := by
  simp [applies]

/-- the value `evaluate_and_set_hooks` leaves under a name -/
theorem evalSet_get (owners : List String) (impl : Dict K V) (fb : K → Option V) (hs : List (String × K))
    (d d' : Dict K V) (h : evalSet owners impl fb hs d = .ok d') (k : K) :
    get d' k = if applies owners hs k then (match get impl k with | some v => some v | none => fb k) else get d k := by
  induction hs generalizing d with
  | nil => simp [evalSet] at h; subst h; simp [applies]
  | cons p hs ih =>
    obtain ⟨o, k1⟩ := p
    rw [applies_cons]
    simp only [evalSet] at h
    by_cases ho : o ∈ owners
    · simp only [ho, if_true] at h
      by_cases hk : k1 = k
      · subst hk
        cases hi : get impl k1 with
        | some v =>
          simp only [hi] at h
          have := ih _ h
          rw [this]; simp [ho, hi, get_set_same]
        | none =>
          simp only [hi] at h
          cases hf : fb k1 with
          | some v =>
            simp only [hf] at h
            have := ih _ h
            rw [this]; simp [ho, hi, hf, get_set_same]
          | none => simp [hf] at h
      · cases hi : get impl k1 with
        | some v =>
          simp only [hi] at h
          have := ih _ h
          rw [this]; simp [hk, get_set_other _ _ hk]
        | none =>
          simp only [hi] at h
          cases hf : fb k1 with
          | some v =>
            simp only [hf] at h
            have := ih _ h
            rw [this]; simp [hk, get_set_other _ _ hk]
          | none => simp [hf] at h
    · simp only [ho, if_false] at h
      have := ih _ h
      rw [this]; simp [ho]

theorem evalSet_some (owners : List String) (impl : Dict K V) (fb : K → Option V) (hs : List (String × K))
    (d d' : Dict K V) (h : evalSet owners impl fb hs d = .ok d') (k : K) (hk : applies owners hs k = true) :
    ∃ v, get d' k = some v := by
  induction hs generalizing d with
  | nil => simp [applies] at hk
  | cons p hs ih =>
    obtain ⟨o, k1⟩ := p
    rw [applies_cons] at hk
    simp only [evalSet] at h
    by_cases ho : o ∈ owners
    · simp only [ho, if_true] at h
      by_cases hk1 : k1 = k
      · subst hk1
        cases hi : get impl k1 with
        | some v =>
          simp only [hi] at h
          refine ⟨v, ?_⟩
          rw [evalSet_get _ _ _ _ _ _ h]
          simp [hi, get_set_same]
        | none =>
          simp only [hi] at h
          cases hf : fb k1 with
          | some v =>
            simp only [hf] at h
            refine ⟨v, ?_⟩
            rw [evalSet_get _ _ _ _ _ _ h]
            simp [hi, hf, get_set_same]
          | none => simp [hf] at h
      · have hk' : applies owners hs k = true := by simpa [hk1] using hk
        cases hi : get impl k1 with
        | some v => simp only [hi] at h; exact ih _ h hk'
        | none =>
          simp only [hi] at h
          cases hf : fb k1 with
          | some v => simp only [hf] at h; exact ih _ h hk'
          | none => simp [hf] at h
    · simp only [ho, if_false] at h
      have hk' : applies owners hs k = true := by simpa [ho] using hk
      exact ih _ h hk'

end Dicts

section Runs
variable {K V : Type}

/-- what a successful `run` consists of -/
theorem run_spec [DecidableEq K] {hooks : List (String × K)} {priv : K → Bool} {io oo : List String} {ii oi idf : Dict K V}
    {pre post subs : List (UnitT K V)} {P : Dict K V} {r : Solved K V}
    (h : run hooks priv (.mk io oo ii oi idf pre post subs) P = .ok r) :
    ∃ rpre rs rpost,
      runList hooks priv pre P = .ok rpre ∧ r.received = lastRet P rpre ∧
      evalSet io ii noFallback hooks (pub priv r.received) = .ok r.inP ∧
      runList hooks priv subs r.inP = .ok rs ∧
      evalSet oo oi (outFallback rs r.inP idf) hooks (pub priv r.received) = .ok r.outP ∧
      runList hooks priv post (pub priv r.outP) = .ok rpost ∧ r.ret = lastRet (pub priv r.outP) rpost := by
  rw [run] at h
  split at h
  · cases h
  · rename_i rpre hpre
    dsimp only at h
    split at h
    · cases h
    · rename_i inP hin
      split at h
      · cases h
      · rename_i rs hrs
        split at h
        · cases h
        · rename_i outP hout
          split at h
          · cases h
          · rename_i rpost hpost
            cases h
            exact ⟨rpre, rs, rpost, hpre, rfl, hin, hrs, hout, hpost, rfl⟩

theorem runList_nil [DecidableEq K] {hooks : List (String × K)} {priv : K → Bool} (P : Dict K V) :
    runList hooks priv ([] : List (UnitT K V)) P = .ok [] := by rw [runList]

theorem runList_cons [DecidableEq K] {hooks : List (String × K)} {priv : K → Bool} {u : UnitT K V} {us : List (UnitT K V)}
    {P : Dict K V} {rs : List (Solved K V)} (h : runList hooks priv (u :: us) P = .ok rs) :
    ∃ r rs', rs = r :: rs' ∧ run hooks priv u P = .ok r ∧ runList hooks priv us r.ret = .ok rs' := by
  rw [runList] at h
  split at h
  · cases h
  · rename_i r hr
    split at h
    · cases h
    · rename_i rs' hrs
      cases h
      exact ⟨r, rs', rfl, hr, hrs⟩

theorem runList_length [DecidableEq K] {hooks : List (String × K)} {priv : K → Bool} {us : List (UnitT K V)}
    {P : Dict K V} {rs : List (Solved K V)} (h : runList hooks priv us P = .ok rs) : rs.length = us.length := by
  induction us generalizing P rs with
  | nil => rw [runList] at h; cases h; rfl
  | cons u us ih =>
    obtain ⟨r, rs', rfl, _, h2⟩ := runList_cons h
    simp [ih h2]

/-- every unit of a chain is solved on exactly what its predecessor returned -/
theorem runList_step [DecidableEq K] {hooks : List (String × K)} {priv : K → Bool} {us : List (UnitT K V)}
    {P : Dict K V} {rs : List (Solved K V)} (h : runList hooks priv us P = .ok rs)
    (i : Nat) {u' : UnitT K V} {r r' : Solved K V}
    (hu : us[i + 1]? = some u') (hr : rs[i]? = some r) (hr' : rs[i + 1]? = some r') :
    run hooks priv u' r.ret = .ok r' := by
  induction us generalizing P rs i with
  | nil => simp at hu
  | cons u us ih =>
    obtain ⟨r0, rs', rfl, h1, h2⟩ := runList_cons h
    cases i with
    | zero =>
      simp at hr; subst hr
      cases us with
      | nil => simp at hu
      | cons u1 us1 =>
        obtain ⟨r1, rs1, rfl, h3, _⟩ := runList_cons h2
        simp at hu hr'; subst hu; subst hr'; exact h3
    | succ j =>
      simp at hu hr hr'
      exact ih h2 j hu hr hr'

theorem runList_first [DecidableEq K] {hooks : List (String × K)} {priv : K → Bool} {us : List (UnitT K V)}
    {P : Dict K V} {rs : List (Solved K V)} (h : runList hooks priv us P = .ok rs)
    {u : UnitT K V} {r : Solved K V} (hu : us[0]? = some u) (hr : rs[0]? = some r) :
    run hooks priv u P = .ok r := by
  cases us with
  | nil => simp at hu
  | cons u0 us =>
    obtain ⟨r0, rs', rfl, h1, _⟩ := runList_cons h
    simp at hu hr; subst hu; subst hr; exact h1

theorem lastOut_eq_getLast? (rs : List (Solved K V)) : lastOut rs = rs.getLast?.map (·.outP) := by
  induction rs with
  | nil => rfl
  | cons r rs ih =>
    cases rs with
    | nil => rfl
    | cons r1 rs1 => simp only [lastOut]; rw [ih]; simp [List.getLast?_cons_cons]

theorem lastRet_eq (P : Dict K V) (rs : List (Solved K V)) :
    lastRet P rs = match rs.getLast? with | some r => r.ret | none => P := by
  induction rs with
  | nil => rfl
  | cons r rs ih =>
    cases rs with
    | nil => rfl
    | cons r1 rs1 => simp only [lastRet]; rw [ih]; simp [List.getLast?_cons_cons]
theorem runList_get [DecidableEq K] {hooks : List (String × K)} {priv : K → Bool} {us : List (UnitT K V)}
    {P : Dict K V} {rs : List (Solved K V)} (h : runList hooks priv us P = .ok rs)
    (i : Nat) {u : UnitT K V} {r : Solved K V} (hu : us[i]? = some u) (hr : rs[i]? = some r) :
    ∃ P', run hooks priv u P' = .ok r := by
  induction us generalizing P rs i with
  | nil => simp at hu
  | cons u0 us ih =>
    obtain ⟨r0, rs', rfl, h1, h2⟩ := runList_cons h
    cases i with
    | zero => simp at hu hr; subst hu; subst hr; exact ⟨P, h1⟩
    | succ j => simp at hu hr; exact ih h2 j hu hr
end Runs


/-! ### solving again: `init_solve` on a re-used out profile (`initOut`, `handOver`), `runM` / `runListM` -/

section Reuse
variable {K V : Type} [DecidableEq K]

theorem get_filter_key (f : K → Bool) (d : Dict K V) (k : K) :
    get (d.filter fun p => f p.1) k = if f k then get d k else none := by
  induction d with
  | nil => simp [get]
  | cons p r ih =>
    obtain ⟨k1, v1⟩ := p
    by_cases hf : f k1 <;> by_cases hk : k1 = k
    · subst hk; simp [List.filter, hf, get]
    · simp [List.filter, hf, get, hk, ih]
    · subst hk; simp [List.filter, hf, ih]
    · simp [List.filter, hf, get, hk, ih]

theorem get_map_val (g : K → V → V) (d : Dict K V) (k : K) :
    get (d.map fun p => (p.1, g p.1 p.2)) k = (get d k).map (g k) := by
  induction d with
  | nil => simp [get]
  | cons p r ih =>
    obtain ⟨k1, v1⟩ := p
    by_cases hk : k1 = k
    · subst hk; simp [get]
    · simp [get, hk, ih]

theorem get_items (d : Dict K V) (k : K) : get (items d) k = get d k := by
  unfold items
  rw [get_map_val (fun k' v => (get d k').getD v)]
  cases h : get d k <;> simp

theorem get_of_mem {d : Dict K V} {p : K × V} (h : p ∈ d) : (get d p.1).isSome := by
  induction d with
  | nil => cases h
  | cons q r ih =>
    obtain ⟨k1, v1⟩ := q
    by_cases hk : k1 = p.1
    · simp [get, hk]
    · simp only [get, hk, if_false]
      rcases List.mem_cons.1 h with h1 | h1
      · subst h1; exact absurd rfl hk
      · exact ih h1

theorem items_consistent (d : Dict K V) : ∀ p ∈ items d, get d p.1 = some p.2 := by
  intro p hp
  simp only [items, List.mem_map] at hp
  obtain ⟨q, hq, rfl⟩ := hp
  have := get_of_mem hq
  cases h : get d q.1 with
  | none => simp [h] at this
  | some v => simp

theorem delete_new (h r ha : Bool) : litsAll (atomEnv h r ha true) Reuse.new.delete = (!h && !r && !ha) := by
  cases h <;> cases r <;> cases ha <;> decide

theorem set_new (h r p : Bool) : litsAny (atomEnv h r true p) Reuse.new.set = (!r || !p) := by
  cases h <;> cases r <;> cases p <;> decide

theorem get_dropOutdated_new (priv root : K → Bool) (handed out : Dict K V) (k : K) :
    get (dropOutdated Reuse.new priv root handed out) k
      = if priv k || root k || (get handed k).isSome then get out k else none := by
  unfold dropOutdated
  rw [get_filter_key (fun k' => !litsAll (atomEnv (priv k') (root k') (get handed k').isSome true) Reuse.new.delete)]
  rw [delete_new]
  cases priv k <;> cases root k <;> cases (get handed k).isSome <;> simp

theorem get_fill_new (priv root : K → Bool) (h : Dict K V) (k : K) (l out : Dict K V)
    (hl : ∀ p ∈ l, get h p.1 = some p.2) :
    get (fill Reuse.new priv root l out) k
      = if l.any (fun p => decide (p.1 = k)) then
          (if root k then (match get out k with | some v => some v | none => get h k) else get h k)
        else get out k := by
  induction l generalizing out with
  | nil => simp [fill]
  | cons p r ih =>
    obtain ⟨k1, v1⟩ := p
    have h1 : get h k1 = some v1 := hl (k1, v1) (by simp)
    have hr : ∀ p ∈ r, get h p.1 = some p.2 := fun p hp => hl p (by simp [hp])
    simp only [fill]
    rw [ih _ hr, set_new]
    by_cases hk : k1 = k
    · subst hk
      cases hroot : root k1 <;> cases hout : get out k1 <;> simp [hout, get_set_same, h1]
      all_goals (split <;> simp_all)
    · have hne : k1 ≠ k := hk
      have hd : decide (k1 = k) = false := by simp [hk]
      simp only [List.any_cons, hd, Bool.false_or]
      cases hroot : root k1 <;> cases hout : (get out k1).isSome <;>
        simp [get_set_other _ _ hne]

theorem any_map_key (g : K × V → V) (d : Dict K V) (k : K) :
    (d.map fun p => (p.1, g p)).any (fun p => decide (p.1 = k)) = (get d k).isSome := by
  induction d with
  | nil => simp [get]
  | cons p r ih =>
    obtain ⟨k1, v1⟩ := p
    by_cases hk : k1 = k
    · simp [get, hk]
    · simp only [List.map_cons, List.any_cons, get, hk, if_false, decide_false, Bool.false_or]
      exact ih

theorem any_items (d : Dict K V) (k : K) : (items d).any (fun p => decide (p.1 = k)) = (get d k).isSome :=
  any_map_key (fun p => (get d p.1).getD p.2) d k

/-- the value the `else:` branch of `init_solve` leaves under every name -/
theorem get_handOver_new (priv root : K → Bool) (out handed : Dict K V) (k : K) :
    get (handOver Reuse.new priv root out handed) k
      = if root k then (match get out k with | some v => some v | none => get handed k)
        else if priv k then (match get handed k with | some v => some v | none => get out k)
        else get handed k := by
  unfold handOver
  rw [get_fill_new priv root handed k _ _ (items_consistent handed), any_items, get_dropOutdated_new]
  cases hr : root k <;> cases hp : priv k <;> cases hh : get handed k <;> simp
  all_goals (cases get out k <;> rfl)

theorem get_initOut_new (priv root : K → Bool) (prev P1 : Dict K V) (k : K) :
    get (initOut Reuse.new priv root (some prev) P1) k
      = if priv k then get prev k
        else if root k then (match get prev k with | some v => some v | none => get P1 k)
        else get P1 k := by
  have hn : Reuse.new.handsOver = true := rfl
  simp only [initOut, hn, if_true]
  rw [get_handOver_new, get_pub]
  cases hr : root k <;> cases hp : priv k <;> simp
  all_goals (cases get prev k <;> rfl)

end Reuse

section RunsM
variable {K V : Type} [DecidableEq K]

theorem runListM_cons {pol : Reuse} {hooks : List (String × K)} {priv : K → Bool} {u : UnitT K V} {us : List (UnitT K V)}
    {ms ms' : List (Mem K V)} {P : Dict K V} {rs : List (Solved K V)}
    (h : runListM pol hooks priv (u :: us) ms P = .ok (rs, ms')) :
    ∃ r m rs' ms'', rs = r :: rs' ∧ ms' = m :: ms'' ∧ runM pol hooks priv u (ms.headD .fresh) P = .ok (r, m) ∧
      runListM pol hooks priv us ms.tail r.ret = .ok (rs', ms'') := by
  rw [runListM] at h
  split at h
  · cases h
  · rename_i r m hr
    split at h
    · cases h
    · rename_i rs' ms'' hrs
      cases h
      exact ⟨r, m, rs', ms'', rfl, rfl, hr, hrs⟩

end RunsM
section Keeps
variable {K V : Type} [DecidableEq K]

theorem applies_false_of_no_root {hooks : List (String × K)} {k : K} (hn : ∀ h ∈ hooks, h.2 ≠ k) (owners : List String) :
    applies owners hooks k = false := by
  simp only [applies, List.any_eq_false, Bool.and_eq_true, decide_eq_true_eq, not_and]
  intro h hh _
  exact hn h hh

omit [DecidableEq K] in
theorem lastRet_cons (P : Dict K V) (r : Solved K V) (rs : List (Solved K V)) : lastRet P (r :: rs) = lastRet r.ret rs := by
  cases rs with
  | nil => rfl
  | cons r1 rs1 =>
    rw [lastRet_eq r.ret, lastRet_eq P, List.getLast?_cons_cons]
    cases h : (r1 :: rs1).getLast? with
    | none => simp at h
    | some x => rfl

/-- `run_spec` with the trace -/
theorem run_trace {hooks : List (String × K)} {priv : K → Bool} {io oo : List String} {ii oi idf : Dict K V}
    {pre post subs : List (UnitT K V)} {P : Dict K V} {r : Solved K V}
    (h : run hooks priv (.mk io oo ii oi idf pre post subs) P = .ok r) :
    ∃ rpre rs rpost,
      runList hooks priv pre P = .ok rpre ∧ r.received = lastRet P rpre ∧
      evalSet io ii noFallback hooks (pub priv r.received) = .ok r.inP ∧
      runList hooks priv subs r.inP = .ok rs ∧
      evalSet oo oi (outFallback rs r.inP idf) hooks (pub priv r.received) = .ok r.outP ∧
      runList hooks priv post (pub priv r.outP) = .ok rpost ∧ r.ret = lastRet (pub priv r.outP) rpost ∧
      r.trace = (rpre.flatMap (·.trace)) ++ (r.inP, r.outP) :: (rs.flatMap (·.trace)) ++ (rpost.flatMap (·.trace)) := by
  rw [run] at h
  split at h
  · cases h
  · rename_i rpre hpre
    dsimp only at h
    split at h
    · cases h
    · rename_i inP hin
      split at h
      · cases h
      · rename_i rs hrs
        split at h
        · cases h
        · rename_i outP hout
          split at h
          · cases h
          · rename_i rpost hpost
            cases h
            exact ⟨rpre, rs, rpost, hpre, rfl, hin, hrs, hout, hpost, rfl, rfl⟩

mutual
/-- a public name that is no root hook at all keeps its value through a whole solved tree -/
theorem run_keeps (hooks : List (String × K)) (priv : K → Bool) (k : K) (hk : priv k = false)
    (hn : ∀ h ∈ hooks, h.2 ≠ k) :
    ∀ (u : UnitT K V) (P : Dict K V) (r : Solved K V), run hooks priv u P = .ok r →
      get r.ret k = get P k ∧ ∀ p ∈ r.trace, get p.1 k = get P k ∧ get p.2 k = get P k
  | .mk io oo ii oi idf pre post subs, P, r, h => by
    obtain ⟨rpre, rs, rpost, hpre, hrec, hin, hrs, hout, hpost, hret, htr⟩ := run_trace h
    obtain ⟨a1, a2⟩ := runList_keeps hooks priv k hk hn pre P rpre hpre
    have hrecv : get r.received k = get P k := by rw [hrec]; exact a1
    have hinv : get r.inP k = get P k := by
      rw [evalSet_get _ _ _ _ _ _ hin k, applies_false_of_no_root hn, get_pub, hk]; simpa using hrecv
    have houtv : get r.outP k = get P k := by
      rw [evalSet_get _ _ _ _ _ _ hout k, applies_false_of_no_root hn, get_pub, hk]; simpa using hrecv
    obtain ⟨b1, b2⟩ := runList_keeps hooks priv k hk hn subs r.inP rs hrs
    obtain ⟨c1, c2⟩ := runList_keeps hooks priv k hk hn post (pub priv r.outP) rpost hpost
    have hpo : get (pub priv r.outP) k = get P k := by rw [get_pub, hk]; simpa using houtv
    refine ⟨by rw [hret, c1, hpo], ?_⟩
    intro p hp
    rw [htr] at hp
    simp only [List.mem_append, List.mem_cons, List.mem_flatMap] at hp
    rcases hp with (⟨q, hq, hpq⟩ | rfl | ⟨q, hq, hpq⟩) | ⟨q, hq, hpq⟩
    · exact a2 q hq p hpq
    · exact ⟨hinv, houtv⟩
    · have := b2 q hq p hpq; rw [hinv] at this; exact this
    · have := c2 q hq p hpq; rw [hpo] at this; exact this
theorem runList_keeps (hooks : List (String × K)) (priv : K → Bool) (k : K) (hk : priv k = false)
    (hn : ∀ h ∈ hooks, h.2 ≠ k) :
    ∀ (us : List (UnitT K V)) (P : Dict K V) (rs : List (Solved K V)), runList hooks priv us P = .ok rs →
      get (lastRet P rs) k = get P k ∧ ∀ r ∈ rs, ∀ p ∈ r.trace, get p.1 k = get P k ∧ get p.2 k = get P k
  | [], P, rs, h => by rw [runList] at h; cases h; exact ⟨rfl, by simp⟩
  | u :: us, P, rs, h => by
    obtain ⟨r, rs', rfl, h1, h2⟩ := runList_cons h
    obtain ⟨a1, a2⟩ := run_keeps hooks priv k hk hn u P r h1
    obtain ⟨b1, b2⟩ := runList_keeps hooks priv k hk hn us r.ret rs' h2
    refine ⟨by rw [lastRet_cons, b1, a1], ?_⟩
    intro q hq p hp
    rcases List.mem_cons.1 hq with rfl | hq
    · exact a2 p hp
    · have := b2 q hq p hp; rw [a1] at this; exact this
end

end Keeps
section RunsM2
variable {K V : Type} [DecidableEq K]

mutual
/-- a first solve (no history) is `run` -/
theorem runM_fresh (pol : Reuse) (hooks : List (String × K)) (priv : K → Bool) :
    ∀ (u : UnitT K V) (P : Dict K V), (runM pol hooks priv u .fresh P).map (·.1) = run hooks priv u P
  | .mk io oo ii oi idf pre post subs, P => by
    rw [runM, run]
    cases hpre : runList hooks priv pre P with
    | error e => rfl
    | ok rpre =>
      dsimp only
      cases hin : evalSet io ii noFallback hooks (pub priv (lastRet P rpre)) with
      | error e => rfl
      | ok inP =>
        dsimp only
        have ih := runListM_fresh pol hooks priv subs inP
        simp only [Mem.fresh, Mem.subs, Mem.out, initOut]
        cases hs : runListM pol hooks priv subs [] inP with
        | error e =>
          rw [hs] at ih
          simp only [Except.map] at ih
          rw [← ih]; rfl
        | ok p =>
          obtain ⟨rs, ms⟩ := p
          rw [hs] at ih
          simp only [Except.map] at ih
          rw [← ih]
          dsimp only
          cases hout : evalSet oo oi (outFallback rs inP idf) hooks (pub priv (lastRet P rpre)) with
          | error e => rfl
          | ok outP =>
            dsimp only
            cases hpost : runList hooks priv post (pub priv outP) with
            | error e => rfl
            | ok rpost => rfl
theorem runListM_fresh (pol : Reuse) (hooks : List (String × K)) (priv : K → Bool) :
    ∀ (us : List (UnitT K V)) (P : Dict K V), (runListM pol hooks priv us [] P).map (·.1) = runList hooks priv us P
  | [], P => by rw [runListM, runList]; rfl
  | u :: us, P => by
    rw [runListM, runList]
    have ih := runM_fresh pol hooks priv u P
    simp only [List.headD_nil, List.tail_nil]
    cases h1 : runM pol hooks priv u Mem.fresh P with
    | error e =>
      rw [h1] at ih; simp only [Except.map] at ih; rw [← ih]; rfl
    | ok p =>
      obtain ⟨r, m⟩ := p
      rw [h1] at ih; simp only [Except.map] at ih; rw [← ih]
      dsimp only
      have ih2 := runListM_fresh pol hooks priv us r.ret
      cases h2 : runListM pol hooks priv us [] r.ret with
      | error e => rw [h2] at ih2; simp only [Except.map] at ih2; rw [← ih2]; rfl
      | ok q =>
        obtain ⟨rs, ms⟩ := q
        rw [h2] at ih2; simp only [Except.map] at ih2; rw [← ih2]; rfl
end

end RunsM2

section KeepsM
variable {K V : Type} [DecidableEq K]

theorem get_initOut_new_other (priv root : K → Bool) (prev : Option (Dict K V)) (P1 : Dict K V) (k : K)
    (hk : priv k = false) (hr : root k = false) : get (initOut Reuse.new priv root prev P1) k = get P1 k := by
  cases prev with
  | none => simp [initOut, get_pub, hk]
  | some d => rw [get_initOut_new, hk, hr]; simp

/-- what a successful `runM` consists of -/
theorem runM_spec {pol : Reuse} {hooks : List (String × K)} {priv : K → Bool} {io oo : List String} {ii oi idf : Dict K V}
    {pre post subs : List (UnitT K V)} {m m' : Mem K V} {P : Dict K V} {r : Solved K V}
    (h : runM pol hooks priv (.mk io oo ii oi idf pre post subs) m P = .ok (r, m')) :
    ∃ rpre rs ms rpost,
      runList hooks priv pre P = .ok rpre ∧ r.received = lastRet P rpre ∧
      evalSet io ii noFallback hooks (pub priv r.received) = .ok r.inP ∧
      runListM pol hooks priv subs m.subs r.inP = .ok (rs, ms) ∧
      evalSet oo oi (outFallback rs r.inP idf) hooks (initOut pol priv (applies oo hooks) m.out r.received) = .ok r.outP ∧
      runList hooks priv post (pub priv r.outP) = .ok rpost ∧ r.ret = lastRet (pub priv r.outP) rpost ∧
      r.trace = (rpre.flatMap (·.trace)) ++ (r.inP, r.outP) :: (rs.flatMap (·.trace)) ++ (rpost.flatMap (·.trace)) ∧
      m' = .mk (some r.outP) ms := by
  rw [runM] at h
  split at h
  · cases h
  · rename_i rpre hpre
    dsimp only at h
    split at h
    · cases h
    · rename_i inP hin
      split at h
      · cases h
      · rename_i rs ms hrs
        split at h
        · cases h
        · rename_i outP hout
          split at h
          · cases h
          · rename_i rpost hpost
            cases h
            exact ⟨rpre, rs, ms, rpost, hpre, rfl, hin, hrs, hout, hpost, rfl, rfl, rfl⟩

mutual
/-- with the hand-over branch, a public name that is no root hook at all has the CURRENT caller's value in every
    profile of a tree that is solved again, whatever the previous solves left in the out profiles -/
theorem runM_keeps (hooks : List (String × K)) (priv : K → Bool) (k : K) (hk : priv k = false)
    (hn : ∀ h ∈ hooks, h.2 ≠ k) :
    ∀ (u : UnitT K V) (m m' : Mem K V) (P : Dict K V) (r : Solved K V),
      runM Reuse.new hooks priv u m P = .ok (r, m') →
      get r.ret k = get P k ∧ ∀ p ∈ r.trace, get p.1 k = get P k ∧ get p.2 k = get P k
  | .mk io oo ii oi idf pre post subs, m, m', P, r, h => by
    obtain ⟨rpre, rs, ms, rpost, hpre, hrec, hin, hrs, hout, hpost, hret, htr, -⟩ := runM_spec h
    obtain ⟨a1, a2⟩ := runList_keeps hooks priv k hk hn pre P rpre hpre
    have hrecv : get r.received k = get P k := by rw [hrec]; exact a1
    have hinv : get r.inP k = get P k := by
      rw [evalSet_get _ _ _ _ _ _ hin k, applies_false_of_no_root hn, get_pub, hk]; simpa using hrecv
    have houtv : get r.outP k = get P k := by
      rw [evalSet_get _ _ _ _ _ _ hout k, applies_false_of_no_root hn,
        get_initOut_new_other _ _ _ _ _ hk (applies_false_of_no_root hn _)]
      simpa using hrecv
    obtain ⟨b1, b2⟩ := runListM_keeps hooks priv k hk hn subs m.subs ms r.inP rs hrs
    obtain ⟨c1, c2⟩ := runList_keeps hooks priv k hk hn post (pub priv r.outP) rpost hpost
    have hpo : get (pub priv r.outP) k = get P k := by rw [get_pub, hk]; simpa using houtv
    refine ⟨by rw [hret, c1, hpo], ?_⟩
    intro p hp
    rw [htr] at hp
    simp only [List.mem_append, List.mem_cons, List.mem_flatMap] at hp
    rcases hp with (⟨q, hq, hpq⟩ | rfl | ⟨q, hq, hpq⟩) | ⟨q, hq, hpq⟩
    · exact a2 q hq p hpq
    · exact ⟨hinv, houtv⟩
    · have := b2 q hq p hpq; rw [hinv] at this; exact this
    · have := c2 q hq p hpq; rw [hpo] at this; exact this
theorem runListM_keeps (hooks : List (String × K)) (priv : K → Bool) (k : K) (hk : priv k = false)
    (hn : ∀ h ∈ hooks, h.2 ≠ k) :
    ∀ (us : List (UnitT K V)) (ms ms' : List (Mem K V)) (P : Dict K V) (rs : List (Solved K V)),
      runListM Reuse.new hooks priv us ms P = .ok (rs, ms') →
      get (lastRet P rs) k = get P k ∧ ∀ r ∈ rs, ∀ p ∈ r.trace, get p.1 k = get P k ∧ get p.2 k = get P k
  | [], ms, ms', P, rs, h => by rw [runListM] at h; cases h; exact ⟨rfl, by simp⟩
  | u :: us, ms, ms', P, rs, h => by
    obtain ⟨r, m, rs', ms'', rfl, rfl, h1, h2⟩ := runListM_cons h
    obtain ⟨a1, a2⟩ := runM_keeps hooks priv k hk hn u _ m P r h1
    obtain ⟨b1, b2⟩ := runListM_keeps hooks priv k hk hn us _ ms'' r.ret rs' h2
    refine ⟨by rw [lastRet_cons, b1, a1], ?_⟩
    intro q hq p hp
    rcases List.mem_cons.1 hq with rfl | hq
    · exact a2 p hp
    · have := b2 q hq p hp; rw [a1] at this; exact this
end

end KeepsM
section StepM
variable {K V : Type} [DecidableEq K]

omit [DecidableEq K] in
theorem headD_eq_getElem? (ms : List (Mem K V)) : ms.headD .fresh = (ms[0]?).getD .fresh := by
  cases ms <;> rfl

/-- on a second solve too, every unit of a chain is solved on exactly what its predecessor returned — with its own history -/
theorem runListM_step {pol : Reuse} {hooks : List (String × K)} {priv : K → Bool} {us : List (UnitT K V)}
    {ms ms' : List (Mem K V)} {P : Dict K V} {rs : List (Solved K V)}
    (h : runListM pol hooks priv us ms P = .ok (rs, ms'))
    (i : Nat) {u' : UnitT K V} {r r' : Solved K V}
    (hu : us[i + 1]? = some u') (hr : rs[i]? = some r) (hr' : rs[i + 1]? = some r') :
    ∃ m', runM pol hooks priv u' ((ms[i + 1]?).getD .fresh) r.ret = .ok (r', m') ∧ ms'[i + 1]? = some m' := by
  induction us generalizing ms ms' P rs i with
  | nil => simp at hu
  | cons u us ih =>
    obtain ⟨r0, m0, rs', ms'', rfl, rfl, h1, h2⟩ := runListM_cons h
    cases i with
    | zero =>
      simp at hr; subst hr
      cases us with
      | nil => simp at hu
      | cons u1 us1 =>
        obtain ⟨r1, m1, rs1, ms1, rfl, rfl, h3, _⟩ := runListM_cons h2
        simp at hu hr'; subst hu; subst hr'
        refine ⟨m1, ?_, by simp⟩
        rw [headD_eq_getElem?] at h3
        simpa using h3
    | succ j =>
      simp at hu hr hr'
      obtain ⟨m', hm, hm'⟩ := ih h2 j hu hr hr'
      refine ⟨m', ?_, by simpa using hm'⟩
      simpa using hm

theorem runListM_first {pol : Reuse} {hooks : List (String × K)} {priv : K → Bool} {us : List (UnitT K V)}
    {ms ms' : List (Mem K V)} {P : Dict K V} {rs : List (Solved K V)}
    (h : runListM pol hooks priv us ms P = .ok (rs, ms'))
    {u : UnitT K V} {r : Solved K V} (hu : us[0]? = some u) (hr : rs[0]? = some r) :
    ∃ m', runM pol hooks priv u ((ms[0]?).getD .fresh) P = .ok (r, m') := by
  cases us with
  | nil => simp at hu
  | cons u0 us =>
    obtain ⟨r0, m0, rs', ms'', rfl, rfl, h1, _⟩ := runListM_cons h
    simp at hu hr; subst hu; subst hr
    rw [headD_eq_getElem?] at h1
    exact ⟨m0, h1⟩

end StepM
end Handover
