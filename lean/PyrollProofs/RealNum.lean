import PyrollModel.Expr
import Mathlib.Analysis.SpecialFunctions.Trigonometric.Basic
import Mathlib.Analysis.SpecialFunctions.Trigonometric.Inverse
import Mathlib.Analysis.SpecialFunctions.Trigonometric.Arctan
import Mathlib.Analysis.SpecialFunctions.Sqrt
import Mathlib.Analysis.SpecialFunctions.Log.Basic
import Mathlib.Tactic

/-! The real-number interpretation of `PyNum`; all property theorems about formulas are stated over it. -/

noncomputable instance instPyNumReal : PyNum ℝ where
  nat n := (n : ℝ)
  dec m e := (m : ℝ) / (10 : ℝ) ^ e
  pi := Real.pi
  sqrt := Real.sqrt
  sin := Real.sin
  cos := Real.cos
  tan := Real.tan
  asin := Real.arcsin
  acos := Real.arccos
  atan := Real.arctan
  log := Real.log
  exp := Real.exp
  abs := fun x => |x|
  le a b := decide (a ≤ b)
  lt a b := decide (a < b)

theorem PyNum.npow_real (x : ℝ) (n : ℕ) : PyNum.npow x n = x ^ n := by
  induction n with
  | zero => simp [PyNum.npow, PyNum.nat]
  | succ n ih => simp [PyNum.npow, ih, pow_succ]

@[simp] theorem PyNum.nat_real (n : ℕ) : (PyNum.nat n : ℝ) = (n : ℝ) := rfl
@[simp] theorem PyNum.dec_real (m e : ℕ) : (PyNum.dec m e : ℝ) = (m : ℝ) / (10 : ℝ) ^ e := rfl
@[simp] theorem PyNum.pi_real : (PyNum.pi : ℝ) = Real.pi := rfl
@[simp] theorem PyNum.sqrt_real (x : ℝ) : PyNum.sqrt x = Real.sqrt x := rfl
@[simp] theorem PyNum.sin_real (x : ℝ) : PyNum.sin x = Real.sin x := rfl
@[simp] theorem PyNum.cos_real (x : ℝ) : PyNum.cos x = Real.cos x := rfl
@[simp] theorem PyNum.tan_real (x : ℝ) : PyNum.tan x = Real.tan x := rfl
@[simp] theorem PyNum.asin_real (x : ℝ) : PyNum.asin x = Real.arcsin x := rfl
@[simp] theorem PyNum.acos_real (x : ℝ) : PyNum.acos x = Real.arccos x := rfl
@[simp] theorem PyNum.atan_real (x : ℝ) : PyNum.atan x = Real.arctan x := rfl
@[simp] theorem PyNum.log_real (x : ℝ) : PyNum.log x = Real.log x := rfl
@[simp] theorem PyNum.exp_real (x : ℝ) : PyNum.exp x = Real.exp x := rfl
@[simp] theorem PyNum.abs_real (x : ℝ) : PyNum.abs x = |x| := rfl
@[simp] theorem PyNum.npow_real' (x : ℝ) (n : ℕ) : PyNum.npow x n = x ^ n := PyNum.npow_real x n
