import PyrollModel.Gen.C03
import PyrollProofs.GrooveWFConstruct

/-!
# Two accepted grooves over ℝ (non-vacuity witnesses for `PyrollProps/C03.lean`)

`construct Gen.C03.spec … = .ok …` evaluated in ℝ, step by step along the constructor (`withDefaults`, `resolve`,
`prepare`, `rightSide`, `contour`, every validation):
* `flat_accepted`  the flat groove `usable_width = 2`, `pad = 1/5`, everything else `0`;
* `vee_accepted`   a groove of depth `1` with straight flanks at 45° (`r1 = r2 = 0`, `usable_width = 4`,
                   `even_ground_width = 2`, `pad = 2/5`): no arc is sampled, the contour is the polyline
                   `(±12/5, 0) (±2, 0) (0, 1)` (the ground corners `(±1, 1)` are not emitted by the code, see notes/C03.md).
-/

open GrooveWF Gen.C03

set_option linter.unusedSimpArgs false

namespace GrooveWFExample

noncomputable def flatArgs : Params ℝ := ⟨[("r1", 0), ("r2", 0), ("flank_angle", 0), ("usable_width", 2), ("depth", 0),
  ("pad", 1 / 5)]⟩

noncomputable def cfg0 : List (String × ℝ) := [("Config.GROOVE_RADIUS_POINT_COUNT", 2), ("Config.GROOVE_PADDING", 1/5)]

noncomputable def wd0 : List (String × ℝ) := [("r1", 0), ("r2", 0), ("flank_angle", 0), ("usable_width", 2), ("depth", 0), ("pad", 1 / 5),
  ("r3", 0), ("alpha3", 0), ("r4", 0), ("alpha4", 0), ("indent", 0), ("even_ground_width", 0), ("rel_pad", 1/5), ("pad_angle", 0)]

theorem hdef : spec.defaults = [("r3", (.nat 0)), ("alpha3", (.nat 0)), ("r4", (.nat 0)), ("alpha4", (.nat 0)), ("indent", (.nat 0)), ("even_ground_width", (.nat 0)), ("pad", (.nat 0)), ("rel_pad", (.var "Config.GROOVE_PADDING")), ("pad_angle", (.nat 0))] := rfl

theorem hwd : withDefaults spec cfg0 0 flatArgs = wd0 := by
  simp only [withDefaults, hdef, flatArgs, Params.get, List.lookup, List.filter, String.reduceBEq, Option.isNone, List.map, Expr.eval, envOfL, cfg0, wd0, List.cons_append, List.nil_append, PyNum.nat_real, Nat.cast_zero]

noncomputable def env0 : List (String × ℝ) := ("pad", 1/5) :: ("ground_width", 2) :: wd0

macro "ev" : tactic => `(tactic| simp only [negViolated, upperViolated, geZero_real, padOf, isclose, Params.get, List.lookup, List.filter, List.find?, List.map, List.any, String.reduceBEq, String.reduceEq,
  Option.isNone, Expr.eval, envOfL, wd0, env0, cfg0, List.cons_append, List.nil_append, PyNum.nat_real, PyNum.dec_real, PyNum.pi_real,
  PyNum.sin_real, PyNum.cos_real, PyNum.tan_real, PyNum.abs_real, PyNum.sqrt_real, PyNum.atan_real,
  Nat.cast_zero, Nat.cast_ofNat, Nat.cast_one, lt_real, le_real, zero_real, Bool.or_false, Bool.false_or, Bool.and_true, Bool.true_and,
  reduceIte, decide_eq_true_eq, Real.sin_zero, Real.cos_zero, Real.tan_zero, sub_self, abs_zero, mul_zero, zero_mul, add_zero, zero_add,
  sub_zero, zero_div, mul_one, one_mul, neg_zero, Bool.not_true, Bool.not_false, ite_true, ite_false])

theorem hres : resolve spec 0 wd0 = .ok (("ground_width", 2) :: wd0) := by
  have hr : spec.resolution = resolution := rfl
  unfold resolve
  rw [hr]
  simp only [resolution, isclose]
  ev
  norm_num
  ev
  norm_num

theorem hprep : prepare spec cfg0 0 flatArgs = .ok env0 := by
  unfold prepare
  rw [hwd, hres]
  have hq : spec.required = ["r1", "r2"] := rfl
  have hn : spec.nonneg = ["r1", "r2", "r3", "r4", "alpha3", "alpha4", "indent", "even_ground_width", "flank_angle",
      "usable_width", "ground_width", "depth"] := rfl
  have hu : spec.upper = [("flank_angle", .div .pi (.nat 2))] := rfl
  have hpd : spec.padDefault = .mul (.var "usable_width") (.var "rel_pad") := rfl
  rw [hq, hn, hu]
  simp only [hpd, flatArgs]
  ev
  norm_num [Real.pi_pos]
  try ev
  try norm_num [Real.pi_pos]

macro "ch" : tactic => `(tactic| simp only [Option.getD, Gen.C03.Groove.chain, Gen.C03.Groove.alpha1, Gen.C03.Groove.alpha2, Gen.C03.Groove.z2, Gen.C03.Groove.y2, Gen.C03.Groove.l12, Gen.C03.Groove.z1, Gen.C03.Groove.y1, Gen.C03.Groove.z0, Gen.C03.Groove.y0, Gen.C03.Groove.z12, Gen.C03.Groove.y12, Gen.C03.Groove.z3, Gen.C03.Groove.y3, Gen.C03.Groove.z9, Gen.C03.Groove.y9, Gen.C03.Groove.z7, Gen.C03.Groove.y7, Gen.C03.Groove.z8, Gen.C03.Groove.y8, Gen.C03.Groove.z6, Gen.C03.Groove.y6, Gen.C03.Groove.beta, Gen.C03.Groove.z10, Gen.C03.Groove.y10, Gen.C03.Groove.z5, Gen.C03.Groove.y5, Gen.C03.Groove.z11, Gen.C03.Groove.y11, Gen.C03.Groove.gamma, Gen.C03.Groove.z4, Gen.C03.Groove.y4])

noncomputable def pts0 : List (Pt ℝ) := [⟨-(6/5), 0⟩, ⟨-1, 0⟩, ⟨0, 0⟩, ⟨1, 0⟩, ⟨6/5, 0⟩]

theorem hright : rightSide spec (envOfL 0 (env0 ++ cfg0)) 2 = [⟨6/5, 0⟩, ⟨1, 0⟩, ⟨0, 0⟩] := by
  have hp : spec.pieces = pieces := rfl
  have hc : spec.chain = Gen.C03.Groove.chain := rfl
  simp only [rightSide, hp, pieces, List.flatMap_cons, List.flatMap_nil, piecePts, jv, lookupE, hc]
  ch
  ev
  norm_num [maxN_real, env0, wd0]

theorem hpts : contour spec.mirror [(⟨6/5, 0⟩ : Pt ℝ), ⟨1, 0⟩, ⟨0, 0⟩] = pts0 := by
  have hm : spec.mirror = ⟨1, true, true⟩ := rfl
  simp [contour, hm, negZ, pts0]

theorem hhalf : half pts0 = [(⟨0, 0⟩ : Pt ℝ), ⟨1, 0⟩, ⟨6/5, 0⟩] := by
  simp [half, pts0]

theorem flat_accepted : construct spec (fun _ => true) cfg0 2 0 flatArgs = .ok ⟨pts0, env0⟩ := by
  have hk : spec.checks = checks := rfl
  unfold construct
  rw [hprep]
  simp only
  rw [hright, hpts, hk]
  simp only [checks, runChecks, runCheck, hhalf, List.all_cons, List.all_nil, List.any_cons, List.any_nil, List.map, List.filter,
    strictInc, maxL, List.foldl, finite_real, maxN_real]
  ch
  ev
  norm_num [maxN_real, env0, wd0]

/-! ## a groove of depth 1 with 45° flanks -/

noncomputable def veeArgs : Params ℝ := ⟨[("r1", 0), ("r2", 0), ("flank_angle", Real.pi / 4), ("usable_width", 4),
  ("depth", 1), ("even_ground_width", 2), ("pad", 2 / 5)]⟩

noncomputable def wd1 : List (String × ℝ) := [("r1", 0), ("r2", 0), ("flank_angle", Real.pi / 4), ("usable_width", 4),
  ("depth", 1), ("even_ground_width", 2), ("pad", 2 / 5),
  ("r3", 0), ("alpha3", 0), ("r4", 0), ("alpha4", 0), ("indent", 0), ("rel_pad", 1/5), ("pad_angle", 0)]

noncomputable def env1 : List (String × ℝ) := ("pad", 2/5) :: ("ground_width", 2) :: wd1

macro "ev1" : tactic => `(tactic| simp only [negViolated, upperViolated, geZero_real, padOf, isclose, Params.get, List.lookup, List.filter,
  List.find?, List.map, List.any, String.reduceBEq, String.reduceEq,
  Option.isNone, Expr.eval, envOfL, wd1, env1, cfg0, List.cons_append, List.nil_append, PyNum.nat_real, PyNum.dec_real, PyNum.pi_real,
  PyNum.sin_real, PyNum.cos_real, PyNum.tan_real, PyNum.abs_real, PyNum.sqrt_real, PyNum.atan_real,
  Nat.cast_zero, Nat.cast_ofNat, Nat.cast_one, lt_real, le_real, zero_real, Bool.or_false, Bool.false_or, Bool.and_true, Bool.true_and,
  reduceIte, decide_eq_true_eq, Real.sin_zero, Real.cos_zero, Real.tan_zero, Real.tan_pi_div_four, sub_self, abs_zero, mul_zero, zero_mul,
  add_zero, zero_add, sub_zero, zero_div, mul_one, one_mul, neg_zero, Bool.not_true, Bool.not_false, ite_true, ite_false])

theorem hwd1 : withDefaults spec cfg0 0 veeArgs = wd1 := by
  simp only [withDefaults, hdef, veeArgs, Params.get, List.lookup, List.filter, String.reduceBEq, Option.isNone, List.map, Expr.eval,
    envOfL, cfg0, wd1, List.cons_append, List.nil_append, PyNum.nat_real, Nat.cast_zero]

theorem hres1 : resolve spec 0 wd1 = .ok (("ground_width", 2) :: wd1) := by
  have hr : spec.resolution = resolution := rfl
  unfold resolve
  rw [hr]
  simp only [resolution, isclose]
  ev1
  norm_num
  try ev1
  try norm_num

theorem hprep1 : prepare spec cfg0 0 veeArgs = .ok env1 := by
  unfold prepare
  rw [hwd1, hres1]
  have hq : spec.required = ["r1", "r2"] := rfl
  have hn : spec.nonneg = ["r1", "r2", "r3", "r4", "alpha3", "alpha4", "indent", "even_ground_width", "flank_angle",
      "usable_width", "ground_width", "depth"] := rfl
  have hu : spec.upper = [("flank_angle", .div .pi (.nat 2))] := rfl
  have hpd : spec.padDefault = .mul (.var "usable_width") (.var "rel_pad") := rfl
  rw [hq, hn, hu]
  simp only [hpd, veeArgs]
  ev1
  have hpi := Real.pi_pos
  norm_num [Real.pi_pos]
  try ev1
  rw [if_neg (by linarith), if_neg (by linarith)]

noncomputable def pts1 : List (Pt ℝ) := [⟨-(12/5), 0⟩, ⟨-2, 0⟩, ⟨0, 1⟩, ⟨2, 0⟩, ⟨12/5, 0⟩]

theorem hright1 : rightSide spec (envOfL 0 (env1 ++ cfg0)) 2 = [⟨12/5, 0⟩, ⟨2, 0⟩, ⟨0, 1⟩] := by
  have hp : spec.pieces = pieces := rfl
  have hc : spec.chain = Gen.C03.Groove.chain := rfl
  simp only [rightSide, hp, pieces, List.flatMap_cons, List.flatMap_nil, piecePts, jv, lookupE, hc]
  ch
  ev1
  norm_num

theorem hpts1 : contour spec.mirror [(⟨12/5, 0⟩ : Pt ℝ), ⟨2, 0⟩, ⟨0, 1⟩] = pts1 := by
  have hm : spec.mirror = ⟨1, true, true⟩ := rfl
  simp [contour, hm, negZ, pts1]

theorem hhalf1 : half pts1 = [(⟨0, 1⟩ : Pt ℝ), ⟨2, 0⟩, ⟨12/5, 0⟩] := by
  simp [half, pts1]

theorem vee_accepted : construct spec (fun _ => true) cfg0 2 0 veeArgs = .ok ⟨pts1, env1⟩ := by
  have hk : spec.checks = checks := rfl
  unfold construct
  rw [hprep1]
  simp only
  rw [hright1, hpts1, hk]
  simp only [checks, runChecks, runCheck, hhalf1, List.all_cons, List.all_nil, List.any_cons, List.any_nil, List.map, List.filter,
    strictInc, maxL, List.foldl, finite_real, maxN_real]
  ch
  ev1
  norm_num [maxN_real, env1, wd1]

/-! ## junctions out of order: the flat groove with a negative padding (`z0 < z1`) -/

noncomputable def negPadArgs : Params ℝ := ⟨[("r1", 0), ("r2", 0), ("flank_angle", 0), ("usable_width", 2), ("depth", 0),
  ("pad", -(1 / 5))]⟩

noncomputable def wd2 : List (String × ℝ) := [("r1", 0), ("r2", 0), ("flank_angle", 0), ("usable_width", 2), ("depth", 0),
  ("pad", -(1 / 5)), ("r3", 0), ("alpha3", 0), ("r4", 0), ("alpha4", 0), ("indent", 0), ("even_ground_width", 0),
  ("rel_pad", 1/5), ("pad_angle", 0)]

noncomputable def env2 : List (String × ℝ) := ("pad", -(1/5)) :: ("ground_width", 2) :: wd2

macro "ev2" : tactic => `(tactic| simp only [negViolated, upperViolated, geZero_real, padOf, isclose, Params.get, List.lookup, List.filter,
  List.find?, List.map, List.any, String.reduceBEq, String.reduceEq,
  Option.isNone, Expr.eval, envOfL, wd2, env2, cfg0, List.cons_append, List.nil_append, PyNum.nat_real, PyNum.dec_real, PyNum.pi_real,
  PyNum.sin_real, PyNum.cos_real, PyNum.tan_real, PyNum.abs_real, PyNum.sqrt_real, PyNum.atan_real,
  Nat.cast_zero, Nat.cast_ofNat, Nat.cast_one, lt_real, le_real, zero_real, Bool.or_false, Bool.false_or, Bool.and_true, Bool.true_and,
  reduceIte, decide_eq_true_eq, Real.sin_zero, Real.cos_zero, Real.tan_zero, sub_self, abs_zero, mul_zero, zero_mul,
  add_zero, zero_add, sub_zero, zero_div, mul_one, one_mul, neg_zero, Bool.not_true, Bool.not_false, ite_true, ite_false])

theorem hwd2 : withDefaults spec cfg0 0 negPadArgs = wd2 := by
  simp only [withDefaults, hdef, negPadArgs, Params.get, List.lookup, List.filter, String.reduceBEq, Option.isNone, List.map, Expr.eval,
    envOfL, cfg0, wd2, List.cons_append, List.nil_append, PyNum.nat_real, Nat.cast_zero]

theorem hres2 : resolve spec 0 wd2 = .ok (("ground_width", 2) :: wd2) := by
  have hr : spec.resolution = resolution := rfl
  unfold resolve
  rw [hr]
  simp only [resolution, isclose]
  ev2
  norm_num
  try ev2
  try norm_num

theorem hprep2 : prepare spec cfg0 0 negPadArgs = .ok env2 := by
  unfold prepare
  rw [hwd2, hres2]
  have hq : spec.required = ["r1", "r2"] := rfl
  have hn : spec.nonneg = ["r1", "r2", "r3", "r4", "alpha3", "alpha4", "indent", "even_ground_width", "flank_angle",
      "usable_width", "ground_width", "depth"] := rfl
  have hu : spec.upper = [("flank_angle", .div .pi (.nat 2))] := rfl
  have hpd : spec.padDefault = .mul (.var "usable_width") (.var "rel_pad") := rfl
  rw [hq, hn, hu]
  simp only [hpd, negPadArgs]
  ev2
  norm_num [Real.pi_pos]
  try ev2
  try norm_num [Real.pi_pos]

theorem hright2 : rightSide spec (envOfL 0 (env2 ++ cfg0)) 2 = [⟨4/5, 0⟩, ⟨1, 0⟩, ⟨0, 0⟩] := by
  have hp : spec.pieces = pieces := rfl
  have hc : spec.chain = Gen.C03.Groove.chain := rfl
  simp only [rightSide, hp, pieces, List.flatMap_cons, List.flatMap_nil, piecePts, jv, lookupE, hc]
  ch
  ev2
  norm_num

/-- the padding is not among the measures checked for non-negativity: the arguments pass `prepare`, but the face end
    `z0 = 4/5` lies inside junction 1 (`z1 = 1`), the right half does not run strictly inwards -/
theorem negPad_unordered : prepare spec cfg0 0 negPadArgs = .ok env2 ∧
    ¬ RightSideOrdered spec (envOfL 0 (env2 ++ cfg0)) 2 := by
  refine ⟨hprep2, ?_⟩
  have hm : spec.mirror = ⟨1, true, true⟩ := rfl
  simp only [RightSideOrdered, hright2, hm]
  simp [contour, half, negZ]
  norm_num

end GrooveWFExample
