import PyrollModel.Rot
import PyrollModel.GeomRot
import PyrollModel.Gen.C14
import PyrollModel.Proto
open Proto

/-!
Line-protocol driver of the rotation model (C14), run on `Float` with the tables generated from the source.

```
auto 0|1                          set Config.ROLL_PASS_AUTO_ROTATION                       -> ok
seq <cls> <unit> <unit> …         solve a flat sequence fed with a profile of classifiers  -> one observation per unit, `;`-separated
solo <cls> <setting> <passcls>    a roll pass without parent                               -> one observation
rule <incls> <nextcls>            Rotator.rotation from the rule table                     -> angle | none
marks <incls> <θ>                 Rotator.OutProfile.classifiers                           -> classifier list
rot <θ> <x0> <y0> <x1> <y1> …     Rotator.OutProfile.cross_section on a coordinate ring    -> coordinates | area perimeter
rules                             names of the translated rules in evaluation order
hreset                            forget all cached `rotation` values (new objects)                                -> ok
hsolve <extra> <cls> <slot> …     solve the arrangement `extra + 1` outer iterations with the caches left by the earlier
                                  `hsolve`s -> final observations `;`-separated ` | ` cache of every pass (t|f|-)
heap <node> <node> …              the object graph: node = <id>:<P|R|T|O>:<is a sequence 0|1>:<parent id|->:<subunit ids a.b.c|->  -> ok
nav <id>                          detect_already_rotated(unit id) as a navigation over that graph -> t | f | none | E:value | E:index
flat <id>                         sequence id .flatten() on that graph (kept)  -> members ` | ` parent of every node (in `heap` order)
```
slots of `hsolve`: `P#<id>:<setting>:<cls>[:<pres>]` (`pres` = pre-processor factories of the pass' class in yield order,
`F` rotator_factory, `i` geometry-neutral unit returning a new profile, `n` returns None; default `F`), other units as above.
units: `P:<setting>:<cls>` (`setting` = `u`nset | `t`rue | `f`alse | `n<bits>`), `T`, `O`, `R:u`, `R:n<bits>`;
classifier lists are comma separated, `-` is the empty list; floats are IEEE bit patterns.
-/
namespace RotDriver
open Rot

def cls? (s : String) : List String := if s = "-" then [] else s.splitOn ","
def showCls (l : List String) : String := if l.isEmpty then "-" else ",".intercalate l

def setting? (s : String) : Option (Setting Float) :=
  if s = "u" then some .unset else if s = "t" then some .tt else if s = "f" then some .ff
  else if s.startsWith "n" then (floatOfBitsStr (s.drop 1).toString).map .num else none

def unit? (tok : String) : Option (U Float) :=
  match tok.splitOn ":" with
  | ["T"] => some .transport
  | ["O"] => some .other
  | ["R", "u"] => some (.rotator none)
  | ["R", a] => if a.startsWith "n" then (floatOfBitsStr (a.drop 1).toString).map (fun x => .rotator (some x)) else none
  | ["P", s, c] => (setting? s).map (fun s => .pass s (cls? c))
  | _ => none

def showVal : RotVal Float → String
  | .tt => "t"
  | .ff => "f"
  | .num x => "n" ++ floatToBitsStr x

def showObs : Obs Float → String
  | .pass v a turn c => s!"P {showVal v} {match a with | none => "-" | some x => floatToBitsStr x} {floatToBitsStr turn} {showCls c}"
  | .rotator θ c => s!"R {floatToBitsStr θ} {showCls c}"
  | .skip => "S"
  | .err => "E"

def pts? : List String → Option (List (GeomRot.Pt Float))
  | [] => some []
  | a :: b :: rest => do
    let x ← floatOfBitsStr a
    let y ← floatOfBitsStr b
    let r ← pts? rest
    pure (⟨x, y⟩ :: r)
  | _ => none

def T := Gen.C14.tables

def pres? (s : String) : Option (List PreKind) :=
  s.toList.mapM fun ch => if ch = 'F' then some .factory else if ch = 'i' then some .neutral else if ch = 'n' then some .absent else none

def slot? (tok : String) : Option (Slot Float) :=
  match tok.splitOn ":" with
  | [p, s, c] =>
    if p.startsWith "P#" then do
      let i ← (p.drop 2).toString.toNat?
      let s ← setting? s
      pure { id := i, u := .pass s (cls? c) }
    else (unit? tok).map fun u => { id := 0, u := u }
  | [p, s, c, pr] =>
    if p.startsWith "P#" then do
      let i ← (p.drop 2).toString.toNat?
      let s ← setting? s
      let pr ← pres? pr
      pure { id := i, u := .pass s (cls? c), pres := pr }
    else none
  | _ => (unit? tok).map fun u => { id := 0, u := u }

def showCache (store : Store) (us : List (Slot Float)) : String :=
  ",".intercalate ((us.filter (·.u.isPass)).map fun sl =>
    match store.get sl.id with | some true => "t" | some false => "f" | none => "-")

structure DState where
  auto : Bool
  store : Store
  nodes : List NodeRec := []

def kind? (s : String) : Option Kind :=
  if s = "P" then some .pass else if s = "R" then some .rotator else if s = "T" then some .transport
  else if s = "O" then some .other else none

def ids? (s : String) : Option (List Nat) := if s = "-" then some [] else (s.splitOn ".").mapM (·.toNat?)

def node? (tok : String) : Option NodeRec :=
  match tok.splitOn ":" with
  | [i, k, q, p, subs] => do
    let i ← i.toNat?
    let k ← kind? k
    let p ← if p = "-" then some none else p.toNat?.map some
    let subs ← ids? subs
    pure { id := i, kind := k, isSeq := q = "1", parent := p, subs := subs }
  | _ => none

def showIds (l : List Nat) : String := if l.isEmpty then "-" else ".".intercalate (l.map toString)

def showNav : NavOut → String
  | .val (some true) => "t"
  | .val (some false) => "f"
  | .val none => "none"
  | .raises .value => "E:value"
  | .raises .index => "E:index"
  | .fuel => "fuel"

def handleNav (d : DState) (line : String) : Option (DState × String) :=
  match toks line with
  | "heap" :: ns =>
    match ns.mapM node? with
    | some ns => some ({ d with nodes := ns }, "ok")
    | none => some (d, "bad-op")
  | ["nav", i] =>
    match i.toNat? with
    | some i => some (d, showNav (detectNav T.walk Gen.C14.prevSpec d.auto (Heap.ofNodes d.nodes) i d.nodes.length))
    | none => some (d, "bad-op")
  | ["flat", i] =>
    match i.toNat? with
    | some i =>
      let h := flatten Gen.C14.listOps Gen.C14.flattenSpec (Heap.ofNodes d.nodes) i
      let ns := d.nodes.map fun n => { n with parent := h.parent n.id, subs := h.subs n.id }
      some ({ d with nodes := ns }, showIds (h.subs i) ++ " | " ++
        " ".intercalate (ns.map fun n => match n.parent with | some p => toString p | none => "-"))
    | none => some (d, "bad-op")
  | _ => none

def handleH (d : DState) (line : String) : Option (DState × String) :=
  match toks line with
  | ["hreset"] => some ({ d with store := [] }, "ok")
  | "hsolve" :: n :: c :: us =>
    match n.toNat?, us.mapM slot? with
    | some n, some us =>
      let r := solveH Gen.C14.flow T Gen.C14.cache d.auto n d.store
        { before := [], cls := cls? c, turn := PyNum.nat 0 } us
      some ({ d with store := r.2 }, "; ".intercalate (r.1.map showObs) ++ " | " ++ showCache r.2 us)
    | _, _ => some (d, "bad-op")
  | _ => none

def handle (auto : Bool) (line : String) : Bool × String :=
  match toks line with
  | ["auto", b] => (b = "1", "ok")
  | "seq" :: c :: us =>
    match us.mapM unit? with
    | some us => (auto, "; ".intercalate ((runSeq T auto (cls? c) us).map showObs))
    | none => (auto, "bad-op")
  | ["solo", c0, s, c] =>
    match setting? s with
    | some s => (auto, showObs (soloPass T auto (cls? c0) s (cls? c)))
    | none => (auto, "bad-op")
  | ["rule", a, b] => (auto, match ruleAngle T.rules (cls? a) (cls? b) with | some n => toString n | none => "none")
  | ["marks", a, θ] =>
    match floatOfBitsStr θ with
    | some θ => (auto, showCls (marksOut T.marks (cls? a) θ))
    | none => (auto, "bad-op")
  | "rot" :: θ :: cs =>
    match floatOfBitsStr θ, pts? cs with
    | some θ, some ps =>
      let q := GeomRot.rotPoly θ ps
      (auto, " ".intercalate (q.map fun p => floatToBitsStr p.x ++ " " ++ floatToBitsStr p.y) ++ " | " ++
        floatToBitsStr (GeomRot.area q) ++ " " ++ floatToBitsStr (GeomRot.perimeter q) ++ " " ++
        floatToBitsStr (GeomRot.area ps) ++ " " ++ floatToBitsStr (GeomRot.perimeter ps))
    | _, _ => (auto, "bad-op")
  | ["rules"] => (auto, ",".intercalate ((evalOrder T.rules).map (·.name)))
  | _ => (auto, "bad-op")

partial def loop (h : IO.FS.Stream) (d : DState) : IO Unit := do
  let line ← h.getLine
  if line.isEmpty then return ()
  let l := line.trimAscii.toString
  match (handleH d l).orElse (fun _ => handleNav d l) with
  | some (d', out) =>
    IO.println out
    loop h d'
  | none =>
    let (auto', out) := handle d.auto l
    IO.println out
    loop h { d with auto := auto' }

def main : IO Unit := do loop (← IO.getStdin) { auto := Gen.C14.autoDefault, store := [] }

end RotDriver
