import PyrollModel.Failure
import PyrollModel.Proto
open Proto

/-
  Line protocol of the C07 model (see driver/props/c07.py for the grammar).

    reset                     forget program and state
    fuel n                    recursion budget of every following top-level read
    fn f h <body>             register implementation `f` on hook `h` (chain order = order of the `fn` lines)
    read i h | has i h | set i h <val> | del i h | clear
    obs                       dump of caches and active marks
    flags                     ghost flags  hitLimit sawCycle reentered
    finite <val>              `_all_finite`

  values:   N  I<int>  B0 B1  F<int> Fnan Finf Fninf  S<n>  T<n> (set)  G<n> (geometry)  C<n> (callable)
            A[ F.. ]  (array)     [ v.. ]  (list)     ( v.. )  (tuple)
  bodies:   ret <val> | acc <int> | raise <Exc> | read <ref> <h> <body> | cyc <body> <body> | has <ref> <h> <body> <body>
            ref = s (self) or an instance number
-/

namespace Failure

def NI : Nat := 4
def NH : Nat := 6
def NF : Nat := 24

def showF : FKind → String
  | .fin k => s!"F{k}"
  | .nan => "Fnan"
  | .pinf => "Finf"
  | .ninf => "Fninf"

def isTup : Val → Bool
  | .nil t => t
  | .cons _ t => isTup t
  | _ => false

/-- `true` = we are inside a sequence (printing the rest of it) -/
def sv : Bool → Val → String
  | true, .cons h t => " " ++ sv false h ++ sv true t
  | true, .nil t => if t then " )" else " ]"
  | true, _ => " ?"
  | false, .cons h t => (if isTup t then "(" else "[") ++ " " ++ sv false h ++ sv true t
  | false, .nil t => if t then "( )" else "[ ]"
  | false, .none => "N"
  | false, .int n => s!"I{n}"
  | false, .bool b => if b then "B1" else "B0"
  | false, .flt f => showF f
  | false, .str s => s!"S{s}"
  | false, .arr xs => "A[ " ++ String.join (xs.map fun f => showF f ++ " ") ++ "]"
  | false, .set n => s!"T{n}"
  | false, .geom n => s!"G{n}"
  | false, .fn n => s!"C{n}"

def showVal (v : Val) : String := sv false v

def showExc : Exc → String
  | .attributeError => "AttributeError"
  | .valueError => "ValueError"
  | .recursionError => "RecursionError"
  | .stopIteration => "StopIteration"
  | .other k => s!"Other{k}"

def showRes : Res → String
  | .val v => "val " ++ showVal v
  | .exc e => "exc " ++ showExc e

def parseExc (s : String) : Option Exc :=
  if s = "AttributeError" then some .attributeError
  else if s = "ValueError" then some .valueError
  else if s = "RecursionError" then some .recursionError
  else if s = "StopIteration" then some .stopIteration
  else if s.startsWith "Other" then (s.drop 5).toNat?.map .other
  else none

def parseF (s : String) : Option FKind :=
  if s = "Fnan" then some .nan
  else if s = "Finf" then some .pinf
  else if s = "Fninf" then some .ninf
  else if s.startsWith "F" then (s.drop 1).toInt?.map .fin
  else none

def mkSeq (tup : Bool) : List Val → Val
  | [] => .nil tup
  | x :: xs => .cons x (mkSeq tup xs)

mutual
  partial def parseVal : List String → Option (Val × List String)
    | [] => none
    | "N" :: r => some (.none, r)
    | "B0" :: r => some (.bool false, r)
    | "B1" :: r => some (.bool true, r)
    | "[" :: r => parseSeq false [] r
    | "(" :: r => parseSeq true [] r
    | "A[" :: r => parseArr [] r
    | t :: r =>
      if t.startsWith "I" then (t.drop 1).toInt?.map fun n => (.int n, r)
      else if t.startsWith "F" then (parseF t).map fun f => (.flt f, r)
      else if t.startsWith "S" then (t.drop 1).toNat?.map fun n => (.str n, r)
      else if t.startsWith "T" then (t.drop 1).toNat?.map fun n => (.set n, r)
      else if t.startsWith "G" then (t.drop 1).toNat?.map fun n => (.geom n, r)
      else if t.startsWith "C" then (t.drop 1).toNat?.map fun n => (.fn n, r)
      else none
  partial def parseSeq (tup : Bool) (acc : List Val) : List String → Option (Val × List String)
    | [] => none
    | "]" :: r => if tup then none else some (mkSeq false acc.reverse, r)
    | ")" :: r => if tup then some (mkSeq true acc.reverse, r) else none
    | ts => match parseVal ts with
      | some (v, r) => parseSeq tup (v :: acc) r
      | none => none
  partial def parseArr (acc : List FKind) : List String → Option (Val × List String)
    | [] => none
    | "]" :: r => some (.arr acc.reverse, r)
    | t :: r => match parseF t with
      | some f => parseArr (f :: acc) r
      | none => none
end

def parseRef (s : String) : Option (Option Nat) :=
  if s = "s" then some none else s.toNat?.map some

partial def parseBody : List String → Option (Body × List String)
  | "ret" :: r => (parseVal r).map fun (v, r') => (.ret v, r')
  | "acc" :: c :: r => c.toInt?.map fun c => (.retAcc c, r)
  | "raise" :: e :: r => (parseExc e).map fun e => (.raise e, r)
  | "read" :: ref :: h :: r => do
    let ref ← parseRef ref
    let h ← h.toNat?
    let (k, r') ← parseBody r
    pure (.read ref h k, r')
  | "cyc" :: r => do
    let (a, r1) ← parseBody r
    let (b, r2) ← parseBody r1
    pure (.ifCycle a b, r2)
  | "has" :: ref :: h :: r => do
    let ref ← parseRef ref
    let h ← h.toNat?
    let (a, r1) ← parseBody r
    let (b, r2) ← parseBody r1
    pure (.ifHas ref h a b, r2)
  | _ => none

structure DState where
  fns : List (Nat × Nat × Body)      -- registration lines in order: (f, hook, body)
  st : St
  fuel : Nat

def DState.prog (d : DState) : Prog :=
  { chain := fun h => (d.fns.filter fun (_, h', _) => h' = h).map (·.1)
    body := fun f => match d.fns.find? (fun (f', _, _) => f' = f) with
      | some (_, _, b) => b
      | none => .ret .none }

def dinit : DState := { fns := [], st := init, fuel := 100 }

def dump (st : St) : String :=
  let cs := (List.range NI).flatMap fun i => (List.range NH).filterMap fun h =>
    match st.cache i h with
    | some v => some s!"{i}.{h}={showVal v}"
    | none => none
  let ds := (List.range NI).flatMap fun i => (List.range NH).filterMap fun h =>
    match st.dict i h with
    | some v => some s!"{i}.{h}={showVal v}"
    | none => none
  let ms := (List.range NF).flatMap fun f => (List.range NI).filterMap fun i =>
    if st.marks f i then some s!"{f}@{i}" else none
  "cache: " ++ " ; ".intercalate cs ++ " | dict: " ++ " ; ".intercalate ds ++ " | marks: " ++ " ".intercalate ms

/-- The state components are functions; every update wraps one more closure around them.  Between two operations the
driver re-tabulates them on the finite domain the harness uses (pure performance: the same function on that
domain; the tables are built strictly, by top-level functions, so that no closure chain survives). -/
@[noinline] def mkTab (f : Nat → Nat → Option Val) (n m : Nat) : Array (Array (Option Val)) :=
  ((List.range n).map fun i => ((List.range m).map fun h => f i h).toArray).toArray

@[noinline] def mkTabB (f : Nat → Nat → Bool) (n m : Nat) : Array (Array Bool) :=
  ((List.range n).map fun i => ((List.range m).map fun h => f i h).toArray).toArray

def tabGet (arr : Array (Array (Option Val))) (i h : Nat) : Option Val := (arr.getD i #[]).getD h none
def tabGetB (arr : Array (Array Bool)) (i h : Nat) : Bool := (arr.getD i #[]).getD h false

def compact (st : St) : St :=
  let d := mkTab st.dict NI NH
  let c := mkTab st.cache NI NH
  let m := mkTabB st.marks NF NI
  let r := mkTabB st.reading NI NH
  { st with dict := tabGet d, cache := tabGet c, marks := tabGetB m, reading := tabGetB r }

def showOut : Out → String
  | .res r => showRes r
  | .bool b => if b then "True" else "False"
  | .ok => "ok"

def handle (d : DState) (line : String) : DState × String :=
  match toks line with
  | ["reset"] => (dinit, "ok")
  | ["fuel", n] => match nat? n with
    | some n => ({ d with fuel := n }, "ok")
    | none => (d, "bad-op")
  | "fn" :: f :: h :: rest => match nat? f, nat? h, parseBody rest with
    | some f, some h, some (b, []) => ({ d with fns := d.fns ++ [(f, h, b)] }, "ok")
    | _, _, _ => (d, "bad-op")
  | ["obs"] => (d, dump d.st)
  | ["flags"] => (d, s!"{d.st.hitLimit} {d.st.sawCycle} {d.st.reentered}")
  | "finite" :: rest => match parseVal rest with
    | some (v, []) => (d, if allFinite v then "True" else "False")
    | _ => (d, "bad-op")
  | t =>
    let op : Option Op := match t with
      | ["read", i, h] => do pure (.read (← nat? i) (← nat? h))
      | ["has", i, h] => do pure (.has (← nat? i) (← nat? h))
      | "set" :: i :: h :: rest => do
        let (v, r) ← parseVal rest
        if r.isEmpty then pure (.set (← nat? i) (← nat? h) v) else none
      | ["del", i, h] => do pure (.del (← nat? i) (← nat? h))
      | ["clear"] => some .clear
      | _ => none
    match op with
    | some op => let (o, st') := step d.prog d.fuel d.st op; ({ d with st := compact st' }, showOut o)
    | none => (d, "bad-op")

partial def loop (h : IO.FS.Stream) (d : DState) : IO Unit := do
  let line ← h.getLine
  if line.isEmpty then return ()
  let (d', out) := handle d (line.trimAscii.toString)
  IO.println out
  loop h d'

def main : IO Unit := do loop (← IO.getStdin) dinit

end Failure
