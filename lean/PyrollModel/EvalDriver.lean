import PyrollModel.Expr
import PyrollModel.Proto
/-
  Generic line-protocol driver for generated formula tables: each line is
      <name> <var>=<float bits> <var>=<float bits> ...
  and the answer is the IEEE bit pattern of `Expr.eval` over `Float` (or `unknown-formula` / `bad-op`).
  Variables that are not bound evaluate to NaN, so a formula reading something the harness did not
  supply is visible in the comparison.
-/
namespace EvalDriver

def parseBinding (s : String) : Option (String × Float) :=
  match s.splitOn "=" with
  | [k, v] => (floatOfBitsStr v).map fun x => (k, x)
  | _ => none

def handle (table : List (String × Expr)) (line : String) : String :=
  match Proto.toks line with
  | [] => "bad-op"
  | name :: rest =>
    match table.find? (fun p => p.1 = name) with
    | none => "unknown-formula"
    | some (_, e) =>
      match rest.mapM parseBinding with
      | none => "bad-op"
      | some env => floatToBitsStr (e.eval (envOf (0.0 / 0.0 : Float) env))

partial def loop (table : List (String × Expr)) (h : IO.FS.Stream) : IO Unit := do
  let line ← h.getLine
  if line.isEmpty then return ()
  IO.println (handle table (line.trimAscii.toString))
  loop table h

def main (table : List (String × Expr)) : IO Unit := do loop table (← IO.getStdin)

end EvalDriver
