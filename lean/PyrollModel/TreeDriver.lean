import PyrollModel.Tree
import PyrollModel.Proto
open Proto

namespace Tree

def parseOp (t : List String) : Option Op :=
  match t with
  | ["unit", k, l] => do pure (.newUnit (← nat? k) (← nat? l))
  | ["seq", l, us] => do pure (.construct (← natList? us) (← nat? l))
  | ["append", s, u] => do pure (.append (← nat? s) (← nat? u))
  | ["prepend", s, u] => do pure (.prepend (← nat? s) (← nat? u))
  | ["insert", s, i, u] => do pure (.insert (← nat? s) (← int? i) (← nat? u))
  | ["extend", s, us] => do pure (.extend (← nat? s) (← natList? us))
  | ["iadd", s, us] => do pure (.iadd (← nat? s) (← natList? us))
  | ["setitem", s, i, u] => do pure (.setItem (← nat? s) (← int? i) (← nat? u))
  | ["setslice", s, i, j, us] => do pure (.setSlice (← nat? s) (← optInt? i) (← optInt? j) (← natList? us))
  | ["delitem", s, i] => do pure (.delItem (← nat? s) (← int? i))
  | ["delslice", s, i, j] => do pure (.delSlice (← nat? s) (← optInt? i) (← optInt? j))
  | ["setsliceext", s, i, j, k, us] => do
      pure (.setSliceExt (← nat? s) (← optInt? i) (← optInt? j) (← int? k) (← natList? us))
  | ["delsliceext", s, i, j, k] => do pure (.delSliceExt (← nat? s) (← optInt? i) (← optInt? j) (← int? k))
  | ["pop", s, i] => do pure (.pop (← nat? s) (← int? i))
  | ["remove", s, u] => do pure (.remove (← nat? s) (← nat? u))
  | ["clear", s] => do pure (.clear (← nat? s))
  | ["drop", s, i] => do pure (.drop (← nat? s) (← int? i))
  | ["flatten", s] => do pure (.flatten (← nat? s))
  | ["listcopy", s] => do pure (.listCopy (← nat? s))
  | ["deepcopy", u] => do pure (.deepCopy (← nat? u))
  | _ => none

/-- last token of a line with an iterable argument: the form in which it is handed over → is it one-shot?
    (`@live`: a generator reading the edited list lazily; iterated once, before anything changes, it yields the
    units named on the line) -/
def formOneShot? : String → Option Bool
  | "@list" | "@tuple" | "@seqabc" | "@iterable" | "@getitem" => some false
  | "@gen" | "@iter" | "@map" | "@rev" | "@chain" | "@live" => some true
  | _ => none

def splitForm (t : List String) : List String × Option Bool :=
  match t.getLast? with
  | some f => match formOneShot? f with
    | some b => (t.dropLast, some b)
    | none => (t, none)
  | none => (t, none)

def showOut : Out → String
  | .ok => "ok"
  | .indexError => "IndexError"
  | .valueError => "ValueError"
  | .unit u => s!"u{u}"

def showNav : Nav → String
  | .unit u => s!"u{u}"
  | .valueError => "ValueError"
  | .indexError => "IndexError"
  | .loop => "Loop"

/-- full dump: for every unit `parent|children` -/
def dump (st : TState) : String :=
  " ".intercalate ((List.range st.n).map fun u =>
    s!"{showOptNat (st.parent u)}|{showNatList (st.children u)}")

def handle (st : TState) (line : String) : TState × String :=
  match toks line with
  | ["reset"] => (init, "ok")
  | ["obs"] => (st, dump st)
  | ["nav", u] => match nat? u with
    | some u => (st, s!"{showNav (prev st u)} {showNav (next st u)}")
    | none => (st, "bad-op")
  | ["navof", u, q] => match nat? u, nat? q with
    | some u, some q => (st, s!"{showNav (prevOf st u q)} {showNav (nextOf st u q)}")
    | _, _ => (st, "bad-op")
  | ["bylabel", s, l] => match nat? s, nat? l with
    | some s, some l => (st, match byLabel st s l with | some u => s!"u{u}" | none => "KeyError")
    | _, _ => (st, "bad-op")
  | ["byindex", s, i] => match nat? s, int? i with
    | some s, some i => (st, match byIndex st s i with | some u => s!"u{u}" | none => "IndexError")
    | _, _ => (st, "bad-op")
  | ["byslice", s, i, j] => match nat? s, optInt? i, optInt? j with
    | some s, some i, some j => (st, showNatList (bySlice st s i j))
    | _, _, _ => (st, "bad-op")
  | ["ofkind", s, k] => match nat? s, nat? k with
    | some s, some k => (st, showNatList (ofKind st s k))
    | _, _ => (st, "bad-op")
  | t => match splitForm t with
    | (t', some oneShot) => match parseOp t' with
      | some op => match op.arg? with
        | some us => let ((st', o), _) := stepSrc st op (Src.fresh us oneShot); (st', showOut o)
        | none => (st, "bad-op")
      | none => (st, "bad-op")
    | (_, none) => match parseOp t with
      | some op => let (st', o) := step st op; (st', showOut o)
      | none => (st, "bad-op")

partial def loop (h : IO.FS.Stream) (st : TState) : IO Unit := do
  let line ← h.getLine
  if line.isEmpty then return ()
  let (st', out) := handle st (line.trimAscii.toString)
  IO.println out
  loop h st'

def main : IO Unit := do loop (← IO.getStdin) init

end Tree
