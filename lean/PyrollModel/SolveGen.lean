import PyrollModel.Gen.C05
import PyrollModel.SolveBody
import PyrollModel.SolveMarks
/-
  SolveGen — the model of `PyrollModel/Solve.lean` instantiated with what the translator read out of
  pyroll/core/unit/unit.py (`PyrollModel/Gen/C05.lean`, regenerated on every run): the element-wise comparison of the
  stop test, `np.all`/`np.any`, the `range` bounds, the defaults.  Written once over any `PyNum` carrier: the driver runs
  it over `Float`, the theorems of `PyrollProps/C05.lean` are about it over ℝ.
-/
namespace SolveGen
open Solve

variable {α S : Type} [PyNum α]

/-- environment of the comparison: one element of the new vector, the matching element of the previous one, the precision -/
def testEnv (prec cur old : α) : String → α := fun n =>
  if n = "cur" then cur else if n = "old" then old else if n = "prec" then prec else PyNum.nat 0

def cmp : Cmp → α → α → Bool
  | .le, a, b => PyNum.le a b
  | .lt, a, b => PyNum.lt a b
  | .ge, a, b => PyNum.le b a
  | .gt, a, b => PyNum.lt b a

/-- one element of `np.abs(current_results - self._old_results) <= np.abs(self._old_results) * self.iteration_precision` -/
def within (prec cur old : α) : Bool :=
  cmp Gen.C05.test_op (Gen.C05.test_lhs_e.eval (testEnv prec cur old)) (Gen.C05.test_rhs_e.eval (testEnv prec cur old))

def allQ : Bool := Gen.C05.loop_shape.testAll

/-- number of loop bodies of `for i in range(range_start, max_iteration_count + range_stop_offset)` -/
def budget (maxIter : Nat) : Nat := ((maxIter : Int) + Gen.C05.range_stop_offset - Gen.C05.range_start).toNat

/-- the `i` of "Finished solving … after {i} iterations" when the loop is left in the `n`-th body (n ≥ 1) -/
def loggedIndex (n : Nat) : Int := Gen.C05.range_start + (n : Int) - 1

/-- `init_solve` re-uses an existing out profile (true) or always creates a new one (false) -/
def reusesOut : Bool :=
  Gen.C05.loop_shape.outProfile = "create-if-absent" || Gen.C05.loop_shape.outProfile = "create-if-absent-else-hand-over"

/-- `init_solve` brings a re-used out profile up to date with the incoming profile (the `else:` branch) -/
def handsOver : Bool := Gen.C05.loop_shape.outProfile = "create-if-absent-else-hand-over"

/-- public entries of the out profile after `init_solve` (`none`: there was no out profile) -/
def initOut (roots : List String) (out : Option Entries) (tmpl : Entries) : Entries :=
  if reusesOut then Solve.initOut handsOver roots out tmpl else tmpl

/-- `Unit.solve(in_profile)` of a unit with `max_iteration_count = maxIter`, `iteration_precision = prec` -/
def solve (step : S → S × Except Exc (List α)) (maxIter : Nat) (prec : α) (c : Carried α S) : Result α S :=
  Solve.solve (within prec) allQ step (budget maxIter) (if reusesOut then c else { c with hasOut := false })

/-! ### one loop body of a roll pass: what is compared, what is rebuilt (`PyrollModel/SolveBody.lean` with the method tables
    and resolution orders read from roll_pass/*.py, unit/unit.py, roll/roll.py, hooks.py) -/

/-- the concrete unit classes that have a roll -/
def passClasses : List String := ["TwoRollPass", "ThreeRollPass"]

/-- the hook hosts a unit of these classes owns -/
def passHosts : List String := ["in_profile", "self", "out_profile", "roll"]

/-- hosts whose persisted results make up the vector of the stop test, in concatenation order -/
def resultParts (cls : String) : List String := SolveBody.resultParts Gen.C05.mro Gen.C05.result_methods cls

/-- … in the order their root hooks are evaluated and persisted -/
def evalParts (cls : String) : List String := SolveBody.resultParts Gen.C05.mro Gen.C05.eval_methods cls

/-- what `reevaluate_cache` of the class does at the start of every loop body -/
def cacheEffects (cls : String) : List String := SolveBody.cacheEffects Gen.C05.mro Gen.C05.cache_methods cls

/-- the statements of `reevaluate_cache` of the class in execution order (`SolveBody.Eff`) -/
def cacheProgram (cls : String) : List SolveBody.Eff := SolveBody.program (cacheEffects cls)

/-! ### nested hook evaluations and the re-entrancy marks (`PyrollModel/SolveMarks.lean` with the policy read from
    `HookFunction.__init__` / `HookFunction.__call__` / the function-wide flag properties of hooks.py) -/

/-- where the mark store lives, how the `cycle` flag is computed, when the mark is discarded -/
def marksPolicy : SolveMarks.Policy :=
  let r := Gen.C05.loop_shape.marks
  { perFunction := r.contains "store:per-function",
    perInstance := r.contains "cycle:=key-in-marks",
    unmark := if r.contains "finally:unmark-unless-cycle" then .unlessCycle
              else if r.contains "finally:unmark" then .always else .never }

/-- `getattr(<instance k>, <hook g>)` in world `W` with marks `m` set: marks afterwards, value / `AttributeError` -/
def readHook (W : SolveMarks.World) (fuel g k : Nat) (m : SolveMarks.Marks) : SolveMarks.Marks × SolveMarks.Res :=
  SolveMarks.read marksPolicy W fuel g k m

/-- a history of top-level reads, the marks handed on -/
def runReads (fuel : Nat) (qs : List (SolveMarks.World × Nat × Nat)) (m : SolveMarks.Marks) :
    SolveMarks.Marks × List SolveMarks.Res :=
  SolveMarks.runAll marksPolicy fuel qs m

def defaultPrec : α := Gen.C05.default_prec_e.eval (fun _ => PyNum.nat 0)
def defaultMaxIter : Nat := Gen.C05.default_max_iter

end SolveGen
