import PyrollModel.RootUnits

namespace RootUnits

open Gen.C02.Units

/-! ### line protocol (`lean/Drivers/c02units.lean`):
`phase <class name>` → attribute names evaluated by one call; `roots <class name>` → root hook names of the class;
`objects <class name>` → `attr=Class` of the objects the library constructs -/

def idxOfName (s : String) : List String → Nat → Option Nat
  | [], _ => none
  | x :: l, k => if x == s then some k else idxOfName s l (k + 1)

def nameOf (l : List String) (k : Nat) : String := (l[k]?).getD s!"?{k}"

def commaOr (l : List String) : String := if l.isEmpty then "-" else ",".intercalate l

def handle (line : String) : String :=
  match (line.splitOn " ").filter (· ≠ "") with
  | ["phase", c] =>
    match idxOfName c classNames 0 with
    | some k => commaOr ((evaluatedPerIteration k).map (nameOf attrNames))
    | none => "unknown-class"
  | ["roots", c] =>
    match idxOfName c classNames 0 with
    | some k => commaOr ((rootsOf k).map (nameOf hookNames))
    | none => "unknown-class"
  | ["objects", c] =>
    match idxOfName c classNames 0 with
    | some k => commaOr ((objectsOf k).map fun e => s!"{nameOf attrNames e.1}={nameOf classNames e.2}")
    | none => "unknown-class"
  | _ => "bad-op"

partial def loop (h : IO.FS.Stream) : IO Unit := do
  let line ← h.getLine
  if line.isEmpty then return ()
  IO.println (handle line.trimAscii.toString)
  loop h

def main : IO Unit := do loop (← IO.getStdin)

end RootUnits
