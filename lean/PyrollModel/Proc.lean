/-
  Proc — model of the pre- and post-processor mechanism of `pyroll.core.Unit` (C18).

  Mirrors pyroll/core/unit/unit.py:
    * class attributes `pre_processors` / `post_processors` (lists in the class `__dict__`),
    * `Unit.__init_subclass__` (fresh empty lists for every class whose `__init_subclass__` chain reaches it),
    * `_yield_pre_processors` / `_yield_post_processors` (`walk`: `getattr` on every class of the reversed MRO),
    * `init_solve` (pre-processor chain, `InProfile`/`OutProfile` copies, refresh of a re-used out profile) and `solve`
      (own solution, public copy of `out_profile`, post-processor chain, returned profile).

  Part 1 (`Hier`) is the class side: classes are natural numbers (definition order), the python `__mro__`
  of a class is an INPUT (C3 linearisation is CPython's, not modelled), lists are data.
  Part 2 (`RState`) is the run side: profile objects live in a heap `object id ↦ marks`, processors
  are given by their behaviour (`Beh`), factories by a function `Fid → unit → Option Pid`.

  Import-free, executable; tied to the code by driver/props/c18.py.
-/

namespace Proc

/-! ## Part 1 — classes, lists, registration, the MRO walk -/

/-- what a class body defines as `__init_subclass__` -/
inductive InitSub where
  | absent      -- not defined in the class body
  | coop        -- defined, calls `super().__init_subclass__(**kwargs)`
  | noncoop     -- defined, does not call `super()`: cuts the chain
  | unitImpl    -- `Unit.__init_subclass__`: creates the two fresh lists on the new class
  deriving Repr, DecidableEq

/-- `lists true` = `pre_processors`, `lists false` = `post_processors`; `none` = the class `__dict__` has no
such entry (attribute lookup then continues along the class's MRO). -/
structure Hier where
  n : Nat
  mro : Nat → List Nat
  isub : Nat → InitSub
  lists : Bool → Nat → Option (List Nat)

def init : Hier :=
  { n := 0, mro := fun _ => [], isub := fun _ => .absent, lists := fun _ _ => none }

/-- does the `__init_subclass__` call made by `type.__new__` for a new class with the given MRO tail reach
`Unit.__init_subclass__`?  (`super(cls, cls).__init_subclass__` resolves along the tail; a cooperative
implementation passes the call on, a non-cooperative one swallows it; `object`'s does nothing.) -/
def reaches (isub : Nat → InitSub) : List Nat → Bool
  | [] => false
  | k :: ks =>
    match isub k with
    | .absent => reaches isub ks
    | .coop => reaches isub ks
    | .noncoop => false
    | .unitImpl => true

/-- `getattr(cls, name, None)` for a list attribute: the first entry found along the MRO of `cls` -/
def lookup (own : Nat → Option (List Nat)) : List Nat → Option (List Nat)
  | [] => none
  | k :: ks =>
    match own k with
    | some l => some l
    | none => lookup own ks

/-- the class in whose `__dict__` that entry lives -/
def owner (own : Nat → Option (List Nat)) : List Nat → Option Nat
  | [] => none
  | k :: ks =>
    match own k with
    | some _ => some k
    | none => owner own ks

def setList (H : Hier) (w : Bool) (c : Nat) (l : Option (List Nat)) : Hier :=
  { H with lists := fun w' k => if w' = w ∧ k = c then l else H.lists w' k }

/-- `class C(bases)`: `tail` is `C.__mro__[1:]`; `body` = the class body itself assigns two empty lists
(only `Unit` does).  `__init_subclass__` runs after the body, so it overwrites body lists. -/
def defClass (H : Hier) (tail : List Nat) (isub : InitSub) (body : Bool) : Hier :=
  let c := H.n
  let l : Option (List Nat) := if reaches H.isub tail || body then some [] else none
  { n := H.n + 1,
    mro := fun k => if k = c then c :: tail else H.mro k,
    isub := fun k => if k = c then isub else H.isub k,
    lists := fun w k => if k = c then l else H.lists w k }

inductive Out where
  | ok
  | cls (c : Nat)
  | attrError     -- the class has no such attribute at all
  | valueError    -- list.remove of an absent item
  deriving Repr, DecidableEq

/-- `C.pre_processors.append(f)`: attribute lookup on the class finds the list of the OWNER -/
def register (H : Hier) (w : Bool) (c f : Nat) : Hier × Out :=
  match owner (H.lists w) (H.mro c) with
  | none => (H, .attrError)
  | some k => (setList H w k (some (((H.lists w k).getD []) ++ [f])), .ok)

/-- `C.pre_processors.remove(f)` -/
def unregister (H : Hier) (w : Bool) (c f : Nat) : Hier × Out :=
  match owner (H.lists w) (H.mro c) with
  | none => (H, .attrError)
  | some k =>
    let l := (H.lists w k).getD []
    if f ∈ l then (setList H w k (some (l.erase f)), .ok) else (H, .valueError)

/-- `C.pre_processors.clear()` -/
def clear (H : Hier) (w : Bool) (c : Nat) : Hier × Out :=
  match owner (H.lists w) (H.mro c) with
  | none => (H, .attrError)
  | some k => (setList H w k (some []), .ok)

/-- the list a class defines itself (`cls.__dict__.get(name, [])`) -/
def ownList (H : Hier) (w : Bool) (c : Nat) : List Nat := (H.lists w c).getD []

/-- SPECIFICATION of the order: the own lists of the classes along the reversed MRO (bases first) -/
def yieldOf (H : Hier) (w : Bool) (c : Nat) : List Nat :=
  (H.mro c).reverse.flatMap (ownList H w)

/-- THE CODE: `_yield_pre_processors` / `_yield_post_processors` of an instance of class `c`:
`for s in reversed(type(self).__mro__): inits = getattr(s, name, None); if inits is not None: yield from inits`.
`getattr` on the class `s` is an attribute lookup along the MRO of `s`: an MRO entry without a list of its own
contributes the list it INHERITS.  `walk = yieldOf` as soon as every class whose MRO reaches a list has its own
(`walk_eq_spec` in PyrollProps/C18.lean); with a class whose `__init_subclass__` chain was cut the inherited
list is yielded again (`getattr_walk_consults_twice`). -/
def walk (H : Hier) (w : Bool) (c : Nat) : List Nat :=
  (H.mro c).reverse.flatMap (fun s => (lookup (H.lists w) (H.mro s)).getD [])

inductive COp where
  | defClass (tail : List Nat) (isub : InitSub) (body : Bool)
  | register (w : Bool) (c f : Nat)
  | unregister (w : Bool) (c f : Nat)
  | clear (w : Bool) (c : Nat)
  deriving Repr, DecidableEq

def step (H : Hier) : COp → Hier × Out
  | .defClass tail isub body => (defClass H tail isub body, .cls H.n)
  | .register w c f => register H w c f
  | .unregister w c f => unregister H w c f
  | .clear w c => clear H w c

def run (H : Hier) (ops : List COp) : Hier :=
  ops.foldl (fun s o => (step s o).1) H

/-! ## Part 2 — solving: threading a profile through pre-processors, own solution, post-processors -/

inductive Mark where
  | proc (p : Nat)     -- attribute written by processor `p`
  | own (u : Nat)      -- attribute written by the own solution of unit `u`
  deriving Repr, DecidableEq

/-- what a processor's `solve(profile)` does.  The state of a profile object is its mark list; a processor that also
adds, changes or drops ANOTHER value (harness behaviours a/A, c/C, d/D) is `fresh` resp. `inplace` here - those values
are looked at by the oracle on the real objects, and what the re-use branch of `init_solve` does to them by
`refreshEntry` (ProcProg.lean) on the literals read from the source -/
inductive Beh where
  | inplace     -- writes its mark on the object it received and returns that object
  | fresh       -- returns a new profile (public copy of the received one) carrying its mark in addition
  | same        -- returns the received object unchanged
  deriving Repr, DecidableEq

inductive Ev where
  | enter (u obj : Nat)                      -- `u.solve(obj)` entered
  | consult (w : Bool) (f u : Nat)           -- factory `f` called with unit `u`
  | proc (w : Bool) (p recv ret : Nat)       -- processor `p`.solve(recv) returned `ret`
  | own (u : Nat)                            -- own solution of `u`
  | leave (u ret inp outp : Nat) (mret minp moutp : List Mark)
  deriving Repr, DecidableEq

structure Heap where
  n : Nat
  marks : Nat → List Mark

def Heap.alloc (h : Heap) (m : List Mark) : Heap × Nat :=
  ({ n := h.n + 1, marks := fun o => if o = h.n then m else h.marks o }, h.n)

def Heap.setMarks (h : Heap) (o : Nat) (m : List Mark) : Heap :=
  { h with marks := fun x => if x = o then m else h.marks x }

/-- static description of one run: class of each unit, factories, processor behaviours -/
structure Env where
  H : Hier
  ucls : Nat → Nat
  fac : Nat → Nat → Option Nat       -- factory id → unit → processor id or None
  beh : Nat → Beh

structure RState where
  heap : Heap
  uin : Nat → Option Nat             -- `unit.in_profile`
  uout : Nat → Option Nat            -- `unit.out_profile`

def RState.init : RState :=
  { heap := { n := 0, marks := fun _ => [] }, uin := fun _ => none, uout := fun _ => none }

def applyProc (beh : Nat → Beh) (h : Heap) (p obj : Nat) : Heap × Nat :=
  match beh p with
  | .inplace => (h.setMarks obj (h.marks obj ++ [.proc p]), obj)
  | .fresh => h.alloc (h.marks obj ++ [.proc p])
  | .same => (h, obj)

/-- the loop `for factory in …: p = factory(self); if p is None: continue; profile = p.solve(profile)` -/
def chain (E : Env) (w : Bool) (u : Nat) : List Nat → Heap → Nat → Heap × Nat × List Ev
  | [], h, cur => (h, cur, [])
  | f :: fs, h, cur =>
    match E.fac f u with
    | none =>
      let (h', r, evs) := chain E w u fs h cur
      (h', r, .consult w f u :: evs)
    | some p =>
      let (h1, r1) := applyProc E.beh h p cur
      let (h', r, evs) := chain E w u fs h1 r1
      (h', r, .consult w f u :: .proc w p cur r1 :: evs)

/-- `init_solve`: pre-processor chain, then `self.in_profile = InProfile(self, profile)` (a copy) and
`if not self.out_profile: self.out_profile = OutProfile(self, profile)` (a copy) `else:` the EXISTING out profile
object is re-used and brought up to date with the last pre-processor output: its public entries that are no root
hooks (the marks are such entries) are those of `profile` (outdated ones deleted, the handed-over ones set), the
root hook results of the previous solve stay as start values -/
def initSolve (E : Env) (st : RState) (u inp : Nat) : RState × List Ev :=
  let (h1, cur, evs) := chain E true u (walk E.H true (E.ucls u)) st.heap inp
  let (h2, ip) := h1.alloc (h1.marks cur)
  match st.uout u with
  | some op =>
    ({ st with heap := h2.setMarks op (h2.marks cur), uin := fun x => if x = u then some ip else st.uin x }, evs)
  | none =>
    let (h3, op) := h2.alloc (h2.marks cur)
    ({ heap := h3, uin := fun x => if x = u then some ip else st.uin x,
       uout := fun x => if x = u then some op else st.uout x }, evs)

/-- the part of `solve` after the iteration loop: public copy of `out_profile`, post-processor chain -/
def finishSolve (E : Env) (st : RState) (u : Nat) : RState × Nat × List Ev :=
  let op := (st.uout u).getD 0
  let (h1, cp) := st.heap.alloc (st.heap.marks op)
  let (h2, ret, evs) := chain E false u (walk E.H false (E.ucls u)) h1 cp
  let ip := (st.uin u).getD 0
  ({ st with heap := h2 }, ret, evs ++ [.leave u ret ip op (h2.marks ret) (h2.marks ip) (h2.marks op)])

/-- own solution of a unit: writes its mark on `unit.out_profile` -/
def ownStep (st : RState) (u : Nat) : RState :=
  let op := (st.uout u).getD 0
  { st with heap := st.heap.setMarks op (st.heap.marks op ++ [.own u]) }

/-- `Unit.solve` of a unit without sub-units -/
def solveLeaf (E : Env) (st : RState) (u inp : Nat) : RState × Nat × List Ev :=
  let (st1, e1) := initSolve E st u inp
  let st2 := ownStep st1 u
  let (st3, ret, e3) := finishSolve E st2 u
  (st3, ret, .enter u inp :: e1 ++ .own u :: e3)

/-- `_solve_subunits`: thread `self.in_profile` through the sub-units -/
def solveSubs (E : Env) : List Nat → RState → Nat → RState × Nat × List Ev
  | [], st, cur => (st, cur, [])
  | c :: cs, st, cur =>
    let (st1, r1, e1) := solveLeaf E st c cur
    let (st2, r, e2) := solveSubs E cs st1 r1
    (st2, r, e1 ++ e2)

/-- the iteration loop of a unit with sub-units (the number of iterations is numeric, hence an input) -/
def iterate (E : Env) (s : Nat) (subs : List Nat) : Nat → RState → RState × List Ev
  | 0, st => (st, [])
  | k + 1, st =>
    let (st1, _, e1) := solveSubs E subs st ((st.uin s).getD 0)
    let (st2, e2) := iterate E s subs k st1
    (st2, .own s :: e1 ++ e2)

/-- `Unit.solve` of a sequence `s` with sub-units `subs` whose loop runs `iters ≥ 1` times -/
def solveSeq (E : Env) (st : RState) (s : Nat) (subs : List Nat) (iters inp : Nat) : RState × Nat × List Ev :=
  let (st1, e1) := initSolve E st s inp
  let st2 := ownStep st1 s
  let (st3, e2) := iterate E s subs iters st2
  let (st4, ret, e3) := finishSolve E st3 s
  (st4, ret, .enter s inp :: e1 ++ e2 ++ e3)

end Proc
