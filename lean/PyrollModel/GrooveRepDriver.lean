import PyrollModel.GrooveRep
import PyrollModel.RollObject
import PyrollModel.EvalDriver
/-
  Line-protocol driver of the groove-representation model (C10).  State: environment, current polyline, grid.

    env k=<bits> k=<bits> ...          -> ok                       (resolved constructor arguments / roll members)
    contour <N>                        -> `z y z y ...` (bits)     the assembled contour polyline (N samples per arc)
    depth <z bits> ...                 -> bits ...                 translated `local_depth`
    deptharg i|f <n | z bits> ...      -> `i:<n>` | `f:<bits>` ...  translated `local_depth` INCLUDING what the source does to its
                                                                   argument: entries handed over as integers (`i`, decimal) or as
                                                                   floats (`f`, bits); the answer says in which dtype numpy hands
                                                                   each value back (`i:` truncated integer, `f:` float)
    surfx <N> set|default              -> bits ...                 translated `surface_x` grid; remembered as the grid abscissae
    xs <x bits> ...                    -> ok <n>                   sets the grid abscissae (an explicit `surface_x`, a used roll's grid)
    pts <z y z y ...>                  -> ok <n>                   sets the current polyline (the roll's contour points)
    grid                               -> ok <rows> <cols>         builds the translated `surface_y` grid (layout handed to interpn)
    gridat <i> <j>                     -> bits                     `surface_y[j][i]` (i-th abscissa, j-th contour vertex)
    interp <x bits> <z bits>           -> bits                     bilinear interpolation on the current grid
    interparg i|f <x ...> / i|f <z ...> -> bits ... | bits ... | ...  translated `surface_interpolation(x, z)` in its array form,
                                                                   INCLUDING what the source does to the positions: entries
                                                                   handed over as integers (`i`, decimal) or floats (`f`, bits);
                                                                   one `|`-separated row per z, one value per x
    interp1 <z bits> ...               -> bits ...                 linear interpolation on the current polyline
    spline <uw bits|_> <z y z y ...>   -> `rejected` | `<width> <usable> <depth> | z y z y ...`  (current polyline := result)
    splineown ndarray|other            -> `<a> <w>` (0/1)          a: the groove's vertex array is the caller's memory, w: the
                                                                   constructor wrote into the caller's memory
    rollobj rest|shape|call:<name> ... -> one token per operation   a life of ONE roll object on the generated `roll_tables`:
                                          `c:<fields>` after a change of the data + `reevaluate_cache()`, `1:<fields>` / `0:<fields>`
                                          after a call whose answer is / is not computed from the data the roll has then;
                                          <fields> = the non-empty private attributes, comma-separated, `-` if none
    <formula name> k=<bits> ...        -> EvalDriver (generated formula table)
-/
namespace GrooveRepDriver
open GrooveRep RollObject

structure Cfg where
  useAbs : Bool
  argOps : List ArgOp
  interpXOps : List ArgOp
  interpZOps : List ArgOp
  pieces : List Piece
  dflt : Expr
  segments : List Seg
  xSpecs : List LinSpec
  xOuter : Expr
  xAngleSet : Expr
  xAngleDefault : Expr
  surfaceY : Expr
  transposed : Bool
  stripKind : StripKind
  faceTest : FaceTest
  centre : LTerm
  width : LTerm
  usableDefault : LTerm
  depth : LTerm
  arrOps : List ArrOp
  rollTables : RollTables
  table : List (String × Expr)

structure St where
  env : List (String × Float) := []
  pts : List (Float × Float) := []
  xs : List Float := []
  grid : List (List Float) := []

def fnan : Float := 0.0 / 0.0

def parsePts : List String → Option (List (Float × Float))
  | [] => some []
  | [_] => none
  | a :: b :: rest => do
    let x ← floatOfBitsStr a
    let y ← floatOfBitsStr b
    let r ← parsePts rest
    pure ((x, y) :: r)

def showPts (l : List (Float × Float)) : String :=
  " ".intercalate (l.map fun p => floatToBitsStr p.1 ++ " " ++ floatToBitsStr p.2)

def showList (l : List Float) : String := " ".intercalate (l.map floatToBitsStr)

def parseRollOp (t : String) : Option RollOp :=
  if t = "rest" then some .changeRest
  else if t = "shape" then some .changeShape
  else if t.startsWith "call:" then some (.call (t.drop 5).toString)
  else none

def showScalar : PyScalar Float → String
  | .int n => "i:" ++ toString n
  | .float x => "f:" ++ floatToBitsStr x

def parseArg : List String → Option (PyArg Float)
  | "i" :: ns => (ns.mapM String.toInt?).map .intArray
  | "f" :: zs => (zs.mapM floatOfBitsStr).map .floatArray
  | _ => none

def showRollStep (r : RollObj × Option (Ver × Ver)) : String :=
  let fields := if r.1.store.isEmpty then "-" else ",".intercalate (r.1.store.map (·.1))
  match r.2 with
  | none => "c:" ++ fields
  | some a => (if a.1 = a.2 then "1:" else "0:") ++ fields

def handle (cfg : Cfg) (st : St) (line : String) : St × String :=
  let ρ := envOf fnan st.env
  match Proto.toks line with
  | "env" :: rest =>
    match rest.mapM EvalDriver.parseBinding with
    | some e => ({ st with env := e }, "ok")
    | none => (st, "bad-op")
  | ["contour", n] =>
    match n.toNat? with
    | some n => (st, showPts (contour ρ n cfg.segments))
    | none => (st, "bad-op")
  | "depth" :: zs =>
    match zs.mapM floatOfBitsStr with
    | some zs => (st, showList (zs.map fun z => localDepth cfg.useAbs cfg.pieces cfg.dflt ρ z))
    | none => (st, "bad-op")
  | "deptharg" :: "i" :: ns =>
    match ns.mapM String.toInt? with
    | some ns => (st, " ".intercalate ((localDepthArg cfg.argOps cfg.pieces cfg.dflt ρ (.intArray ns)).map showScalar))
    | none => (st, "bad-op")
  | "deptharg" :: "f" :: zs =>
    match zs.mapM floatOfBitsStr with
    | some zs => (st, " ".intercalate ((localDepthArg cfg.argOps cfg.pieces cfg.dflt ρ (.floatArray zs)).map showScalar))
    | none => (st, "bad-op")
  | ["surfx", n, mode] =>
    match n.toNat? with
    | some n =>
      let pca := Expr.eval ρ (if mode = "set" then cfg.xAngleSet else cfg.xAngleDefault)
      let xs := surfaceX (setVar ρ "pca" pca) n cfg.xSpecs cfg.xOuter
      ({ st with xs := xs }, showList xs)
    | none => (st, "bad-op")
  | "xs" :: rest =>
    match rest.mapM floatOfBitsStr with
    | some xs => ({ st with xs := xs }, s!"ok {xs.length}")
    | none => (st, "bad-op")
  | "rollobj" :: rest =>
    match rest.mapM parseRollOp with
    | some ops => (st, " ".intercalate ((rollTrace cfg.rollTables {} ops).map showRollStep))
    | none => (st, "bad-op")
  | "pts" :: rest =>
    match parsePts rest with
    | some p => ({ st with pts := p }, s!"ok {p.length}")
    | none => (st, "bad-op")
  | ["grid"] =>
    let ys := st.pts.map (·.2)
    let g := if cfg.transposed then surfaceGridT ρ cfg.surfaceY ys st.xs else surfaceGrid ρ cfg.surfaceY ys st.xs
    ({ st with grid := g }, s!"ok {g.length} {(g.headD []).length}")
  | ["gridat", i, j] =>
    match i.toNat?, j.toNat? with
    | some i, some j => (st, floatToBitsStr (((st.grid.getD i []).getD j fnan)))
    | _, _ => (st, "bad-op")
  | ["interp", x, z] =>
    match floatOfBitsStr x, floatOfBitsStr z with
    | some x, some z => (st, floatToBitsStr (bilinear st.xs (st.pts.map (·.1)) st.grid x z))
    | _, _ => (st, "bad-op")
  | "interparg" :: rest =>
    match parseArg (rest.takeWhile (· ≠ "/")), parseArg ((rest.dropWhile (· ≠ "/")).drop 1) with
    | some xq, some zq =>
      (st, " | ".intercalate ((surfaceInterpArg cfg.interpXOps cfg.interpZOps st.xs (st.pts.map (·.1)) st.grid xq zq).map showList))
    | _, _ => (st, "bad-op")
  | "interp1" :: zs =>
    match zs.mapM floatOfBitsStr with
    | some zs => (st, showList (zs.map fun z => interp1 st.pts z))
    | none => (st, "bad-op")
  | "spline" :: uw :: rest =>
    match parsePts rest with
    | some p =>
      if !splineAccepts (cfg.faceTest.onFace p) p then (st, "rejected")
      else
        let q := splinePoints cfg.stripKind cfg.faceTest cfg.centre p
        let usable := match floatOfBitsStr uw with
          | some u => if u == 0.0 then cfg.usableDefault.eval q else u   -- `if usable_width:` is falsy for 0
          | none => cfg.usableDefault.eval q
        ({ st with pts := q },
          floatToBitsStr (cfg.width.eval q) ++ " " ++ floatToBitsStr usable ++ " " ++ floatToBitsStr (cfg.depth.eval q)
            ++ " | " ++ showPts q)
    | none => (st, "bad-op")
  | ["splineown", kind] =>
    let o := ownRun (kind == "ndarray") cfg.arrOps
    (st, (if o.storedIsCallers then "1" else "0") ++ " " ++ (if o.callerWritten then "1" else "0"))
  | _ => (st, EvalDriver.handle cfg.table line)

partial def loop (cfg : Cfg) (h : IO.FS.Stream) (st : St) : IO Unit := do
  let line ← h.getLine
  if line.isEmpty then return ()
  let (st', out) := handle cfg st (line.trimAscii.toString)
  IO.println out
  loop cfg h st'

def main (cfg : Cfg) : IO Unit := do loop cfg (← IO.getStdin) {}

end GrooveRepDriver
