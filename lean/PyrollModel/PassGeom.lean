import PyrollModel.Impl
/-
  PassGeom — the model behind C09 (pass opening).

  Part 1  vertex lists: the fragment of shapely that `TwoRollPass.contour_lines` / `ThreeRollPass.contour_lines`
          use (`translate`, `rotate` about the origin with shapely's snapping of tiny sines/cosines,
          `LineString(coords[::-1])`), acting vertex-wise on an ARBITRARY contour given as a list of points, and the
          x-window `clip_by_rect` + `.bounds[k]` that `height3` uses.  Generic in the `PyNum` carrier: `Float` runs
          against shapely in the correspondence, ℝ is what the theorems of `PyrollProps/C09.lean` are about.
          The placement itself is NOT written here: it is the list of `GOp`s that `driver/translate/c09_contours.py`
          reads out of the source on every run (`Gen/C09Contours.lean`).
  Part 2  a small symbolic interpreter of hook reads on one pass object (`__dict__`, `__cache__`, memoised
          `_contour_lines`), run on the GENERATED implementation tables: which implementation fires under which
          presence state, what ends up cached, what value (as an `Expr` over the supplied member) comes out.
          One structural recursion on `fuel`.
-/

namespace PassGeom

structure Pt (α : Type) where
  x : α
  y : α
  deriving Repr, Inhabited

/-- one affine step of a placement, arguments as translated terms -/
inductive GOp where
  | translate (xoff yoff : Expr)     -- shapely.affinity.translate(g, xoff, yoff)
  | rotate (angleDeg : Expr)         -- shapely.affinity.rotate(g, angle, origin=(0, 0))
  | reverse                          -- LineString(g.coords[::-1])
  deriving Repr, DecidableEq, Inhabited

inductive ClipSrc where
  | rollContour                      -- self.roll.contour_line
  | passLine (i : Nat)               -- self.contour_lines.geoms[i]
  deriving Repr, DecidableEq, Inhabited

/-- `name = clip_by_rect(src, xmin, -inf, xmax, inf)` -/
structure ClipSpec where
  name : String
  src : ClipSrc
  xmin : Expr
  xmax : Expr
  deriving Repr, DecidableEq, Inhabited

/-! ### Part 1: vertex lists -/

section geom
variable {α : Type} [PyNum α]

/-- shapely: `if abs(cosp) < 2.5e-16: cosp = 0.0` -/
def snap (v : α) : α := if PyNum.lt (PyNum.abs v) (PyNum.dec 25 17) then PyNum.nat 0 else v

/-- rotation about the origin by `deg` degrees, exactly as `shapely.affinity.rotate` + `affine_transform` compute it -/
def rotPt (deg : α) (p : Pt α) : Pt α :=
  let a := deg * PyNum.pi / PyNum.nat 180
  let c := snap (PyNum.cos a)
  let s := snap (PyNum.sin a)
  ⟨c * p.x + (-s) * p.y, s * p.x + c * p.y⟩

def applyPt (ρ : String → α) : GOp → Pt α → Pt α
  | .translate dx dy, p => ⟨p.x + Expr.eval ρ dx, p.y + Expr.eval ρ dy⟩
  | .rotate a, p => rotPt (Expr.eval ρ a) p
  | .reverse, p => p

/-- where one vertex ends up -/
def placePt (ρ : String → α) (ops : List GOp) (p : Pt α) : Pt α :=
  ops.foldl (fun q op => applyPt ρ op q) p

def applyOp (ρ : String → α) (op : GOp) (l : List (Pt α)) : List (Pt α) :=
  match op with
  | .reverse => l.reverse
  | op => l.map (applyPt ρ op)

/-- the placed contour line: the generated operation list applied to the groove contour -/
def place (ρ : String → α) (ops : List GOp) (l : List (Pt α)) : List (Pt α) :=
  ops.foldl (fun acc op => applyOp ρ op acc) l

/-- does the operation list reverse the vertex order -/
def flips : List GOp → Bool
  | [] => false
  | .reverse :: ops => !flips ops
  | _ :: ops => flips ops

/-! clip to an x-window; only the extreme coordinates are used afterwards, so the candidate set is kept unordered:
    the vertices inside and the points where a segment crosses a window border -/

def insideX (lo hi : α) (p : Pt α) : Bool := PyNum.le lo p.x && PyNum.le p.x hi

def between (v a b : α) : Bool := (PyNum.lt a v && PyNum.lt v b) || (PyNum.lt b v && PyNum.lt v a)

def crossAt (v : α) (p q : Pt α) : Pt α := ⟨v, p.y + (q.y - p.y) * ((v - p.x) / (q.x - p.x))⟩

def crossings (lo hi : α) (s : Pt α × Pt α) : List (Pt α) :=
  (if between lo s.1.x s.2.x then [crossAt lo s.1 s.2] else []) ++
  (if between hi s.1.x s.2.x then [crossAt hi s.1 s.2] else [])

def segs (l : List (Pt α)) : List (Pt α × Pt α) := l.zip l.tail

def clipCands (lo hi : α) (l : List (Pt α)) : List (Pt α) :=
  l.filter (insideX lo hi) ++ (segs l).flatMap (crossings lo hi)

def nan : α := PyNum.nat 0 / PyNum.nat 0

def minOf : List α → α
  | [] => nan
  | a :: as => as.foldl (fun m b => if PyNum.lt b m then b else m) a

def maxOf : List α → α
  | [] => nan
  | a :: as => as.foldl (fun m b => if PyNum.lt m b then b else m) a

/-- `.bounds[k]` of a vertex set: (minx, miny, maxx, maxy); NaN when empty, like shapely -/
def bound (k : Nat) (l : List (Pt α)) : α :=
  match k with
  | 0 => minOf (l.map (·.x))
  | 1 => minOf (l.map (·.y))
  | 2 => maxOf (l.map (·.x))
  | _ => maxOf (l.map (·.y))

end geom

/-! ### Part 2: symbolic hook reads on one pass object -/

/-- what the interpreter needs to know about a pass class; filled from the generated tables -/
structure PassClass where
  mro : List String                       -- host names carrying implementations, most derived first
  impls : List Impl                       -- all implementations of the member hooks, registration (source) order
  hooks : List String                     -- names that are hooks on `self` (reads of them are nested reads)
  contourReads : List String              -- hooks read while building `contour_lines`
  clips : List ClipSpec
  clipVars : List (String × Nat × Nat)    -- variable name ↦ (index into `clips`, k of `.bounds[k]`)
  deriving Repr, Inhabited

structure HState where
  dict : List String                      -- explicitly set members (their value is the variable of that name)
  cache : List (String × Expr)            -- `__cache__`, oldest first
  contour : Option (List (String × Expr)) -- memoised `_contour_lines`: the values it was built from
  deriving Repr, DecidableEq, Inhabited

inductive Res where
  | val (e : Expr)
  | none                                  -- an implementation / a chain answered `None`
  | bool (b : Bool)
  | env (xs : List (String × Expr))
  | unit
  | attrErr                               -- AttributeError: no implementation provides a value
  | unsupported (what : String)
  | fuelOut
  deriving Repr, DecidableEq, Inhabited

inductive Task where
  | read (n : String)                                             -- `Hook.__get__`
  | chain (n : String) (fs : List Impl)                           -- `get_result`: implementations still to try
  | alts (n : String) (fs : List Impl) (as : List (Guard × Body)) -- inside one implementation
  | guard (g : Guard)
  | body (e : Expr)
  | readAll (ns : List String) (acc : List (String × Expr))
  | contour                                                       -- the property `contour_lines`
  deriving Repr, Inhabited

def lookup {β : Type} (n : String) : List (String × β) → Option β
  | [] => Option.none
  | (k, v) :: xs => if k = n then some v else lookup n xs

def substE (env : List (String × Expr)) : Expr → Expr
  | .var n => match lookup n env with
    | some e => e
    | Option.none => .var n
  | .nat n => .nat n
  | .dec m e => .dec m e
  | .pi => .pi
  | .add a b => .add (substE env a) (substE env b)
  | .sub a b => .sub (substE env a) (substE env b)
  | .mul a b => .mul (substE env a) (substE env b)
  | .div a b => .div (substE env a) (substE env b)
  | .neg a => .neg (substE env a)
  | .pow a n => .pow (substE env a) n
  | .sqrt a => .sqrt (substE env a)
  | .sin a => .sin (substE env a)
  | .cos a => .cos (substE env a)
  | .tan a => .tan (substE env a)
  | .asin a => .asin (substE env a)
  | .acos a => .acos (substE env a)
  | .atan a => .atan (substE env a)
  | .log a => .log (substE env a)
  | .exp a => .exp (substE env a)
  | .abs a => .abs (substE env a)

def dedup : List String → List String
  | [] => []
  | a :: as => a :: (dedup as).filter (· ≠ a)

/-- the order in which `Hook.functions_gen` yields the plain implementations of hook `n`: per tier, per class of the MRO,
    most recently registered first -/
def chainFor (c : PassClass) (n : String) : List Impl :=
  [0, 1, 2].flatMap fun t => c.mro.flatMap fun k =>
    (c.impls.filter fun i => i.hook = n && i.host = k && i.tier = t && !i.wrapper).reverse

/-- does an expression need `self.contour_lines` (through a clip of one of its lines)? -/
def needsContour (c : PassClass) (e : Expr) : Bool :=
  e.vars.any fun v => match lookup v c.clipVars with
    | some (ci, _) => match c.clips[ci]? with
      | some s => match s.src with
        | .passLine _ => true
        | .rollContour => false
      | Option.none => false
    | Option.none => false

def run (c : PassClass) : Nat → Task → HState → Res × HState
  | 0, _, st => (.fuelOut, st)
  | fuel + 1, .read n, st =>
    if st.dict.contains n then (.val (.var n), st)
    else match lookup n st.cache with
      | some e => (.val e, st)
      | Option.none =>
        match run c fuel (.chain n (chainFor c n)) st with
        | (.val e, st') => (.val e, { st' with cache := st'.cache ++ [(n, e)] })
        | (.none, st') => (.attrErr, st')
        | r => r
  | _ + 1, .chain _ [], st => (.none, st)
  | fuel + 1, .chain n (f :: fs), st => run c fuel (.alts n fs f.alts) st
  | fuel + 1, .alts n fs [], st => run c fuel (.chain n fs) st
  | fuel + 1, .alts n fs ((g, b) :: as), st =>
    match run c fuel (.guard g) st with
    | (.bool true, st1) =>
      (match b with
       | .expr e => run c fuel (.body e) st1
       | .none => run c fuel (.chain n fs) st1
       | .sumOver _ _ => (.unsupported "sumOver", st1)
       | .opaque s => (.unsupported s, st1))
    | (.bool false, st1) => run c fuel (.alts n fs as) st1
    | r => r
  | fuel + 1, .guard g, st =>
    match g with
    | .tt => (.bool true, st)
    | .hasSet "" n => (.bool (st.dict.contains n), st)
    | .hasCached "" n => (.bool (lookup n st.cache).isSome, st)
    | .hasSetOrCached "" n => (.bool (st.dict.contains n || (lookup n st.cache).isSome), st)
    | .hasValue "" n =>
      (match run c fuel (.read n) st with
       | (.val _, st') => (.bool true, st')
       | (.attrErr, st') => (.bool false, st')
       | r => r)
    | .not a =>
      (match run c fuel (.guard a) st with
       | (.bool b, st') => (.bool (!b), st')
       | r => r)
    | .and a b =>
      (match run c fuel (.guard a) st with
       | (.bool true, st') => run c fuel (.guard b) st'
       | r => r)
    | .or a b =>
      (match run c fuel (.guard a) st with
       | (.bool false, st') => run c fuel (.guard b) st'
       | r => r)
    | _ => (.unsupported "guard", st)
  | fuel + 1, .body e, st =>
    let go := fun (st1 : HState) =>
      match run c fuel (.readAll (dedup (e.vars.filter fun v => c.hooks.contains v)) []) st1 with
      | (.env xs, st2) => (Res.val (substE xs e), st2)
      | r => r
    if needsContour c e then
      match run c fuel .contour st with
      | (.unit, st1) => go st1
      | r => r
    else go st
  | _ + 1, .readAll [] acc, st => (.env acc, st)
  | fuel + 1, .readAll (n :: ns) acc, st =>
    match run c fuel (.read n) st with
    | (.val v, st') => run c fuel (.readAll ns (acc ++ [(n, v)])) st'
    | r => r
  | fuel + 1, .contour, st =>
    match st.contour with
    | some _ => (.unit, st)
    | Option.none =>
      match run c fuel (.readAll c.contourReads []) st with
      | (.env xs, st') => (.unit, { st' with contour := some xs })
      | r => r

def fuel0 : Nat := 400

/-- a fresh pass with the members `given` set explicitly, then the reads of `order` one after the other
    (a failed read is caught by the caller, like `try: getattr(...) except AttributeError`) -/
def reads (c : PassClass) : List String → HState → List (String × Res) × HState
  | [], st => ([], st)
  | n :: ns, st =>
    let r := run c fuel0 (.read n) st
    let rest := reads c ns r.2
    ((n, r.1) :: rest.1, rest.2)

def session (c : PassClass) (given order : List String) : List (String × Res) × HState :=
  reads c order { dict := given, cache := [], contour := Option.none }

/-! life cycle "dimensioned late": a pass constructed WITHOUT any member (a stand taken from a catalogue), looked at from
    outside while its opening is still undetermined (every failing look is caught by the caller, like the reads above),
    and only then given one member by assignment (`rp.gap = …` = `Hook.__set__`: an entry of `__dict__`, nothing else) -/

/-- one look at a pass object from outside: a hook read, or the property `contour_lines` -/
inductive Probe where
  | hook (n : String)
  | contour
  deriving Repr, DecidableEq, Inhabited

def Probe.name : Probe → String
  | .hook n => n
  | .contour => "contour_lines"

def probe (c : PassClass) (p : Probe) (st : HState) : Res × HState :=
  match p with
  | .hook n => run c fuel0 (.read n) st
  | .contour => run c fuel0 .contour st

def probes (c : PassClass) : List Probe → HState → List (String × Res) × HState
  | [], st => ([], st)
  | p :: ps, st =>
    let r := probe c p st
    let rest := probes c ps r.2
    ((p.name, r.1) :: rest.1, rest.2)

/-- the pass object straight after `__init__` without members -/
def bare : HState := { dict := [], cache := [], contour := Option.none }

/-- `setattr(rp, g, value)` for every `g` of `given` -/
def assign (given : List String) (st : HState) : HState := { st with dict := st.dict ++ given }

/-- looks at the bare pass, then the assignment, then the reads of `order`; answers of the looks and of the reads -/
def lateSession (c : PassClass) (looks : List Probe) (given order : List String) :
    List (String × Res) × List (String × Res) × HState :=
  let l := probes c looks bare
  let r := reads c order (assign given l.2)
  (l.1, r.1, r.2)

/-! ### Part 3: giving the symbolic results a value (used by the Float driver; the theorems state the same link as hypotheses) -/

section value
variable {α : Type} [PyNum α]

def extend (ρ : String → α) (xs : List (String × α)) : String → α :=
  fun n => match lookup n xs with
    | some v => v
    | Option.none => ρ n

def lineOf (lines : List (List GOp)) (ρ : String → α) (contour : List (Pt α)) : ClipSrc → List (Pt α)
  | .rollContour => contour
  | .passLine i => place ρ (lines.getD i []) contour

/-- `.bounds[k]` of clip number `ci` of the class, measured on the model geometry -/
def clipValue (c : PassClass) (lines : List (List GOp)) (ρ : String → α) (contour : List (Pt α)) (ci k : Nat) : α :=
  match c.clips[ci]? with
  | some s => bound k (clipCands (Expr.eval ρ s.xmin) (Expr.eval ρ s.xmax) (lineOf lines ρ contour s.src))
  | Option.none => nan

def isRollClip (c : PassClass) (ci : Nat) : Bool :=
  match c.clips[ci]? with
  | some s => s.src = .rollContour
  | Option.none => false

/-- the environment in which the results of a session are evaluated: the supplied values, the measurements on the roll
    contour, and the measurements on the pass contour lines as they were built (with the values `contour_lines` read) -/
def finalEnv (c : PassClass) (lines : List (List GOp)) (ρ0 : String → α) (contour : List (Pt α)) (st : HState) :
    String → α :=
  let ρ1 := extend ρ0 ((c.clipVars.filter fun v => isRollClip c v.2.1).map fun v =>
    (v.1, clipValue c lines ρ0 contour v.2.1 v.2.2))
  let ρ2 := extend ρ1 ((st.contour.getD []).map fun x => (x.1, Expr.eval ρ1 x.2))
  extend ρ1 ((c.clipVars.filter fun v => !isRollClip c v.2.1).map fun v =>
    (v.1, clipValue c lines ρ2 contour v.2.1 v.2.2))

end value

/-! ### Part 4: the usable cross-section - which width the hook implementation hands to which helper

  `usable_cross_section` / `usable_cross_section3` are one line each: `return helpers.<fn>(self, <terms>)`; the helper cuts
  the polygon enclosed by `self.contour_lines` with `clip_by_rect` windows (and turns it in between).  The translator reads
  the call (`HelperCall`: the term handed over for every parameter of the helper, an omitted argument replaced by the
  parameter's default) and the helper (`Helper`: its steps, loops unrolled, bounds as terms over the parameter variables
  `"<fn>:<parameter>"` and the attribute paths of the pass).  GEOS' polygon clipping itself is not modelled: the model follows
  ONE point of the opening through the steps - a clip keeps or discards it, a turn moves it. -/

/-- one step of a cross-section helper; a bound `none` is `-math.inf` / `math.inf` -/
inductive ROp where
  | clip (xmin ymin xmax ymax : Option Expr)   -- poly = clip_by_rect(poly, xmin, ymin, xmax, ymax)
  | rotate (angleDeg : Expr)                   -- poly = rotate(poly, angle, origin=(0, 0))
  deriving Repr, DecidableEq, Inhabited

structure Helper where
  fn : String
  params : List String                         -- parameter variables after the pass, `"<fn>:<name>"`
  ops : List ROp
  deriving Repr, DecidableEq, Inhabited

structure HelperCall where
  host : String
  hook : String
  fn : String
  helper : String                              -- name of the helper called
  args : List (String × Expr)                  -- parameter variable ↦ term over the hooks / attribute paths of `self`
  deriving Repr, DecidableEq, Inhabited

section region
variable {α : Type} [PyNum α]

def lowerOk (ρ : String → α) (b : Option Expr) (v : α) : Bool :=
  match b with
  | some e => PyNum.le (Expr.eval ρ e) v
  | Option.none => true

def upperOk (ρ : String → α) (v : α) (b : Option Expr) : Bool :=
  match b with
  | some e => PyNum.le v (Expr.eval ρ e)
  | Option.none => true

/-- follow one point of the opening through the steps of a helper: `none` once a clip discards it, else where it ends up -/
def keepPt (ρ : String → α) : List ROp → Pt α → Option (Pt α)
  | [], p => some p
  | .clip a b c d :: ops, p =>
    if lowerOk ρ a p.x && lowerOk ρ b p.y && upperOk ρ p.x c && upperOk ρ p.y d then keepPt ρ ops p else Option.none
  | .rotate a :: ops, p => keepPt ρ ops (rotPt (Expr.eval ρ a) p)

/-- the environment inside the helper: its parameters bound to the values of the terms the caller hands over -/
def callEnv (ρ : String → α) (call : HelperCall) : String → α :=
  extend ρ (call.args.map fun a => (a.1, Expr.eval ρ a.2))

end region

/-- the pass class of a plug-in: a subclass (most derived) carrying one more implementation of `hook`, answering `e` -/
def withPlugin (c : PassClass) (hook : String) (e : Expr) : PassClass :=
  { c with
    mro := "<plugin>" :: c.mro,
    impls := c.impls ++ [{ host := "<plugin>", hook := hook, fn := "<plugin>", tier := 1, wrapper := false,
                            wantsCycle := false, alts := [(.tt, .expr e)] }] }

/-- what a fresh pass with the members `given` set explicitly hands to the helper: every argument term of the call is
    evaluated like the body of a hook implementation (hooks of `self` are read through the hook system) -/
def handedOver (c : PassClass) (call : HelperCall) (given : List String) : List (String × Res) :=
  call.args.map fun a => (a.1, (run c fuel0 (.body a.2) { dict := given, cache := [], contour := Option.none }).1)

end PassGeom
