import PyrollModel.Num
/-
  Velo — model of `PassSequence.solve_velocities_backward / solve_velocities_forward`
  (pyroll/core/sequence/sequence.py) for C19.

  Both python functions have the same skeleton:

      usable  = [rp.usable_cross_section.area for rp in roll_passes]        (backward: usable[-1] = final_cross_section_area)
      v       = zeros;  v[anchor] = seed                                     (anchor = -1 backward, 0 forward)
      sweep(v, usable); set(v); self.solve(in_profile)
      for i in range(self.max_iteration_count):
          prior = [rp.velocity ...]; current = prior.copy()
          areas = [rp.out_profile.cross_section.area ...]                    (areas left by the PREVIOUS solve)
          sweep(current, areas); set(current); self.solve(in_profile)
          if np.all(np.abs(prior - current) < 0.01): break
      (no `else`, nothing raised, nothing logged, nothing returned when the budget is exhausted)

  `sweep` rewrites every index except the anchor from its neighbour on the anchor's side:
      backward  v[i] = v[i+1]*A[i+1]/A[i]  for i = n-2 … 0        forward  v[i] = v[i-1]*A[i-1]/A[i]  for i = 1 … n-1

  What `self.solve` does to the cross-sections is NOT modelled: it is the parameter
      S : (number of the solve call, velocities just written) → out cross-section areas afterwards.
  The recurrence, the seed expression and the tolerance are parameters too (`step`, `seedF`, `tol`); they are
  instantiated with the `Expr`s the translator reads out of the source (PyrollModel/VeloGen.lean).
  Everything is one structural recursion on a list or on the iteration budget (`fuel`).
-/

namespace Velo

/-- `len·n + const` with `n = len(roll_passes)` : bounds of the python `range` of a sweep -/
structure Affine where
  len : Int
  const : Int
  deriving DecidableEq, Repr

/-- Control skeleton of one of the two functions as recognised by the translator (driver/translate/c19_velo.py).
    The hand-written model below is the model of exactly the two `Shape`s spelled out in `PyrollProps/C19.lean`
    (`backward_shape_as_modelled`, `forward_shape_as_modelled`); any other shape breaks that obligation. -/
structure Shape where
  fn : String
  /-- positional parameters after `self` -/
  params : List String
  /-- per-pass attribute the seed areas are read from -/
  seedAreasFrom : String
  /-- the index of the velocity array that is seeded (python index, may be negative) -/
  anchorIndex : Int
  /-- `areas[index] = parameter` before the seed sweep (backward: `(-1, final_cross_section_area)`) -/
  areaOverride : Option (Int × String)
  /-- `range(start, stop, step)` of the sweep and the offset of the neighbour that is read -/
  sweepStart : Affine
  sweepStop : Affine
  sweepStep : Int
  srcOffset : Int
  /-- statement roles before the loop, in source order -/
  prelude : List String
  /-- iteration budget expression -/
  budget : String
  /-- statement roles of the loop body, in source order -/
  body : List String
  /-- where `prior` and the loop's areas are read from (per roll pass) -/
  priorFrom : String
  loopAreasFrom : String
  /-- the attribute written by `set` -/
  setTo : String
  /-- `np.all(difference < tol)` : quantifier and strictness of the stop test -/
  testAll : Bool
  testStrict : Bool
  /-- what happens after the last iteration without `break`: "silent" | "warn" | "raise" -/
  onExhaustion : String
  deriving DecidableEq, Repr

/-- How `PassSequence.roll_passes` - the list every statement of the two functions takes the passes from - is
    obtained, as recognised by the translator: `return list(u for u in self.<source> if isinstance(u, <filterClass>))`.
    `fresh = true`: the body is that single `return`, i.e. the list is built anew from the live unit list on EVERY access
    and nothing is kept between two accesses. -/
structure PassesShape where
  source : String
  filterClass : String
  fresh : Bool
  deriving DecidableEq, Repr

inductive Err where
  | indexError
  deriving DecidableEq, Repr

/-- a unit of the sequence as far as the velocity calculation looks at it: a roll pass (`isinstance(u, BaseRollPass)`,
    with its usable cross-section area) or anything else (transport, rotator, nested sequence, …) -/
inductive SeqUnit (α : Type) where
  | pass (usable : α)
  | other

/-- `PassSequence.roll_passes` of the unit list as it is NOW (model of a `PassesShape` with `fresh = true`):
    the usable areas of the roll passes, in line order -/
def rollPasses {α : Type} : List (SeqUnit α) → List α
  | [] => []
  | .pass a :: us => a :: rollPasses us
  | .other :: us => rollPasses us

variable {α : Type}

/-- `chain f v a [a₁, a₂, …] = [v₁, v₂, …]` with `v₁ = f v a a₁`, `v₂ = f v₁ a₁ a₂`, …
    (`f v_src a_src a_dst` is the recurrence read from the source) -/
def chain (f : α → α → α → α) : α → α → List α → List α
  | _, _, [] => []
  | v, a, a' :: as => f v a a' :: chain f (f v a a') a' as

/-- forward sweep over areas `A`: index 0 of the velocities is kept, every later entry is recomputed from its left
    neighbour.  (Velocities and areas have one entry per roll pass, so the lengths agree.) -/
def sweepF (f : α → α → α → α) : List α → List α → List α
  | a :: as, v :: _ => v :: chain f v a as
  | _, vs => vs

/-- backward sweep: index −1 is kept, every earlier entry is recomputed from its right neighbour -/
def sweepB (f : α → α → α → α) (A v : List α) : List α :=
  (sweepF f A.reverse v.reverse).reverse

/-- `np.all(np.abs(prior - current) < tol)` (true for empty vectors; a NaN difference compares false) -/
def within [PyNum α] (tol : α) : List α → List α → Bool
  | p :: ps, c :: cs => PyNum.lt (PyNum.abs (p - c)) tol && within tol ps cs
  | _, _ => true

/-- state of the roll passes between two statements of the loop -/
structure St (α : Type) where
  /-- velocities written last (`roll_pass.velocity`) -/
  cur : List α
  /-- velocities written before those (equal to `cur` right after seeding) -/
  prev : List α
  /-- the areas `cur` was computed from -/
  used : List α
  /-- out cross-section areas after the last `solve` -/
  areas : List α
  /-- number of loop iterations executed so far (= solve calls − 1) -/
  k : Nat
  /-- every (velocities written, areas they were computed from), newest first -/
  trace : List (List α × List α)

structure Result (α : Type) where
  st : St α
  /-- left by `break` (true) or by running out of budget (false) — NOT observable on the python side -/
  converged : Bool

/-- one pass through the loop body up to and including `self.solve(in_profile)`:
    `prior = cur`, areas as left by the previous solve, sweep, set, solve -/
def next (sw : List α → List α → List α) (S : Nat → List α → List α) (s : St α) : St α :=
  { cur := sw s.areas s.cur, prev := s.cur, used := s.areas, areas := S (s.k + 1) (sw s.areas s.cur), k := s.k + 1,
    trace := (sw s.areas s.cur, s.areas) :: s.trace }

/-- the `for i in range(max_iteration_count)` loop; `fuel` is the remaining budget.  The stop test comes after
    the solve; when the budget runs out the state is simply left as it is. -/
def loop [PyNum α] (sw : List α → List α → List α) (tol : α) (S : Nat → List α → List α) :
    Nat → St α → Result α
  | 0, s => { st := s, converged := false }
  | fuel + 1, s =>
    if within tol s.cur (next sw S s).cur then { st := next sw S s, converged := true }
    else loop sw tol S fuel (next sw S s)

/-- seed sweep, first solve, loop -/
def run [PyNum α] (sw : List α → List α → List α) (tol : α) (S : Nat → List α → List α) (budget : Nat)
    (v0 seedAreas : List α) : Result α :=
  let v := sw seedAreas v0
  loop sw tol S budget { cur := v, prev := v, used := seedAreas, areas := S 0 v, k := 0, trace := [(v, seedAreas)] }

/-- `zeros_like(usable)` with `[-1] = x` -/
def zerosLast [PyNum α] : List α → α → List α
  | [], _ => []
  | [_], x => [x]
  | _ :: b :: t, x => PyNum.nat 0 :: zerosLast (b :: t) x

/-- `usable[-1] = x` -/
def setLast : List α → α → List α
  | [], _ => []
  | [_], x => [x]
  | a :: b :: t, x => a :: setLast (b :: t) x

/-- `solve_velocities_backward(in_profile, final_speed, final_cross_section_area)`;
    `seedB` is the value written to `initial_velocities[-1]` -/
def backward [PyNum α] (step : α → α → α → α) (seedB : α → α) (tol : α) (S : Nat → List α → List α) (budget : Nat)
    (finalSpeed finalArea : α) (usable : List α) : Except Err (Result α) :=
  match usable with
  | [] => .error .indexError
  | _ :: _ => .ok (run (sweepB step) tol S budget (zerosLast usable (seedB finalSpeed)) (setLast usable finalArea))

/-- `solve_velocities_forward(in_profile, initial_speed)`; `seedF speed inArea usable₀` is the value written to
    `initial_velocities[0]` -/
def forward [PyNum α] (step : α → α → α → α) (seedF : α → α → α → α) (tol : α) (S : Nat → List α → List α)
    (budget : Nat) (initialSpeed inArea : α) (usable : List α) : Except Err (Result α) :=
  match usable with
  | [] => .error .indexError
  | u :: us => .ok (run (sweepF step) tol S budget
      (seedF initialSpeed inArea u :: us.map (fun _ => PyNum.nat 0)) usable)

end Velo
