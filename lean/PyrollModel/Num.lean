/-
  PyNum — the numeric carrier every numeric model definition is generic in.

  * `instance : PyNum Float` (below, core Lean only) is what the correspondence check RUNS
    against numpy / CPython floats.
  * `noncomputable instance : PyNum ℝ` (in `PyrollProofs/RealNum.lean`) is what the theorems are ABOUT.

  The gap between the two (IEEE-754 rounding) is part of the trusted base, see DESIGN.md §3.
-/

class PyNum (α : Type) extends Add α, Sub α, Mul α, Div α, Neg α where
  /-- integer literal -/
  nat : Nat → α
  /-- decimal literal `m · 10^(-e)` (python float literals such as `0.5`, `1e-3`) -/
  dec : Nat → Nat → α
  pi : α
  sqrt : α → α
  sin : α → α
  cos : α → α
  tan : α → α
  asin : α → α
  acos : α → α
  atan : α → α
  log : α → α
  exp : α → α
  abs : α → α
  /-- `a ≤ b` with IEEE semantics on Float (NaN compares false) -/
  le : α → α → Bool
  lt : α → α → Bool

namespace PyNum
variable {α : Type} [PyNum α]
/-- natural power by repeated multiplication (python `x ** n` for literal `n`) -/
def npow (x : α) : Nat → α
  | 0 => PyNum.nat 1
  | n + 1 => npow x n * x
end PyNum

instance : PyNum Float where
  nat n := Float.ofNat n
  dec m e := Float.ofScientific m true e
  pi := 3.141592653589793
  sqrt := Float.sqrt
  sin := Float.sin
  cos := Float.cos
  tan := Float.tan
  asin := Float.asin
  acos := Float.acos
  atan := Float.atan
  log := Float.log
  exp := Float.exp
  abs := Float.abs
  le a b := a ≤ b
  lt a b := a < b

/-- floats cross the line protocol as their IEEE bit pattern (decimal `UInt64`) -/
def floatOfBitsStr (s : String) : Option Float :=
  match s.toNat? with
  | some n => some (Float.ofBits (UInt64.ofNat n))
  | none => none

def floatToBitsStr (x : Float) : String :=
  toString x.toBits.toNat
