import PyrollModel.HookOps

/-
  HookUse — objects that are USED more than once, implementations that fail, and the `try … finally` of
  `HookFunction.__call__` (C01).

  `HookEval.ev` evaluates one read on a fresh object that has everything it needs; the re-entrancy marks
  (`HookFunction._active_instances`) are an argument that is passed down and forgotten.  In the code they are STATE that
  outlives the call: `__call__` does `self._active_instances.add(key)` before it runs the function and
  `self._active_instances.discard(key)` in a `finally` clause (when the call was not itself a cycled one) - on the normal
  path and when the function, or the chain inside a wrapper, raises.  `evx` is `ev` with
    * the marks as state: every call receives the marks and returns them (`XOut.marks`); the `finally` is written out on
      both paths (`(r.marks).erase (f.id, i)`).  The set is modelled as a list with one entry per call in progress:
      `add` on a key that is present together with the skipped `discard` of a cycled call is `cons` … `erase` of one entry;
    * implementations that NEED the input of their object (`Flags.needs`, a side table by registration id): when the input
      is missing they raise `AttributeError` (what a too-early read of another attribute does), when it is unusable
      `ValueError`; when it is there they answer their constant - for `ev`, which models an object with its input, such an
      implementation IS `Body.ret (some v)`; a wrapper in the table reads the input before its `yield`;
    * plain implementations that take the `cycle` argument (`Flags.aware`) and step aside (`None`) when told `cycle=True`;
    * exceptions: `Res.err`; they propagate through wrappers (`gen.send(hook.get_result(instance))` raises) and through
      `get_result`; a delegating implementation (harness vocabulary) catches the `AttributeError` of its nested read.
  The object a delegating implementation creates gets the input of the object it runs on, so one evaluation has one input
  state `s` (0 missing, 1 unusable, 2 supplied).

  SOURCE TIE (T): whether the `discard` sits in the `finally` clause is not assumed here but CONSUMED from the generated
  flag `Gen.C01.Hooks.callDiscardInFinally` (read from `HookFunction.__call__` on every run): `excUnmark` is what happens to
  the mark of a call that ends in an exception.  The clean-up on the normal path is the same statement reached normally.

  `UState`/`ustep`: the registry machine of `HookOps` plus objects that stay (`HookHost.__cache__`, input state), used by
  attribute reads, `has_value` and `reevaluate_cache`, with the marks kept between the operations.
-/

namespace Hooks

/-- outcome of an evaluation that may fail: a value / `None`, or an exception (`attr`: AttributeError, else ValueError) -/
inductive Res where
  | val (v : Option Nat)
  | err (attr : Bool)
  deriving DecidableEq, Repr

structure XOut where
  res : Res
  tr : List Ev
  /-- `_active_instances` of all hook functions after the call, as (function, object) entries -/
  marks : List (Nat × Nat)
  deriving DecidableEq, Repr

/-- side tables by registration id -/
structure Flags where
  /-- the implementation reads the input of its object before it answers -/
  needs : Nat → Bool
  /-- the (plain) implementation takes the `cycle` argument and answers `None` when it is `True` -/
  aware : Nat → Bool

/-- the marks after a call of `HookFunction.__call__` that ends in an EXCEPTION: the mark `k` of this call is discarded
    if (and only if) the source has the `discard` in the `finally` clause of the `try` (GENERATED flag); a `discard` placed
    after the `try` statement is not reached -/
def excUnmark (m : List (Nat × Nat)) (k : Nat × Nat) : List (Nat × Nat) :=
  if Gen.C01.Hooks.callDiscardInFinally then m.erase k else m

/-- `get_result` on object `i` whose input is in state `s`, with the marks `act` as found; returns the marks as left. -/
def evx (chainOf : Cls → List HF) (fl : Flags) (s : Nat) :
    Nat → List HF → List HF → Nat → Nat → List (Nat × Nat) → List Ev → XOut
  | 0, _, _, _, _, act, tr => ⟨.val none, tr ++ [.fuelOut], act⟩
  | _ + 1, _, [], _, _, act, tr => ⟨.val none, tr, act⟩
  | fuel + 1, full, f :: rest, i, depth, act, tr =>
    if f.wrapper then
      if (f.id, i) ∈ act then evx chainOf fl s fuel full rest i depth act (tr ++ [.cyc f.id])
      else
        match f.body with
        | .decline => evx chainOf fl s fuel full rest i depth act (tr ++ [.decl f.id])
        | b =>
          if fl.needs f.id && s != 2 then
            -- a wrapper that reads the input before its yield: `next(gen)` raises; `finally` discards the mark
            ⟨.err (s == 0), tr ++ [.enter f.id], excUnmark ((f.id, i) :: act) (f.id, i)⟩
          else
          -- `_active_instances.add(key)`; runs to the yield; the chain of type(instance) is evaluated again
          let r := evx chainOf fl s fuel full full i depth ((f.id, i) :: act) (tr ++ [.enter f.id])
          -- `finally: _active_instances.discard(key)` - whatever the inner chain did
          let m := r.marks.erase (f.id, i)
          match r.res with
          | .err k => ⟨.err k, r.tr, excUnmark r.marks (f.id, i)⟩
          | .val v =>
            match wapply b v with
            | some x => ⟨.val (some x), r.tr ++ [.exit f.id], m⟩
            | none => evx chainOf fl s fuel full rest i depth m (r.tr ++ [.exit f.id])
    else
      match f.body with
      | .delegate c =>
        if depth = 0 then
          let j := tr.length + 1
          let r := evx chainOf fl s fuel (chainOf c) (chainOf c) j 1 ((f.id, i) :: act) (tr ++ [.call f.id, .inst c])
          let m := r.marks.erase (f.id, i)
          match r.res with
          | .err false => ⟨.err false, r.tr, excUnmark r.marks (f.id, i)⟩
          | .err true => evx chainOf fl s fuel full rest i depth m r.tr     -- `except AttributeError: return None`
          | .val (some x) => ⟨.val (some x), r.tr, m⟩
          | .val none => evx chainOf fl s fuel full rest i depth m r.tr
        else evx chainOf fl s fuel full rest i depth act (tr ++ [.call f.id])
      | .ret v =>
        if fl.aware f.id && decide ((f.id, i) ∈ act) then
          evx chainOf fl s fuel full rest i depth act (tr ++ [.cyc f.id])
        else if fl.needs f.id && s != 2 then
          -- the implementation raises; `finally` discards the mark set for this call
          ⟨.err (s == 0), tr ++ [.call f.id], excUnmark ((f.id, i) :: act) (f.id, i)⟩
        else
          match v with
          | some x => ⟨.val (some x), tr ++ [.call f.id], ((f.id, i) :: act).erase (f.id, i)⟩
          | none => evx chainOf fl s fuel full rest i depth (((f.id, i) :: act).erase (f.id, i)) (tr ++ [.call f.id])
      | _ => evx chainOf fl s fuel full rest i depth act (tr ++ [.call f.id])

/-! ### objects that stay -/

structure Obj where
  cls : Cls
  /-- input state: 0 missing, 1 unusable, 2 supplied -/
  inp : Nat := 0
  /-- `__cache__`: no entry / an entry holding `None` (left by `reevaluate_cache`) / an entry holding a value -/
  cache : Option (Option Nat) := none
  deriving DecidableEq, Repr

structure UState where
  reg : State
  needs : List Nat := []
  aware : List Nat := []
  objs : List (Nat × Obj) := []
  /-- the marks between two operations -/
  marks : List (Nat × Nat) := []

def uinit : UState := { reg := init }

def UState.flags (u : UState) : Flags := ⟨fun i => u.needs.contains i, fun i => u.aware.contains i⟩

def findObj (l : List (Nat × Obj)) (o : Nat) : Option Obj := (l.find? fun p => p.1 == o).map (·.2)

def setObj (l : List (Nat × Obj)) (o : Nat) (ob : Obj) : List (Nat × Obj) :=
  l.map fun p => if p.1 == o then (o, ob) else p

inductive UOp where
  /-- an operation of the registry machine (class definition, registration, removal, access, read on a fresh object) -/
  | reg (op : Op)
  /-- registration of a plain implementation that needs the input of its object and answers `v` -/
  | addNeed (c : Cls) (t : Tier) (v : Nat) (aware : Bool)
  /-- registration of a cooperating wrapper (`wrap k d`) that reads the input of its object before its yield -/
  | addNeedW (c : Cls) (t : Tier) (k : Nat) (d : Option Nat)
  /-- `o = C()`: an object that stays, without input -/
  | newObj (o : Nat) (c : Cls)
  /-- the input of object `o` is removed (0), made unusable (1), supplied (2) -/
  | setInp (o : Nat) (s : Nat)
  /-- `o.h` -/
  | get (o : Nat)
  /-- `o.has_value("h")` -/
  | has (o : Nat)
  /-- `o.reevaluate_cache()` -/
  | reeval (o : Nat)
  deriving Repr, DecidableEq

/-- the evaluation of the chain of the object's class on the object, starting from the marks as they are -/
def evalObj (u : UState) (ob : Obj) : XOut :=
  evx (implOrder u.reg) u.flags ob.inp evalFuel (implOrder u.reg ob.cls) (implOrder u.reg ob.cls) 0 0 u.marks []

/-- the evaluation on an object of class `c` with input `s` that was never used, with no call in progress -/
def freshOut (st : State) (fl : Flags) (c : Cls) (s : Nat) : XOut :=
  evx (implOrder st) fl s evalFuel (implOrder st c) (implOrder st c) 0 0 [] []

/-- the lazy creations of one evaluation: for the class of the object and for every class instantiated on the way -/
def touchEval (st : State) (c : Cls) (tr : List Ev) : State := (instsOf tr).foldl touchAll (touchAll st c)

/-- does this use compute a value (`get`/`has`: no value is cached; `reeval`: there is a cache entry)? -/
def computes (ob : Obj) : UOp → Bool
  | .get _ | .has _ => match ob.cache with
    | some (some _) => false
    | _ => true
  | .reeval _ => ob.cache.isSome
  | _ => false

/-- one evaluation on object `o`: the registry (lazy creations), the marks and the cache afterwards.  `__get__` saves a
    value that was determined from the functions; `reevaluate_cache` stores whatever `get_result` returned; an exception
    leaves the cache as it was. -/
def useEval (u : UState) (o : Nat) (ob : Obj) (reeval : Bool) : UState :=
  let r := evalObj u ob
  let cache' := match r.res with
    | .val (some v) => some (some v)
    | .val none => if reeval then some none else ob.cache
    | .err _ => ob.cache
  { u with reg := touchEval u.reg ob.cls r.tr, marks := r.marks, objs := setObj u.objs o { ob with cache := cache' } }

def ustep (u : UState) : UOp → UState
  | .reg op => { u with reg := step u.reg op }
  | .addNeed c t v a =>
    let st1 := step u.reg (.add c t false (.ret (some v)))
    match (touch u.reg c).own c with
    | none => { u with reg := st1 }
    | some _ => { u with reg := st1, needs := u.reg.next :: u.needs,
                         aware := if a then u.reg.next :: u.aware else u.aware }
  | .addNeedW c t k d =>
    let st1 := step u.reg (.add c t true (.wrap k d))
    match (touch u.reg c).own c with
    | none => { u with reg := st1 }
    | some _ => { u with reg := st1, needs := u.reg.next :: u.needs }
  | .newObj o c => match findObj u.objs o with
    | some _ => u
    | none => { u with objs := u.objs ++ [(o, { cls := c })] }
  | .setInp o s => match findObj u.objs o with
    | some ob => { u with objs := setObj u.objs o { ob with inp := s } }
    | none => u
  | .get o => match findObj u.objs o with
    | none => u
    | some ob => if computes ob (.get o) then useEval u o ob false else { u with reg := touch u.reg ob.cls }
  | .has o => match findObj u.objs o with
    | none => u
    | some ob => if computes ob (.has o) then useEval u o ob false else { u with reg := touch u.reg ob.cls }
  | .reeval o => match findObj u.objs o with
    | none => u
    | some ob => if computes ob (.reeval o) then useEval u o ob true else u

def urun (ops : List UOp) : UState := ops.foldl ustep uinit

/-- the registry operations of a use-history (registrations of `need` implementations are registrations) -/
def regOps : List UOp → List Op
  | [] => []
  | .reg op :: l => op :: regOps l
  | .addNeed c t v _ :: l => .add c t false (.ret (some v)) :: regOps l
  | .addNeedW c t k d :: l => .add c t true (.wrap k d) :: regOps l
  | _ :: l => regOps l

end Hooks
