import PyrollModel.Num
/-
  Expr — the deep-embedded formula language the translator (driver/translate) emits for every
  closed-form expression it reads out of /repo (hook implementations, groove junction chain,
  solver residuals).  `eval` gives it meaning over any `PyNum` carrier, `dim` is the exponent of the
  length unit used for the dimensional-homogeneity certificates (C11).
-/

inductive Expr where
  | var (n : String)
  | nat (n : Nat)
  | dec (m : Nat) (e : Nat)
  | pi
  | add (a b : Expr)
  | sub (a b : Expr)
  | mul (a b : Expr)
  | div (a b : Expr)
  | neg (a : Expr)
  | pow (a : Expr) (n : Nat)
  | sqrt (a : Expr)
  | sin (a : Expr)
  | cos (a : Expr)
  | tan (a : Expr)
  | asin (a : Expr)
  | acos (a : Expr)
  | atan (a : Expr)
  | log (a : Expr)
  | exp (a : Expr)
  | abs (a : Expr)
  deriving Repr, DecidableEq, Inhabited

namespace Expr

def eval {α : Type} [PyNum α] (ρ : String → α) : Expr → α
  | var n => ρ n
  | nat n => PyNum.nat n
  | dec m e => PyNum.dec m e
  | pi => PyNum.pi
  | add a b => eval ρ a + eval ρ b
  | sub a b => eval ρ a - eval ρ b
  | mul a b => eval ρ a * eval ρ b
  | div a b => eval ρ a / eval ρ b
  | neg a => - eval ρ a
  | pow a n => PyNum.npow (eval ρ a) n
  | sqrt a => PyNum.sqrt (eval ρ a)
  | sin a => PyNum.sin (eval ρ a)
  | cos a => PyNum.cos (eval ρ a)
  | tan a => PyNum.tan (eval ρ a)
  | asin a => PyNum.asin (eval ρ a)
  | acos a => PyNum.acos (eval ρ a)
  | atan a => PyNum.atan (eval ρ a)
  | log a => PyNum.log (eval ρ a)
  | exp a => PyNum.exp (eval ρ a)
  | abs a => PyNum.abs (eval ρ a)

/-- free variables, in order of occurrence (with repetitions) -/
def vars : Expr → List String
  | var n => [n]
  | nat _ | dec _ _ | pi => []
  | add a b | sub a b | mul a b | div a b => vars a ++ vars b
  | neg a | pow a _ | sqrt a | sin a | cos a | tan a | asin a | acos a | atan a | log a | exp a | abs a => vars a

/-- Length dimension of a term.
    `bad`  – not dimensionally homogeneous (or outside what the certificate checker accepts);
    `zero` – the literal `0`, which is dimension-polymorphic;
    `is d` – scales with `k^d` when every length is scaled by `k`. -/
inductive Dim where
  | bad
  | zero
  | is (d : Int)
  deriving Repr, DecidableEq

def Dim.addD : Dim → Dim → Dim
  | .zero, d => d
  | d, .zero => d
  | .is a, .is b => if a = b then .is a else .bad
  | _, _ => .bad

def Dim.mulD : Dim → Dim → Dim
  | .bad, _ => .bad
  | _, .bad => .bad
  | .zero, _ => .zero
  | _, .zero => .zero
  | .is a, .is b => .is (a + b)

/-- divisor must be a proper dimensioned quantity (division by literal zero is rejected) -/
def Dim.divD : Dim → Dim → Dim
  | .bad, _ => .bad
  | _, .bad => .bad
  | _, .zero => .bad
  | .zero, .is _ => .zero
  | .is a, .is b => .is (a - b)

/-- functions that need a dimensionless argument and give a dimensionless result -/
def Dim.pure0 : Dim → Dim
  | .is 0 => .is 0
  | _ => .bad

def dim (Γ : String → Option Int) : Expr → Dim
  | var n => match Γ n with
    | some d => .is d
    | none => .bad
  | nat 0 => .zero
  | nat _ => .is 0
  | dec _ _ => .is 0
  | pi => .is 0
  | add a b => (dim Γ a).addD (dim Γ b)
  | sub a b => (dim Γ a).addD (dim Γ b)
  | mul a b => (dim Γ a).mulD (dim Γ b)
  | div a b => (dim Γ a).divD (dim Γ b)
  | neg a => dim Γ a
  | abs a => dim Γ a
  | pow a n => match dim Γ a with
    | .is d => .is (d * n)
    | .zero => if n = 0 then .is 0 else .zero
    | .bad => .bad
  | sqrt a => match dim Γ a with
    | .is d => if d % 2 = 0 then .is (d / 2) else .bad
    | .zero => .zero
    | .bad => .bad
  | sin a => (dim Γ a).pure0
  | cos a => (dim Γ a).pure0
  | tan a => (dim Γ a).pure0
  | asin a => (dim Γ a).pure0
  | acos a => (dim Γ a).pure0
  | atan a => (dim Γ a).pure0
  | log a => (dim Γ a).pure0
  | exp a => (dim Γ a).pure0

end Expr

/-- association-list environments (used by the model driver and by the generated tables) -/
def envOf {α : Type} (dflt : α) (xs : List (String × α)) : String → α :=
  fun n => match xs.find? (fun p => p.1 = n) with
    | some p => p.2
    | none => dflt

def dimOf (xs : List (String × Int)) : String → Option Int :=
  fun n => match xs.find? (fun p => p.1 = n) with
    | some p => some p.2
    | none => none
