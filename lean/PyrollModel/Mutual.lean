import PyrollModel.Impl
/-
  Mutual — symbolic interpreter of hook resolution over GENERATED implementation tables (C16, DESIGN §4.2).

  It mirrors `pyroll/core/hooks.py` for ONE instance:

    Hook.__get__      explicit value (`__dict__`) → cached value (`__cache__`) → `get_result`; `None` ⇒ AttributeError;
                      a value is written to `__cache__` (overwriting an entry a nested evaluation may have left)
    Hook.get_result   the plain functions in resolution order (tryfirst / normal / trylast, inside a tier by MRO, inside
                      a class newest first); the first result that is not `None` wins; an exception aborts the chain
    HookFunction.__call__   `cycle = key in _active_instances; add; try: run finally: if not cycle: discard`
                      (per (function, instance) marks, restored on the normal and on the exceptional path)
    has_set / has_cached / has_set_or_cached   look at the presence state only
    has_value         `hasattr`: a complete read (with its caching side effects); only AttributeError is swallowed

  Values stay symbolic (`Expr` over the names of the explicitly supplied members and of the external quantities), so
  the whole evaluation is decidable data the Lean kernel can compute (`decide`).  Everything that lives on OTHER objects
  (`in_profile.velocity`, `groove.groove_factor`, `roll_pass.velocity`, …) and every body the translator could not read
  (`Body.opaque`) is a parameter of the run (`World.ext`): available / explicitly set / returns `None` / raises.

  The interpreter is an abstract machine (`step` is not recursive, `exec` is ONE structural recursion on `fuel`), so
  `fuel` bounds the number of machine steps (= time) and `maxDepth` records the deepest stack (= Python recursion depth).
-/
namespace Mutual

inductive Err where
  | attr          -- AttributeError
  | index         -- IndexError
  | value         -- ValueError
  | other         -- any other exception kind
  | fuel          -- out of fuel: a hang / RecursionError in the implementation
  | unmodelled    -- the run left the modelled fragment (reported as a tie break by the harness)
  deriving Repr, DecidableEq, Inhabited

/-- status of an external quantity / of an opaque body -/
inductive Ext where
  | set                  -- has a value and is explicitly set on its owner (`has_set` true)
  | avail                -- has a value (computed, not set)
  | cached               -- has a value, not set, but already in the `__cache__` of its owner (it has been read before)
  | none                 -- (opaque bodies only) the body returns `None`
  | missing (e : Err)    -- reading it raises `e`
  deriving Repr, DecidableEq, Inhabited

inductive Res where
  | val (e : Expr)
  | none
  | err (e : Err)
  deriving Repr, DecidableEq, Inhabited

/-- one class in one situation -/
structure World where
  impls : List Impl                 -- generated table of the class (registration = source order)
  mro : List String                 -- host names in MRO order
  hooks : List String               -- names resolved on the instance itself (everything else must be in `ext`)
  ext : List (String × Ext)
  deriving Repr, DecidableEq, Inhabited

/-- presence state of the instance -/
structure Obj where
  set : List String                 -- names in `__dict__` (holding a value)
  cache : List (String × Expr)      -- `__cache__`, newest binding first, one binding per name
  active : List String              -- keys of the functions currently executing on this instance
  noneSet : List String := []       -- names in `__dict__` holding `None` (`Roll(…, working_velocity=None)`): PRESENT for
                                    -- `has_set`, skipped by `Hook.__get__` (`if result is not None`)
  deriving Repr, DecidableEq, Inhabited

def Obj.fresh (set : List String) (noneSet : List String := []) : Obj :=
  { set := set, cache := [], active := [], noneSet := noneSet }

/-- `name in self.__dict__` -/
def Obj.hasSet (o : Obj) (n : String) : Bool := o.set.contains n || o.noneSet.contains n

def lookup {β : Type} (n : String) : List (String × β) → Option β
  | [] => Option.none
  | (k, v) :: r => if k = n then some v else lookup n r

def glookup (g : Guard) : List (Guard × Bool) → Option Bool
  | [] => Option.none
  | (k, v) :: r => if k = g then some v else glookup g r

/-- `__cache__[n] = e` -/
def cachePut (n : String) (e : Expr) (c : List (String × Expr)) : List (String × Expr) :=
  (n, e) :: c.filter (fun p => p.1 ≠ n)

/-- key of a hook function (function names repeat between classes) -/
def Impl.key (i : Impl) : String := i.host ++ "/" ++ i.fn

/-- `Hook.functions_gen` restricted to plain functions -/
def chainOf (w : World) (hook : String) : List Impl :=
  [0, 1, 2].flatMap fun t =>
    w.mro.flatMap fun h =>
      (w.impls.filter fun i => i.hook = hook && i.host = h && i.tier = t && !i.wrapper).reverse

/-- substitution of the values read for the variables of a formula -/
def subst (σ : List (String × Expr)) : Expr → Expr
  | .var n => match lookup n σ with
    | some e => e
    | Option.none => .var n
  | .nat n => .nat n
  | .dec m e => .dec m e
  | .pi => .pi
  | .add a b => .add (subst σ a) (subst σ b)
  | .sub a b => .sub (subst σ a) (subst σ b)
  | .mul a b => .mul (subst σ a) (subst σ b)
  | .div a b => .div (subst σ a) (subst σ b)
  | .neg a => .neg (subst σ a)
  | .pow a n => .pow (subst σ a) n
  | .sqrt a => .sqrt (subst σ a)
  | .sin a => .sin (subst σ a)
  | .cos a => .cos (subst σ a)
  | .tan a => .tan (subst σ a)
  | .asin a => .asin (subst σ a)
  | .acos a => .acos (subst σ a)
  | .atan a => .atan (subst σ a)
  | .log a => .log (subst σ a)
  | .exp a => .exp (subst σ a)
  | .abs a => .abs (subst σ a)

/-- result of looking at a guard with the tests evaluated so far -/
inductive GRes where
  | known (b : Bool)
  | need (atom : Guard)
  deriving Repr, DecidableEq

/-- python's short-circuit evaluation; every test (`atom`) is evaluated at most once per call of the function: the
    translator repeats the earlier tests (negated) in the guards of the later alternatives -/
def geval (memo : List (Guard × Bool)) : Guard → GRes
  | .tt => .known true
  | .not g => match geval memo g with
    | .known b => .known (!b)
    | .need a => .need a
  | .and a b => match geval memo a with
    | .known false => .known false
    | .known true => geval memo b
    | .need x => .need x
  | .or a b => match geval memo a with
    | .known true => .known true
    | .known false => geval memo b
    | .need x => .need x
  | g => match glookup g memo with
    | some b => .known b
    | Option.none => .need g

inductive Frame where
  | getF (hook : String)                                   -- `Hook.__get__` waiting for `get_result`
  | chainF (hook : String) (rest : List Impl)              -- `get_result` loop waiting for one function
  | callF (key : String) (wasCycle : Bool)                 -- `HookFunction.__call__` (its `finally`)
  | altsF (key : String) (cyc : Bool) (alts : List (Guard × Body)) (memo : List (Guard × Bool)) (atom : Guard)
                                                           -- a `has_value` test waiting for the read
  | varsF (done : List (String × Expr)) (cur : String) (rest : List String) (e : Expr)
                                                           -- a formula waiting for the read of `cur`
  deriving Repr, DecidableEq, Inhabited

inductive Ctl where
  | read (n : String)
  | ret (r : Res)
  | chain (hook : String) (rest : List Impl)
  | alts (key : String) (cyc : Bool) (alts : List (Guard × Body)) (memo : List (Guard × Bool))
  | vars (done : List (String × Expr)) (rest : List String) (e : Expr)
  deriving Repr, DecidableEq, Inhabited

structure M where
  ctl : Ctl
  stack : List Frame
  obj : Obj
  steps : Nat
  maxDepth : Nat
  calls : Nat := 0                  -- number of hook function invocations (`HookFunction.__call__`) on the instance
  deriving Repr, DecidableEq, Inhabited

/-- read of something that is not resolved on the instance -/
def extRead (n : String) : Ext → Res
  | .set => .val (.var n)
  | .avail => .val (.var n)
  | .cached => .val (.var n)
  | .none => .err .unmodelled
  | .missing e => .err e

/-- a test on another object `obj` (a `.`-path below the instance): `none` ⇒ unmodelled.
    `wantSet`: a presence test (`has_set`, `has_set_or_cached`) instead of `has_value`; `orCached`: `has_set_or_cached` -/
def extTest (w : World) (obj attr : String) (wantSet : Bool) (orCached : Bool := false) : Res ⊕ Bool :=
  match lookup obj w.ext with
  | some (.missing e) => .inl (.err e)               -- e.g. `self.in_profile` is `None`
  | _ =>
    match lookup (obj ++ "." ++ attr) w.ext with
    | some .set => .inr true
    | some .avail => .inr (!wantSet)
    | some .cached => .inr (!wantSet || orCached)
    | some (.missing .attr) => .inr false
    | some (.missing e) => if wantSet then .inr false else .inl (.err e)
    | _ => .inl (.err .unmodelled)

def step (w : World) (m : M) : M :=
  let m := { m with steps := m.steps + 1, maxDepth := max m.maxDepth m.stack.length }
  match m.ctl with
  | .read n =>
    match lookup n w.ext with
    | some x => { m with ctl := .ret (extRead n x) }
    | Option.none =>
      if !w.hooks.contains n then { m with ctl := .ret (.err .unmodelled) }
      else if m.obj.set.contains n then { m with ctl := .ret (.val (.var n)) }
      else match lookup n m.obj.cache with
        | some e => { m with ctl := .ret (.val e) }
        | Option.none => { m with ctl := .chain n (chainOf w n), stack := .getF n :: m.stack }
  | .chain _ [] => { m with ctl := .ret .none }
  | .chain hook (i :: rest) =>
    let key := Impl.key i
    let cyc := m.obj.active.contains key
    { m with ctl := .alts key cyc i.alts [],
             calls := m.calls + 1,
             stack := .callF key cyc :: .chainF hook rest :: m.stack,
             obj := { m.obj with active := if cyc then m.obj.active else key :: m.obj.active } }
  | .alts _ _ [] _ => { m with ctl := .ret .none }
  | .alts key cyc ((g, b) :: rest) memo =>
    match geval memo g with
    | .known false => { m with ctl := .alts key cyc rest memo }
    | .known true =>
      match b with
      | .expr e => { m with ctl := .vars [] e.vars e }
      | .none => { m with ctl := .ret .none }
      | .opaque _ =>
        let p := "@" ++ key
        match lookup p w.ext with
        | some .none => { m with ctl := .ret .none }
        | some (.missing e) => { m with ctl := .ret (.err e) }
        | some _ => { m with ctl := .ret (.val (.var p)) }
        | Option.none => { m with ctl := .ret (.err .unmodelled) }
      | .sumOver _ _ => { m with ctl := .ret (.err .unmodelled) }
    | .need atom =>
      let continueWith (v : Bool) : M := { m with ctl := .alts key cyc ((g, b) :: rest) ((atom, v) :: memo) }
      let test (r : Res ⊕ Bool) : M := match r with
        | .inl e => { m with ctl := .ret e }
        | .inr v => continueWith v
      match atom with
      | .cycle => continueWith cyc
      | .hasSet "" n => continueWith (m.obj.hasSet n)
      | .hasCached "" n => continueWith ((lookup n m.obj.cache).isSome)
      | .hasSetOrCached "" n => continueWith (m.obj.hasSet n || (lookup n m.obj.cache).isSome)
      | .hasValue "" n => { m with ctl := .read n, stack := .altsF key cyc ((g, b) :: rest) memo atom :: m.stack }
      | .hasSet o n => test (extTest w o n true)
      | .hasSetOrCached o n => test (extTest w o n true true)
      | .hasValue o n => test (extTest w o n false)
      | _ => { m with ctl := .ret (.err .unmodelled) }
  | .vars done [] e => { m with ctl := .ret (.val (subst done e)) }
  | .vars done (v :: rest) e => { m with ctl := .read v, stack := .varsF done v rest e :: m.stack }
  | .ret r =>
    match m.stack with
    | [] => m
    | .varsF done cur rest e :: st =>
      (match r with
       | .val x => { m with ctl := .vars (done ++ [(cur, x)]) rest e, stack := st }
       | .none => { m with ctl := .ret (.err .unmodelled), stack := st }
       | .err x => { m with ctl := .ret (.err x), stack := st })
    | .altsF key cyc alts memo atom :: st =>
      (match r with
       | .val _ => { m with ctl := .alts key cyc alts ((atom, true) :: memo), stack := st }
       | .err .attr => { m with ctl := .alts key cyc alts ((atom, false) :: memo), stack := st }
       | .err x => { m with ctl := .ret (.err x), stack := st }
       | .none => { m with ctl := .ret (.err .unmodelled), stack := st })
    | .callF key wasCycle :: st =>
      { m with stack := st,
               obj := { m.obj with active := if wasCycle then m.obj.active else m.obj.active.filter (fun k => k ≠ key) } }
    | .chainF hook rest :: st =>
      (match r with
       | .none => { m with ctl := .chain hook rest, stack := st }
       | _ => { m with stack := st })
    | .getF hook :: st =>
      (match r with
       | .none => { m with ctl := .ret (.err .attr), stack := st }
       | .val e => { m with stack := st, obj := { m.obj with cache := cachePut hook e m.obj.cache } }
       | .err _ => { m with stack := st })

def M.final (m : M) : Bool :=
  match m.ctl, m.stack with
  | .ret _, [] => true
  | _, _ => false

/-- run to completion; `none` = out of fuel -/
def exec (w : World) : Nat → M → Option M
  | 0, m => if m.final then some m else Option.none
  | n + 1, m => if m.final then some m else exec w n (step w m)

structure Read where
  name : String
  res : Res
  steps : Nat
  depth : Nat
  calls : Nat := 0
  deriving Repr, DecidableEq, Inhabited

/-- one attribute read on the instance (`getattr(obj, n)`) -/
def read1 (w : World) (fuel : Nat) (o : Obj) (n : String) : Read × Obj :=
  match exec w fuel { ctl := .read n, stack := [], obj := o, steps := 0, maxDepth := 0 } with
  | some m => (match m.ctl with
    | .ret r => ({ name := n, res := r, steps := m.steps, depth := m.maxDepth, calls := m.calls }, m.obj)
    | _ => ({ name := n, res := .err .unmodelled, steps := m.steps, depth := m.maxDepth, calls := m.calls }, m.obj))
  | Option.none => ({ name := n, res := .err .fuel, steps := fuel, depth := 0 }, o)

/-- the members read one after the other on the same instance -/
def readAll (w : World) (fuel : Nat) : Obj → List String → List Read × Obj
  | o, [] => ([], o)
  | o, n :: rest =>
    let (r, o') := read1 w fuel o n
    let (rs, o'') := readAll w fuel o' rest
    (r :: rs, o'')

/-- fresh instance with `sup` supplied, members read in the order `ord` -/
def scenario (w : World) (fuel : Nat) (sup ord : List String) : List Read × Obj :=
  readAll w fuel (Obj.fresh sup) ord

/-- … with the names `nones` given explicitly as `None` -/
def scenarioN (w : World) (fuel : Nat) (sup nones ord : List String) : List Read × Obj :=
  readAll w fuel (Obj.fresh sup nones) ord

/-! ### enumeration helpers (used INSIDE the theorems: all subsets × all read orders) -/

def sublists : List String → List (List String)
  | [] => [[]]
  | x :: r => (sublists r).flatMap fun s => [s, x :: s]

def insertAll (x : String) : List String → List (List String)
  | [] => [[x]]
  | y :: r => (x :: y :: r) :: (insertAll x r).map (y :: ·)

def perms : List String → List (List String)
  | [] => [[]]
  | x :: r => (perms r).flatMap (insertAll x)

/-! ### group specifications: what the property demands of a group of mutually defined members

  A `Spec` is written from the property statement: the members, the directions in which the core derives one member
  from others (`rules`, the closure of what is supplied / available says which members must be readable), the
  symbolic forms a member may take (`forms`; every one of them is proved equal to the member's true value over ℝ in
  `PyrollProps/C16.lean`), and the bounds on machine steps and stack depth of a single read. -/

/-- a world together with the names that are explicitly set besides the supplied members -/
structure GW where
  world : World
  base : List String
  deriving Repr, DecidableEq, Inhabited

def availExt (w : World) : List String :=
  w.ext.filterMap fun p => match p.2 with
    | .set => some p.1
    | .avail => some p.1
    | .cached => some p.1
    | _ => Option.none

def closeStep (rules : List (String × List String)) (known : List String) : List String :=
  rules.foldl (fun k r => if !k.contains r.1 && r.2.all k.contains then r.1 :: k else k) known

def closure (rules : List (String × List String)) : Nat → List String → List String
  | 0, k => k
  | n + 1, k => closure rules n (closeStep rules k)

structure Spec where
  members : List String
  rules : List (String × List String)
  forms : List String → List (String × List Expr)     -- may depend on which members are supplied (defaults)
  maxSteps : Nat
  maxDepth : Nat

def Spec.formsOf (s : Spec) (sup : List String) (m : String) : List Expr := (lookup m (s.forms sup)).getD []

/-- the member follows from what is supplied / set / externally available along the documented directions -/
def derivable (s : Spec) (g : GW) (sup : List String) (m : String) : Bool :=
  (closure s.rules s.rules.length (g.base ++ sup ++ availExt g.world)).contains m

/-- one read is as the property demands: a supplied member reads back as itself; a derivable member reads one of the
    admitted symbolic forms; anything else fails with AttributeError; within the step and depth bounds -/
def okRead (s : Spec) (g : GW) (sup : List String) (r : Read) : Bool :=
  r.steps ≤ s.maxSteps && r.depth ≤ s.maxDepth &&
  match r.res with
  | .val e => derivable s g sup r.name && (s.formsOf sup r.name).contains e &&
              (!sup.contains r.name || e == .var r.name)
  | .err .attr => !derivable s g sup r.name
  | _ => false

def okRun (s : Spec) (fuel : Nat) (g : GW) (sup ord : List String) : Bool :=
  let x := scenario g.world fuel (g.base ++ sup) ord
  x.1.all (okRead s g sup) && x.2.active.isEmpty && x.1.map (·.name) == ord

/-- EVERY world × EVERY subset of supplied members × EVERY read order -/
def checkAll (s : Spec) (fuel : Nat) (worlds : List GW) : Bool :=
  worlds.all fun g => (sublists s.members).all fun sup => (perms s.members).all fun ord => okRun s fuel g sup ord

/-! ### a hook given as `None` is not supplied

  `Hook.__get__` skips a `None` in `__dict__`, so an object that carries `h = None` must answer every read of the members
  exactly as the object that does not mention `h` — which it does as long as no implementation tests `h` for PRESENCE
  (`has_set`, `has_set_or_cached`).  `checkNone` compares, for every world × every hook `h` of `hs` × every subset of the
  other members × every read order, the complete results (values symbolically, error kinds) of the two runs; both must
  finish and leave no mark. -/

def sameRun (w : World) (fuel : Nat) (base sup : List String) (h : String) (ord : List String) : Bool :=
  let a := scenarioN w fuel (base ++ sup) [h] ord
  let b := scenario w fuel (base ++ sup) ord
  a.1.map (·.res) == b.1.map (·.res) && a.1.all (fun r => r.res != .err .fuel) && b.1.all (fun r => r.res != .err .fuel)
    && a.2.active.isEmpty && a.1.map (·.name) == ord

def checkNone (members : List String) (fuel : Nat) (worlds : List GW) (hs : List String) : Bool :=
  worlds.all fun g => hs.all fun h => (sublists (members.filter (· ≠ h))).all fun sup =>
    (perms members).all fun ord => sameRun g.world fuel g.base sup h ord

def dedupE : List Expr → List Expr
  | [] => []
  | x :: r => let d := dedupE r; if d.contains x then d else x :: d

/-- (tool for writing a `Spec`) the symbolic forms that occur -/
def observedForms (members : List String) (fuel : Nat) (worlds : List GW) : List (String × List Expr) :=
  members.map fun m => (m, dedupE (worlds.flatMap fun g => (sublists members).flatMap fun sup =>
    (perms members).flatMap fun ord => (scenario g.world fuel (g.base ++ sup) ord).1.filterMap fun r =>
      if r.name = m then (match r.res with | .val e => some e | _ => Option.none) else Option.none))

def observedBounds (members : List String) (fuel : Nat) (worlds : List GW) : Nat × Nat :=
  (worlds.flatMap fun g => (sublists members).flatMap fun sup =>
    (perms members).flatMap fun ord => (scenario g.world fuel (g.base ++ sup) ord).1).foldl
      (fun b r => (max b.1 r.steps, max b.2 r.depth)) (0, 0)

end Mutual
