import PyrollModel.Impl
/-
  Mutual — symbolic interpreter of hook resolution over GENERATED implementation tables (C16, DESIGN §4.2).

  It mirrors `pyroll/core/hooks.py` for ONE instance:

    Hook.__get__      explicit value (`__dict__`) → cached value (`__cache__`) → `get_result`; `None` ⇒ AttributeError;
                      a value is written to `__cache__` (overwriting an entry a nested evaluation may have left)
    Hook.get_result   the plain functions in resolution order (tryfirst / normal / trylast, inside a tier by MRO, inside
                      a class newest first); the first result that is not `None` wins; an exception aborts the chain
    HookFunction.__call__   `cycle = key in _active_instances; add; try: run finally: if not cycle: discard`
                      (per (function, instance) marks, restored on the normal and on the exceptional path)
    has_set / has_cached / has_set_or_cached   look at the presence state only
    has_value         `hasattr`: a complete read (with its caching side effects); only AttributeError is swallowed
    explicit callables   an explicit value may be a CALLABLE: `Hook.__get__` finds its number of parameters and calls it
                      with no argument / with the instance (`World.conv`, read from the source by the translator); the
                      result is returned, nothing is cached
    template copies   a fresh object built from a TEMPLATE object (`BaseRollPass.Roll(template, roll_pass)`,
                      `Unit.Profile(unit, template)`): which attribute sets of the template become the explicit values
                      of the copy is read from the source by the translator (`copyObj srcs`); the template may have any
                      history of reads and edits before (`Op`, `applyOps`)

  Values stay symbolic (`Expr` over the names of the explicitly supplied members and of the external quantities), so
  the whole evaluation is decidable data the Lean kernel can compute (`decide`).  Everything that lives on OTHER objects
  (`in_profile.velocity`, `groove.groove_factor`, `roll_pass.velocity`, …) and every body the translator could not read
  (`Body.opaque`) is a parameter of the run (`World.ext`): available / explicitly set / returns `None` / raises.

  The interpreter is an abstract machine (`step` is not recursive, `exec` is ONE structural recursion on `fuel`), so
  `fuel` bounds the number of machine steps (= time) and `maxDepth` records the deepest stack (= Python recursion depth).
-/
namespace Mutual

inductive Err where
  | attr          -- AttributeError
  | index         -- IndexError
  | value         -- ValueError
  | other         -- any other exception kind
  | fuel          -- out of fuel: a hang / RecursionError in the implementation
  | unmodelled    -- the run left the modelled fragment (reported as a tie break by the harness)
  deriving Repr, DecidableEq, Inhabited

/-- status of an external quantity / of an opaque body -/
inductive Ext where
  | set                  -- has a value and is explicitly set on its owner (`has_set` true)
  | avail                -- has a value (computed, not set)
  | cached               -- has a value, not set, but already in the `__cache__` of its owner (it has been read before)
  | none                 -- (opaque bodies only) the body returns `None`
  | missing (e : Err)    -- reading it raises `e`
  deriving Repr, DecidableEq, Inhabited

inductive Res where
  | val (e : Expr)
  | none
  | err (e : Err)
  deriving Repr, DecidableEq, Inhabited

/-- how `Hook.__get__` calls an explicit value that is callable (generated from the source): (the way the number of
    parameters is determined — only `"inspect.signature"` is modelled: it exists for every kind of callable —,
    [(number of parameters, number of arguments passed)], number of arguments passed otherwise) -/
abbrev CallConv := String × List (Nat × Nat) × Nat

/-- `if len(inspect.signature(result).parameters) == 0: result() else: result(instance)` -/
def CallConv.std : CallConv := ("inspect.signature", [(0, 0)], 1)

/-- one class in one situation -/
structure World where
  impls : List Impl                 -- generated table of the class (registration = source order)
  mro : List String                 -- host names in MRO order
  hooks : List String               -- names resolved on the instance itself (everything else must be in `ext`)
  ext : List (String × Ext)
  conv : CallConv := CallConv.std   -- calling convention for callable explicit values
  deriving Repr, DecidableEq, Inhabited

/-- presence state of the instance -/
structure Obj where
  set : List String                 -- names in `__dict__` (holding a value)
  cache : List (String × Expr)      -- `__cache__`, newest binding first, one binding per name
  active : List String              -- keys of the functions currently executing on this instance
  noneSet : List String := []       -- names in `__dict__` holding `None` (`Roll(…, working_velocity=None)`): PRESENT for
                                    -- `has_set`, skipped by `Hook.__get__` (`if result is not None`)
  callSet : List (String × Nat) := []   -- names in `__dict__` holding a CALLABLE with that many parameters
                                    -- (`Roll(…, nominal_radius=lambda: 0.16)`, `functools.partial`, an object with `__call__`, …)
  given : List (String × Expr) := []    -- names in `__dict__` holding a value that is NOT their own symbol: an explicit value
                                    -- taken over from the `__cache__` of a template object (`copyObj` with a cache source)
  deriving Repr, DecidableEq, Inhabited

def Obj.fresh (set : List String) (noneSet : List String := []) : Obj :=
  { set := set, cache := [], active := [], noneSet := noneSet }

def lookup {β : Type} (n : String) : List (String × β) → Option β
  | [] => Option.none
  | (k, v) :: r => if k = n then some v else lookup n r

/-- fresh instance: the names `set` supplied, those of them listed in `calls` as callables (name ↦ number of parameters) -/
def Obj.freshC (set : List String) (calls : List (String × Nat)) (noneSet : List String := []) : Obj :=
  { set := set.filter (fun n => (lookup n calls).isNone), cache := [], active := [], noneSet := noneSet,
    callSet := calls.filter (fun p => set.contains p.1) }

/-- `name in self.__dict__` -/
def Obj.hasSet (o : Obj) (n : String) : Bool :=
  o.set.contains n || o.noneSet.contains n || (lookup n o.callSet).isSome || (lookup n o.given).isSome

def glookup (g : Guard) : List (Guard × Bool) → Option Bool
  | [] => Option.none
  | (k, v) :: r => if k = g then some v else glookup g r

/-- `__cache__[n] = e` -/
def cachePut (n : String) (e : Expr) (c : List (String × Expr)) : List (String × Expr) :=
  (n, e) :: c.filter (fun p => p.1 ≠ n)

/-- key of a hook function (function names repeat between classes) -/
def Impl.key (i : Impl) : String := i.host ++ "/" ++ i.fn

/-- `Hook.functions_gen` restricted to plain functions -/
def chainOf (w : World) (hook : String) : List Impl :=
  [0, 1, 2].flatMap fun t =>
    w.mro.flatMap fun h =>
      (w.impls.filter fun i => i.hook = hook && i.host = h && i.tier = t && !i.wrapper).reverse

/-- substitution of the values read for the variables of a formula -/
def subst (σ : List (String × Expr)) : Expr → Expr
  | .var n => match lookup n σ with
    | some e => e
    | Option.none => .var n
  | .nat n => .nat n
  | .dec m e => .dec m e
  | .pi => .pi
  | .add a b => .add (subst σ a) (subst σ b)
  | .sub a b => .sub (subst σ a) (subst σ b)
  | .mul a b => .mul (subst σ a) (subst σ b)
  | .div a b => .div (subst σ a) (subst σ b)
  | .neg a => .neg (subst σ a)
  | .pow a n => .pow (subst σ a) n
  | .sqrt a => .sqrt (subst σ a)
  | .sin a => .sin (subst σ a)
  | .cos a => .cos (subst σ a)
  | .tan a => .tan (subst σ a)
  | .asin a => .asin (subst σ a)
  | .acos a => .acos (subst σ a)
  | .atan a => .atan (subst σ a)
  | .log a => .log (subst σ a)
  | .exp a => .exp (subst σ a)
  | .abs a => .abs (subst σ a)

/-- result of looking at a guard with the tests evaluated so far -/
inductive GRes where
  | known (b : Bool)
  | need (atom : Guard)
  deriving Repr, DecidableEq

/-- python's short-circuit evaluation; every test (`atom`) is evaluated at most once per call of the function: the
    translator repeats the earlier tests (negated) in the guards of the later alternatives -/
def geval (memo : List (Guard × Bool)) : Guard → GRes
  | .tt => .known true
  | .not g => match geval memo g with
    | .known b => .known (!b)
    | .need a => .need a
  | .and a b => match geval memo a with
    | .known false => .known false
    | .known true => geval memo b
    | .need x => .need x
  | .or a b => match geval memo a with
    | .known true => .known true
    | .known false => geval memo b
    | .need x => .need x
  | g => match glookup g memo with
    | some b => .known b
    | Option.none => .need g

inductive Frame where
  | getF (hook : String)                                   -- `Hook.__get__` waiting for `get_result`
  | chainF (hook : String) (rest : List Impl)              -- `get_result` loop waiting for one function
  | callF (key : String) (wasCycle : Bool)                 -- `HookFunction.__call__` (its `finally`)
  | altsF (key : String) (cyc : Bool) (alts : List (Guard × Body)) (memo : List (Guard × Bool)) (atom : Guard)
                                                           -- a `has_value` test waiting for the read
  | varsF (done : List (String × Expr)) (cur : String) (rest : List String) (e : Expr)
                                                           -- a formula waiting for the read of `cur`
  deriving Repr, DecidableEq, Inhabited

inductive Ctl where
  | read (n : String)
  | ret (r : Res)
  | chain (hook : String) (rest : List Impl)
  | alts (key : String) (cyc : Bool) (alts : List (Guard × Body)) (memo : List (Guard × Bool))
  | vars (done : List (String × Expr)) (rest : List String) (e : Expr)
  deriving Repr, DecidableEq, Inhabited

structure M where
  ctl : Ctl
  stack : List Frame
  obj : Obj
  steps : Nat
  maxDepth : Nat
  calls : Nat := 0                  -- number of hook function invocations (`HookFunction.__call__`) on the instance
  deriving Repr, DecidableEq, Inhabited

/-- read of something that is not resolved on the instance -/
def extRead (n : String) : Ext → Res
  | .set => .val (.var n)
  | .avail => .val (.var n)
  | .cached => .val (.var n)
  | .none => .err .unmodelled
  | .missing e => .err e

/-- a test on another object `obj` (a `.`-path below the instance): `none` ⇒ unmodelled.
    `wantSet`: a presence test (`has_set`, `has_set_or_cached`) instead of `has_value`; `orCached`: `has_set_or_cached` -/
def extTest (w : World) (obj attr : String) (wantSet : Bool) (orCached : Bool := false) : Res ⊕ Bool :=
  match lookup obj w.ext with
  | some (.missing e) => .inl (.err e)               -- e.g. `self.in_profile` is `None`
  | _ =>
    match lookup (obj ++ "." ++ attr) w.ext with
    | some .set => .inr true
    | some .avail => .inr (!wantSet)
    | some .cached => .inr (!wantSet || orCached)
    | some (.missing .attr) => .inr false
    | some (.missing e) => if wantSet then .inr false else .inl (.err e)
    | _ => .inl (.err .unmodelled)

def lookupN (k : Nat) : List (Nat × Nat) → Option Nat
  | [] => Option.none
  | (a, b) :: r => if a = k then some b else lookupN k r

/-- `Hook.__get__` on an explicit value that is a callable with `params` parameters: the number of arguments follows from the
    calling convention; a call with the wrong number of arguments is a TypeError; the result is the value the callable
    stands for (symbol `n`).  A convention other than `inspect.signature` is outside the model. -/
def callExplicit (c : CallConv) (n : String) (params : Nat) : Res :=
  if c.1 ≠ "inspect.signature" then .err .unmodelled
  else if (lookupN params c.2.1).getD c.2.2 = params then .val (.var n) else .err .other

/-- `Hook.__get__` before any hook function is asked: the explicit value (`__dict__`: a number, a callable that is called,
    a value taken over from a template's cache; a `None` is skipped), then the cached value; `none` = go on with `get_result` -/
def ownRead (c : CallConv) (o : Obj) (n : String) : Option Res :=
  if o.set.contains n then some (.val (.var n))
  else match lookup n o.callSet with
  | some k => some (callExplicit c n k)
  | Option.none =>
    match lookup n o.given with
    | some e => some (.val e)
    | Option.none =>
      match lookup n o.cache with
      | some e => some (.val e)
      | Option.none => Option.none

def step (w : World) (m : M) : M :=
  let m := { m with steps := m.steps + 1, maxDepth := max m.maxDepth m.stack.length }
  match m.ctl with
  | .read n =>
    match lookup n w.ext with
    | some x => { m with ctl := .ret (extRead n x) }
    | Option.none =>
      if !w.hooks.contains n then { m with ctl := .ret (.err .unmodelled) }
      else match ownRead w.conv m.obj n with
        | some r => { m with ctl := .ret r }
        | Option.none => { m with ctl := .chain n (chainOf w n), stack := .getF n :: m.stack }
  | .chain _ [] => { m with ctl := .ret .none }
  | .chain hook (i :: rest) =>
    let key := Impl.key i
    let cyc := m.obj.active.contains key
    { m with ctl := .alts key cyc i.alts [],
             calls := m.calls + 1,
             stack := .callF key cyc :: .chainF hook rest :: m.stack,
             obj := { m.obj with active := if cyc then m.obj.active else key :: m.obj.active } }
  | .alts _ _ [] _ => { m with ctl := .ret .none }
  | .alts key cyc ((g, b) :: rest) memo =>
    match geval memo g with
    | .known false => { m with ctl := .alts key cyc rest memo }
    | .known true =>
      match b with
      | .expr e => { m with ctl := .vars [] e.vars e }
      | .none => { m with ctl := .ret .none }
      | .opaque _ =>
        let p := "@" ++ key
        match lookup p w.ext with
        | some .none => { m with ctl := .ret .none }
        | some (.missing e) => { m with ctl := .ret (.err e) }
        | some _ => { m with ctl := .ret (.val (.var p)) }
        | Option.none => { m with ctl := .ret (.err .unmodelled) }
      | .sumOver _ _ => { m with ctl := .ret (.err .unmodelled) }
    | .need atom =>
      let continueWith (v : Bool) : M := { m with ctl := .alts key cyc ((g, b) :: rest) ((atom, v) :: memo) }
      let test (r : Res ⊕ Bool) : M := match r with
        | .inl e => { m with ctl := .ret e }
        | .inr v => continueWith v
      match atom with
      | .cycle => continueWith cyc
      | .hasSet "" n => continueWith (m.obj.hasSet n)
      | .hasCached "" n => continueWith ((lookup n m.obj.cache).isSome)
      | .hasSetOrCached "" n => continueWith (m.obj.hasSet n || (lookup n m.obj.cache).isSome)
      | .hasValue "" n => { m with ctl := .read n, stack := .altsF key cyc ((g, b) :: rest) memo atom :: m.stack }
      | .hasSet o n => test (extTest w o n true)
      | .hasSetOrCached o n => test (extTest w o n true true)
      | .hasValue o n => test (extTest w o n false)
      | _ => { m with ctl := .ret (.err .unmodelled) }
  | .vars done [] e => { m with ctl := .ret (.val (subst done e)) }
  | .vars done (v :: rest) e => { m with ctl := .read v, stack := .varsF done v rest e :: m.stack }
  | .ret r =>
    match m.stack with
    | [] => m
    | .varsF done cur rest e :: st =>
      (match r with
       | .val x => { m with ctl := .vars (done ++ [(cur, x)]) rest e, stack := st }
       | .none => { m with ctl := .ret (.err .unmodelled), stack := st }
       | .err x => { m with ctl := .ret (.err x), stack := st })
    | .altsF key cyc alts memo atom :: st =>
      (match r with
       | .val _ => { m with ctl := .alts key cyc alts ((atom, true) :: memo), stack := st }
       | .err .attr => { m with ctl := .alts key cyc alts ((atom, false) :: memo), stack := st }
       | .err x => { m with ctl := .ret (.err x), stack := st }
       | .none => { m with ctl := .ret (.err .unmodelled), stack := st })
    | .callF key wasCycle :: st =>
      { m with stack := st,
               obj := { m.obj with active := if wasCycle then m.obj.active else m.obj.active.filter (fun k => k ≠ key) } }
    | .chainF hook rest :: st =>
      (match r with
       | .none => { m with ctl := .chain hook rest, stack := st }
       | _ => { m with stack := st })
    | .getF hook :: st =>
      (match r with
       | .none => { m with ctl := .ret (.err .attr), stack := st }
       | .val e => { m with stack := st, obj := { m.obj with cache := cachePut hook e m.obj.cache } }
       | .err _ => { m with stack := st })

def M.final (m : M) : Bool :=
  match m.ctl, m.stack with
  | .ret _, [] => true
  | _, _ => false

/-- run to completion; `none` = out of fuel -/
def exec (w : World) : Nat → M → Option M
  | 0, m => if m.final then some m else Option.none
  | n + 1, m => if m.final then some m else exec w n (step w m)

structure Read where
  name : String
  res : Res
  steps : Nat
  depth : Nat
  calls : Nat := 0
  deriving Repr, DecidableEq, Inhabited

/-- one attribute read on the instance (`getattr(obj, n)`) -/
def read1 (w : World) (fuel : Nat) (o : Obj) (n : String) : Read × Obj :=
  match exec w fuel { ctl := .read n, stack := [], obj := o, steps := 0, maxDepth := 0 } with
  | some m => (match m.ctl with
    | .ret r => ({ name := n, res := r, steps := m.steps, depth := m.maxDepth, calls := m.calls }, m.obj)
    | _ => ({ name := n, res := .err .unmodelled, steps := m.steps, depth := m.maxDepth, calls := m.calls }, m.obj))
  | Option.none => ({ name := n, res := .err .fuel, steps := fuel, depth := 0 }, o)

/-- the members read one after the other on the same instance -/
def readAll (w : World) (fuel : Nat) : Obj → List String → List Read × Obj
  | o, [] => ([], o)
  | o, n :: rest =>
    let (r, o') := read1 w fuel o n
    let (rs, o'') := readAll w fuel o' rest
    (r :: rs, o'')

/-- fresh instance with `sup` supplied, members read in the order `ord` -/
def scenario (w : World) (fuel : Nat) (sup ord : List String) : List Read × Obj :=
  readAll w fuel (Obj.fresh sup) ord

/-- … with the names `nones` given explicitly as `None` -/
def scenarioN (w : World) (fuel : Nat) (sup nones ord : List String) : List Read × Obj :=
  readAll w fuel (Obj.fresh sup nones) ord

/-- … with the supplied names listed in `calls` given as callables (name ↦ number of parameters) -/
def scenarioC (w : World) (fuel : Nat) (sup : List String) (calls : List (String × Nat)) (ord : List String) :
    List Read × Obj :=
  readAll w fuel (Obj.freshC sup calls) ord

/-! ### enumeration helpers (used INSIDE the theorems: all subsets × all read orders) -/

def sublists : List String → List (List String)
  | [] => [[]]
  | x :: r => (sublists r).flatMap fun s => [s, x :: s]

def insertAll (x : String) : List String → List (List String)
  | [] => [[x]]
  | y :: r => (x :: y :: r) :: (insertAll x r).map (y :: ·)

def perms : List String → List (List String)
  | [] => [[]]
  | x :: r => (perms r).flatMap (insertAll x)

/-! ### group specifications: what the property demands of a group of mutually defined members

  A `Spec` is written from the property statement: the members, the directions in which the core derives one member
  from others (`rules`, the closure of what is supplied / available says which members must be readable), the
  symbolic forms a member may take (`forms`; every one of them is proved equal to the member's true value over ℝ in
  `PyrollProps/C16.lean`), and the bounds on machine steps and stack depth of a single read. -/

/-- a world together with the names that are explicitly set besides the supplied members -/
structure GW where
  world : World
  base : List String
  deriving Repr, DecidableEq, Inhabited

def availExt (w : World) : List String :=
  w.ext.filterMap fun p => match p.2 with
    | .set => some p.1
    | .avail => some p.1
    | .cached => some p.1
    | _ => Option.none

def closeStep (rules : List (String × List String)) (known : List String) : List String :=
  rules.foldl (fun k r => if !k.contains r.1 && r.2.all k.contains then r.1 :: k else k) known

def closure (rules : List (String × List String)) : Nat → List String → List String
  | 0, k => k
  | n + 1, k => closure rules n (closeStep rules k)

structure Spec where
  members : List String
  rules : List (String × List String)
  forms : List String → List (String × List Expr)     -- may depend on which members are supplied (defaults)
  maxSteps : Nat
  maxDepth : Nat

def Spec.formsOf (s : Spec) (sup : List String) (m : String) : List Expr := (lookup m (s.forms sup)).getD []

/-- the member follows from what is supplied / set / externally available along the documented directions -/
def derivable (s : Spec) (g : GW) (sup : List String) (m : String) : Bool :=
  (closure s.rules s.rules.length (g.base ++ sup ++ availExt g.world)).contains m

/-- one read is as the property demands: a supplied member reads back as itself; a derivable member reads one of the
    admitted symbolic forms; anything else fails with AttributeError; within the step and depth bounds -/
def okRead (s : Spec) (g : GW) (sup : List String) (r : Read) : Bool :=
  r.steps ≤ s.maxSteps && r.depth ≤ s.maxDepth &&
  match r.res with
  | .val e => derivable s g sup r.name && (s.formsOf sup r.name).contains e &&
              (!sup.contains r.name || e == .var r.name)
  | .err .attr => !derivable s g sup r.name
  | _ => false

def okRun (s : Spec) (fuel : Nat) (g : GW) (sup ord : List String) : Bool :=
  let x := scenario g.world fuel (g.base ++ sup) ord
  x.1.all (okRead s g sup) && x.2.active.isEmpty && x.1.map (·.name) == ord

/-- EVERY world × EVERY subset of supplied members × EVERY read order -/
def checkAll (s : Spec) (fuel : Nat) (worlds : List GW) : Bool :=
  worlds.all fun g => (sublists s.members).all fun sup => (perms s.members).all fun ord => okRun s fuel g sup ord

/-! ### a hook given as `None` is not supplied

  `Hook.__get__` skips a `None` in `__dict__`, so an object that carries `h = None` must answer every read of the members
  exactly as the object that does not mention `h` — which it does as long as no implementation tests `h` for PRESENCE
  (`has_set`, `has_set_or_cached`).  `checkNone` compares, for every world × every hook `h` of `hs` × every subset of the
  other members × every read order, the complete results (values symbolically, error kinds) of the two runs; both must
  finish and leave no mark. -/

def sameRun (w : World) (fuel : Nat) (base sup : List String) (h : String) (ord : List String) : Bool :=
  let a := scenarioN w fuel (base ++ sup) [h] ord
  let b := scenario w fuel (base ++ sup) ord
  a.1.map (·.res) == b.1.map (·.res) && a.1.all (fun r => r.res != .err .fuel) && b.1.all (fun r => r.res != .err .fuel)
    && a.2.active.isEmpty && a.1.map (·.name) == ord

def checkNone (members : List String) (fuel : Nat) (worlds : List GW) (hs : List String) : Bool :=
  worlds.all fun g => hs.all fun h => (sublists (members.filter (· ≠ h))).all fun sup =>
    (perms members).all fun ord => sameRun g.world fuel g.base sup h ord

/-! ### a member supplied as a callable is supplied

  `Hook.__get__` calls an explicit value that is callable — without argument when it has no parameter, with the instance
  otherwise — and returns the result: an object whose supplied members (and other explicit values, `g.base`) are given as
  callables of 0 or 1 parameters must answer every read exactly as the object that carries the numbers.  `checkForms`
  compares, for every world × every subset of supplied members × every subset of the explicit names given as callables ×
  three patterns of parameter counts (all 0, all 1, alternating) × every read order, the complete results of the two runs. -/

def arities (pat : Nat) : Nat → List String → List (String × Nat)
  | _, [] => []
  | i, n :: r => (n, if pat = 2 then i % 2 else pat) :: arities pat (i + 1) r

def sameRunC (w : World) (fuel : Nat) (set : List String) (calls : List (String × Nat)) (ord : List String) : Bool :=
  let a := scenarioC w fuel set calls ord
  let b := scenario w fuel set ord
  a.1.map (·.res) == b.1.map (·.res) && a.1.all (fun r => r.res != .err .fuel) && b.1.all (fun r => r.res != .err .fuel)
    && a.2.active.isEmpty && a.1.map (·.name) == ord && a.2.cache == b.2.cache

def checkForms (members : List String) (fuel : Nat) (worlds : List GW) : Bool :=
  worlds.all fun g => (sublists members).all fun sup => (sublists (g.base ++ sup)).all fun cs =>
    [0, 1, 2].all fun pat => (perms members).all fun ord =>
      sameRunC g.world fuel (g.base ++ sup) (arities pat 0 cs) ord

/-! ### template objects: history of reads and edits, then the copy

  A fresh object may be built from a TEMPLATE object (the roll of a pass from the `Roll` handed to the pass, the in or out profile of
  a unit from the profile handed on).  The copy must behave as a fresh object given the template's EXPLICIT values —
  whatever was read on the template (and thereby cached) or edited before.  `Op` = what may happen to the template;
  `copyObj srcs` = the copy site (which attribute sets of the template are taken over as explicit values, in `dict | …`
  order, later sources overriding earlier ones: read from the source by the translator). -/

inductive Op where
  | read (n : String)        -- `getattr(t, n)` (result ignored: the value is cached, or the read fails)
  | supply (n : String)      -- `t.n = <new value>`
  | unsupply (n : String)    -- `del t.n`
  | supplyNone (n : String)  -- `t.n = None`
  deriving Repr, DecidableEq, Inhabited

/-- what was derived from the value `n` held so far refers to the OLD value once `n` is re-supplied / deleted -/
def oldName (n : String) : String := n ++ "@old"

def Obj.forget (o : Obj) (n : String) : Obj :=
  { o with set := o.set.filter (· ≠ n), noneSet := o.noneSet.filter (· ≠ n), callSet := o.callSet.filter (·.1 ≠ n),
           given := (o.given.filter (·.1 ≠ n)).map (fun p => (p.1, subst [(n, .var (oldName n))] p.2)),
           cache := o.cache.map (fun p => (p.1, subst [(n, .var (oldName n))] p.2)) }

def applyOp (w : World) (fuel : Nat) (o : Obj) : Op → Obj
  | .read n => (read1 w fuel o n).2
  | .supply n => let o' := o.forget n; { o' with set := n :: o'.set }
  | .unsupply n => o.forget n
  | .supplyNone n => let o' := o.forget n; { o' with noneSet := n :: o'.noneSet }

/-- the operations one after the other; the results of the reads are kept (the correspondence harness compares them) -/
def applyOpsR (w : World) (fuel : Nat) : Obj → List Op → List Read × Obj
  | o, [] => ([], o)
  | o, .read n :: r =>
    let (x, o') := read1 w fuel o n
    let (xs, o'') := applyOpsR w fuel o' r
    (x :: xs, o'')
  | o, op :: r => applyOpsR w fuel (applyOp w fuel o op) r

def applyOps (w : World) (fuel : Nat) (o : Obj) (ops : List Op) : Obj := (applyOpsR w fuel o ops).2

/-- the names in `__dict__` after the edits (reads change nothing there) -/
def editSet : List String → List Op → List String
  | s, [] => s
  | s, .read _ :: r => editSet s r
  | s, .supply n :: r => editSet (n :: s.filter (· ≠ n)) r
  | s, .unsupply n :: r => editSet (s.filter (· ≠ n)) r
  | s, .supplyNone n :: r => editSet (s.filter (· ≠ n)) r

/-- one entry of the keyword dictionary a copy site builds -/
inductive Entry where
  | own                 -- the template's explicit value (symbol = the name)
  | noneV               -- `None`
  | call (k : Nat)      -- a callable
  | expr (e : Expr)     -- a value computed earlier (from the template's `__cache__`, or taken over by the template itself)
  deriving Repr, DecidableEq, Inhabited

def Obj.dictEntries (o : Obj) : List (String × Entry) :=
  o.set.map (fun n => (n, Entry.own)) ++ o.noneSet.map (fun n => (n, Entry.noneV)) ++
  o.callSet.map (fun p => (p.1, Entry.call p.2)) ++ o.given.map (fun p => (p.1, Entry.expr p.2))

def Obj.cacheEntries (o : Obj) : List (String × Entry) := o.cache.map (fun p => (p.1, Entry.expr p.2))

/-- python's `a | b` on dictionaries -/
def mergeDict (a b : List (String × Entry)) : List (String × Entry) :=
  a.filter (fun p => (lookup p.1 b).isNone) ++ b

/-- the keyword dictionary `src₁ | src₂ | …`: `"dict"` = the public part of `template.__dict__`, `"cache"` =
    `template.__cache__`; anything else is outside the model -/
def copyDict (o : Obj) : List String → List (String × Entry) → Option (List (String × Entry))
  | [], acc => some acc
  | src :: r, acc =>
    if src = "dict" then copyDict o r (mergeDict acc o.dictEntries)
    else if src = "cache" then copyDict o r (mergeDict acc o.cacheEntries)
    else Option.none

def Obj.ofEntries (d : List (String × Entry)) : Obj :=
  { set := d.filterMap (fun p => match p.2 with | .own => some p.1 | _ => Option.none),
    noneSet := d.filterMap (fun p => match p.2 with | .noneV => some p.1 | _ => Option.none),
    callSet := d.filterMap (fun p => match p.2 with | .call k => some (p.1, k) | _ => Option.none),
    given := d.filterMap (fun p => match p.2 with | .expr e => some (p.1, e) | _ => Option.none),
    cache := [], active := [] }

/-- the object a copy site builds from the template `o`: `cls(**kwargs)` — a NEW object (empty `__cache__`, no marks)
    whose `__dict__` holds the keyword dictionary.  `srcs` lists the sources in the order of a `a | b | …` expression. -/
def copyObj (srcs : List String) (o : Obj) : Option Obj :=
  (copyDict o srcs []).map Obj.ofEntries

/-- the fresh object "given the template's explicit values": same `__dict__`, nothing cached, no marks -/
def Obj.explicitOnly (o : Obj) : Obj := { o with cache := [], active := [] }

/-- all read histories over `members`: every subset read in the listed order, and all members in every order -/
def histories (members : List String) : List (List String) :=
  sublists members ++ perms members

/-- the edit that turns the supplied set `sup0` into `sup`: what is no longer supplied is deleted, every supplied member
    is (re-)supplied with its new value -/
def editOps (sup0 sup : List String) : List Op :=
  (sup0.filter (fun n => !sup.contains n)).map Op.unsupply ++ sup.map Op.supply

/-- template world `tw` with `tbase` explicitly set besides the members, copy world `cw` -/
structure CopyW where
  tw : World
  tbase : List String
  cw : World
  deriving Repr, DecidableEq, Inhabited

/-- ONE template history: fresh template with `sup0` supplied, the members `h` read, edited to `sup`, optionally read
    again (`h2`), copied; the members read in order `ord` on the copy give exactly the results (values symbolically, error
    kinds, steps, depth, number of hook function invocations) and the final state of the fresh object given `tbase ++ sup` -/
def copyRunOk (srcs : List String) (fuel : Nat) (c : CopyW) (sup0 h sup h2 ord : List String) : Bool :=
  let ops := h.map Op.read ++ editOps sup0 sup ++ h2.map Op.read
  let t := applyOps c.tw fuel (Obj.fresh (c.tbase ++ sup0)) ops
  match copyObj srcs t with
  | Option.none => false
  | some o =>
    let a := readAll c.cw fuel o ord
    let b := scenario c.cw fuel (editSet (c.tbase ++ sup0) ops) ord
    a.1 == b.1 && a.2.cache == b.2.cache && a.2.active.isEmpty && a.1.all (fun r => r.res != .err .fuel)
      && a.1.map (·.name) == ord

/-- EVERY pair of worlds × EVERY initially supplied subset × EVERY read history × EVERY finally supplied subset × reads after
    the edit (none / all members) × EVERY read order on the copy -/
def checkCopy (srcs : List String) (members : List String) (fuel : Nat) (cs : List CopyW) : Bool :=
  cs.all fun c => (sublists members).all fun sup0 => (histories members).all fun h =>
    (sublists members).all fun sup => [[], members].all fun h2 => (perms members).all fun ord =>
      copyRunOk srcs fuel c sup0 h sup h2 ord

def dedupE : List Expr → List Expr
  | [] => []
  | x :: r => let d := dedupE r; if d.contains x then d else x :: d

/-- (tool for writing a `Spec`) the symbolic forms that occur -/
def observedForms (members : List String) (fuel : Nat) (worlds : List GW) : List (String × List Expr) :=
  members.map fun m => (m, dedupE (worlds.flatMap fun g => (sublists members).flatMap fun sup =>
    (perms members).flatMap fun ord => (scenario g.world fuel (g.base ++ sup) ord).1.filterMap fun r =>
      if r.name = m then (match r.res with | .val e => some e | _ => Option.none) else Option.none))

def observedBounds (members : List String) (fuel : Nat) (worlds : List GW) : Nat × Nat :=
  (worlds.flatMap fun g => (sublists members).flatMap fun sup =>
    (perms members).flatMap fun ord => (scenario g.world fuel (g.base ++ sup) ord).1).foldl
      (fun b r => (max b.1 r.steps, max b.2 r.depth)) (0, 0)

end Mutual
