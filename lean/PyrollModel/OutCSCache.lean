/-
  OutCSCache — WHEN the contour lines behind the out cross-section are built (C08, second part of the model).

  `OutCS.lean` says what `out_cross_section(rp, width)` builds FROM `rp.contour_lines`.  The contour lines are memoised on
  the pass (`_contour_lines`), the gap they are placed at is a hook value (cached in `__cache__`, and possibly an
  implementation that answers differently from iteration to iteration, e.g. a mill spring), and the solution loop of
  `Unit.solve` decides when memo and cache are dropped.  This file is the executable model of that protocol; the pieces
  of source it is instantiated with are regenerated on every run (`Gen/C08Cache.lean`):

    * `Memo`              `TwoRollPass.contour_lines` / `ThreeRollPass.contour_lines`: is there the guard
                          `if self._contour_lines: return self._contour_lines`, is the built value stored
    * `List (List ROp)`   the bodies of `reevaluate_cache` along the MRO of the pass class (most derived first,
                          `HookHost.reevaluate_cache` last), statement by statement
    * `List LStep`        the body of the solution loop of `Unit.solve`, call by call
    * `List IOp`          `BaseRollPass.init_solve`

  State: `γ` is the type of the gap (any type: the model only moves the values around).  `lines` = the gap the memoised
  contour lines were built at, `gapC` = the cached value of the hook `gap`, `ucs` = the gap of the lines the cached
  `usable_cross_section` was built from, `used` = for every evaluation of the root hook `OutProfile.cross_section` the
  gap of the lines it was built from (latest first).  `g` is what the gap hook's implementation answers at that moment.
-/

namespace OutCS.Cache

/-- a statement of a `reevaluate_cache` method -/
inductive ROp where
  | super       -- `super().reevaluate_cache()`
  | roll        -- `self.roll.reevaluate_cache()`
  | reset       -- `self._contour_lines = None`
  | recompute   -- `HookHost.reevaluate_cache`: every cached hook value is computed again, in the order of the cache
  deriving Repr, DecidableEq, Inhabited

/-- a call in the body of the solution loop of `Unit.solve` -/
inductive LStep where
  | inReeval    -- `self.in_profile.reevaluate_cache()`
  | subunits    -- `self._solve_subunits()`
  | selfReeval  -- `self.reevaluate_cache()`
  | outReeval   -- `self.out_profile.reevaluate_cache()`
  | rootHooks   -- `self.get_root_hook_results()` (evaluates `out_profile.cross_section` among the root hooks)
  deriving Repr, DecidableEq, Inhabited

/-- a statement of `BaseRollPass.init_solve` -/
inductive IOp where
  | super       -- `super().init_solve(in_profile)`
  | reset       -- `self._contour_lines = None`
  | seed        -- `self.out_profile.cross_section = self.usable_cross_section`
  deriving Repr, DecidableEq, Inhabited

/-- shape of the `contour_lines` property -/
structure Memo where
  guarded : Bool    -- `if self._contour_lines: return self._contour_lines` comes first
  stored : Bool     -- the built `MultiLineString` is assigned to `self._contour_lines`
  deriving Repr, DecidableEq, Inhabited

structure St (γ : Type) where
  lines : Option γ := none
  gapC : Option γ := none
  ucs : Option γ := none
  used : List γ := []
  deriving Repr, Inhabited

section run
variable {γ : Type}

/-- `self.gap`: the cached value, else the implementation's answer (which is cached then) -/
def readGap (g : γ) (s : St γ) : γ × St γ :=
  match s.gapC with
  | some c => (c, s)
  | none => (g, { s with gapC := some g })

/-- `self.contour_lines` -/
def readLines (m : Memo) (g : γ) (s : St γ) : γ × St γ :=
  match (if m.guarded then s.lines else none) with
  | some l => (l, s)
  | none =>
    let r := readGap g s
    (r.1, if m.stored then { r.2 with lines := some r.1 } else r.2)

/-- `self.usable_cross_section` (a cached hook whose implementation reads `contour_lines`) -/
def readUcs (m : Memo) (g : γ) (s : St γ) : St γ :=
  match s.ucs with
  | some _ => s
  | none => let r := readLines m g s; { r.2 with ucs := some r.1 }

/-- `HookHost.reevaluate_cache`: the cached values are computed again in the order in which they entered the cache — the
    gap (read BY the contour lines) before the usable cross-section (which reads the contour lines) -/
def recompute (m : Memo) (g : γ) (s : St γ) : St γ :=
  let s1 := match s.gapC with
    | some _ => { s with gapC := some g }
    | none => s
  match s1.ucs with
  | some _ => let r := readLines m g s1; { r.2 with ucs := some r.1 }
  | none => s1

/-- one `reevaluate_cache` body; `sup` = the rest of the chain -/
def runOps (m : Memo) (g : γ) (sup : St γ → St γ) : List ROp → St γ → St γ
  | [], s => s
  | .super :: r, s => runOps m g sup r (sup s)
  | .roll :: r, s => runOps m g sup r s
  | .reset :: r, s => runOps m g sup r { s with lines := none }
  | .recompute :: r, s => runOps m g sup r (recompute m g s)

/-- `self.reevaluate_cache()` on the pass: the most derived body, `super()` continues with the next one -/
def runChain (m : Memo) (g : γ) : List (List ROp) → St γ → St γ
  | [], s => s
  | ops :: rest, s => runOps m g (runChain m g rest) ops s

def step (m : Memo) (chain : List (List ROp)) (g : γ) : LStep → St γ → St γ
  | .selfReeval, s => runChain m g chain s
  | .rootHooks, s => let r := readLines m g s; { r.2 with used := r.1 :: r.2.used }
  | _, s => s

/-- one iteration of the solution loop while the gap hook's implementation answers `g` -/
def iter (m : Memo) (chain : List (List ROp)) (g : γ) : List LStep → St γ → St γ
  | [], s => s
  | st :: rest, s => iter m chain g rest (step m chain g st s)

def initSolve (m : Memo) (g : γ) : List IOp → St γ → St γ
  | [], s => s
  | .super :: r, s => initSolve m g r s
  | .reset :: r, s => initSolve m g r { s with lines := none }
  | .seed :: r, s => initSolve m g r (readUcs m g s)

def iterate (m : Memo) (chain : List (List ROp)) (loop : List LStep) : List γ → St γ → St γ
  | [], s => s
  | g :: gs, s => iterate m chain loop gs (iter m chain g loop s)

/-- `Unit.solve` on a pass in state `s0` (fresh or used): `init_solve` while the gap hook answers `g0`, then one iteration
    per element of `gs` -/
def solve (m : Memo) (chain : List (List ROp)) (loop : List LStep) (init : List IOp) (g0 : γ) (gs : List γ) (s0 : St γ) : St γ :=
  iterate m chain loop gs (initSolve m g0 init s0)

end run

end OutCS.Cache
