/-
  OutCSCache — WHEN the contour lines behind the out cross-section are built, and FROM WHICH ROLLS (C08, second part of the model).

  `OutCS.lean` says what `out_cross_section(rp, width)` builds FROM `rp.contour_lines`.  The contour lines are memoised on
  the pass (`_contour_lines`); the gap they are placed at is a hook value (cached in `__cache__`, and possibly an
  implementation that answers differently from iteration to iteration, e.g. a mill spring); the contour they are made of is
  the roll's `contour_line`, itself a memo on the roll (`Roll._contour_line`) over the roll's hook `contour_points` (cached in
  the roll's `__cache__`), whose implementation reads the groove that is mounted on the roll at that moment — a plain
  attribute (`roll.groove`) the user may assign between two solves, as he may replace the roll object (`rp.roll`); and the
  solution loop of `Unit.solve` decides when memos and caches are dropped.  This file is the executable model of that
  protocol; the pieces of source it is instantiated with are regenerated on every run (`Gen/C08Cache.lean`):

    * `Memo`              `TwoRollPass.contour_lines` / `ThreeRollPass.contour_lines` and `Roll.contour_line`: is there the guard
                          `if self._contour_lines: return self._contour_lines`, is the built value stored, does the
                          construction read `self.roll.groove.…` directly (three rolls: the usable width in the shift)
    * `List (List ROp)`   the bodies of `reevaluate_cache` along the MRO of the pass class (most derived first,
                          `HookHost.reevaluate_cache` last) and along the MRO of the pass's roll class, statement by statement
    * `List LStep`        the body of the solution loop of `Unit.solve`, call by call
    * `List IOp`          `BaseRollPass.init_solve`, statement by statement: the out profile is created by `super().init_solve`
                          when the pass has none, otherwise re-used (its root-hook results, `cross_section` among them, stay as
                          start values); the first guess of the out cross-section (`usable_cross_section`) is assigned either on
                          EVERY solve (`seed`) or only when the out profile was created by this very call
                          (`created = not self.out_profile` before, `if created: …` after the `super()` call)

  State: `γ` is the type of the gap, `κ` the type of what identifies a groove (any types: the model only moves the values
  around).  A `Prov` says where contour lines come from: the gap they were placed at, the groove whose contour the roll's
  contour line carried, and the groove that was read directly.  `lines` = the memoised contour lines, `gapC` = the cached
  value of the hook `gap`, `ucs` = the lines the cached `usable_cross_section` was built from, `used` = for every evaluation
  of the root hook `OutProfile.cross_section` the lines it was built from (latest first), `cpC` = the cached value of the
  roll's hook `contour_points`, `rline` = the roll's memoised contour line; `outp` = the pass has an out profile, `crt` = the
  local `created` of the running `init_solve`, `ocs` = what `out_profile.cross_section` HOLDS (`OutCs`: the cross-section
  handed over from the incoming profile at creation, the first guess = the usable cross-section, or the result of the root
  hook `OutProfile.cross_section` = the hook implementation at the prescribed width on the contour lines of that moment).
  `g` is what the gap hook's implementation answers at that moment, `k` the groove that is mounted on the roll at that moment.
-/

namespace OutCS.Cache

/-- a statement of a `reevaluate_cache` method (of the pass classes or of the roll classes) -/
inductive ROp where
  | super       -- `super().reevaluate_cache()`
  | roll        -- `self.roll.reevaluate_cache()`
  | reset       -- `self._contour_lines = None` (pass) / `self._contour_line = None` (roll)
  | recompute   -- `HookHost.reevaluate_cache`: every cached hook value is computed again, in the order of the cache
  deriving Repr, DecidableEq, Inhabited

/-- a call in the body of the solution loop of `Unit.solve` -/
inductive LStep where
  | inReeval    -- `self.in_profile.reevaluate_cache()`
  | subunits    -- `self._solve_subunits()`
  | selfReeval  -- `self.reevaluate_cache()`
  | outReeval   -- `self.out_profile.reevaluate_cache()`
  | rootHooks   -- `self.get_root_hook_results()` (evaluates `out_profile.cross_section` among the root hooks)
  deriving Repr, DecidableEq, Inhabited

/-- a statement of `BaseRollPass.init_solve` -/
inductive IOp where
  | super       -- `super().init_solve(in_profile)`
  | reset       -- `self._contour_lines = None`
  | seed        -- `self.out_profile.cross_section = self.usable_cross_section`
  | created     -- `created = not self.out_profile`
  | seedIfCreated  -- `if created: self.out_profile.cross_section = self.usable_cross_section`
  deriving Repr, DecidableEq, Inhabited

/-- shape of a memoising property (`contour_lines` of the pass, `contour_line` of the roll) -/
structure Memo where
  guarded : Bool    -- `if self._contour_lines: return self._contour_lines` comes first
  stored : Bool     -- the built value is assigned to `self._contour_lines`
  direct : Bool := false   -- the construction also reads `self.roll.groove.<…>` directly (not through the roll's memo)
  deriving Repr, DecidableEq, Inhabited

/-- the classes of one kind of pass: the two memos and the two `reevaluate_cache` chains -/
structure Pass where
  memo : Memo                      -- `<pass class>.contour_lines`
  rollMemo : Memo                  -- `Roll.contour_line`
  chain : List (List ROp)          -- `reevaluate_cache` along the MRO of the pass class
  rollChain : List (List ROp)      -- `reevaluate_cache` along the MRO of `<pass class>.Roll`
  deriving Repr, Inhabited

/-- where contour lines come from -/
structure Prov (γ κ : Type) where
  gap : γ                 -- the gap they were placed at
  line : κ                -- the groove whose contour the roll's contour line carried when they were built
  direct : Option κ       -- the groove read directly during the construction (if it reads one)
  deriving Repr, DecidableEq, Inhabited

/-- what `out_profile.cross_section` holds -/
inductive OutCs (γ κ : Type) where
  | inherited              -- the incoming profile's cross-section, handed over when the out profile is created
  | seeded (l : Prov γ κ)  -- the first guess: the usable cross-section, built from the lines `l`
  | built (l : Prov γ κ)   -- result of the root hook `OutProfile.cross_section`: the helper at the PRESCRIBED width on the lines `l`
  deriving Repr, DecidableEq, Inhabited

structure St (γ κ : Type) where
  lines : Option (Prov γ κ) := none
  gapC : Option γ := none
  ucs : Option (Prov γ κ) := none
  used : List (Prov γ κ) := []
  cpC : Option κ := none
  rline : Option κ := none
  outp : Bool := false
  crt : Bool := false
  ocs : Option (OutCs γ κ) := none
  deriving Repr, Inhabited

section run
variable {γ κ : Type}

/-- `self.gap`: the cached value, else the implementation's answer (which is cached then) -/
def readGap (g : γ) (s : St γ κ) : γ × St γ κ :=
  match s.gapC with
  | some c => (c, s)
  | none => (g, { s with gapC := some g })

/-- `roll.contour_points`: the cached value, else the implementation's answer `self.groove.contour_points` (cached then) -/
def readCP (k : κ) (s : St γ κ) : κ × St γ κ :=
  match s.cpC with
  | some c => (c, s)
  | none => (k, { s with cpC := some k })

/-- `roll.contour_line` -/
def readRollLine (rm : Memo) (k : κ) (s : St γ κ) : κ × St γ κ :=
  match (if rm.guarded then s.rline else none) with
  | some l => (l, s)
  | none =>
    let r := readCP k s
    (r.1, if rm.stored then { r.2 with rline := some r.1 } else r.2)

/-- `self.contour_lines` -/
def readLines (p : Pass) (g : γ) (k : κ) (s : St γ κ) : Prov γ κ × St γ κ :=
  match (if p.memo.guarded then s.lines else none) with
  | some l => (l, s)
  | none =>
    let rl := readRollLine p.rollMemo k s
    let rg := readGap g rl.2
    let v : Prov γ κ := { gap := rg.1, line := rl.1, direct := if p.memo.direct then some k else none }
    (v, if p.memo.stored then { rg.2 with lines := some v } else rg.2)

/-- `self.usable_cross_section` (a cached hook whose implementation reads `contour_lines`) -/
def readUcs (p : Pass) (g : γ) (k : κ) (s : St γ κ) : St γ κ :=
  match s.ucs with
  | some _ => s
  | none => let r := readLines p g k s; { r.2 with ucs := some r.1 }

/-- `HookHost.reevaluate_cache` on the pass: the cached values are computed again in the order in which they entered the
    cache — the gap (read BY the contour lines) before the usable cross-section (which reads the contour lines) -/
def recompute (p : Pass) (g : γ) (k : κ) (s : St γ κ) : St γ κ :=
  let s1 := match s.gapC with
    | some _ => { s with gapC := some g }
    | none => s
  match s1.ucs with
  | some _ => let r := readLines p g k s1; { r.2 with ucs := some r.1 }
  | none => s1

/-- `HookHost.reevaluate_cache` on the roll: a cached `contour_points` is computed again from the groove mounted now -/
def recomputeRoll (k : κ) (s : St γ κ) : St γ κ :=
  match s.cpC with
  | some _ => { s with cpC := some k }
  | none => s

/-- one `reevaluate_cache` body of the roll classes; `sup` = the rest of the chain -/
def runRollOps (k : κ) (sup : St γ κ → St γ κ) : List ROp → St γ κ → St γ κ
  | [], s => s
  | .super :: r, s => runRollOps k sup r (sup s)
  | .roll :: r, s => runRollOps k sup r s
  | .reset :: r, s => runRollOps k sup r { s with rline := none }
  | .recompute :: r, s => runRollOps k sup r (recomputeRoll k s)

/-- `self.roll.reevaluate_cache()` -/
def runRollChain (k : κ) : List (List ROp) → St γ κ → St γ κ
  | [], s => s
  | ops :: rest, s => runRollOps k (runRollChain k rest) ops s

/-- one `reevaluate_cache` body of the pass classes; `sup` = the rest of the chain -/
def runOps (p : Pass) (g : γ) (k : κ) (sup : St γ κ → St γ κ) : List ROp → St γ κ → St γ κ
  | [], s => s
  | .super :: r, s => runOps p g k sup r (sup s)
  | .roll :: r, s => runOps p g k sup r (runRollChain k p.rollChain s)
  | .reset :: r, s => runOps p g k sup r { s with lines := none }
  | .recompute :: r, s => runOps p g k sup r (recompute p g k s)

/-- `self.reevaluate_cache()` on the pass: the most derived body, `super()` continues with the next one -/
def runChain (p : Pass) (g : γ) (k : κ) : List (List ROp) → St γ κ → St γ κ
  | [], s => s
  | ops :: rest, s => runOps p g k (runChain p g k rest) ops s

def step (p : Pass) (g : γ) (k : κ) : LStep → St γ κ → St γ κ
  | .selfReeval, s => runChain p g k p.chain s
  | .rootHooks, s => let r := readLines p g k s; { r.2 with used := r.1 :: r.2.used, ocs := some (.built r.1) }
  | _, s => s

/-- one iteration of the solution loop while the gap hook's implementation answers `g` and groove `k` is mounted -/
def iter (p : Pass) (g : γ) (k : κ) : List LStep → St γ κ → St γ κ
  | [], s => s
  | st :: rest, s => iter p g k rest (step p g k st s)

/-- `self.out_profile.cross_section = self.usable_cross_section` -/
def seedOut (p : Pass) (g : γ) (k : κ) (s : St γ κ) : St γ κ :=
  let s1 := readUcs p g k s
  match s1.ucs with
  | some l => { s1 with ocs := some (.seeded l) }
  | none => s1

/-- `Unit.init_solve` as far as the out profile goes: created (with what the incoming profile hands over) when the pass has
    none, otherwise re-used - the root-hook results of the previous solution, `cross_section` among them, stay -/
def superInit (s : St γ κ) : St γ κ :=
  if s.outp then s else { s with outp := true, ocs := some .inherited }

def initSolve (p : Pass) (g : γ) (k : κ) : List IOp → St γ κ → St γ κ
  | [], s => s
  | .super :: r, s => initSolve p g k r (superInit s)
  | .reset :: r, s => initSolve p g k r { s with lines := none }
  | .seed :: r, s => initSolve p g k r (seedOut p g k s)
  | .created :: r, s => initSolve p g k r { s with crt := !s.outp }
  | .seedIfCreated :: r, s => initSolve p g k r (if s.crt then seedOut p g k s else s)

def iterate (p : Pass) (loop : List LStep) (k : κ) : List γ → St γ κ → St γ κ
  | [], s => s
  | g :: gs, s => iterate p loop k gs (iter p g k loop s)

/-- `Unit.solve` on a pass in state `s0` (fresh or used) while groove `k` is mounted: `init_solve` while the gap hook
    answers `g0`, then one iteration per element of `gs` -/
def solve (p : Pass) (loop : List LStep) (init : List IOp) (k : κ) (g0 : γ) (gs : List γ) (s0 : St γ κ) : St γ κ :=
  iterate p loop k gs (initSolve p g0 k init s0)

/-- what the user does with ONE pass object, one after the other -/
inductive Act (γ κ : Type) where
  | solve (k : κ) (g0 : γ) (gs : List γ)   -- `rp.solve(...)` with groove `k` on the rolls (mounted by `rp.roll.groove = …` before)
  | newRoll                                 -- `rp.roll = <a new roll object>`: neither hook cache nor memo on the roll
  deriving Repr, Inhabited

def act (p : Pass) (loop : List LStep) (init : List IOp) : Act γ κ → St γ κ → St γ κ
  | .solve k g0 gs, s => solve p loop init k g0 gs s
  | .newRoll, s => { s with cpC := none, rline := none }

/-- a history of one pass object -/
def history (p : Pass) (loop : List LStep) (init : List IOp) : List (Act γ κ) → St γ κ → St γ κ
  | [], s => s
  | a :: rest, s => history p loop init rest (act p loop init a s)

end run

end OutCS.Cache
