import PyrollModel.Num
/-!
# Rot — who turns the workpiece between two roll passes (C14)

Hand-written, import-free model of

* `pyroll/core/roll_pass/hookimpls/base_roll_pass.py` : the `rotation` hook of a roll pass (`auto_rotation`,
  `detect_already_rotated` with its backward walk over `prev`),
* `pyroll/core/roll_pass/base.py` : the pre-processor `rotator_factory`,
* `pyroll/core/rotator/hookimpls.py` : the rule table of `Rotator.rotation` and the out-profile classifiers,
* `pyroll/core/unit/unit.py` : `_solve_subunits` / `init_solve` handing the profile from unit to unit.

Everything that is *data* in those files (the rules and their registration order, the `isinstance` tests of the walk
and their return values, the guard of the walk, what the factory passes to `Rotator(...)`, the rotation marks) is NOT
written here: it is generated from the source on every run into `PyrollModel/Gen/C14.lean` (translator
`driver/translate/c14_rot.py`) as values of the types below, and this file only contains the *interpreters* of that
data.  The theorems of `PyrollProps/C14.lean` are about the interpreters applied to the generated data.

A flat pass sequence is a `List (U α)`; the numeric carrier `α` is `Float` when the model is run against the code and
`ℝ` (or any carrier) in the theorems.
-/

namespace Rot

/-! ## the generated data: types -/

/-- guard of one rotation rule: a boolean formula over classifier membership -/
inductive Cond where
  | tt
  /-- `"c" in self.in_profile.classifiers` -/
  | inProfile (c : String)
  /-- `"c" in self.next_roll_pass.classifiers` -/
  | nextPass (c : String)
  | not (a : Cond)
  | and (a b : Cond)
  | or (a b : Cond)
  deriving DecidableEq, Repr

/-- one hook function registered on `Rotator.rotation`: `if cond: return angle` alternatives tried in order,
falling off the end returns `None`.  `tier` : 0 = tryfirst, 1 = normal, 2 = trylast. -/
structure Rule where
  name : String
  tier : Nat
  alts : List (Cond × Nat)
  deriving DecidableEq, Repr

/-- the kinds of unit the backward walk distinguishes (`isinstance` tests) -/
inductive Kind where
  | pass | rotator | transport | other
  deriving DecidableEq, Repr

/-- `detect_already_rotated`, as data -/
structure WalkSpec where
  /-- the guard mentions `Config.ROLL_PASS_AUTO_ROTATION` -/
  needsAuto : Bool
  /-- the guard mentions `self.parent is not None` -/
  needsParent : Bool
  /-- value returned when `self.prev` raises `IndexError` (the pass is the first unit); `none` = no such handler -/
  noPrev : Option Bool
  /-- the `isinstance(prev, K): return b` tests of the loop body, in source order -/
  tests : List (Kind × Bool)
  /-- value returned when `prev.prev` raises `IndexError` (walk reached the first unit) -/
  exhausted : Option Bool
  deriving DecidableEq, Repr

/-- the functions registered on `BaseRollPass.rotation`, in registration order -/
inductive RotFn where
  /-- `return Config.ROLL_PASS_AUTO_ROTATION` -/
  | configValue
  /-- `detect_already_rotated` (interpreted through the `WalkSpec`) -/
  | detect
  deriving DecidableEq, Repr

inductive FactoryAngle where
  /-- `rotation=roll_pass.rotation if roll_pass.rotation is not True else None` -/
  | valueUnlessTrue
  /-- `rotation=roll_pass.rotation` -/
  | value
  /-- no `rotation=` argument: always rule based -/
  | ruleBased
  deriving DecidableEq, Repr

/-- `rotator_factory`, as data -/
structure FactorySpec where
  /-- the factory is guarded by the truth value of `roll_pass.rotation` -/
  condTruthy : Bool
  angle : FactoryAngle
  /-- `parent=roll_pass` (so that the pass itself is the rotator's `next_roll_pass`) -/
  parentIsPass : Bool
  /-- `BaseRollPass.pre_processors.append(rotator_factory)` is present -/
  registered : Bool
  deriving DecidableEq, Repr

/-- `Rotator.OutProfile.classifiers`, as data -/
structure MarkSpec where
  /-- marks always added (`in_profile.classifiers | {...}`) -/
  base : List String
  /-- the union is built as a NEW set (`|`), the incoming set object is not written to -/
  copies : Bool
  /-- `if/elif rotation == n: add(mark)` chain, in source order -/
  marks : List (Nat × String)
  deriving DecidableEq, Repr

/-- `Rotator.OutProfile.cross_section`, as data: `fn(source, angle=…, origin=(ox, oy))` -/
structure XsecSpec where
  fn : String
  source : String
  angle : String
  originX : Nat
  originY : Nat
  radians : Bool
  deriving DecidableEq, Repr

/-- `Rotator.next_roll_pass` and `Unit.init_solve`, as data -/
structure FlowSpec where
  /-- a rotator whose parent is a roll pass takes that pass as its next pass -/
  parentPassIsNext : Bool
  /-- otherwise `self.next_of(BaseRollPass)` -/
  elseNextOf : Bool
  /-- `init_solve`: a factory returning `None` is skipped -/
  skipsNone : Bool
  /-- `init_solve`: `in_profile = pre_processor.solve(in_profile)` (the result is handed on) -/
  chains : Bool
  /-- `init_solve`: `self.in_profile = self.InProfile(self, in_profile)` after the loop -/
  inFromChain : Bool
  deriving DecidableEq, Repr

structure Tables where
  rules : List Rule
  walk : WalkSpec
  rotationFns : List RotFn
  factory : FactorySpec
  marks : MarkSpec
  deriving Repr

/-! ## sets of classifiers as lists -/

def addCls (s : List String) (c : String) : List String := if s.contains c then s else s ++ [c]

def unionCls (s : List String) : List String → List String
  | [] => s
  | c :: cs => unionCls (addCls s c) cs

/-! ## the rule table -/

def Cond.eval (inC nextC : List String) : Cond → Bool
  | .tt => true
  | .inProfile c => inC.contains c
  | .nextPass c => nextC.contains c
  | .not a => !(a.eval inC nextC)
  | .and a b => a.eval inC nextC && b.eval inC nextC
  | .or a b => a.eval inC nextC || b.eval inC nextC

/-- the first alternative whose guard holds; `none` = the function returns `None` -/
def evalAlts (inC nextC : List String) : List (Cond × Nat) → Option Nat
  | [] => none
  | (c, a) :: rest => if c.eval inC nextC then some a else evalAlts inC nextC rest

def Rule.eval (r : Rule) (inC nextC : List String) : Option Nat := evalAlts inC nextC r.alts

/-- first non-`None` result in the given (evaluation) order: `Hook.get_result` -/
def firstSome (inC nextC : List String) : List Rule → Option Nat
  | [] => none
  | r :: rest => match r.eval inC nextC with
    | some a => some a
    | none => firstSome inC nextC rest

/-- evaluation order of `Hook.functions_gen`: tryfirst, normal, trylast, each tier latest registration first -/
def evalOrder (rules : List Rule) : List Rule :=
  (rules.filter (·.tier == 0)).reverse ++ (rules.filter (·.tier == 1)).reverse ++ (rules.filter (·.tier == 2)).reverse

/-- the angle `Rotator.rotation` resolves to when it is not set explicitly; `none` = no function provides a value -/
def ruleAngle (rules : List Rule) (inC nextC : List String) : Option Nat :=
  firstSome inC nextC (evalOrder rules)

/-! ## the `rotation` hook of a roll pass -/

/-- what the user wrote as `rotation=` on the pass -/
inductive Setting (α : Type) where
  | unset | tt | ff | num (x : α)
  deriving Repr

/-- value of `roll_pass.rotation` -/
inductive RotVal (α : Type) where
  | tt | ff | num (x : α)
  deriving Repr

def RotVal.ofBool {α : Type} (b : Bool) : RotVal α := if b then .tt else .ff

/-- first matching `isinstance` test -/
def testKind (k : Kind) : List (Kind × Bool) → Option Bool
  | [] => none
  | (k', b) :: rest => if k = k' then some b else testKind k rest

/-- the `while True` loop of `detect_already_rotated`; argument: the kinds of the units before the pass, nearest first
(non-empty on entry) -/
def walkLoop (w : WalkSpec) : List Kind → Option Bool
  | [] => w.exhausted
  | k :: rest => match testKind k w.tests with
    | some b => some b
    | none => walkLoop w rest

/-- `detect_already_rotated`; `none` = returns `None` (the next function is asked) -/
def detect (w : WalkSpec) (auto hasParent : Bool) (before : List Kind) : Option Bool :=
  if (!w.needsAuto || auto) && (!w.needsParent || hasParent) then
    match before with
    | [] => w.noPrev
    | ks => walkLoop w ks
  else none

def RotFn.eval (w : WalkSpec) (auto hasParent : Bool) (before : List Kind) : RotFn → Option Bool
  | .configValue => some auto
  | .detect => Rot.detect w auto hasParent before

/-- first non-`None` in evaluation order -/
def firstFn (w : WalkSpec) (auto hasParent : Bool) (before : List Kind) : List RotFn → Option Bool
  | [] => none
  | f :: rest => match f.eval w auto hasParent before with
    | some b => some b
    | none => firstFn w auto hasParent before rest

/-- `roll_pass.rotation`: an explicit value wins (`Hook.__get__`), otherwise the hook functions, latest registered
first. `none` = `AttributeError` (no function provides a value). -/
def rotationValue {α : Type} (T : Tables) (auto hasParent : Bool) (before : List Kind) : Setting α → Option (RotVal α)
  | .tt => some .tt
  | .ff => some .ff
  | .num x => some (.num x)
  | .unset => (firstFn T.walk auto hasParent before T.rotationFns.reverse).map RotVal.ofBool

section num
variable {α : Type} [PyNum α]

/-- python `x == 0` on numbers (`-0.0` is zero, NaN is not) -/
def isZero (x : α) : Bool := PyNum.le x (PyNum.nat 0) && PyNum.le (PyNum.nat 0) x

/-- python `a == n` for an integer literal `n` -/
def eqNat (x : α) (n : Nat) : Bool := PyNum.le x (PyNum.nat n) && PyNum.le (PyNum.nat n) x

/-- python truth value of `roll_pass.rotation` -/
def RotVal.truthy : RotVal α → Bool
  | .tt => true
  | .ff => false
  | .num x => !(isZero x)

/-- `rotator_factory`: `none` = no rotator is created; `some none` = a rotator whose angle comes from the rule table;
`some (some x)` = a rotator with the explicit angle `x` -/
def factory (F : FactorySpec) (v : RotVal α) : Option (Option α) :=
  if F.registered && (!F.condTruthy || v.truthy) then
    match F.angle, v with
    | .ruleBased, _ => some none
    | .valueUnlessTrue, .tt => some none
    | _, .num x => some (some x)
    | _, .tt => some (some (PyNum.nat 1))     -- `Rotator(rotation=True)`: python `True == 1`
    | _, .ff => some (some (PyNum.nat 0))
  else none

/-! ## classifiers of a rotator's out profile -/

def markOf (θ : α) : List (Nat × String) → Option String
  | [] => none
  | (n, m) :: rest => if eqNat θ n then some m else markOf θ rest

def marksOut (M : MarkSpec) (inC : List String) (θ : α) : List String :=
  match markOf θ M.marks with
  | some m => addCls (unionCls inC M.base) m
  | none => unionCls inC M.base

/-! ## a flat pass sequence -/

inductive U (α : Type) where
  /-- a roll pass with its `rotation` setting and its classifiers (`roll_pass.classifiers`, which are also the
  classifiers of its out profile) -/
  | pass (s : Setting α) (cls : List String)
  | transport
  /-- an explicit rotator; `none` = its angle is not set (rule based) -/
  | rotator (θ : Option α)
  | other
  deriving Repr

def U.kind : U α → Kind
  | .pass _ _ => .pass
  | .transport => .transport
  | .rotator _ => .rotator
  | .other => .other

def U.isRotator : U α → Bool
  | .rotator _ => true
  | _ => false

def U.isPass : U α → Bool
  | .pass _ _ => true
  | _ => false

/-- classifiers of the first roll pass in the list (`next_of(BaseRollPass)`), `none` = `IndexError` -/
def nextPassCls : List (U α) → Option (List String)
  | [] => none
  | .pass _ c :: _ => some c
  | _ :: rest => nextPassCls rest

/-- state of the hand-over while the sub-units are solved one after the other -/
structure St (α : Type) where
  /-- kinds of the units already passed, nearest first (`prev`, `prev.prev`, …) -/
  before : List Kind
  /-- classifiers of the profile handed to the next unit -/
  cls : List String
  /-- sum of the angles the profile was turned by since it left the last roll pass (or entered the sequence) -/
  turn : α
  deriving Repr

/-- what is observable at one unit -/
inductive Obs (α : Type) where
  /-- roll pass: value of `rotation`; the auto-rotator's angle if one was created; total turn of the in profile
  relative to the previous pass' out profile; classifiers of the in profile -/
  | pass (rotation : RotVal α) (auto : Option α) (turn : α) (inCls : List String)
  /-- explicit rotator: its angle, classifiers of its out profile -/
  | rotator (θ : α) (outCls : List String)
  | skip
  /-- the unit raises (`IndexError` of a rule-based rotator without a following pass / no value for a hook) -/
  | err
  deriving Repr

/-- angle of a rotator: explicit, or from the rule table -/
def resolveAngle (T : Tables) (a : Option α) (inC : List String) (nextC : Option (List String)) : Option α :=
  match a with
  | some θ => some θ
  | none => match nextC with
    | none => none
    | some c => (ruleAngle T.rules inC c).map PyNum.nat

/-- entry of a roll pass (`init_solve`): the observation and the state handed to the following unit -/
def enterPass (T : Tables) (auto : Bool) (st : St α) (s : Setting α) (c : List String) : Obs α :=
  match rotationValue T auto true st.before s with
  | none => .err
  | some v => match factory T.factory v with
    | none => .pass v none st.turn st.cls
    | some a => match resolveAngle T a st.cls (some c) with
      | none => .err
      | some θ => .pass v (some θ) (st.turn + θ) (marksOut T.marks st.cls θ)

def Obs.isErr : Obs α → Bool
  | .err => true
  | _ => false

/-- solve the units one after the other (`Unit._solve_subunits`), emitting one observation per unit; stops at the
first unit that raises -/
def go (T : Tables) (auto : Bool) : St α → List (U α) → List (Obs α)
  | _, [] => []
  | st, .pass s c :: us =>
    let o := enterPass T auto st s c
    if o.isErr then [o] else o :: go T auto { before := .pass :: st.before, cls := c, turn := PyNum.nat 0 } us
  | st, .rotator a :: us =>
    match resolveAngle T a st.cls (nextPassCls us) with
    | none => [.err]
    | some θ =>
      .rotator θ (marksOut T.marks st.cls θ) ::
        go T auto { before := .rotator :: st.before, cls := marksOut T.marks st.cls θ, turn := st.turn + θ } us
  | st, .transport :: us => .skip :: go T auto { st with before := .transport :: st.before } us
  | st, .other :: us => .skip :: go T auto { st with before := .other :: st.before } us

/-- the state in which the `n`-th unit is entered (`none` = an earlier unit raised, or there is no such unit) -/
def stateAt (T : Tables) (auto : Bool) : St α → List (U α) → Nat → Option (St α)
  | st, _, 0 => some st
  | _, [], _ + 1 => none
  | st, .pass s c :: us, n + 1 =>
    if (enterPass T auto st s c).isErr then none
    else stateAt T auto { before := .pass :: st.before, cls := c, turn := PyNum.nat 0 } us n
  | st, .rotator a :: us, n + 1 =>
    match resolveAngle T a st.cls (nextPassCls us) with
    | none => none
    | some θ =>
      stateAt T auto { before := .rotator :: st.before, cls := marksOut T.marks st.cls θ, turn := st.turn + θ } us n
  | st, .transport :: us, n + 1 => stateAt T auto { st with before := .transport :: st.before } us n
  | st, .other :: us, n + 1 => stateAt T auto { st with before := .other :: st.before } us n

/-- a whole sequence fed with a profile of classifiers `cls0` -/
def runSeq (T : Tables) (auto : Bool) (cls0 : List String) (us : List (U α)) : List (Obs α) :=
  go T auto { before := [], cls := cls0, turn := PyNum.nat 0 } us

/-- a roll pass that is not part of any sequence (`parent is None`) -/
def soloPass (T : Tables) (auto : Bool) (cls0 : List String) (s : Setting α) (c : List String) : Obs α :=
  match rotationValue T auto false [] s with
  | none => .err
  | some v => match factory T.factory v with
    | none => .pass v none (PyNum.nat 0) cls0
    | some a => match resolveAngle T a cls0 (some c) with
      | none => .err
      | some θ => .pass v (some θ) (PyNum.nat 0 + θ) (marksOut T.marks cls0 θ)


/-! ## the pre-processor chain of `Unit.init_solve`

A roll pass class may carry further pre-processor factories besides `rotator_factory` (plug-ins register them on
`BaseRollPass` / `SymmetricRollPass` / `TwoRollPass` / own subclasses); `_yield_pre_processors` yields them base class
first.  `init_solve` runs them in that order; what arrives as in profile of the pass is decided by the loop below. -/

/-- the loop of `init_solve`, generic in the profile type `P`.  `orig` is the profile given to `init_solve`, the first
explicit argument the profile produced so far; an entry `none` of the list = the factory returned `None`, `some f` = the
factory returned a unit whose `solve` maps the profile handed to it to `f profile`.  Result `none` = the loop raises. -/
def runPre {P : Type} (F : FlowSpec) (orig : P) : P → List (Option (P → P)) → Option P
  | cur, [] => some cur
  | cur, none :: ps => if F.skipsNone then runPre F orig cur ps else none
  | cur, some f :: ps => runPre F orig (f (if F.chains then cur else orig)) ps

/-- `self.in_profile = self.InProfile(self, <what the loop produced>)` -/
def initSolve {P : Type} (F : FlowSpec) (pres : List (Option (P → P))) (p : P) : Option P :=
  (runPre F p p pres).map (fun r => if F.inFromChain then r else p)

/-- the pre-processor factories the model distinguishes -/
inductive PreKind where
  /-- `rotator_factory` -/
  | factory
  /-- returns a unit that hands back a NEW profile with the section and the classifiers it was given -/
  | neutral
  /-- returns `None` -/
  | absent
  deriving DecidableEq, Repr

/-- the part of a profile the property talks about -/
structure Prof (α : Type) where
  turn : α
  cls : List String
  deriving Repr

/-- what the unit made by a factory does to the profile handed to it; `θ` = angle of the auto-rotator (`none` = the
rotator factory returned `None`) -/
def preFn (T : Tables) (θ : Option α) : PreKind → Option (Prof α → Prof α)
  | .factory => θ.map (fun θ p => { turn := p.turn + θ, cls := marksOut T.marks p.cls θ })
  | .neutral => some id
  | .absent => none

/-- entry of a roll pass whose class carries the pre-processors `pres` (in yield order); the value of `rotation` and the
auto-rotator's angle are those of `enterPass` (neutral pre-processors leave the classifiers the rule table reads
unchanged), the in profile is what the loop of `init_solve` makes of the chain -/
def applyPre (F : FlowSpec) (T : Tables) (st : St α) (pres : List PreKind) : Obs α → Obs α
  | .pass v a _ _ =>
    match initSolve F (pres.map (preFn T a)) ({ turn := st.turn, cls := st.cls } : Prof α) with
    | some p => .pass v a p.turn p.cls
    | none => .err
  | o => o

def enterPassWith (F : FlowSpec) (T : Tables) (auto : Bool) (st : St α) (s : Setting α) (c : List String)
    (pres : List PreKind) : Obs α :=
  applyPre F T st pres (enterPass T auto st s c)

/-! ## histories: the value cache of `rotation` survives between solves

`Hook.__get__` stores a value that came from the hook functions in `instance.__cache__`; `Unit.solve` calls `init_solve`
(which runs `rotator_factory`) BEFORE the first `reevaluate_cache()` of the solution loop.  A roll pass that was solved
before therefore enters `rotator_factory` with the value cached by the earlier solve, unless the factory discards it
(`CacheSpec.factoryDropsCache`, read from the source).  Roll passes get an identity (`Slot.id`) so that a sequence can be
edited between solves (units inserted, removed, replaced, settings changed, the switch toggled) while the passes keep
their caches. -/

/-- treatment of the cached `rotation` value, as data (generated) -/
structure CacheSpec where
  /-- `rotator_factory` starts with `roll_pass.__cache__.pop("rotation", None)` -/
  factoryDropsCache : Bool
  deriving DecidableEq, Repr

/-- a unit with the identity of the object (only the identity of roll passes matters) -/
structure Slot (α : Type) where
  id : Nat
  u : U α
  /-- for a roll pass: the pre-processor factories of its class in yield order (a plain pass: `[.factory]`) -/
  pres : List PreKind := [.factory]
  deriving Repr

/-- `__cache__["rotation"]` of the roll passes, by identity (absent = nothing cached) -/
abbrev Store := List (Nat × Bool)

def Store.get (s : Store) (i : Nat) : Option Bool := List.lookup i s
def Store.erase (s : Store) (i : Nat) : Store := s.filter (fun e => e.1 != i)
def Store.set (s : Store) (i : Nat) (b : Bool) : Store := (i, b) :: Store.erase s i

/-- value the hook FUNCTIONS of `BaseRollPass.rotation` give (`Hook.get_result`), `none` = no function provides one -/
def fnValue (T : Tables) (auto hasParent : Bool) (before : List Kind) : Option Bool :=
  firstFn T.walk auto hasParent before T.rotationFns.reverse

/-- the value `rotator_factory` sees: explicit, else (unless discarded) the cached one, else from the functions -/
def entryValue (T : Tables) (C : CacheSpec) (auto : Bool) (before : List Kind) (s : Setting α) (cached : Option Bool) :
    Option (RotVal α) :=
  match s with
  | .unset =>
    if C.factoryDropsCache then rotationValue T auto true before .unset
    else match cached with
      | some b => some (RotVal.ofBool b)
      | none => rotationValue T auto true before .unset
  | s => rotationValue T auto true before s

/-- `__cache__["rotation"]` after the pass has been solved (`reevaluate_cache` in its solution loop recomputes every cached
hook from the functions; an explicit setting is never cached) -/
def cacheAfter (T : Tables) (C : CacheSpec) (auto : Bool) (before : List Kind) (s : Setting α) (cached : Option Bool) :
    Option Bool :=
  match s with
  | .unset => fnValue T auto true before
  | _ => if C.factoryDropsCache then none else (if cached.isSome then fnValue T auto true before else none)

/-- `enterPass` for a given value of `rotation` -/
def enterPassV (T : Tables) (st : St α) (v : Option (RotVal α)) (c : List String) : Obs α :=
  match v with
  | none => .err
  | some v => match factory T.factory v with
    | none => .pass v none st.turn st.cls
    | some a => match resolveAngle T a st.cls (some c) with
      | none => .err
      | some θ => .pass v (some θ) (st.turn + θ) (marksOut T.marks st.cls θ)

/-- one outer iteration of a sequence's solution loop over units with identity, threading the caches -/
def goH (F : FlowSpec) (T : Tables) (C : CacheSpec) (auto : Bool) :
    Store → St α → List (Slot α) → List (Obs α) × Store
  | store, _, [] => ([], store)
  | store, st, ⟨i, .pass s c, pres⟩ :: us =>
    let o := applyPre F T st pres (enterPassV T st (entryValue T C auto st.before s (store.get i)) c)
    if o.isErr then ([o], store) else
      let store' := match cacheAfter T C auto st.before s (store.get i) with
        | some b => store.set i b
        | none => store.erase i
      let r := goH F T C auto store' { before := .pass :: st.before, cls := c, turn := PyNum.nat 0 } us
      (o :: r.1, r.2)
  | store, st, ⟨_, .rotator a, _⟩ :: us =>
    match resolveAngle T a st.cls (nextPassCls (us.map Slot.u)) with
    | none => ([.err], store)
    | some θ =>
      let r := goH F T C auto store
        { before := .rotator :: st.before, cls := marksOut T.marks st.cls θ, turn := st.turn + θ } us
      (.rotator θ (marksOut T.marks st.cls θ) :: r.1, r.2)
  | store, st, ⟨_, .transport, _⟩ :: us =>
    let r := goH F T C auto store { st with before := .transport :: st.before } us
    (.skip :: r.1, r.2)
  | store, st, ⟨_, .other, _⟩ :: us =>
    let r := goH F T C auto store { st with before := .other :: st.before } us
    (.skip :: r.1, r.2)

/-- `Unit.solve` of the sequence: `extra + 1` outer iterations; the observations of the LAST one are the final state -/
def solveH (F : FlowSpec) (T : Tables) (C : CacheSpec) (auto : Bool) :
    Nat → Store → St α → List (Slot α) → List (Obs α) × Store
  | 0, store, st, us => goH F T C auto store st us
  | n + 1, store, st, us => solveH F T C auto n (goH F T C auto store st us).2 st us

/-- a history: each step is one `solve` of the (edited) sequence — switch value, extra iterations, arrangement -/
structure Step (α : Type) where
  auto : Bool
  extra : Nat
  us : List (Slot α)

/-- run a history from the given caches; one list of final observations per solve -/
def runHistory (F : FlowSpec) (T : Tables) (C : CacheSpec) (cls0 : List String) :
    Store → List (Step α) → List (List (Obs α))
  | _, [] => []
  | store, h :: hs =>
    let r := solveH F T C h.auto h.extra store { before := [], cls := cls0, turn := PyNum.nat 0 } h.us
    r.1 :: runHistory F T C cls0 r.2 hs

end num

end Rot
