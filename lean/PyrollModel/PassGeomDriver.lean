import PyrollModel.PassGeom
import PyrollModel.EvalDriver
/-
  Line-protocol driver of the pass-opening model (C09).  State: the current groove contour and environment.

    contour <x bits> <y bits> <x bits> <y bits> ...      -> ok <n>
    env k=<bits> k=<bits> ...                             -> ok
    place two|three                                       -> the placed contour lines: `x y x y ...|x y ...|...` (bits)
    clipb two|three <clip index> <k>                      -> bits of `.bounds[k]` of that clip (contour built from env)
    interp two|three <given,given|-> <read,read,...>      -> `name=<bits>` / `name=!AttributeError` ... per read,
                                                             then `# cache=a,b # contour=gap:<bits>`
    late two|three <look,look,...|-> <given> <read,...>   -> life cycle "dimensioned late": answers of the looks at the bare
                                                             pass (`contour_lines=ok`) ` # ` answers of the reads after the
                                                             assignment ` # cache=a,b`
    keep two|three <x bits> <y bits> ...                  -> the points followed through the steps of the helper the usable
                                                             cross-section calls, its parameters bound to the terms the
                                                             implementation hands over (evaluated in env): per point
                                                             `<x bits>,<y bits>` where it ends up, or `-` when a clip discards it
    handed two|three[+hook] <given,given|->               -> what the usable cross-section hands to its helper on a fresh pass:
                                                             `parameter=<bits>` ...
    a pass class `two+<hook>` / `three+<hook>` is the class of a plug-in: a subclass with one more implementation of <hook>
    answering the env variable `plugin.<hook>`
    <formula name> k=<bits> ...                           -> EvalDriver (generated formula table)
-/
namespace PassGeomDriver
open PassGeom

structure Cfg where
  twoCls : PassClass
  twoLines : List (List GOp)
  threeCls : PassClass
  threeLines : List (List GOp)
  table : List (String × Expr)
  twoCs : HelperCall := default
  twoCsHelper : Helper := default
  threeCs : HelperCall := default
  threeCsHelper : Helper := default

structure St where
  contour : List (Pt Float) := []
  env : List (String × Float) := []

def fnan : Float := 0.0 / 0.0

def parsePts : List String → Option (List (Pt Float))
  | [] => some []
  | [_] => none
  | a :: b :: rest => do
    let x ← floatOfBitsStr a
    let y ← floatOfBitsStr b
    let r ← parsePts rest
    pure (⟨x, y⟩ :: r)

def showPts (l : List (Pt Float)) : String :=
  " ".intercalate (l.map fun p => floatToBitsStr p.x ++ " " ++ floatToBitsStr p.y)

def names (s : String) : List String := if s = "-" then [] else s.splitOn ","

def showRes (ρ : String → Float) : Res → String
  | .val e => floatToBitsStr (e.eval ρ)
  | .attrErr => "!AttributeError"
  | .unsupported w => "!unsupported:" ++ w.replace " " "_"
  | .fuelOut => "!fuel"
  | _ => "!internal"

def probeOf (s : String) : Probe := if s = "contour_lines" then .contour else .hook s

/-- a look: `contour_lines` answers a geometry (shown as `ok`), a hook a number -/
def showLook (ρ : String → Float) : Res → String
  | .unit => "ok"
  | r => showRes ρ r

def pickBase (cfg : Cfg) (w : String) : Option (PassClass × List (List GOp)) :=
  if w = "two" then some (cfg.twoCls, cfg.twoLines)
  else if w = "three" then some (cfg.threeCls, cfg.threeLines) else none

/-- `two`, `three`, or the class of a plug-in `two+<hook>` / `three+<hook>` -/
def pick (cfg : Cfg) (w : String) : Option (PassClass × List (List GOp)) :=
  match w.splitOn "+" with
  | [b] => pickBase cfg b
  | [b, hook] => (pickBase cfg b).map fun (c, lines) => (withPlugin c hook (.var ("plugin." ++ hook)), lines)
  | _ => none

def pickCs (cfg : Cfg) (w : String) : Option (HelperCall × Helper) :=
  match w.splitOn "+" with
  | b :: _ =>
    if b = "two" then some (cfg.twoCs, cfg.twoCsHelper)
    else if b = "three" then some (cfg.threeCs, cfg.threeCsHelper) else none
  | [] => none

def handle (cfg : Cfg) (st : St) (line : String) : St × String :=
  match Proto.toks line with
  | "contour" :: rest =>
    match parsePts rest with
    | some pts => ({ st with contour := pts }, s!"ok {pts.length}")
    | none => (st, "bad-op")
  | "env" :: rest =>
    match rest.mapM EvalDriver.parseBinding with
    | some e => ({ st with env := e }, "ok")
    | none => (st, "bad-op")
  | ["place", w] =>
    match pick cfg w with
    | some (_, lines) =>
      let ρ := envOf fnan st.env
      (st, "|".intercalate (lines.map fun ops => showPts (place ρ ops st.contour)))
    | none => (st, "bad-op")
  | ["clipb", w, ci, k] =>
    match pick cfg w, ci.toNat?, k.toNat? with
    | some (c, lines), some ci, some k =>
      (st, floatToBitsStr (clipValue c lines (envOf fnan st.env) st.contour ci k))
    | _, _, _ => (st, "bad-op")
  | ["interp", w, given, order] =>
    match pick cfg w with
    | some (c, lines) =>
      let r := session c (names given) (names order)
      let ρ := finalEnv c lines (envOf fnan st.env) st.contour r.2
      let outs := r.1.map fun x => x.1 ++ "=" ++ showRes ρ x.2
      let cache := ",".intercalate (r.2.cache.map (·.1))
      let con := match r.2.contour with
        | some xs => ",".intercalate (xs.map fun x => x.1 ++ ":" ++ floatToBitsStr (x.2.eval ρ))
        | none => "-"
      (st, " ".intercalate outs ++ " # cache=" ++ (if cache = "" then "-" else cache) ++ " # contour=" ++
        (if con = "" then "+" else con))
    | none => (st, "bad-op")
  | ["late", w, looks, given, order] =>
    match pick cfg w with
    | some (c, lines) =>
      let r := lateSession c ((names looks).map probeOf) (names given) (names order)
      let ρ := finalEnv c lines (envOf fnan st.env) st.contour r.2.2
      let ls := r.1.map fun x => x.1 ++ "=" ++ showLook ρ x.2
      let outs := r.2.1.map fun x => x.1 ++ "=" ++ showRes ρ x.2
      let cache := ",".intercalate (r.2.2.cache.map (·.1))
      (st, (if ls.isEmpty then "-" else " ".intercalate ls) ++ " # " ++ " ".intercalate outs ++ " # cache=" ++
        (if cache = "" then "-" else cache))
    | none => (st, "bad-op")
  | "keep" :: w :: rest =>
    match pickCs cfg w, parsePts rest with
    | some (call, helper), some pts =>
      let ρ := callEnv (envOf fnan st.env) call
      (st, " ".intercalate (pts.map fun p => match keepPt ρ helper.ops p with
        | some q => floatToBitsStr q.x ++ "," ++ floatToBitsStr q.y
        | none => "-"))
    | _, _ => (st, "bad-op")
  | ["handed", w, given] =>
    match pick cfg w, pickCs cfg w with
    | some (c, lines), some (call, _) =>
      let st0 : HState := { dict := names given, cache := [], contour := Option.none }
      let outs := call.args.map fun a =>
        let r := run c fuel0 (.body a.2) st0
        a.1 ++ "=" ++ showRes (finalEnv c lines (envOf fnan st.env) st.contour r.2) r.1
      (st, if outs.isEmpty then "-" else " ".intercalate outs)
    | _, _ => (st, "bad-op")
  | _ => (st, EvalDriver.handle cfg.table line)

partial def loop (cfg : Cfg) (h : IO.FS.Stream) (st : St) : IO Unit := do
  let line ← h.getLine
  if line.isEmpty then return ()
  let (st', out) := handle cfg st (line.trimAscii.toString)
  IO.println out
  loop cfg h st'

def main (cfg : Cfg) : IO Unit := do loop cfg (← IO.getStdin) {}

end PassGeomDriver
