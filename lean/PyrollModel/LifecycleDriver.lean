import PyrollModel.Lifecycle
import PyrollModel.LifecycleCopy
import PyrollModel.Proto
open Proto

/-! Line-protocol driver of the life-cycle model (C02); one op per line in, one line out:
`<result> | <invocation trace of this op> | <dump of every instance> | act:<executing marks key@instance> | roots:<root list>`. -/

namespace Life

def fuelDefault : Nat := 400

def parseVal (s : String) : Option Val :=
  if s = "bT" then some (.bool true)
  else if s = "bF" then some (.bool false)
  else if s.startsWith "i" then (s.drop 1).toString.toInt?.map .int
  else none

def parseBody : List String → Option Body
  | ["const", v] => (parseVal v).map .const
  | ["none"] => some .none
  | ["read", m, k, c] => do pure (.read (← nat? m) (← int? k) (← int? c))
  | ["try", m, k, c] => do pure (.tryRead (← nat? m) (← int? k) (← int? c))
  | ["cread", m, k, c] => do pure (.cread (← nat? m) (← int? k) (← int? c))
  | ["ctry", m, k, c] => do pure (.ctry (← nat? m) (← int? k) (← int? c))
  | _ => none

def parsePyVal (s : String) : Option PyVal :=
  match s.splitOn ":" with
  | ["N"] => some .none
  | ["p", v] => (parseVal v).map .plain
  | ["c0", id, "N"] => do pure (.call0 (← nat? id) none)
  | ["c0", id, v] => do pure (.call0 (← nat? id) (some (← parseVal v)))
  | ["c2", id] => do pure (.call2 (← nat? id))
  | "c1" :: id :: b => do pure (.call1 (← nat? id) (← parseBody b))
  | _ => none

def parseRoots (s : String) : Option (List (Cls × Name)) :=
  if s = "-" then some [] else
  (s.splitOn ",").mapM fun e => match e.splitOn ":" with
    | [c, n] => do pure ((← nat? c), (← nat? n))
    | _ => none

def parsePair (s : String) : Option (Cls × Name) :=
  match s.splitOn ":" with
  | [c, n] => do pure ((← nat? c), (← nat? n))
  | _ => none

/-- the store flag of a registration: `first` = tryfirst, `last` = trylast -/
def parseTier (s : String) : Option (Bool × Bool) :=
  if s = "first" then some (true, false) else if s = "normal" then some (false, false)
  else if s = "last" then some (false, true) else none

def parseOp (t : List String) : Option Op :=
  match t with
  -- `reg key fn cls hook body tier via`: a registration of function `fn` (new or registered before) under the new
  -- registration key; `via` = the API used on the real object (add_function / decorator call / with block / handing in
  -- the HookFunction of an earlier registration) - the same `add_function` for the model
  | ["reg", key, fn, c, n, b, tier, _via] => do
    let (first, last) ← parseTier tier
    pure (.addReg (← nat? key) (← nat? fn) (← nat? c) (← nat? n) (← parseBody (b.splitOn ":")) first last)
  | ["exit", key] => do pure (.removeImpl (← nat? key))          -- leaving the `with` block: `remove_function(self)`
  | ["radd", e] => do pure (.rootAdd (← parsePair e))
  | ["rbefore", p, e] => do pure (.rootInsertBefore (← parsePair p) (← parsePair e))
  | ["rafter", p, e] => do pure (.rootInsertAfter (← parsePair p) (← parsePair e))
  | ["rremove", e] => do pure (.rootRemoveLast (← parsePair e))
  | ["class", c, mro] => do pure (.defClass (← nat? c) (← natList? mro))
  | ["inst", c] => do pure (.newInst (← nat? c))
  | ["read", i, n] => do pure (.read (← nat? i) (← nat? n))
  | ["assign", i, n, v] => do pure (.assign (← nat? i) (← nat? n) (← parsePyVal v))
  -- 5th token = kind of python callable (lambda, bound method, partial, …): the model knows a callable only by the
  -- number of parameters `inspect.signature` reports for it (`c0` / `c1` / `c2` in the value token), so it is ignored
  | ["assign", i, n, v, _kind] => do pure (.assign (← nat? i) (← nat? n) (← parsePyVal v))
  | ["delete", i, n] => do pure (.delete (← nat? i) (← nat? n))
  | ["reeval", i] => do pure (.reevaluate (← nat? i))
  | ["clear", i] => do pure (.clearCache (← nat? i))
  | ["add", id, c, n, b] => do pure (.addImpl (← nat? id) (← nat? c) (← nat? n) (← parseBody (b.splitOn ":")))
  | ["remove", id] => do pure (.removeImpl (← nat? id))
  | ["hasset", i, n] => do pure (.hasSet (← nat? i) (← nat? n))
  | ["hascached", i, n] => do pure (.hasCached (← nat? i) (← nat? n))
  | ["hassoc", i, n] => do pure (.hasSetOrCached (← nat? i) (← nat? n))
  | ["hasvalue", i, n] => do pure (.hasValue (← nat? i) (← nat? n))
  | ["roots", l] => do pure (.setRoots (← parseRoots l))
  | ["evalroot", i] => do pure (.evalRoot (← nat? i))
  | ["fb", i, "_"] => do pure (.setFallback (← nat? i) none)
  | ["fb", i, j] => do pure (.setFallback (← nat? i) (some (← nat? j)))
  | ["handover", i, c] => do pure (.handOver (← nat? i) (← nat? c))
  | _ => none

def showVal : Val → String
  | .int i => s!"i{i}"
  | .bool true => "bT"
  | .bool false => "bF"

def showBody : Body → String
  | .const v => s!"const:{showVal v}"
  | .none => "none"
  | .read m k c => s!"read:{m}:{k}:{c}"
  | .tryRead m k c => s!"try:{m}:{k}:{c}"
  | .cread m k c => s!"cread:{m}:{k}:{c}"
  | .ctry m k c => s!"ctry:{m}:{k}:{c}"

def showPyVal : PyVal → String
  | .plain v => s!"p:{showVal v}"
  | .call0 id none => s!"c0:{id}:N"
  | .call0 id (some v) => s!"c0:{id}:{showVal v}"
  | .call1 id b => s!"c1:{id}:{showBody b}"
  | .call2 id => s!"c2:{id}"
  | .none => "N"

def showRes : Res → String
  | .val v => s!"val:{showVal v}"
  | .none => "None"
  | .attrErr => "AttributeError"
  | .typeErr => "TypeError"
  | .fuelOut => "FuelOut"

def commaOr (l : List String) : String := if l.isEmpty then "-" else ",".intercalate l

def showOut : Out → String
  | .ok => "ok"
  | .valueErr => "ValueError"
  | .res r => showRes r
  | .flag true => "True"
  | .flag false => "False"
  | .vals .none l => s!"vals:None:{commaOr (l.map showVal)}"
  | .vals r _ => s!"vals:{showRes r}:-"

def showObj (o : Obj) : String :=
  let d := commaOr (o.dict.map fun e => s!"{e.1}={showPyVal e.2}")
  let c := commaOr (o.cache.map fun e => s!"{e.1}={match e.2 with | some v => showVal v | none => "N"}")
  s!"c{o.cls}[{d}][{c}]fb{showOptNat o.fb}"

def dump (st : State) : String :=
  " ".intercalate ((List.range st.n).map fun i => showObj (st.obj i))

def showMarks (st : State) : String := commaOr (st.active.map fun e => s!"{e.1}@{e.2}")

def showRoots (st : State) : String := commaOr (st.roots.map fun e => s!"{e.1}:{e.2}")

def handle (st : State) (line : String) : State × String :=
  match toks line with
  | ["reset"] => (init, "ok")
  | t => match parseOp t with
    | some op =>
      let (st', o) := step fuelDefault st op
      (st', s!"{showOut o} | {commaOr (st'.trace.map toString)} | {dump st'} | act:{showMarks st'} | roots:{showRoots st'}")
    | none => (st, "bad-op")

end Life

/-! the shallow-copy model (`PyrollModel/LifecycleCopy.lean`): histories between `reset-copy` and the next `reset`;
one line out per op: `<result> | <hosts: explicit values @ dictionary object> | <dictionary objects>` -/
namespace LifeCopy

def parseOp : List String → Option Op
  | ["new"] => some .new
  | ["copy", i] => do pure (.copy (← nat? i))
  | ["assign", i, n, v] => do pure (.assign (← nat? i) (← nat? n) (← int? v))
  | ["delete", i, n] => do pure (.delete (← nat? i) (← nat? n))
  | ["read", i, n] => do pure (.read (← nat? i) (← nat? n))
  | ["clear", i] => do pure (.clear (← nat? i))
  | ["rebind", i] => do pure (.rebind (← nat? i))
  | ["impl", n, "N"] => do pure (.setImpl (← nat? n) none)
  | ["impl", n, v] => do pure (.setImpl (← nat? n) (some (← int? v)))
  | _ => none

def showOut : Out → String
  | .ok => "ok"
  | .val v => s!"val:{v}"
  | .attrErr => "AttributeError"

def showEntries (l : List (Name × Int)) : String := Life.commaOr (l.map fun e => s!"{e.1}={e.2}")

def dump (w : World) : String :=
  let hs := (List.range w.nHosts).map fun i =>
    s!"h{i}:[{showEntries (w.host i).dict}]@{match (w.host i).cache with | some r => toString r | none => "_"}"
  let ds := (List.range w.nDicts).map fun r => s!"s{r}:[{showEntries (w.store r)}]"
  s!"{" ".intercalate hs} | {" ".intercalate ds}"

def handle (w : World) (t : List String) : World × String :=
  match parseOp t with
  | some op => let (w', o) := step w op; (w', s!"{showOut o} | {dump w'}")
  | none => (w, "bad-op")

end LifeCopy

namespace Life

/-- both models behind one driver process: `reset` starts a life-cycle history, `reset-copy` a shallow-copy history -/
structure DState where
  life : State
  copy : LifeCopy.World
  inCopy : Bool

partial def loop (h : IO.FS.Stream) (d : DState) : IO Unit := do
  let line ← h.getLine
  if line.isEmpty then return ()
  let l := line.trimAscii.toString
  if l = "reset-copy" then
    IO.println "ok"
    loop h { d with copy := LifeCopy.init, inCopy := true }
  else if l = "reset" then
    IO.println "ok"
    loop h { d with life := init, inCopy := false }
  else if d.inCopy then
    let (w', out) := LifeCopy.handle d.copy (toks l)
    IO.println out
    loop h { d with copy := w' }
  else
    let (st', out) := handle d.life l
    IO.println out
    loop h { d with life := st' }

def main : IO Unit := do loop (← IO.getStdin) { life := init, copy := LifeCopy.init, inCopy := false }

end Life
