import PyrollModel.Handover
import PyrollModel.Gen.C06
/-
  The hand-over model instantiated with what the translator read from the source on this run:
  `genReuse` = what `Unit.init_solve` does with an out profile that exists already (`Gen.C06.reuseHandsOver`, and the
  literal lists of `reuseDelete` / `reuseSet`).  Used by the line-protocol driver (model vs implementation on real
  second solves and on `init_solve` histories) and by the theorems of `PyrollProps/C06.lean`.
-/
namespace Handover

def genReuse : Reuse :=
  { handsOver := Gen.C06.reuseHandsOver, delete := Gen.C06.reuseDelete.2.2, set := Gen.C06.reuseSet.2.2 }

end Handover
