import PyrollModel.Heap
import PyrollModel.Proto
import PyrollModel.Gen.C12
open Proto

/-
  Line-protocol driver of the heap model (C12).  The harness (driver/props/c12.py) builds the same object graph
  on real pyroll objects and in this model, op by op, and compares after every op (also after the construction of a
  roll pass: `pass` from a template slot, `passr` from the roll of another pass)
    * the names of the pre-existing objects the op wrote to (from the model's effect trace), and
    * the canonical aliasing graph of everything it holds a handle on (`dump`).
  Handles are "slots" (registration order); object identities are printed as class numbers in order of first
  appearance in the dump, so that equal dumps mean isomorphic graphs.
-/

namespace Heap

structure DS where
  s : S := { h := H.empty }
  slots : List Nat := []

def DS.slot (d : DS) (k : Nat) : Nat := d.slots.getD k 0

def DS.reg (d : DS) (o : Nat) : DS := { d with slots := d.slots ++ [o] }

def P : Producers := { rot := Gen.C12.rotatorClassifiers, pass := Gen.C12.passOutClassifiers,
                       sym := Gen.C12.symmetricClassifiers, reuse := Gen.C12.outReuse }

/-! ### numbering of identities -/

abbrev Num := List (Nat × Nat)

def clsOf (n : Num) (o : Nat) : Num × String :=
  match n.lookup o with
  | some c => (n, s!"#{c}")
  | none => ((o, n.length) :: n, s!"#{n.length}")

def showWeak (n : Num) (w : Option Nat) : Num × String :=
  match w with
  | none => (n, "_")
  | some t => clsOf n t

/-- the public reference-valued entries, by ascending code -/
def showFields (h : H) (o : Nat) (n : Num) : Num × String :=
  let r := (List.range 100).foldl (fun (a : Num × List String) f =>
    match getF h o f with
    | some v =>
      if (h.obj v).kind = .atom then a
      else
        let (n', c) := clsOf a.1 v
        (n', a.2 ++ [s!"f{f}={c}"])
    | none => a) (n, [])
  (r.1, ",".intercalate r.2)

def kindLetter : Kind → String
  | .profile => "P"
  | .inProfile => "I"
  | .outProfile => "O"
  | _ => "?"

/-- is anything in the hook value cache?  Printed for roll templates, pass rolls and plain profiles: there it is
determined by the ops (a template's / a plain profile's cache is filled by the CALLER only, a pass roll's by the
caller or by a solve of its pass) -/
def cacheFlag (h : H) (o : Nat) : String := if (h.obj o).cache.isEmpty then "0" else "1"

def showProf (h : H) (n : Num) (p : Nat) : Num × String :=
  let (n1, c) := clsOf n p
  let (n2, fs) := showFields h p n1
  let (n3, w) := showWeak n2 (h.obj p).weak
  let cf := if (h.obj p).kind = .profile then s!";c={cacheFlag h p}" else ""
  (n3, s!"p{c}:{kindLetter (h.obj p).kind}\{{fs};w={w}{cf}}")

def showOptProf (h : H) (n : Num) (p : Option Nat) : Num × String :=
  match p with
  | none => (n, "_")
  | some p => showProf h n p

def showRoll (h : H) (n : Num) (r : Option Nat) : Num × String :=
  match r with
  | none => (n, "_")
  | some r =>
    let (n1, c) := clsOf n r
    let (n2, g) := showWeak n1 (getF h r fGROOVE)
    let (n3, w) := showWeak n2 (h.obj r).weak
    (n3, s!"r{c}\{g={g};w={w};c={cacheFlag h r}}")

/-- explicit values of a unit that are callables holding references (entries 43 `duration`, 44 `pacing`): the
callable and what it is bound to -/
def showBound (h : H) (n : Num) (u : Nat) : Num × String :=
  let r := [43, 44].foldl (fun (a : Num × List String) f =>
    match getF h u f with
    | some c =>
      if (h.obj c).kind = .closure then
        let (n1, cc) := clsOf a.1 c
        let (n2, t) := showWeak n1 (getF h c fBIND)
        (n2, a.2 ++ [s!"f{f}=k{cc}({t})"])
      else a
    | none => a) (n, [])
  (r.1, if r.2.isEmpty then "-" else ",".intercalate r.2)

def showUnit : Nat → H → Num → Nat → Num × String
  | 0, _, n, u => let (n1, c) := clsOf n u; (n1, s!"u{c}")
  | fuel + 1, h, n, u =>
    let (n1, c) := clsOf n u
    let (n2, w) := showWeak n1 (h.obj u).weak
    let (n3, i) := showOptProf h n2 (getF h u fIN)
    let (n4, o) := showOptProf h n3 (getF h u fOUT)
    let (n5, r) := showRoll h n4 (getF h u fROLL)
    let (n6, sub) :=
      match getF h u fSUB with
      | none => (n5, "_")
      | some l =>
        let (a, lc) := clsOf n5 l
        let (b, lw) := showWeak a (h.obj l).weak
        let r := (h.obj l).items.foldl (fun (acc : Num × List String) c =>
          let (x, str) := showUnit fuel h acc.1 c
          (x, acc.2 ++ [str])) (b, [])
        (r.1, s!"l{lc}(w={lw})[{",".intercalate r.2}]")
    let (n7, cb) := showBound h n6 u
    (n7, s!"u{c}:{(h.obj u).tag}\{w={w},in={i},out={o},roll={r},sub={sub},cb={cb}}")

def showSlot (h : H) (n : Num) (o : Nat) : Num × String :=
  match (h.obj o).kind with
  | .atom => (n, "a")
  | .value => let (n1, c) := clsOf n o; (n1, s!"v{c}")
  | .groove =>
    let (n1, c) := clsOf n o
    let (n2, v) := showWeak n1 (getF h o fCL)
    (n2, s!"g{c}\{cl={v}}")
  | .rollTemplate =>
    let (n1, c) := clsOf n o
    let (n2, g) := showWeak n1 (getF h o fGROOVE)
    (n2, s!"t{c}\{g={g};c={cacheFlag h o}}")
  | .passRoll => showRoll h n (some o)
  | .profile => showProf h n o
  | .inProfile => showProf h n o
  | .outProfile => showProf h n o
  | .unit => showUnit 6 h n o
  | .subList => let (n1, c) := clsOf n o; (n1, s!"l{c}")
  | .closure => let (n1, c) := clsOf n o; (n1, s!"k{c}")

def dump (d : DS) : String :=
  let r := d.slots.foldl (fun (acc : Num × List String) o =>
    let (n, str) := showSlot d.s.h acc.1 o
    (n, acc.2 ++ [str])) ([], [])
  " ".intercalate r.2

/-! ### names of the objects a handle gives access to (for the written-set comparison) -/

def valueNames (h : H) (pre : String) (p : Nat) : List (String × Nat) :=
  (List.range 100).filterMap (fun f =>
    match getF h p f with
    | some v => if (h.obj v).kind = .value then some (s!"{pre}.f{f}", v) else none
    | none => none)

def profNames (h : H) (pre : String) (p : Option Nat) : List (String × Nat) :=
  match p with
  | none => []
  | some p => (pre, p) :: valueNames h pre p

def namesOf (h : H) (k : Nat) (o : Nat) : List (String × Nat) :=
  let pre := toString k
  match (h.obj o).kind with
  | .unit =>
    [(pre, o)] ++ profNames h (pre ++ ".in") (getF h o fIN) ++ profNames h (pre ++ ".out") (getF h o fOUT)
      ++ (match getF h o fROLL with | some r => [(pre ++ ".roll", r)] | none => [])
      ++ (match getF h o fSUB with | some l => [(pre ++ ".sub", l)] | none => [])
  | .profile => profNames h pre (some o)
  | .inProfile => profNames h pre (some o)
  | .outProfile => profNames h pre (some o)
  | _ => [(pre, o)]

def allNames (d : DS) : List (String × Nat) :=
  ((List.range d.slots.length).zip d.slots).flatMap (fun ko => namesOf d.s.h ko.1 ko.2)

/-- names (in the heap BEFORE the op) of the objects the op's trace writes to -/
def writtenNames (before : DS) (after : S) : String :=
  let t := targets (after.tr.drop before.s.tr.length)
  let ns := (allNames before).filter (fun e => t.contains e.2)
  if ns.isEmpty then "-" else " ".intercalate (ns.map (·.1))

/-! ### ops -/

def parseFields (d : DS) (str : String) : Option (List (Nat × Nat)) :=
  if str = "-" then some [] else
  (str.splitOn ",").mapM (fun t =>
    match t.splitOn ":" with
    | [f, k] => do pure ((← nat? f), d.slot (← nat? k))
    | _ => none)

/-- pre-order of the units below (and including) `u` -/
def unitTree : Nat → H → Nat → List Nat
  | 0, _, u => [u]
  | fuel + 1, h, u => u :: (subItems h u).flatMap (unitTree fuel h)

def boolOf (str : String) : Bool := str = "1"

/-- driver only: re-tabulate the heap function in an array (the model's heap is a chain of function updates,
one closure per write; looking an object up would otherwise cost time proportional to the number of writes so far) -/
def compact (h : H) : H :=
  let arr : Array Obj := Array.ofFn (n := h.next) (fun i => h.obj i.val)
  { next := h.next, obj := fun i => arr.getD i {} }

/-- `Heap.velRounds` with the heap re-tabulated between the rounds (speed only, as between two lines) -/
def velRoundsD : Nat → S → Nat → Nat → S
  | 0, s, _, _ => s
  | n + 1, s, u, p =>
    let s1 := velRound P s u p
    velRoundsD n { s1 with h := compact s1.h } u p

def handle (d : DS) (line : String) : DS × String :=
  match toks line with
  | ["reset"] => ({}, "ok")
  | ["dump"] => (d, dump d)
  | ["value", c] =>
    let (s, v) := d.s.alloc { kind := .value, content := [(nat? c).getD 0] }
    ({ d with s := s }.reg v, "ok")
  | ["atom"] =>
    let (s, v) := d.s.alloc { kind := .atom }
    ({ d with s := s }.reg v, "ok")
  | ["groove", v] =>
    let (s, g) := d.s.alloc { kind := .groove, fields := [(fCL, d.slot ((nat? v).getD 0))] }
    ({ d with s := s }.reg g, "ok")
  | ["template", g] =>
    let (s1, a) := d.s.alloc { kind := .atom }
    let (s2, t) := s1.alloc { kind := .rollTemplate, fields := [(fRADIUS, a), (fGROOVE, d.slot ((nat? g).getD 0))] }
    ({ d with s := s2 }.reg t, "ok")
  | ["profile", fs] =>
    match parseFields d fs with
    | some l =>
      let (s, p) := d.s.alloc { kind := .profile, fields := l }
      ({ d with s := s }.reg p, "ok")
    | none => (d, "bad-op")
  | ["pass", rot, disks, t] =>
    -- a pass built from the roll template in slot `t`; `self.roll` bound in the form the translator read
    let (s1, u) := mkPass Gen.C12.rollStore d.s (boolOf rot) ((nat? disks).getD 0) (d.slot ((nat? t).getD 0))
    ({ d with s := s1 }.reg u, writtenNames d s1)
  | ["passr", rot, disks, k] =>
    -- a pass built from the ROLL OF THE PASS in slot `k` (`RollPass(roll=other.roll, …)`)
    match getF d.s.h (d.slot ((nat? k).getD 0)) fROLL with
    | some t =>
      let (s1, u) := mkPass Gen.C12.rollStore d.s (boolOf rot) ((nat? disks).getD 0) t
      ({ d with s := s1 }.reg u, writtenNames d s1)
    | none => (d, "bad-op")
  | ["transport", disks, ovr] =>
    let (s1, u) := newUnit d.s { kind := .unit, tag := 2, disks := (nat? disks).getD 0, ovr := boolOf ovr }
    ({ d with s := s1 }.reg u, "ok")
  | ["rotator"] =>
    let (s1, u) := newUnit d.s { kind := .unit, tag := 4 }
    ({ d with s := s1 }.reg u, "ok")
  | ["seq", us] =>
    match natList? us with
    | some ks =>
      -- `Unit.__init__` (empty list), then `self._subunits = _SubUnitsList(self, units)` which adopts the units
      let ids := ks.map d.slot
      let (s1, q) := newUnit d.s { kind := .unit, tag := 3 }
      let (s2, l) := s1.alloc { kind := .subList, weak := some q, items := ids }
      let s3 := ids.foldl (fun a u => a.setWeak u (some q)) s2
      ({ d with s := s3.write q fSUB l }.reg q, "ok")
    | none => (d, "bad-op")
  | ["solve", u, p, its] =>
    match nat? u, nat? p, natList? its with
    | some u, some p, some its =>
      let s0 : S := { d.s with its := its }
      let (s1, r) := solveU P (s0.h.next + 1) s0 (d.slot u) (d.slot p)
      let w := writtenNames d s1
      ({ d with s := { s1 with its := [] } }.reg r, s!"{w} | left={s1.its.length}")
    | _, _, _ => (d, "bad-op")
  | ["solvev", u, p, n, its] =>
    -- `seq.solve_velocities_forward / backward(profile, …)`: `n` rounds (observed on the implementation)
    match nat? u, nat? p, nat? n, natList? its with
    | some u, some p, some n, some its =>
      let s0 : S := { d.s with its := its }
      let s1 := velRoundsD n (velRead (subItems s0.h (d.slot u)) s0) (d.slot u) (d.slot p)   -- = `solveVel P n s0 u p`
      let w := writtenNames d s1
      ({ d with s := { s1 with its := [] } }, s!"{w} | left={s1.its.length}")
    | _, _, _, _ => (d, "bad-op")
  | ["bind", u, f, t] =>
    -- the caller sets an explicit value of unit `u` to a callable bound to unit `t`
    match nat? u, nat? f, nat? t with
    | some u, some f, some t =>
      let s1 := bindCallable d.s (d.slot u) f (d.slot t)
      ({ d with s := s1 }, writtenNames d s1)
    | _, _, _ => (d, "bad-op")
  | ["deepcopy", u] =>
    match nat? u with
    | some u =>
      let (s1, _, r) := deepCopy d.s (d.slot u)
      let w := writtenNames d s1
      let tree := unitTree 6 s1.h r
      ({ d with s := s1, slots := d.slots ++ tree }, s!"{w} | new={tree.length}")
    | none => (d, "bad-op")
  | ["append", q, u] =>
    match nat? q, nat? u with
    | some q, some u =>
      let s1 := appendUnit d.s (d.slot q) (d.slot u)
      ({ d with s := s1 }, writtenNames d s1)
    | _, _ => (d, "bad-op")
  | ["replace", q, i, u] =>
    match nat? q, nat? i, nat? u with
    | some q, some i, some u =>
      let s1 := replaceUnit d.s (d.slot q) i (d.slot u)
      ({ d with s := s1 }, writtenNames d s1)
    | _, _, _ => (d, "bad-op")
  | ["gap", u] =>
    match nat? u with
    | some u =>
      let s1 := setGap d.s (d.slot u)
      ({ d with s := s1 }, writtenNames d s1)
    | none => (d, "bad-op")
  | ["ovr", u] =>
    -- a hook implementation producing `OutProfile.classifiers` was registered on the (throw-away) class of this unit
    match nat? u with
    | some u =>
      let o := d.slot u
      ({ d with s := { d.s with h := d.s.h.upd o { d.s.h.obj o with ovr := true } } }, "ok")
    | none => (d, "bad-op")
  | ["look", ns] =>
    -- the CALLER read hooks; `ns` = names of the objects whose cache changed by that (observed on the implementation)
    if ns = "-" then (d, "ok") else
    let tbl := allNames d
    let s1 := (ns.splitOn ",").foldl (fun (a : S) nm =>
      match tbl.lookup nm with
      | some o => cacheAdd a o 1
      | none => a) d.s
    ({ d with s := s1 }, "ok")
  | ["keep", u] =>
    match nat? u with
    | some u =>
      match getF d.s.h (d.slot u) fIN, getF d.s.h (d.slot u) fOUT with
      | some i, some o => ((d.reg i).reg o, "ok")
      | _, _ => (d, "none")
    | none => (d, "bad-op")
  | _ => (d, "bad-op")

partial def loop (hIn : IO.FS.Stream) (d : DS) : IO Unit := do
  let line ← hIn.getLine
  if line.isEmpty then return ()
  let (d', out) := handle d (line.trimAscii.toString)
  IO.println out
  loop hIn { d' with s := { d'.s with h := compact d'.s.h } }

def main : IO Unit := do loop (← IO.getStdin) {}

end Heap
