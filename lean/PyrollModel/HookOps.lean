import PyrollModel.HookEval

/-
  HookOps — histories of operations on the hook registry (C01): the concrete machine `step`/`run` that mirrors
  the code, and the abstract machine `astep`/`arun` (class hierarchy + log of live registrations) that ignores
  every mere access.
-/

namespace Hooks

/-- how a hook object OTHER than the one plain attribute lookup finds gets asked for a class `c` (or an instance of it) -/
inductive Via where
  /-- `super(K, x).h` with `x` the class `c` or an instance of it: the lookup starts AFTER `K` in `c.__mro__` -/
  | super (k : Cls)
  /-- the explicit descriptor call `S.__dict__["h"].__get__(x, C)` with `S` a class of `c.__mro__` -/
  | dict (s : Cls)
  deriving Repr, DecidableEq

/-- the class whose hook object is asked (`none`: AttributeError - no class after `K` in the `__mro__` carries the hook /
    `S` is no base of `c` or carries none) -/
def viaLookup (st : State) : Via → Cls → Option Cls
  | .super k, c => (((st.mro c).dropWhile fun x => x != k).tail).find? fun j => (st.own j).isSome
  | .dict s, c => if (st.mro c).contains s && (st.own s).isSome then some s else none

inductive Op where
  /-- `type(name, bases, {…})`, `hook`: the class body defines the hook itself -/
  | defClass (c : Cls) (m : List Cls) (hook : Bool)
  /-- `C.extension_class(Source)` with `Source.h = Hook()` -/
  | extension (c : Cls)
  /-- `getattr(C, "h", None)` -/
  | touchClass (c : Cls)
  /-- attribute access through an instance of `C` that does not evaluate the functions -/
  | touchInst (c : Cls)
  /-- `C.h.add_function(f, tryfirst/trylast/wrapper)` -/
  | add (c : Cls) (t : Tier) (w : Bool) (b : Body)
  /-- `C.h.remove_function(hf)` – through the owner (also `with hf:`), or through any other class -/
  | remove (c : Cls) (id : Nat)
  /-- `C.h.functions` -/
  | readFns (c : Cls)
  /-- `C().h` on a fresh instance -/
  | read (c : Cls)
  /-- the hook object of a base class asked for `c` without evaluating anything: `super(K, C).h`, `super(K, i).h` /
      `S.__dict__["h"].__get__(None, C)`, `S.__dict__["h"].__get__(i, C)` with `i` an instance of `C` holding an explicit value -/
  | touchVia (v : Via) (c : Cls)
  /-- the same on a fresh instance of `c` (with its input): `super(K, C()).h` / `S.__dict__["h"].__get__(C(), C)` computes
      the value -/
  | readVia (v : Via) (c : Cls)
  deriving Repr, DecidableEq

def setOwn (st : State) (c : Cls) (h : HookObj) : State :=
  { st with own := fun x => if x = c then some h else st.own x }

/-- state after all the lazy creations of one evaluation on an instance of class `c` -/
def touchAll (st : State) (c : Cls) : State :=
  let st1 := touch st c
  (walkAll st1 (st1.mro c) implTiers).1

/-- classes on which an evaluation created instances -/
def instsOf : List Ev → List Cls
  | [] => []
  | .inst c :: tr => c :: instsOf tr
  | _ :: tr => instsOf tr

/-- state after `C().h`: the lazy creations for `C` and for every class a delegating implementation instantiated -/
def touchRead (st : State) (c : Cls) : State :=
  (instsOf (readOut st c).2).foldl touchAll (touchAll st c)

/-- one operation; `reuse` says what `Hook.__get__` does when asked with an owner that carries a hook object already
    (`askAs`) - only the operations `touchVia` / `readVia` can get there -/
def stepWith (reuse : Bool) (st : State) : Op → State
  | .defClass c m hook =>
    if classOk st.mro c m then
      { st with mro := fun x => if x = c then m else st.mro x,
                own := fun x => if x = c then (if hook then some {} else none) else st.own x }
    else st
  | .extension c =>
    if st.mro c != [] then
      match st.own c with
      | some _ => st                 -- `name not in cls.__dict__` is false: skipped
      | none => setOwn st c {}
    else st
  | .touchClass c => touch st c
  | .touchInst c => touch st c
  | .add c t w b =>
    let st1 := touch st c
    match st1.own c with
    | none => st1                    -- AttributeError: class has no such hook
    | some h => { setOwn st1 c (h.push w t ⟨st1.next, w, b⟩) with next := st1.next + 1 }
  | .remove c id =>
    let st1 := touch st c
    match st1.own c with
    | none => st1
    | some h => setOwn st1 c (h.erase id)
  | .readFns c => (functionsOf st c).1
  | .read c => touchRead st c
  | .touchVia v c =>
    match viaLookup st v c with
    | none => st                     -- AttributeError
    | some s => askAs reuse st s c
  | .readVia v c =>
    match viaLookup st v c with
    | none => st
    | some s => touchRead (askAs reuse st s c) c

/-- the concrete machine: `stepWith` instantiated with the flag READ FROM THE SOURCE (`Gen.C01.Hooks.getOwnerReuse`) -/
def step (st : State) (op : Op) : State := stepWith ownerReuse st op

def run (ops : List Op) : State := ops.foldl step init

/-- the machine with the flag given (for statements about one of the two source forms) -/
def runWith (reuse : Bool) (ops : List Op) : State := ops.foldl (stepWith reuse) init

/-- what `super(K, C()).h` / `S.__dict__["h"].__get__(C(), C)` answers in state `st` (`none` = AttributeError: no hook
    object found to ask) -/
def readViaOut (reuse : Bool) (st : State) (v : Via) (c : Cls) : Option (Option Nat × List Ev) :=
  (viaLookup st v c).map fun s => readOut (askAs reuse st s c) c

/-- abstract state: class hierarchy, classes on which the hook was DEFINED, live registrations in log order -/
structure AState where
  mro : Cls → List Cls
  hookAt : Cls → Bool
  log : List Reg
  next : Nat

def ainit : AState := { mro := fun _ => [], hookAt := fun _ => false, log := [], next := 0 }

/-- the hook is defined on `c` or on one of its base classes -/
def avisible (a : AState) (c : Cls) : Bool := (a.mro c).any a.hookAt

/-- accesses do nothing; only class definitions, registrations and removals through the owner count -/
def astep (a : AState) : Op → AState
  | .defClass c m hook =>
    if classOk a.mro c m then
      { a with mro := fun x => if x = c then m else a.mro x,
               hookAt := fun x => if x = c then hook else a.hookAt x }
    else a
  | .extension c =>
    if a.mro c != [] then { a with hookAt := fun x => if x = c then true else a.hookAt x } else a
  | .add c t w b =>
    if avisible a c then { a with log := a.log ++ [⟨⟨a.next, w, b⟩, c, t⟩], next := a.next + 1 } else a
  | .remove c id => { a with log := a.log.filter fun r => !(r.cls == c && r.hf.id == id) }
  | .touchClass _ => a
  | .touchInst _ => a
  | .readFns _ => a
  | .read _ => a
  | .touchVia _ _ => a
  | .readVia _ _ => a

def arun (ops : List Op) : AState := ops.foldl astep ainit

/-- the live registrations after a history -/
def liveLog (ops : List Op) : List Reg := (arun ops).log

/-- operations that only access the hook (through a class or an instance, by plain attribute lookup, through `super` or
    by an explicit descriptor call) -/
def Op.isTouch : Op → Bool
  | .touchClass _ | .touchInst _ | .readFns _ | .read _ | .touchVia _ _ | .readVia _ _ => true
  | _ => false

end Hooks
