import PyrollModel.Expr
/-
  Factory — the model of pyroll-core's profile factories (property C15).

  `driver/translate/c15_factories.py` reads `pyroll/core/profile/profile.py` and emits, per factory, a `Spec`
  (`PyrollModel/Gen/C15.lean`):

    * `groups`    the `if … elif … else: raise TypeError` chains over the None-ness of the alternative arguments
                  (`radius`/`diameter`, `side`/`diagonal`, `side`/`height`/`diagonal`, `width`/`filling`, `height`/`gap`)
                  with the assignments each arm performs,
    * `rejectIf`  the comparisons of `if c1 or c2 …: raise ValueError`,
      `require`   the comparisons of `if not (c1 and c2 …): raise ValueError`,
    * `vertices`  the vertex expressions of the core polygon handed to `LinearRing` (already shrunk by the corner radius),
    * `buffer`    the distance handed to `.buffer(…)`,
    * `attrs`     what the instance remembers (`_side`, `_diagonal`, …), `classifiers`.

  This file gives these tables their meaning, once, generically over the carrier (`Float` for the correspondence
  run, `ℝ` for the theorems):

    * `Spec.run`          the decision the python code takes: `TypeError`, `ValueError`, or the resolved environment;
    * the IDEAL SHAPE     shapely's `buffer(r)` (round joins) is SPECIFIED as the Minkowski sum of the core polygon with
                          a disc of radius `r`; of that ideal set this file defines the extent in a direction
                          (support function of the core + `r` on both sides), hence width and height, and the area by
                          Steiner's formula  `area(core) + r · perimeter(core) + π r²`  (convex core).
                          GEOS itself (arc discretisation, validity predicates) is a parameter, see DESIGN.md §3;
                          the harness measures the real result against these ideal values within the discretisation error.
-/

namespace Factory

inductive Cmp where
  | le | lt | ge | gt
  deriving Repr, DecidableEq, Inhabited

/-- one comparison `lhs op rhs` of a range check -/
structure Check where
  lhs : Expr
  op : Cmp
  rhs : Expr
  deriving Repr, DecidableEq, Inhabited

/-- one arm of a resolution chain: taken when every name of `given` `is not None` and every name of `absent` `is None` -/
structure Branch where
  given : List String
  absent : List String
  assigns : List (String × Expr)
  deriving Repr, DecidableEq, Inhabited

structure Spec where
  name : String
  groups : List (List Branch)
  rejectIf : List Check
  require : List Check
  vertices : List (Expr × Expr)
  buffer : Expr
  attrs : List (String × Expr)
  classifiers : List String
  deriving Repr, Inhabited

/-- what `Profile.from_groove` does beyond the argument resolution (which is `spec`) -/
structure GrooveSpec where
  spec : Spec
  /-- `if filling > 1: logger.warning(...)` -/
  warnIf : List Check
  /-- `translate(groove.contour_line, yoff=…)`; the lower contour is the half-turn image about the origin -/
  yoff : Expr
  /-- checks after the polygon was built (`poly.bounds[i]` are variables): any true ⇒ ValueError -/
  lateReject : List Check
  /-- `clip_by_rect(poly, clipLo, -inf, clipHi, inf)` -/
  clipLo : Expr
  clipHi : Expr
  /-- the clipped polygon is tested with `is_valid` and rejected with ValueError otherwise -/
  validityChecked : Bool
  deriving Repr, Inhabited

/-! ### decision -/

def Branch.matches (b : Branch) (pres : String → Bool) : Bool :=
  b.given.all pres && b.absent.all (fun n => !pres n)

def selectBranch (pres : String → Bool) (g : List Branch) : Option Branch :=
  g.find? (fun b => b.matches pres)

/-- python rebinding of a local name -/
def rebind {α : Type} (ρ : String → α) (n : String) (v : α) : String → α :=
  fun m => if m = n then v else ρ m

def applyAssigns {α : Type} [PyNum α] (ρ : String → α) : List (String × Expr) → (String → α)
  | [] => ρ
  | a :: rest => applyAssigns (rebind ρ a.1 (a.2.eval ρ)) rest

/-- run the resolution chains in source order; `none` = some chain has no matching arm (`TypeError`) -/
def resolveGroups {α : Type} [PyNum α] (pres : String → Bool) (ρ : String → α) :
    List (List Branch) → Option (String → α)
  | [] => some ρ
  | g :: gs =>
    match selectBranch pres g with
    | none => none
    | some b => resolveGroups pres (applyAssigns ρ b.assigns) gs

def Check.holds {α : Type} [PyNum α] (ρ : String → α) (c : Check) : Bool :=
  match c.op with
  | .le => PyNum.le (c.lhs.eval ρ) (c.rhs.eval ρ)
  | .lt => PyNum.lt (c.lhs.eval ρ) (c.rhs.eval ρ)
  | .ge => PyNum.le (c.rhs.eval ρ) (c.lhs.eval ρ)
  | .gt => PyNum.lt (c.rhs.eval ρ) (c.lhs.eval ρ)

/-- the range test of a factory: `true` = `raise ValueError("argument value(s) out of range")` -/
def Spec.outOfRange {α : Type} [PyNum α] (s : Spec) (ρ : String → α) : Bool :=
  s.rejectIf.any (fun c => c.holds ρ) || !(s.require.all (fun c => c.holds ρ))

inductive Outcome (α : Type) where
  | typeError
  | valueError
  | ok (ρ : String → α)

/-- The decision of a factory. `pres n` = the argument `n` was given (is not `None`), `ρ n` its value. -/
def Spec.run {α : Type} [PyNum α] (s : Spec) (pres : String → Bool) (ρ : String → α) : Outcome α :=
  match resolveGroups pres ρ s.groups with
  | none => .typeError
  | some ρ' => if s.outOfRange ρ' then .valueError else .ok ρ'

def Outcome.isOk {α : Type} : Outcome α → Bool
  | .ok _ => true
  | _ => false

/-! ### the ideal shape -/

def maxL {α : Type} [PyNum α] : α → List α → α
  | m, [] => m
  | m, x :: xs => maxL (if PyNum.le m x then x else m) xs

/-- support function of a vertex list in direction `(dx, dy)` -/
def supp {α : Type} [PyNum α] (vs : List (α × α)) (dx dy : α) : α :=
  match vs.map (fun p => p.1 * dx + p.2 * dy) with
  | [] => PyNum.nat 0
  | x :: xs => maxL x xs

/-- extent of (core ⊕ disc r) measured along the unit direction `(dx, dy)` -/
def extent {α : Type} [PyNum α] (vs : List (α × α)) (r dx dy : α) : α :=
  supp vs dx dy + supp vs (-dx) (-dy) + PyNum.nat 2 * r

def cross {α : Type} [PyNum α] (p q : α × α) : α := p.1 * q.2 - q.1 * p.2

def dist {α : Type} [PyNum α] (p q : α × α) : α :=
  PyNum.sqrt ((q.1 - p.1) * (q.1 - p.1) + (q.2 - p.2) * (q.2 - p.2))

/-- twice the signed area of the closed ring `first … ` (shoelace) -/
def shoelaceFrom {α : Type} [PyNum α] (first : α × α) : List (α × α) → α
  | [] => PyNum.nat 0
  | [p] => cross p first
  | p :: q :: rest => cross p q + shoelaceFrom first (q :: rest)

def perimeterFrom {α : Type} [PyNum α] (first : α × α) : List (α × α) → α
  | [] => PyNum.nat 0
  | [p] => dist p first
  | p :: q :: rest => dist p q + perimeterFrom first (q :: rest)

def shoelace2 {α : Type} [PyNum α] : List (α × α) → α
  | [] => PyNum.nat 0
  | p :: rest => shoelaceFrom p (p :: rest)

def perimeter {α : Type} [PyNum α] : List (α × α) → α
  | [] => PyNum.nat 0
  | p :: rest => perimeterFrom p (p :: rest)

structure Shape (α : Type) where
  verts : List (α × α)
  r : α

def Spec.shape {α : Type} [PyNum α] (s : Spec) (ρ : String → α) : Shape α :=
  { verts := s.vertices.map (fun v => (v.1.eval ρ, v.2.eval ρ)), r := s.buffer.eval ρ }

namespace Shape
variable {α : Type} [PyNum α]

/-- overall width (z direction, first coordinate) of core ⊕ disc -/
def width (sh : Shape α) : α := extent sh.verts sh.r (PyNum.nat 1) (PyNum.nat 0)
/-- overall height (y direction, second coordinate) -/
def height (sh : Shape α) : α := extent sh.verts sh.r (PyNum.nat 0) (PyNum.nat 1)
/-- Steiner: area(core ⊕ disc r) = area(core) + r · perimeter(core) + π r² (convex core) -/
def area (sh : Shape α) : α :=
  PyNum.abs (shoelace2 sh.verts) / PyNum.nat 2 + sh.r * perimeter sh.verts + PyNum.pi * sh.r * sh.r

end Shape

/-! ### from_polygon and keyword attachment -/

/-- `Profile.from_polygon`: the generated list holds (predicate name, value on which ValueError is raised) in source order;
    `facts` gives the truth value of each predicate for the polygon at hand. `true` = accepted. -/
def polygonAccepted (checks : List (String × Bool)) (facts : String → Bool) : Bool :=
  checks.all (fun c => facts c.1 != c.2)

/-- `Profile.__init__`: `self.t = 0; self.__dict__.update(kwargs)` after python bound the explicit keywords
    (`cross_section`, `classifiers`) — a keyword given twice is a `TypeError` of the call itself.
    `none` = TypeError, otherwise the instance dictionary as an association list (later entries win on lookup from the
    front, so the update is modelled by prepending in reverse). -/
def attach {V : Type} (presets : List (String × V)) (explicit : List (String × V)) (kwargs : List (String × V)) :
    Option (List (String × V)) :=
  if kwargs.any (fun kv => explicit.any (fun e => e.1 = kv.1)) then none
  else some (kwargs.reverse ++ explicit.reverse ++ presets.reverse)

def lookup {V : Type} (d : List (String × V)) (k : String) : Option V :=
  match d.find? (fun kv => kv.1 = k) with
  | some kv => some kv.2
  | none => none

end Factory
