import PyrollModel.HookReg

/-
  HookEval — model of `Hook.get_result` / `HookFunction.__call__` (C01).

  `get_result(instance)` iterates the chain of the instance's class; the first result that is not `None` wins.
  A wrapper called on an instance it is already executing on (`id(instance) in _active_instances`) gets
  `cycle=True` and, following the documented protocol, returns `None`.  Otherwise it is marked active for this
  instance, runs to its `yield`, receives `hook.get_result(instance)` of the hook of `type(instance)` – the WHOLE
  chain again, in which it (and every wrapper entered before it) is now skipped as cycled – and returns its result.
  `get_result` treats a wrapper like every other function: when the wrapper returns `None` (before its `yield`:
  it declines; after it: it maps the inner value to `None`) the chain goes on with the next function – the mark
  of the wrapper is cleared by then, so a later wrapper evaluates a chain in which the earlier one runs again
  (the documented protocol excludes this point: a wrapper that wraps returns a value; see `coop`).

  The implementations are data (`Body`).  One structural recursion on `fuel` (python's recursion limit is not
  reached by the cases of the harness; fuel exhaustion is visible as the event `fuelOut`).
-/

namespace Hooks

/-- what the implementations record when they run -/
inductive Ev where
  /-- a plain implementation was called -/
  | call (id : Nat)
  /-- a delegating plain implementation created an instance of class `c` and read the hook on it -/
  | inst (c : Cls)
  /-- a wrapper was called un-cycled and runs up to its yield -/
  | enter (id : Nat)
  /-- the wrapper received the inner result and returns -/
  | exit (id : Nat)
  /-- a wrapper was called while executing on the same instance (`cycle=True`) and returned `None` -/
  | cyc (id : Nat)
  /-- a wrapper declined (returned `None` before yielding) -/
  | decl (id : Nat)
  | fuelOut
  deriving DecidableEq, Repr

/-- the value a wrapper returns for the inner value it received -/
def wapply : Body → Option Nat → Option Nat
  | .wrap k _, some x => some (10 * x + k)
  | .wrap _ d, none => d
  | _, _ => none

/-- `get_result` on instance `i` (instances are numbers; `0` is the instance of the read, an instance created by a
    delegating implementation is numbered by the length of the trace at that moment + 1).
    `full` = the chain of the instance's class, `rest` = what `functions_gen` has not yet yielded,
    `act` = the (function, instance) pairs currently executing, `depth` = nesting of delegations. -/
def ev (chainOf : Cls → List HF) :
    Nat → List HF → List HF → Nat → Nat → List (Nat × Nat) → List Ev → Option Nat × List Ev
  | 0, _, _, _, _, _, tr => (none, tr ++ [.fuelOut])
  | _ + 1, _, [], _, _, _, tr => (none, tr)
  | fuel + 1, full, f :: rest, i, depth, act, tr =>
    if f.wrapper then
      if (f.id, i) ∈ act then ev chainOf fuel full rest i depth act (tr ++ [.cyc f.id])
      else
        match f.body with
        | .decline => ev chainOf fuel full rest i depth act (tr ++ [.decl f.id])
        | b =>
          -- marked active; runs to the yield; the chain of type(instance) is evaluated again from its start
          let r := ev chainOf fuel full full i depth ((f.id, i) :: act) (tr ++ [.enter f.id])
          -- first result that is not None wins; a wrapper answering None is passed over like a plain function
          match wapply b r.1 with
          | some x => (some x, r.2 ++ [.exit f.id])
          | none => ev chainOf fuel full rest i depth act (r.2 ++ [.exit f.id])
    else
      match f.body with
      | .ret (some x) => (some x, tr ++ [.call f.id])
      | .delegate c =>
        if depth = 0 then
          let j := tr.length + 1
          let r := ev chainOf fuel (chainOf c) (chainOf c) j 1 ((f.id, i) :: act) (tr ++ [.call f.id, .inst c])
          match r.1 with
          | some x => (some x, r.2)
          | none => ev chainOf fuel full rest i depth act r.2
        else ev chainOf fuel full rest i depth act (tr ++ [.call f.id])
      | _ => ev chainOf fuel full rest i depth act (tr ++ [.call f.id])

def evalFuel : Nat := 1000000

/-- value and trace of `C().h` on a fresh instance (`none` = no value: AttributeError) -/
def readOut (st : State) (c : Cls) : Option Nat × List Ev :=
  ev (implOrder st) evalFuel (implOrder st c) (implOrder st c) 0 0 [] []

/-! ### what the property demands of one evaluation -/

/-- first result that is not `None` of the plain implementations, with the calls made -/
def plainSpec : List HF → Option Nat × List Ev
  | [] => (none, [])
  | p :: ps =>
    match p.body with
    | .ret (some x) => (some x, [.call p.id])
    | _ => ((plainSpec ps).1, .call p.id :: (plainSpec ps).2)

def firstSome (ps : List HF) : Option Nat := (plainSpec ps).1

/-- how a wrapper that is not (or no longer) to be entered answers: a declining one declines, an active one is cycled -/
def skipEv (h : HF) : Ev := if h.body = .decline then .decl h.id else .cyc h.id

/-- each (non-declining) wrapper applied exactly once around the value of the rest of the chain -/
def foldW (ws : List HF) (v : Option Nat) : Option Nat :=
  (ws.filter fun w => w.body != .decline).foldr (fun w acc => wapply w.body acc) v

/-- the documented wrapper protocol as far as results are concerned: every wrapper that wraps answers a value
    (not `None`) for the value it receives from the rest of the chain -/
def coop (v : Option Nat) : List HF → Bool
  | [] => true
  | w :: ws => coop v ws && (decide (w.body = .decline) || (wapply w.body (foldW ws v)).isSome)

/-- the wrappers entered / left and the plain implementations called, as recorded -/
def enters : List Ev → List Nat
  | [] => []
  | .enter i :: tr => i :: enters tr
  | _ :: tr => enters tr

def exits : List Ev → List Nat
  | [] => []
  | .exit i :: tr => i :: exits tr
  | _ :: tr => exits tr

def calls : List Ev → List Nat
  | [] => []
  | .call i :: tr => i :: calls tr
  | _ :: tr => calls tr

/-- value and complete trace of the evaluation of the chain `pre ++ ws ++ ps` when the non-declining wrappers of
    `pre` are already active -/
def specM (ps : List HF) : List HF → List HF → Option Nat × List Ev
  | _, [] => plainSpec ps
  | pre, w :: ws =>
    let r := specM ps (pre ++ [w]) ws
    if w.body = .decline then (r.1, .decl w.id :: r.2)
    else (wapply w.body r.1, .enter w.id :: ((pre ++ [w]).map skipEv ++ r.2) ++ [.exit w.id])

/-- fuel that suffices for `specM` -/
def needM (ps : List HF) : List HF → List HF → Nat
  | _, [] => ps.length + 1
  | pre, w :: ws =>
    if w.body = .decline then 1 + needM ps (pre ++ [w]) ws
    else 1 + (pre.length + 1) + needM ps (pre ++ [w]) ws

/-! ### the chain of a class split into its wrappers and its plain implementations -/

def wrappersOf (l : List HF) : List HF := l.filter (·.wrapper)
def plainsOf (l : List HF) : List HF := l.filter fun f => !f.wrapper

def noDelegate (l : List HF) : Bool := l.all fun p => match p.body with | .delegate _ => false | _ => true

end Hooks
