import PyrollModel.OutCS
import PyrollModel.OutCSCache
import PyrollModel.EvalDriver
/-
  Line-protocol driver of the outgoing-cross-section model (C08).  State: the current contour and environment.

    contour <x bits> <y bits> <x bits> <y bits> ...   -> ok <n>          (roll contour = groove contour)
    env k=<bits> k=<bits> ...                          -> ok              (`@valid` = 0 makes `is_valid` answer False)
    run <program>                                      -> `ok <x y x y ...> # <meas>=<bits> ...` | `raised <exc> # ...`
    cache <two|three> <g0 bits> <g1 bits> ...          -> `ok used=<bits|none> lines=.. ucs=.. gap=..`: one `Unit.solve` of a fresh
                                                          pass in the model `OutCS.Cache` (generated memo, `reevaluate_cache`
                                                          chain, loop body, `init_solve`); the gap hook answers g0 during
                                                          `init_solve` and g_k in iteration k
    <formula name> k=<bits> ...                        -> EvalDriver (generated formula table)
-/
namespace OutCSDriver
open OutCS PassGeom

structure CacheCfg where
  memo : Cache.Memo
  chain : List (List Cache.ROp)
  loop : List Cache.LStep
  init : List Cache.IOp

structure Cfg where
  progs : List (String × Prog)
  table : List (String × Expr)
  caches : List (String × CacheCfg) := []

structure St where
  contour : List (Pt Float) := []
  env : List (String × Float) := []

def fnan : Float := 0.0 / 0.0

def parsePts : List String → Option (List (Pt Float))
  | [] => some []
  | [_] => none
  | a :: b :: rest => do
    let x ← floatOfBitsStr a
    let y ← floatOfBitsStr b
    let r ← parsePts rest
    pure (⟨x, y⟩ :: r)

def showPts (l : List (Pt Float)) : String :=
  " ".intercalate (l.map fun p => floatToBitsStr p.x ++ " " ++ floatToBitsStr p.y)

def handle (cfg : Cfg) (st : St) (line : String) : St × String :=
  match Proto.toks line with
  | "contour" :: rest =>
    match parsePts rest with
    | some pts => ({ st with contour := pts }, s!"ok {pts.length}")
    | none => (st, "bad-op")
  | "env" :: rest =>
    match rest.mapM EvalDriver.parseBinding with
    | some e => ({ st with env := e }, "ok")
    | none => (st, "bad-op")
  | ["run", name] =>
    match cfg.progs.find? (fun p => p.1 = name) with
    | none => (st, "unknown-program")
    | some (_, p) =>
      let ρ := envOf fnan st.env
      let valid := !(ρ "@valid" == 0.0)
      let S : Sig Float (List (Pt Float)) := VL (fun _ => st.contour) (fun _ => valid)
      let μ := measEnv S ρ p.meas
      let ms := " ".intercalate (p.meas.map fun m => m.1 ++ "=" ++ floatToBitsStr (μ m.1))
      match p.run S ρ with
      | .ok g => (st, "ok " ++ showPts g ++ " # " ++ ms)
      | .raised e => (st, "raised " ++ e ++ " # " ++ ms)
  | "cache" :: which :: g0 :: rest =>
    match cfg.caches.find? (fun p => p.1 = which), floatOfBitsStr g0, rest.mapM floatOfBitsStr with
    | some (_, c), some a, some gs =>
      let s := Cache.solve c.memo c.chain c.loop c.init a gs ({} : Cache.St Float)
      let sh := fun (o : Option Float) => match o with
        | some x => floatToBitsStr x
        | none => "none"
      (st, s!"ok used={sh s.used.head?} lines={sh s.lines} ucs={sh s.ucs} gap={sh s.gapC}")
    | _, _, _ => (st, "bad-op")
  | _ => (st, EvalDriver.handle cfg.table line)

partial def loop (cfg : Cfg) (h : IO.FS.Stream) (st : St) : IO Unit := do
  let line ← h.getLine
  if line.isEmpty then return ()
  let (st', out) := handle cfg st (line.trimAscii.toString)
  IO.println out
  loop cfg h st'

def main (cfg : Cfg) : IO Unit := do loop cfg (← IO.getStdin) {}

end OutCSDriver
