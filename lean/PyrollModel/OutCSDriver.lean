import PyrollModel.OutCS
import PyrollModel.OutCSCache
import PyrollModel.EvalDriver
/-
  Line-protocol driver of the outgoing-cross-section model (C08).  State: the current contour and environment.

    contour <x bits> <y bits> <x bits> <y bits> ...   -> ok <n>          (roll contour = groove contour)
    env k=<bits> k=<bits> ...                          -> ok              (`@valid` = 0 makes `is_valid` answer False)
    run <program>                                      -> `ok <x y x y ...> # <meas>=<bits> ...` | `raised <exc> # ...`
    cache <two|three> <solve> [/ <solve>]*             -> `ok used=<prov|none> lines=.. ucs=.. gap=<bits|none> ocs=<outcs> next=<outcs>`: the history of ONE
                                                          pass object, fresh at the start, in the model `OutCS.Cache` (generated
                                                          memos, `reevaluate_cache` chains of pass and roll, loop body,
                                                          `init_solve`); <solve> = `<k> <new|same> <g0 bits> <g1 bits> ...`:
                                                          `Unit.solve` with groove number k on the rolls (`new`: on a roll object
                                                          put in just before), the gap hook answering g0 during `init_solve` and
                                                          g_i in iteration i; <prov> = `<gap bits>:<k of the roll's contour
                                                          line>:<k read directly | ->`; `ocs` = what the out profile's
                                                          cross-section holds after the history, `next` = what it holds after one
                                                          more `init_solve` (the START value of a further solve); <outcs> =
                                                          `none` | `inherited` | `seeded:<prov>` | `built:<prov>`
    <formula name> k=<bits> ...                        -> EvalDriver (generated formula table)
-/
namespace OutCSDriver
open OutCS PassGeom

structure CacheCfg where
  pass : Cache.Pass
  loop : List Cache.LStep
  init : List Cache.IOp

structure Cfg where
  progs : List (String × Prog)
  table : List (String × Expr)
  caches : List (String × CacheCfg) := []

structure St where
  contour : List (Pt Float) := []
  env : List (String × Float) := []

def fnan : Float := 0.0 / 0.0

def parsePts : List String → Option (List (Pt Float))
  | [] => some []
  | [_] => none
  | a :: b :: rest => do
    let x ← floatOfBitsStr a
    let y ← floatOfBitsStr b
    let r ← parsePts rest
    pure (⟨x, y⟩ :: r)

def showPts (l : List (Pt Float)) : String :=
  " ".intercalate (l.map fun p => floatToBitsStr p.x ++ " " ++ floatToBitsStr p.y)

/-- `<k> <new|same> <g0 bits> <g1 bits> ...` -/
def parseSolve : List String → Option (List (Cache.Act Float Nat))
  | k :: fresh :: g0 :: rest => do
    let k ← k.toNat?
    let a ← floatOfBitsStr g0
    let gs ← rest.mapM floatOfBitsStr
    let pre ← (if fresh = "new" then some [Cache.Act.newRoll] else if fresh = "same" then some [] else none)
    pure (pre ++ [Cache.Act.solve k a gs])
  | _ => none

/-- split at the `/` tokens (one structural recursion; `cur` = the tokens of the current part, reversed) -/
def splitSolves : List String → List String → List (List String)
  | [], cur => [cur.reverse]
  | t :: rest, cur => if t = "/" then cur.reverse :: splitSolves rest [] else splitSolves rest (t :: cur)

def showProv (o : Option (Cache.Prov Float Nat)) : String :=
  match o with
  | some v => floatToBitsStr v.gap ++ ":" ++ toString v.line ++ ":" ++ (match v.direct with | some d => toString d | none => "-")
  | none => "none"

def showProvV (v : Cache.Prov Float Nat) : String :=
  floatToBitsStr v.gap ++ ":" ++ toString v.line ++ ":" ++ (match v.direct with | some d => toString d | none => "-")

def showOutCs (o : Option (Cache.OutCs Float Nat)) : String :=
  match o with
  | none => "none"
  | some .inherited => "inherited"
  | some (.seeded l) => "seeded:" ++ showProvV l
  | some (.built l) => "built:" ++ showProvV l

/-- groove and last gap of the last solve of a history (for one more `init_solve` on the same set-up) -/
def lastSolve : List (Cache.Act Float Nat) → Option (Nat × Float) → Option (Nat × Float)
  | [], r => r
  | .solve k g0 gs :: rest, _ => lastSolve rest (some (k, gs.getLast?.getD g0))
  | .newRoll :: rest, r => lastSolve rest r

def handle (cfg : Cfg) (st : St) (line : String) : St × String :=
  match Proto.toks line with
  | "contour" :: rest =>
    match parsePts rest with
    | some pts => ({ st with contour := pts }, s!"ok {pts.length}")
    | none => (st, "bad-op")
  | "env" :: rest =>
    match rest.mapM EvalDriver.parseBinding with
    | some e => ({ st with env := e }, "ok")
    | none => (st, "bad-op")
  | ["run", name] =>
    match cfg.progs.find? (fun p => p.1 = name) with
    | none => (st, "unknown-program")
    | some (_, p) =>
      let ρ := envOf fnan st.env
      let valid := !(ρ "@valid" == 0.0)
      let S : Sig Float (List (Pt Float)) := VL (fun _ => st.contour) (fun _ => valid)
      let μ := measEnv S ρ p.meas
      let ms := " ".intercalate (p.meas.map fun m => m.1 ++ "=" ++ floatToBitsStr (μ m.1))
      match p.run S ρ with
      | .ok g => (st, "ok " ++ showPts g ++ " # " ++ ms)
      | .raised e => (st, "raised " ++ e ++ " # " ++ ms)
  | "cache" :: which :: rest =>
    match cfg.caches.find? (fun p => p.1 = which), (splitSolves rest []).mapM parseSolve with
    | some (_, c), some acts =>
      let s := Cache.history c.pass c.loop c.init acts.flatten ({} : Cache.St Float Nat)
      let sh := fun (o : Option Float) => match o with
        | some x => floatToBitsStr x
        | none => "none"
      let nxt := match lastSolve acts.flatten none with
        | some (k, g) => (Cache.initSolve c.pass g k c.init s).ocs
        | none => s.ocs
      (st, s!"ok used={showProv s.used.head?} lines={showProv s.lines} ucs={showProv s.ucs} gap={sh s.gapC} ocs={showOutCs s.ocs} next={showOutCs nxt}")
    | _, _ => (st, "bad-op")
  | _ => (st, EvalDriver.handle cfg.table line)

partial def loop (cfg : Cfg) (h : IO.FS.Stream) (st : St) : IO Unit := do
  let line ← h.getLine
  if line.isEmpty then return ()
  let (st', out) := handle cfg st (line.trimAscii.toString)
  IO.println out
  loop cfg h st'

def main (cfg : Cfg) : IO Unit := do loop cfg (← IO.getStdin) {}

end OutCSDriver
