/-
  SolveBody — the part of one loop body of `Unit.solve` that decides WHAT is compared and WHAT is rebuilt (C05):

    * `get_root_hook_results` of a roll pass: which hook hosts (in profile, unit, out profile, roll) contribute their
      persisted results to the vector of the stop test.  `Unit` evaluates its profiles and itself; sub-classes override the
      method as `super().get_root_hook_results() ++ self.roll.evaluate_and_set_hooks()`.  Which definition a concrete class
      runs is python's method resolution: the first class of `type(self).__mro__` that defines the method, `super()`
      continuing behind it.
    * `reevaluate_cache` of a roll pass: the derived-geometry memos (`_contour_lines` of the pass, `_contour_line` of the
      roll: "build on first use, keep") that are thrown away at the start of every loop body, so that the geometry used in
      an iteration is built from the gap / roll contour of THAT iteration.

  The method tables (class ↦ statement roles of its definition) and the resolution orders are read from the source on every
  run (`Gen.C05.result_methods`, `eval_methods`, `cache_methods`, `mro`); this file gives them their meaning.
  Import-free, every function one structural recursion.
-/

namespace SolveBody

/-- class ↦ statement roles of its definition of one method -/
abbrev Methods := List (String × List String)

def lookup (t : Methods) (c : String) : Option (List String) := (t.find? fun x => x.1 == c).map (·.2)

/-- the roles executed by `obj.method()` for an object whose class has the resolution order `chain`: the first class that
    defines the method; the role "super" stands for `super().method()` = the same search behind that class; a chain without
    any definition does nothing -/
def resolve (t : Methods) : List String → List String
  | [] => []
  | c :: rest =>
    let behind := resolve t rest
    match lookup t c with
    | none => behind
    | some roles => roles.flatMap fun r => if r == "super" then behind else [r]

def mroOf (mro : Methods) (cls : String) : List String := (lookup mro cls).getD []

/-- the hook hosts whose persisted results make up the vector `cls.get_root_hook_results()` returns, in the order of the
    concatenation (`t` = the concatenation orders) resp. in the order they are evaluated (`t` = the evaluation orders) -/
def resultParts (mro t : Methods) (cls : String) : List String := resolve t (mroOf mro cls)

/-- the result vector of one iterate: every part contributes the values it holds (`vals`) -/
def vector {α : Type} (parts : List String) (vals : String → List α) : List α := parts.flatMap vals

/-- what `cls.reevaluate_cache()` does: the roles of the pass's own resolution, with `roll.reevaluate` (the call
    `self.roll.reevaluate_cache()`) replaced by what the roll's class (`cls.Roll`, the nested class the attribute `roll`
    is an instance of) does, prefixed by `roll:` -/
def cacheEffects (mro t : Methods) (cls : String) : List String :=
  (resolve t (mroOf mro cls)).flatMap fun r =>
    if r == "roll.reevaluate" then (resolve t (mroOf mro (cls ++ ".Roll"))).map fun x => "roll:" ++ x else [r]

/-! ### the geometry memos

      @property
      def contour_lines(self):                       # BaseRollPass / TwoRollPass / ThreeRollPass
          if self._contour_lines: return self._contour_lines
          … build from self.roll.contour_line and self.gap …
          self._contour_lines = …; return self._contour_lines

  and the same one level down for `Roll.contour_line` (`_contour_line`, built from the roll's contour points).
  `reevaluate_cache` is a sequence of statements of four kinds (in the order python runs them: overrides and `super()`
  resolved, the roll's method inlined where `self.roll.reevaluate_cache()` stands):

      roll:reevaluate-cached    `HookHost.reevaluate_cache` of the roll: its remembered hook values are recomputed - the
                                values the contour line is built from CHANGE; the functions may read `contour_line`: a memo
                                that is present is used, an absent one is built from the half-recomputed values - and stays
      reevaluate-cached         the same for the pass: the values the pass contour is built from (gap …) change; the functions
                                may read `contour_lines`, which uses a present memo or builds one from the half-recomputed
                                values and from the roll's `contour_line` (memo, or built from the roll's values as they are)
      clear:_contour_lines      `self._contour_lines = None`
      roll:clear:_contour_line  `self._contour_line = None` on the roll

  `G` = what a geometry is built from (gap, contour points, …), `ρ` = the roll's contour line, `γ` = the pass contour. -/

inductive Eff where
  | recomputePass | recomputeRoll | clearPass | clearRoll | other
  deriving DecidableEq, Repr

def effOf (r : String) : Eff :=
  if r == "reevaluate-cached" then .recomputePass
  else if r == "roll:reevaluate-cached" then .recomputeRoll
  else if r == "clear:_contour_lines" then .clearPass
  else if r == "roll:clear:_contour_line" then .clearRoll
  else .other

/-- the statements of `reevaluate_cache` in execution order -/
def program (effects : List String) : List Eff := effects.map effOf

/-- what is known about the roll's memo: absent / if present then built from the roll's values as they are NOW / anything -/
inductive Tag where
  | none | good | bad
  deriving DecidableEq, Repr

/-- abstract state: (a pass memo may exist - it is never known to be current -, the roll memo's tag) -/
def stepAbs : Bool × Tag → Eff → Bool × Tag
  | (p, _), .recomputeRoll => (p, .bad)                 -- the roll's values change under whatever memo exists or is built
  | (_, .bad), .recomputePass => (true, .bad)
  | (_, _), .recomputePass => (true, .good)             -- `contour_line` read while the roll's values are at rest
  | (_, r), .clearPass => (false, r)
  | (p, _), .clearRoll => (p, .none)
  | s, .other => s

def survivors (prog : List Eff) : Bool × Tag := prog.foldl stepAbs (true, .bad)

/-- THE PREDICATE a `reevaluate_cache` must satisfy: whatever memos exist when it is called (built from the values of the
    previous iteration, or by a user), when it returns no pass contour is memoised and a memoised roll contour line - if any -
    was built from the roll's values as they are after the call; in particular no memo of derived geometry survives that was
    built from values of the previous iteration or from half-recomputed ones -/
def leavesNoStaleMemo (prog : List Eff) : Bool := (survivors prog).1 == false && (survivors prog).2 != .bad

/-- a second, stronger wish (NOT needed for C05, stated for reference): the recomputation itself never reads a memo that
    was there before the call.  State = which memos from BEFORE the call still exist (a recomputation leaves those and builds
    the absent ones anew; only the clearing statements remove them). -/
def recomputeReadsNoOldMemo (prog : List Eff) : Bool :=
  (prog.foldl (fun (acc : (Bool × Bool) × Bool) e =>
    match e with
    | .recomputePass => (acc.1, acc.2 && !acc.1.1 && !acc.1.2)
    | .recomputeRoll => (acc.1, acc.2 && !acc.1.2)
    | .clearPass => ((false, acc.1.2), acc.2)
    | .clearRoll => ((acc.1.1, false), acc.2)
    | .other => acc) ((true, true), true)).2

variable {G ρ γ : Type}

/-- what the hook values a geometry is built from do during one loop body's `reevaluate_cache`: the roll's are `rollMid` in the
    middle of the roll's recomputation and `rollNew` after it, the pass's `passMid` / `passNew`; without a recomputation they
    stay what they were -/
structure BodyIn (G : Type) where
  rollMid : G
  rollNew : G
  passMid : G
  passNew : G

/-- concrete state: the two memos, the roll's and the pass's current values -/
structure MemoState (G ρ γ : Type) where
  pm : Option γ
  rm : Option ρ
  rv : G
  pv : G

/-- one statement of `reevaluate_cache` -/
def stepEff (bR : G → ρ) (bP : G → ρ → γ) (i : BodyIn G) (s : MemoState G ρ γ) : Eff → MemoState G ρ γ
  | .recomputeRoll => { s with rm := some (s.rm.getD (bR i.rollMid)), rv := i.rollNew }
  | .recomputePass =>
    let r := s.rm.getD (bR s.rv)
    { s with pm := some (s.pm.getD (bP i.passMid r)), rm := some r, pv := i.passNew }
  | .clearPass => { s with pm := none }
  | .clearRoll => { s with rm := none }
  | .other => s

/-- consecutive loop bodies: body `i` runs `reevaluate_cache` (`prog`), then the hook functions use the memoised pass contour;
    `s` = memos and values the first body finds (whatever an earlier solve, `init_solve` or a user left there).
    → per body: (the pass contour used, the roll contour line used, the roll's values, the pass's values after
    `reevaluate_cache`) -/
def usedGeometries (bR : G → ρ) (bP : G → ρ → γ) (prog : List Eff) : List (BodyIn G) → MemoState G ρ γ → List (γ × ρ × G × G)
  | [], _ => []
  | i :: is, s =>
    let s' := prog.foldl (stepEff bR bP i) s
    let r := s'.rm.getD (bR s'.rv)
    let c := s'.pm.getD (bP s'.pv r)
    (c, r, s'.rv, s'.pv) :: usedGeometries bR bP prog is { s' with pm := some c, rm := some r }

end SolveBody
