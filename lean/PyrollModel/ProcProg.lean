import PyrollModel.Proc
import PyrollModel.Gen.C18

/-!
  ProcProg — interpreter for the programs which `driver/translate/c18_procs.py` reads out of
  `pyroll/core/unit/unit.py` (C18, tie T): the class attributes `pre_processors` / `post_processors`,
  `Unit.__init_subclass__`, `_yield_pre_processors` / `_yield_post_processors`, `init_solve`, `solve`,
  `_solve_subunits`.

  `Gen.C18` holds the statements of the python source as instructions.  This file says what one instruction does to
  the state of the hand-written model (`Proc.Hier` for the class side, `Proc.RState` + event trace for the run side);
  `PyrollProps/C18.lean` (section "What the source says") proves that running the generated programs equals the
  hand-written `defClass`, `walk`, `chain`, `initSolve`, `solveLeaf`, `solveSubs`, `iterate`, `solveSeq`.

  `none` as a result = the python code raises (attribute of `None`, unbound local, iteration over `None`) or the
  statement is outside the translated subset; the model has no such outcome, so a program that can reach it does
  not refine the model.  As in `Proc.lean`, an attribute `self.in_profile` / `self.out_profile` that is still
  `None` reads as object `0`, what a processor does is given by its `Beh`, the own solution of a unit is the mark it
  writes on its `out_profile`, and the number of iterations of the solution loop is an input.
-/

namespace Proc
open Gen.C18

def _root_.Gen.C18.Kind.isPre : Kind → Bool
  | .pre => true
  | .post => false

/-! ## class side -/

/-- does the statement list bind a fresh empty list to the attribute `k`? -/
def assigns (k : Kind) : List CInstr → Bool
  | [] => false
  | .freshList k' :: is => (k' == k) || assigns k is
  | _ :: is => assigns k is

def translated : List CInstr → Bool
  | [] => true
  | .untranslated :: _ => false
  | _ :: is => translated is

/-- `class C(bases)` as the source has it: `bodyP` = the statements of the body of `Unit` (run when `body`: the class
defined IS `Unit`), `hook` = `Unit.__init_subclass__` (run with `cls` = the new class when the implicit
`__init_subclass__` call of `type.__new__` reaches it: `reaches`).  The hook runs after the body. -/
def runDefClass (bodyP : List CInstr) (hook : ClassHook) (H : Hier) (tail : List Nat) (isub : InitSub) (body : Bool) :
    Option Hier :=
  if translated bodyP && translated hook.body then
    let c := H.n
    let l : Bool → Option (List Nat) := fun w =>
      let k : Kind := if w then .pre else .post
      if (reaches H.isub tail && hook.defined && assigns k hook.body) || (body && assigns k bodyP) then some []
      else none
    some { n := H.n + 1,
           mro := fun k => if k = c then c :: tail else H.mro k,
           isub := fun k => if k = c then isub else H.isub k,
           lists := fun w k => if k = c then l w else H.lists w k }
  else none

/-- one round of the walk's loop: what the class `s` contributes -/
def walkStep (p : Walk) (H : Hier) (s : Nat) : Option (List Nat) :=
  let found : Option (List Nat) :=
    match p.lookup with
    | .getattr => lookup (H.lists p.kind.isPre) (H.mro s)
    | .ownDict => H.lists p.kind.isPre s
  match found with
  | some l => some l
  | none =>
    match p.dflt with
    | .empty => some []
    | .none => if p.noneGuard then some [] else none      -- `yield from None`: TypeError

/-- `yield from` over all rounds -/
def collect (step : Nat → Option (List Nat)) : List Nat → Option (List Nat)
  | [] => some []
  | s :: ss =>
    match step s, collect step ss with
    | some a, some b => some (a ++ b)
    | _, _ => none

/-- `_yield_pre_processors` / `_yield_post_processors` of an instance of class `c` -/
def runWalk (p : Walk) (H : Hier) (c : Nat) : Option (List Nat) :=
  if p.defined then
    collect (walkStep p H)
      (match p.order with
       | .mroReversed => (H.mro c).reverse
       | .mroForward => H.mro c)
  else none

/-! ## run side -/

/-- the frame of one call of `init_solve` / `solve` on unit `u` -/
structure MEnv where
  st : RState
  arg : Nat
  loc : Option Nat := none
  ret : Option Nat := none

def MEnv.get (e : MEnv) (u : Nat) : Ref → Option Nat
  | .arg => some e.arg
  | .loc => e.loc
  | .selfIn => some ((e.st.uin u).getD 0)
  | .selfOut => some ((e.st.uout u).getD 0)

def MEnv.set (e : MEnv) (u : Nat) : Ref → Nat → MEnv
  | .arg, v => { e with arg := v }
  | .loc, v => { e with loc := some v }
  | .selfIn, v => { e with st := { e.st with uin := fun x => if x = u then some v else e.st.uin x } }
  | .selfOut, v => { e with st := { e.st with uout := fun x => if x = u then some v else e.st.uout x } }

def MEnv.setOpt (e : MEnv) (u : Nat) : Option Ref → Nat → MEnv
  | none, _ => e
  | some r, v => e.set u r v

def MEnv.withHeap (e : MEnv) (h : Heap) : MEnv := { e with st := { e.st with heap := h } }

inductive Ctl where
  | next | stop
  deriving DecidableEq, Repr

/-- the body of the factory loop for ONE factory `f`; `p`: what the local holding the processor is bound to
(`none` = not bound yet, `some none` = `None`) -/
def execBody (E : Env) (w : Bool) (u f : Nat) : List PInstr → Option (Option Nat) → MEnv → Option (MEnv × List Ev × Ctl)
  | [], _, e => some (e, [], .next)
  | .callFactory :: is, _, e =>
    match execBody E w u f is (some (E.fac f u)) e with
    | some (e', evs, c) => some (e', .consult w f u :: evs, c)
    | none => none
  | .ifNone act :: is, p, e =>
    match p with
    | none => none
    | some none => some (e, [], match act with | .skip => .next | .stop => .stop)
    | some (some q) => execBody E w u f is (some (some q)) e
  | .logProc :: is, p, e =>
    match p with
    | some (some q) => execBody E w u f is (some (some q)) e
    | _ => none
  | .solve dst src :: is, p, e =>
    match p, e.get u src with
    | some (some q), some obj =>
      let r := applyProc E.beh e.st.heap q obj
      match execBody E w u f is (some (some q)) ((e.withHeap r.1).setOpt u dst r.2) with
      | some (e', evs, c) => some (e', .proc w q obj r.2 :: evs, c)
      | none => none
    | _, _ => none
  | .untranslated :: _, _, _ => none

/-- `for factory in <fs>: body` -/
def runLoop (E : Env) (w : Bool) (u : Nat) (body : List PInstr) : List Nat → MEnv → Option (MEnv × List Ev)
  | [], e => some (e, [])
  | f :: fs, e =>
    match execBody E w u f body none e with
    | none => none
    | some (e1, ev1, .stop) => some (e1, ev1)
    | some (e1, ev1, .next) =>
      match runLoop E w u body fs e1 with
      | none => none
      | some (e2, ev2) => some (e2, ev1 ++ ev2)

/-- one round of the solution loop; `subsF` = `self._solve_subunits()`.  The harness observes the round (event
`own`) where `_solve_subunits` is called. -/
def execL (u : Nat) (subsF : RState → Option (RState × List Ev)) : List LInstr → RState → Option (RState × List Ev)
  | [], st => some (st, [])
  | .solveSubunits :: is, st =>
    match subsF st with
    | none => none
    | some (st1, e1) =>
      match execL u subsF is st1 with
      | none => none
      | some (st2, e2) => some (st2, .own u :: e1 ++ e2)
  | .untranslated :: _, _ => none
  | _ :: is, st => execL u subsF is st

/-- the solution loop running `k` rounds (the number of rounds is numeric, hence an input) -/
def iterProg (u : Nat) (subsF : RState → Option (RState × List Ev)) (body : List LInstr) :
    Nat → RState → Option (RState × List Ev)
  | 0, st => some (st, [])
  | k + 1, st =>
    match execL u subsF body st with
    | none => none
    | some (st1, e1) =>
      match iterProg u subsF body k st1 with
      | none => none
      | some (st2, e2) => some (st2, e1 ++ e2)

/-! ### the re-use branch of `init_solve`

The model's profile objects carry their marks: ONE public entry that is no root hook and that every profile has.  So
of the re-use branch the model sees what it does to such an entry which both the source profile and the existing out
profile hold. -/

/-- what is known of an entry name at one moment of the branch -/
structure EntryFacts where
  pub : Bool
  root : Bool
  handed : Bool
  present : Bool

def litHolds (v : EntryFacts) : RLit → Bool
  | .isPublic pos => v.pub == pos
  | .isRoot pos => v.root == pos
  | .isHanded pos => v.handed == pos
  | .isPresent pos => v.present == pos

/-- the marks of the re-used out profile after the branch: `old` what it carried, `new` what the source profile
carries.  Delete loop (conjunction) first, then the set loop (disjunction) on what is left. -/
def refreshMarks (r : Refresh) (old new : List Mark) : List Mark :=
  let deleted := r.delete.all (litHolds { pub := true, root := false, handed := true, present := true })
  if r.set.any (litHolds { pub := true, root := false, handed := true, present := !deleted }) then new
  else if deleted then [] else old

/-- The same for ANY public entry that is no root hook (a value a pre-processor ADDED, CHANGED, or did not take over):
`old` = what the existing out profile holds under that name (`none`: no such entry), `new` = what the source profile
holds.  The delete loop runs over the entries of the out profile, then the set loop over the handed-over entries (the
public entries of the source profile), each evaluating the literals AS READ. -/
def refreshEntry {α : Type} (r : Refresh) (old new : Option α) : Option α :=
  let facts : Bool → EntryFacts := fun present => { pub := true, root := false, handed := new.isSome, present := present }
  let afterDelete : Option α := if old.isSome && r.delete.all (litHolds (facts true)) then none else old
  match new with
  | some v => if r.set.any (litHolds (facts afterDelete.isSome)) then some v else afterDelete
  | none => afterDelete

/-- does the statement (re)bind the profile variable `x`? -/
def rebinds (x : Ref) : SInstr → Bool
  | .bind dst _ => dst == x
  | .publicCopy dst _ => dst == x
  | .loop l => l.body.any (fun i => match i with | .solve (some d) _ => d == x | _ => false)
  | _ => false

/-- `self.in_profile` counts as the variable `t` it was built from (`self.in_profile = self.InProfile(self, t)`: a new
object holding the public entries of `t`) as long as `t` is not rebound -/
def resolveRef (alias : Option Ref) (r : Ref) : Ref :=
  match r, alias with
  | .selfIn, some t => t
  | r, _ => r

/-- the profile variables from which `init_solve` builds `self.in_profile`, a new `self.out_profile`, and from which
its re-use branch hands over to an existing out profile (in statement order); `alias`: what `self.in_profile` was
built from so far -/
def handoverRefsFrom : Option Ref → List SInstr → List Ref
  | _, [] => []
  | _, .newIn t :: is => t :: handoverRefsFrom (some t) is
  | a, .newOut t _ :: is => resolveRef a t :: handoverRefsFrom a is
  | a, .newOrRefreshOut t r :: is => resolveRef a t :: resolveRef a r.src :: handoverRefsFrom a is
  | a, i :: is =>
    handoverRefsFrom (match a with | some t => if rebinds t i then none else some t | none => none) is

def handoverRefs (p : List SInstr) : List Ref := handoverRefsFrom none p

/-- what the methods called from `init_solve` / `solve` do -/
structure Callees where
  /-- `self._yield_pre_processors()` (`true`) / `self._yield_post_processors()` of an instance of a class -/
  walk : Bool → Nat → Option (List Nat)
  /-- `self.init_solve(x)` -/
  initSolve : RState → Nat → Option (RState × List Ev)
  /-- `self._solve_subunits()` -/
  solveSubunits : RState → Option (RState × List Ev)
  /-- rounds of the solution loop -/
  iters : Nat

/-- the statements of `init_solve` / `solve` of unit `u`; stops at `return` -/
def execS (E : Env) (C : Callees) (u : Nat) : List SInstr → MEnv → Option (MEnv × List Ev)
  | [], e => some (e, [])
  | .bind dst src :: is, e =>
    match e.get u src with
    | some v => execS E C u is (e.set u dst v)
    | none => none
  | .loop l :: is, e =>
    match C.walk l.walk.isPre (E.ucls u) with
    | none => none
    | some fs =>
      match runLoop E l.walk.isPre u l.body fs e with
      | none => none
      | some (e1, ev1) =>
        match execS E C u is e1 with
        | none => none
        | some (e2, ev2) => some (e2, ev1 ++ ev2)
  | .newIn tmpl :: is, e =>
    match e.get u tmpl with
    | none => none
    | some t =>
      let r := e.st.heap.alloc (e.st.heap.marks t)
      execS E C u is ((e.withHeap r.1).set u .selfIn r.2)
  | .newOut tmpl onlyIfUnset :: is, e =>
    match e.get u tmpl with
    | none => none
    | some t =>
      if onlyIfUnset && (e.st.uout u).isSome then execS E C u is e
      else
        let r := e.st.heap.alloc (e.st.heap.marks t)
        execS E C u is ((e.withHeap r.1).set u .selfOut r.2)
  | .newOrRefreshOut tmpl r :: is, e =>
    match e.st.uout u with
    | none =>
      match e.get u tmpl with
      | none => none
      | some t =>
        let a := e.st.heap.alloc (e.st.heap.marks t)
        execS E C u is ((e.withHeap a.1).set u .selfOut a.2)
    | some op =>
      match e.get u r.src with
      | none => none
      | some s =>
        execS E C u is
          (e.withHeap (e.st.heap.setMarks op (refreshMarks r (e.st.heap.marks op) (e.st.heap.marks s))))
  | .initSolve a :: is, e =>
    match e.get u a with
    | none => none
    | some v =>
      match C.initSolve e.st v with
      | none => none
      | some (st1, ev1) =>
        match execS E C u is { e with st := st1 } with
        | none => none
        | some (e2, ev2) => some (e2, ev1 ++ ev2)
  | .iterLoop body :: is, e =>
    match iterProg u C.solveSubunits body C.iters (ownStep e.st u) with
    | none => none
    | some (st1, ev1) =>
      match execS E C u is { e with st := st1 } with
      | none => none
      | some (e2, ev2) => some (e2, ev1 ++ ev2)
  | .publicCopy dst src :: is, e =>
    match e.get u src with
    | none => none
    | some o =>
      let r := e.st.heap.alloc (e.st.heap.marks o)
      execS E C u is ((e.withHeap r.1).set u dst r.2)
  | .ret r :: _, e =>
    match e.get u r with
    | none => none
    | some v => some ({ e with ret := some v }, [])
  | .retCopy r :: _, e =>
    match e.get u r with
    | none => none
    | some o =>
      let a := e.st.heap.alloc (e.st.heap.marks o)
      some ({ (e.withHeap a.1) with ret := some a.2 }, [])
  | .untranslated :: _, _ => none

/-! ### `_solve_subunits` -/

def uget (st : RState) (s c last : Nat) : URef → Nat
  | .last => last
  | .selfIn => (st.uin s).getD 0
  | .selfOut => (st.uout s).getD 0
  | .memberOut => (st.uout c).getD 0
  | .memberIn => (st.uin c).getD 0

/-- the body of `for u in self._subunits:` for ONE member `c` of the unit `s`; `member` = `c.solve(profile)` -/
def execMember (member : RState → Nat → Nat → Option (RState × Nat × List Ev)) (s c : Nat) :
    List UInstr → RState → Nat → Option (RState × Nat × List Ev)
  | [], st, last => some (st, last, [])
  | .solveMember keep src :: is, st, last =>
    match member st c (uget st s c last src) with
    | none => none
    | some (st1, r1, e1) =>
      match execMember member s c is st1 (if keep then r1 else last) with
      | none => none
      | some (st2, r2, e2) => some (st2, r2, e1 ++ e2)
  | .bind src :: is, st, last => execMember member s c is st (uget st s c last src)
  | .untranslated :: _, _, _ => none

def runMembers (member : RState → Nat → Nat → Option (RState × Nat × List Ev)) (s : Nat) (body : List UInstr) :
    List Nat → RState → Nat → Option (RState × Nat × List Ev)
  | [], st, last => some (st, last, [])
  | c :: cs, st, last =>
    match execMember member s c body st last with
    | none => none
    | some (st1, r1, e1) =>
      match runMembers member s body cs st1 r1 with
      | none => none
      | some (st2, r2, e2) => some (st2, r2, e1 ++ e2)

/-- `self._solve_subunits()` of the unit `s` holding the sub-units `subs` -/
def runSubs (member : RState → Nat → Nat → Option (RState × Nat × List Ev)) (p : Subs) (s : Nat) (subs : List Nat)
    (st : RState) : Option (RState × List Ev) :=
  if p.defined then
    match runMembers member s p.body subs st (uget st s 0 0 p.start) with
    | none => none
    | some (st1, _, e1) => some (st1, e1)
  else none

/-! ### the methods as a whole -/

/-- everything the translator read about the run side -/
structure Progs where
  yieldPre : Walk
  yieldPost : Walk
  initSolve : List SInstr
  solve : List SInstr
  subs : Subs

def Progs.walk (P : Progs) (H : Hier) (w : Bool) (c : Nat) : Option (List Nat) :=
  runWalk (if w then P.yieldPre else P.yieldPost) H c

/-- what `init_solve` may call: the walks (it calls neither itself nor `_solve_subunits`) -/
def initCallees (P : Progs) (E : Env) : Callees :=
  { walk := P.walk E.H, initSolve := fun _ _ => none, solveSubunits := fun _ => none, iters := 0 }

/-- `u.init_solve(inp)` -/
def runInitSolve (P : Progs) (E : Env) (u : Nat) (st : RState) (inp : Nat) : Option (RState × List Ev) :=
  match execS E (initCallees P E) u P.initSolve { st := st, arg := inp } with
  | none => none
  | some (e, evs) => some (e.st, evs)

/-- `u.solve(inp)` where `member` solves a sub-unit; the harness observes entry and exit (`enter`, `leave` with the
three profiles of the unit at that moment) -/
def runSolveWith (member : RState → Nat → Nat → Option (RState × Nat × List Ev)) (P : Progs) (E : Env) (st : RState)
    (u : Nat) (subs : List Nat) (iters inp : Nat) : Option (RState × Nat × List Ev) :=
  match execS E { walk := P.walk E.H, initSolve := runInitSolve P E u,
                  solveSubunits := runSubs member P.subs u subs, iters := iters } u
      P.solve { st := st, arg := inp } with
  | none => none
  | some (e, evs) =>
    match e.ret with
    | none => none
    | some r =>
      let ip := (e.st.uin u).getD 0
      let op := (e.st.uout u).getD 0
      some (e.st, r, .enter u inp :: evs ++
        [.leave u r ip op (e.st.heap.marks r) (e.st.heap.marks ip) (e.st.heap.marks op)])

/-- `solve` of a unit without sub-units (the harness counts its rounds as one) -/
def runLeaf (P : Progs) (E : Env) (st : RState) (u inp : Nat) : Option (RState × Nat × List Ev) :=
  runSolveWith (fun _ _ _ => none) P E st u [] 1 inp

/-- `solve` of a unit whose sub-units are leaves -/
def runSeq (P : Progs) (E : Env) (st : RState) (s : Nat) (subs : List Nat) (iters inp : Nat) :
    Option (RState × Nat × List Ev) :=
  runSolveWith (runLeaf P E) P E st s subs iters inp

/-- all programs of the run side as the translator read them from the current source -/
def srcProgs : Progs :=
  { yieldPre := Gen.C18.yield_pre, yieldPost := Gen.C18.yield_post, initSolve := Gen.C18.init_solve,
    solve := Gen.C18.solve, subs := Gen.C18.solve_subunits }

/-- the class history which the `class` statements and the module-level registrations of the library amount to
(`Gen.C18.libClasses`, `Gen.C18.libRegistrations`): one `defClass` per class (the class named `Unit` runs the body
with the two list attributes and owns `__init_subclass__`), then one `register` per registration, the library's
factories numbered from 900 -/
def opsOfLib (cls : List (String × List Nat × Bool)) (regs : List (String × Kind × String × String)) : List COp :=
  cls.map (fun c => .defClass c.2.1
      (if c.1 = "Unit" then (if c.2.2 then .unitImpl else .absent) else (if c.2.2 then .coop else .absent))
      (c.1 = "Unit")) ++
  regs.zipIdx.map (fun r => .register r.1.2.1.isPre (cls.findIdx (fun c => c.1 = r.1.1)) (900 + r.2))

end Proc
