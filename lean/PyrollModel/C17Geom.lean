import PyrollModel.Expr
/-
  C17Geom — the shape in which the translator (driver/translate/c17_geo.py) emits the GEOMETRIC source items of C17:

  * the chord methods `Profile.local_height` / `Profile.local_width` (pyroll/core/profile/profile.py): the geometry term
    whose `.length` they return, every attribute of `self` they read, the ones among them that are NOT hooks (instance
    state outside the hook system, e.g. a memo kept from an earlier call) and every attribute they write;
  * `shapes.rectangle` (corner list) together with the `width` / `height` properties pyroll gives to shapely geometries, and
    the arguments `Profile.equivalent_rectangle` passes to `rectangle`.

  Import-free (core Lean only): the executable part (`extent`, `shoelace`) is run over `Float` by the model driver
  (lean/Drivers/c17.lean) against the real `rectangle(...)`; the meaning over ℝ is in PyrollProofs/C17Chords.lean.
-/
namespace C17Geom

/-- geometry-valued terms (shapely objects) -/
inductive Geo where
  /-- a geometry-valued attribute of `self` (`self.cross_section`) -/
  | attr (path : String)
  /-- `g.buffer(dist)` -/
  | buffer (g : Geo) (dist : Expr)
  /-- `LineString([(z0, y0), (z1, y1)])` -/
  | segment (z0 y0 z1 y1 : Expr)
  /-- `a.intersection(b)` -/
  | inter (a b : Geo)
  /-- anything outside the translated subset -/
  | opaque (src : String)
  deriving Repr, DecidableEq, Inhabited

namespace Geo
/-- numeric variables (attribute paths of `self`, the method parameter) a geometry term reads -/
def numVars : Geo → List String
  | attr _ => []
  | buffer g d => numVars g ++ d.vars
  | segment a b c d => a.vars ++ b.vars ++ c.vars ++ d.vars
  | inter a b => numVars a ++ numVars b
  | .opaque _ => []

/-- geometry-valued attributes of `self` a geometry term reads -/
def geoAttrs : Geo → List String
  | attr p => [p]
  | buffer g _ => geoAttrs g
  | segment _ _ _ _ => []
  | inter a b => geoAttrs a ++ geoAttrs b
  | .opaque _ => []

/-- the numeric sub-terms: buffer distances and segment coordinates -/
def numTerms : Geo → List Expr
  | attr _ => []
  | buffer g d => numTerms g ++ [d]
  | segment a b c d => [a, b, c, d]
  | inter a b => numTerms a ++ numTerms b
  | .opaque _ => []

/-- no part of the term is outside the translated subset -/
def translated : Geo → Bool
  | attr _ => true
  | buffer g _ => translated g
  | segment _ _ _ _ => true
  | inter a b => translated a && translated b
  | .opaque _ => false
end Geo

/-- one chord method as read from the source -/
structure ChordMethod where
  name : String
  /-- the coordinate parameter (`z` of `local_height`, `y` of `local_width`) -/
  param : String
  /-- attributes of `self` read that are hooks: values the hook system derives from the CURRENT state of the object -/
  reads : List String
  /-- attributes of `self` read that are not hooks, and module-level names other than the imported functions: state the
      hook system knows nothing about (it survives `reevaluate_cache()`, assignment of hooks, copies) -/
  hiddenReads : List String
  /-- attributes of `self` (or anything else) the method assigns, deletes or sets -/
  writes : List String
  /-- the method returns `result.length` -/
  result : Geo
  deriving Repr, DecidableEq, Inhabited

/-! ### polygons given by their corner list: what `bounds` and `area` mean for them -/

variable {α : Type} [PyNum α]

def pmin (a b : α) : α := if PyNum.le a b then a else b
def pmax (a b : α) : α := if PyNum.le a b then b else a

/-- (min, max) of a list of coordinates — `bounds` of the point set along one axis -/
def range1 : List α → α × α
  | [] => (PyNum.nat 0, PyNum.nat 0)
  | x :: r => r.foldl (fun (m : α × α) v => (pmin m.1 v, pmax m.2 v)) (x, x)

/-- shapely `bounds` = (min z, min y, max z, max y) of the corners -/
def bounds (pts : List (α × α)) : α × α × α × α :=
  let z := range1 (pts.map (·.1))
  let y := range1 (pts.map (·.2))
  (z.1, y.1, z.2, y.2)

/-- the environment in which the translated `width` / `height` properties of a geometry are evaluated -/
def boundsEnv (pts : List (α × α)) : String → α := fun n =>
  let b := bounds pts
  if n = "bounds[0]" then b.1 else if n = "bounds[1]" then b.2.1
  else if n = "bounds[2]" then b.2.2.1 else if n = "bounds[3]" then b.2.2.2 else PyNum.nat 0

/-- twice the signed area of the closed polygon through the points (shoelace sum), structural on the list with the
    first point carried along to close the ring -/
def shoelace2From (first : α × α) : List (α × α) → α
  | [] => PyNum.nat 0
  | [p] => p.1 * first.2 - first.1 * p.2
  | p :: q :: r => (p.1 * q.2 - q.1 * p.2) + shoelace2From first (q :: r)

/-- area of the polygon through the corners (counter-clockwise positive) -/
def shoelaceArea : List (α × α) → α
  | [] => PyNum.nat 0
  | p :: r => shoelace2From p (p :: r) / PyNum.nat 2

/-- corners given as formulas in `width`, `height` -/
def evalCorners (ρ : String → α) (cs : List (Expr × Expr)) : List (α × α) :=
  cs.map fun c => (c.1.eval ρ, c.2.eval ρ)

/-- the environment of `shapes.rectangle(width, height)` -/
def rectEnv (w h : α) : String → α := fun n =>
  if n = "width" then w else if n = "height" then h else PyNum.nat 0

end C17Geom
