import PyrollModel.Gen.C15
import PyrollModel.Proto
/-
  Line-protocol driver of the profile-factory model (C15).

    <factory> k=<float bits | _> …        factory ∈ round box diamond square hexagon from_groove
  `_` is python `None` (argument not given).  Unbound names evaluate to NaN.
  Answers:  `TypeError` | `ValueError` | `ok …` with the resolved attributes, the core vertices, the buffer distance
  and the ideal width / height / area / extents along 45°, 30° and 150° (all as IEEE bit patterns);
  for `from_groove`: the resolved width, filling, height, gap, the warning flag, yoff, the late (contour width)
  rejection flag and the clip interval.
      polygon is_simple=0|1 is_valid=0|1 is_empty=0|1 has_interiors=0|1   →  `ok` | `ValueError`
-/
namespace FactoryDriver
open Factory

def nan : Float := 0.0 / 0.0

def parseArg (s : String) : Option (String × Option Float) :=
  match s.splitOn "=" with
  | [k, v] => if v = "_" then some (k, none) else (floatOfBitsStr v).map fun x => (k, some x)
  | _ => none

def presOf (args : List (String × Option Float)) : String → Bool :=
  fun n => match args.find? (fun p => p.1 = n) with
    | some (_, some _) => true
    | _ => false

def envOfArgs (args : List (String × Option Float)) : String → Float :=
  fun n => match args.find? (fun p => p.1 = n) with
    | some (_, some x) => x
    | _ => nan

def b (x : Float) : String := floatToBitsStr x

def showShape (s : Spec) (ρ : String → Float) : String :=
  let sh := s.shape ρ
  let attrs := ",".intercalate (s.attrs.map fun a => s!"{a.1}={b (a.2.eval ρ)}")
  let verts := ";".intercalate (sh.verts.map fun p => s!"{b p.1},{b p.2}")
  let h2 : Float := Float.sqrt 2 / 2
  let c30 : Float := Float.sqrt 3 / 2
  s!"ok attrs:{attrs} verts:{verts} r:{b sh.r} w:{b sh.width} h:{b sh.height} a:{b sh.area} " ++
  s!"e45:{b (extent sh.verts sh.r h2 h2)} e30:{b (extent sh.verts sh.r c30 0.5)} e150:{b (extent sh.verts sh.r (-c30) 0.5)}"

def showGroove (g : GrooveSpec) (ρ : String → Float) : String :=
  let f (bb : Bool) := if bb then "1" else "0"
  s!"ok filling:{b (ρ "filling")} width:{b (ρ "width")} height:{b (ρ "height")} gap:{b (ρ "gap")} " ++
  s!"warn:{f (g.warnIf.any (·.holds ρ))} yoff:{b (g.yoff.eval ρ)} late:{f (g.lateReject.any (·.holds ρ))} " ++
  s!"lo:{b (g.clipLo.eval ρ)} hi:{b (g.clipHi.eval ρ)} validity:{f g.validityChecked}"

def handle (line : String) : String :=
  match Proto.toks line with
  | [] => "bad-op"
  | name :: rest =>
    match rest.mapM parseArg with
    | none => "bad-op"
    | some args =>
      if name = "polygon" then
        let facts : String → Bool := fun n => match args.find? (fun p => p.1 = n) with
          | some (_, some x) => x != 0.0
          | _ => false
        if polygonAccepted Gen.C15.from_polygon_checks facts then "ok" else "ValueError"
      else if name = "from_groove" then
        match Gen.C15.from_groove.spec.run (presOf args) (envOfArgs args) with
        | .typeError => "TypeError"
        | .valueError => "ValueError"
        | .ok ρ => showGroove Gen.C15.from_groove ρ
      else
        match Gen.C15.all.find? (fun s => s.name = name) with
        | none => "unknown-factory"
        | some s =>
          match s.run (presOf args) (envOfArgs args) with
          | .typeError => "TypeError"
          | .valueError => "ValueError"
          | .ok ρ => showShape s ρ

partial def loop (h : IO.FS.Stream) : IO Unit := do
  let line ← h.getLine
  if line.isEmpty then return ()
  IO.println (handle (line.trimAscii.toString))
  loop h

def main : IO Unit := do loop (← IO.getStdin)

end FactoryDriver
