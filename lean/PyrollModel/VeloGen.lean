import PyrollModel.Gen.C19
/-
  VeloGen — the model of `PyrollModel/Velo.lean` instantiated with the formulas the translator read out of
  pyroll/core/sequence/sequence.py (`PyrollModel/Gen/C19.lean`, regenerated on every run).
  Written once over any `PyNum` carrier: the driver runs it over `Float`, the theorems of `PyrollProps/C19.lean`
  are about it over ℝ.
-/
namespace VeloGen
open Velo

variable {α : Type} [PyNum α]

/-- environment of a recurrence: the neighbour's velocity and area, the area at the index written -/
def recEnv (v a a' : α) : String → α := fun n =>
  if n = "v_src" then v else if n = "a_src" then a else if n = "a_dst" then a' else PyNum.nat 0

/-- environment of the seed expressions (parameters of the two python functions) -/
def seedEnv (speed aux usable0 : α) : String → α := fun n =>
  if n = "final_speed" then speed else if n = "initial_speed" then speed
  else if n = "final_cross_section_area" then aux else if n = "in_profile.cross_section.area" then aux
  else if n = "roll_passes[0].usable_cross_section.area" then usable0 else PyNum.nat 0

def noEnv : String → α := fun _ => PyNum.nat 0

def backStep (v a a' : α) : α := Gen.C19.back_rec_e.eval (recEnv v a a')
def fwdStep (v a a' : α) : α := Gen.C19.fwd_rec_e.eval (recEnv v a a')
def backSeed (speed : α) : α := Gen.C19.back_seed_e.eval (seedEnv speed (PyNum.nat 0) (PyNum.nat 0))
def fwdSeed (speed inArea usable0 : α) : α := Gen.C19.fwd_seed_e.eval (seedEnv speed inArea usable0)
def backTol : α := Gen.C19.back_tol_e.eval noEnv
def fwdTol : α := Gen.C19.fwd_tol_e.eval noEnv

/-- `PassSequence.solve_velocities_backward` -/
def backward (S : Nat → List α → List α) (budget : Nat) (finalSpeed finalArea : α) (usable : List α) :
    Except Err (Result α) :=
  Velo.backward backStep backSeed backTol S budget finalSpeed finalArea usable

/-- `PassSequence.solve_velocities_forward` -/
def forward (S : Nat → List α → List α) (budget : Nat) (initialSpeed inArea : α) (usable : List α) :
    Except Err (Result α) :=
  Velo.forward fwdStep fwdSeed fwdTol S budget initialSpeed inArea usable

/-- the calculation on a sequence object whose unit list is `units` at the time of the call - whatever the list was
    before (units appended / inserted / exchanged / removed): the passes are read from the live list (`Velo.rollPasses`) -/
def backwardSeq (S : Nat → List α → List α) (budget : Nat) (finalSpeed finalArea : α) (units : List (SeqUnit α)) :
    Except Err (Result α) :=
  backward S budget finalSpeed finalArea (rollPasses units)

def forwardSeq (S : Nat → List α → List α) (budget : Nat) (initialSpeed inArea : α) (units : List (SeqUnit α)) :
    Except Err (Result α) :=
  forward S budget initialSpeed inArea (rollPasses units)

end VeloGen
