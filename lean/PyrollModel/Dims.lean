import PyrollModel.Impl
/-
  Dims — support definitions for the generated dimension certificates of C11 (lean/PyrollModel/Gen/C11.lean).

  * `gammaOf codes` is the variable typing `Γ : String → Option Int` used by `Expr.dim`.  It looks a name up by its
    `strCode` (the name read as a numeral in base 1114113 over its code points + 1, an injective code) instead of by
    string comparison: since Lean 4.2x a `String` is a UTF-8 byte array, and the kernel re-encodes both sides of every
    string comparison (≈ 0.2 ms each, 10⁵ of them for the tables of C11), whereas natural-number arithmetic and comparison
    are primitive kernel operations.  The generated file carries the readable table `gammaTable : List (String × Int)`
    and a kernel-checked theorem that `gammaCodes` is exactly its image under `strCode`.
  * `Cert Γ e d` is what one certificate says; `Entry`/`BadEntry` are table rows that CARRY their certificate, so that a
    statement quantified over a generated table needs no second evaluation.
-/
namespace Dims

def strCode (s : String) : Nat := s.toByteArray.data.toList.foldl (fun h b => h * 256 + b.toNat) 1

def natLookup (c : Nat) : List (Nat × Int) → Option Int
  | [] => none
  | (k, v) :: r => if k = c then some v else natLookup c r

def gammaOf (codes : List (Nat × Int)) : String → Option Int := fun n => natLookup (strCode n) codes

/-- homogeneous of degree `d`; the literal `0` (dimension `zero`) is homogeneous of every degree -/
def Cert (Γ : String → Option Int) (e : Expr) (d : Int) : Prop := Expr.dim Γ e = .is d ∨ Expr.dim Γ e = .zero

instance (Γ : String → Option Int) (e : Expr) (d : Int) : Decidable (Cert Γ e d) := by unfold Cert; infer_instance

/-- a row of a generated table of homogeneous terms -/
structure Entry (Γ : String → Option Int) where
  name : String
  key : String
  src : String
  e : Expr
  d : Int
  cert : Cert Γ e d

/-- a row of the generated table of terms whose certificate is NOT the declared one -/
structure BadEntry (Γ : String → Option Int) where
  name : String
  key : String
  src : String
  e : Expr
  d : Int
  bad : ¬ Cert Γ e d

end Dims
