import PyrollModel.HookUse
import PyrollModel.Proto
open Proto

/-
  Line-protocol driver of the hook registry / resolution model (C01).  One op per line in, one line out.

    reset
    class <c> <mro: c,b,a> <0|1>          ok | bad-class
    ext <c> | tc <c> | ti <c>             ok
    add <c> <first|normal|last> <0|1> <body>     ok <id> | AttributeError
        body:  ret <v|_>  |  del <c>  |  wrap <k> <d|_>  |  decline
    rm <c> <id>                           ok | AttributeError
    fns <c>                               <id list> | AttributeError
    read <c>                              <v|_> <trace>
    tv super <k> <c> | tv dict <s> <c>    ok | AttributeError          `super(K, C).h` / `S.__dict__["h"].__get__(None, C)` (or an instance holding an explicit value)
    rv super <k> <c> | rv dict <s> <c>    <v|_> <trace> | AttributeError     the same on a fresh instance: the value is computed
    add <c> <tier> 0 need <v> <0|1>       ok <id> | AttributeError     (plain implementation that needs the input; 1: takes `cycle`)
    add <c> <tier> 1 wneed <k> <d|_>      ok <id> | AttributeError     (wrapper `wrap k d` that reads the input before its yield)
    obj <o> <c>                           ok          object #o of class c, kept; no input
    oinp <o> <0|1|2>                      ok          input removed / unusable / supplied
    oread <o>                             <v|_|E> <trace>        `o.h`   (E: the ValueError of an implementation came out)
    ohas <o>                              <1|0|E> <trace>        `o.has_value("h")`
    oreval <o>                            <v|_|A|E|nocache> <trace>   `o.reevaluate_cache()`, v = what is cached afterwards
    obs <n>                               for the classes 0..n-1:  own|fw;w;lw;ff;f;lf    then ` | c:<ids marked active>`
-/

namespace Hooks

def optNat? (s : String) : Option (Option Nat) :=
  if s = "_" then some none else (s.toNat?).map some

def tier? : String → Option Tier
  | "first" => some .first
  | "normal" => some .normal
  | "last" => some .last
  | _ => none

def bool? : String → Option Bool
  | "0" => some false
  | "1" => some true
  | _ => none

def body? : List String → Option Body
  | ["ret", v] => do pure (.ret (← optNat? v))
  | ["del", c] => do pure (.delegate (← nat? c))
  | ["wrap", k, d] => do pure (.wrap (← nat? k) (← optNat? d))
  | ["decline"] => some .decline
  | _ => none

def parseOp : List String → Option Op
  | ["class", c, m, h] => do pure (.defClass (← nat? c) (← natList? m) (← bool? h))
  | ["ext", c] => do pure (.extension (← nat? c))
  | ["tc", c] => do pure (.touchClass (← nat? c))
  | ["ti", c] => do pure (.touchInst (← nat? c))
  | "add" :: c :: t :: w :: b => do pure (.add (← nat? c) (← tier? t) (← bool? w) (← body? b))
  | ["rm", c, i] => do pure (.remove (← nat? c) (← nat? i))
  | ["fns", c] => do pure (.readFns (← nat? c))
  | ["read", c] => do pure (.read (← nat? c))
  | ["tv", "super", k, c] => do pure (.touchVia (.super (← nat? k)) (← nat? c))
  | ["tv", "dict", s, c] => do pure (.touchVia (.dict (← nat? s)) (← nat? c))
  | ["rv", "super", k, c] => do pure (.readVia (.super (← nat? k)) (← nat? c))
  | ["rv", "dict", s, c] => do pure (.readVia (.dict (← nat? s)) (← nat? c))
  | _ => none

def showEv : Ev → String
  | .call i => s!"call{i}"
  | .inst c => s!"inst{c}"
  | .enter i => s!"enter{i}"
  | .exit i => s!"exit{i}"
  | .cyc i => s!"cyc{i}"
  | .decl i => s!"decl{i}"
  | .fuelOut => "fuelOut"

def showIds (l : List HF) : String := showNatList (l.map (·.id))

def showObj : Option HookObj → String
  | none => "0|"
  | some h => "1|" ++ ";".intercalate
      [showIds h.firstWr, showIds h.wr, showIds h.lastWr, showIds h.firstFns, showIds h.fns, showIds h.lastFns]

def dump (st : State) (n : Nat) : String :=
  " ".intercalate ((List.range n).map fun c => showObj (st.own c))

/-- what the operation answers (computed on the state BEFORE the step) -/
def answer (st : State) : Op → String
  | .defClass c m _ => if classOk st.mro c m then "ok" else "bad-class"
  | .add c _ _ _ => match (touch st c).own c with
    | some _ => s!"ok {st.next}"
    | none => "AttributeError"
  | .remove c _ => match (touch st c).own c with
    | some _ => "ok"
    | none => "AttributeError"
  | .readFns c => match (functionsOf st c).2 with
    | some l => showIds l
    | none => "AttributeError"
  | .read c =>
    let r := readOut st c
    " ".intercalate (showOptNat r.1 :: r.2.map showEv)
  | .touchVia v c => match viaLookup st v c with
    | some _ => "ok"
    | none => "AttributeError"
  | .readVia v c => match readViaOut ownerReuse st v c with
    | some r => " ".intercalate (showOptNat r.1 :: r.2.map showEv)
    | none => "AttributeError"
  | _ => "ok"

/-- what a use of the object `ob` answers (computed on the state BEFORE the step) -/
def useAnswer (u : UState) (ob : Obj) (op : UOp) : String :=
  if computes ob op then
    let r := evalObj u ob
    let head := match op, r.res with
      | .has _, .val (some _) => "1"
      | .has _, .val none => "0"
      | .has _, .err true => "0"
      | .reeval _, .err true => "A"
      | _, .val v => showOptNat v
      | _, .err true => "_"
      | _, .err false => "E"
    " ".intercalate (head :: r.tr.map showEv)
  else match op, ob.cache with
    | .reeval _, _ => "nocache"
    | .has _, _ => "1"
    | _, some (some v) => toString v
    | _, _ => "_"

def uanswer (u : UState) : UOp → String
  | .reg op => answer u.reg op
  | .addNeed c t v _ => answer u.reg (.add c t false (.ret (some v)))
  | .addNeedW c t k d => answer u.reg (.add c t true (.wrap k d))
  | .newObj _ _ => "ok"
  | .setInp _ _ => "ok"
  | .get o => match findObj u.objs o with
    | some ob => useAnswer u ob (.get o)
    | none => "no-object"
  | .has o => match findObj u.objs o with
    | some ob => useAnswer u ob (.has o)
    | none => "no-object"
  | .reeval o => match findObj u.objs o with
    | some ob => useAnswer u ob (.reeval o)
    | none => "no-object"

def parseUOp : List String → Option UOp
  | ["add", c, t, "0", "need", v, a] => do pure (.addNeed (← nat? c) (← tier? t) (← nat? v) (← bool? a))
  | ["add", c, t, "1", "wneed", k, d] => do pure (.addNeedW (← nat? c) (← tier? t) (← nat? k) (← optNat? d))
  | ["obj", o, c] => do pure (.newObj (← nat? o) (← nat? c))
  | ["oinp", o, s] => do pure (.setInp (← nat? o) (← nat? s))
  | ["oread", o] => do pure (.get (← nat? o))
  | ["ohas", o] => do pure (.has (← nat? o))
  | ["oreval", o] => do pure (.reeval (← nat? o))
  | t => (parseOp t).map .reg

def handle (u : UState) (line : String) : UState × String :=
  match toks line with
  | ["reset"] => (uinit, "ok")
  | ["obs", n] => match nat? n with
    | some n => (u, dump u.reg n ++ " | c:" ++ showNatList (u.marks.map (·.1)))
    | none => (u, "bad-op")
  | t => match parseUOp t with
    | some op => (ustep u op, uanswer u op)
    | none => (u, "bad-op")

partial def loop (h : IO.FS.Stream) (u : UState) : IO Unit := do
  let line ← h.getLine
  if line.isEmpty then return ()
  let (u', out) := handle u (line.trimAscii.toString)
  IO.println out
  loop h u'

def main : IO Unit := do loop (← IO.getStdin) uinit

end Hooks
