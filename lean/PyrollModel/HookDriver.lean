import PyrollModel.HookOps
import PyrollModel.Proto
open Proto

/-
  Line-protocol driver of the hook registry / resolution model (C01).  One op per line in, one line out.

    reset
    class <c> <mro: c,b,a> <0|1>          ok | bad-class
    ext <c> | tc <c> | ti <c>             ok
    add <c> <first|normal|last> <0|1> <body>     ok <id> | AttributeError
        body:  ret <v|_>  |  del <c>  |  wrap <k> <d|_>  |  decline
    rm <c> <id>                           ok | AttributeError
    fns <c>                               <id list> | AttributeError
    read <c>                              <v|_> <trace>
    obs <n>                               for the classes 0..n-1:  own|fw;w;lw;ff;f;lf
-/

namespace Hooks

def optNat? (s : String) : Option (Option Nat) :=
  if s = "_" then some none else (s.toNat?).map some

def tier? : String → Option Tier
  | "first" => some .first
  | "normal" => some .normal
  | "last" => some .last
  | _ => none

def bool? : String → Option Bool
  | "0" => some false
  | "1" => some true
  | _ => none

def body? : List String → Option Body
  | ["ret", v] => do pure (.ret (← optNat? v))
  | ["del", c] => do pure (.delegate (← nat? c))
  | ["wrap", k, d] => do pure (.wrap (← nat? k) (← optNat? d))
  | ["decline"] => some .decline
  | _ => none

def parseOp : List String → Option Op
  | ["class", c, m, h] => do pure (.defClass (← nat? c) (← natList? m) (← bool? h))
  | ["ext", c] => do pure (.extension (← nat? c))
  | ["tc", c] => do pure (.touchClass (← nat? c))
  | ["ti", c] => do pure (.touchInst (← nat? c))
  | "add" :: c :: t :: w :: b => do pure (.add (← nat? c) (← tier? t) (← bool? w) (← body? b))
  | ["rm", c, i] => do pure (.remove (← nat? c) (← nat? i))
  | ["fns", c] => do pure (.readFns (← nat? c))
  | ["read", c] => do pure (.read (← nat? c))
  | _ => none

def showEv : Ev → String
  | .call i => s!"call{i}"
  | .inst c => s!"inst{c}"
  | .enter i => s!"enter{i}"
  | .exit i => s!"exit{i}"
  | .cyc i => s!"cyc{i}"
  | .decl i => s!"decl{i}"
  | .fuelOut => "fuelOut"

def showIds (l : List HF) : String := showNatList (l.map (·.id))

def showObj : Option HookObj → String
  | none => "0|"
  | some h => "1|" ++ ";".intercalate
      [showIds h.firstWr, showIds h.wr, showIds h.lastWr, showIds h.firstFns, showIds h.fns, showIds h.lastFns]

def dump (st : State) (n : Nat) : String :=
  " ".intercalate ((List.range n).map fun c => showObj (st.own c))

/-- what the operation answers (computed on the state BEFORE the step) -/
def answer (st : State) : Op → String
  | .defClass c m _ => if classOk st.mro c m then "ok" else "bad-class"
  | .add c _ _ _ => match (touch st c).own c with
    | some _ => s!"ok {st.next}"
    | none => "AttributeError"
  | .remove c _ => match (touch st c).own c with
    | some _ => "ok"
    | none => "AttributeError"
  | .readFns c => match (functionsOf st c).2 with
    | some l => showIds l
    | none => "AttributeError"
  | .read c =>
    let r := readOut st c
    " ".intercalate (showOptNat r.1 :: r.2.map showEv)
  | _ => "ok"

def handle (st : State) (line : String) : State × String :=
  match toks line with
  | ["reset"] => (init, "ok")
  | ["obs", n] => match nat? n with
    | some n => (st, dump st n)
    | none => (st, "bad-op")
  | t => match parseOp t with
    | some op => (step st op, answer st op)
    | none => (st, "bad-op")

partial def loop (h : IO.FS.Stream) (st : State) : IO Unit := do
  let line ← h.getLine
  if line.isEmpty then return ()
  let (st', out) := handle st (line.trimAscii.toString)
  IO.println out
  loop h st'

def main : IO Unit := do loop (← IO.getStdin) init

end Hooks
