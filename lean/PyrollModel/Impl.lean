import PyrollModel.Expr
/-
  Impl — the shape in which the translator (driver/translate/pyexpr.py) emits one hook implementation read
  from /repo: the host class path, hook name, tier/wrapper flags, whether it takes the `cycle` flag, and its
  body as a list of guarded alternatives tried in order (`if g: return e`), ending with `none` when control
  falls off the end.
-/

inductive Guard where
  | tt
  | cycle
  | hasValue (obj attr : String)
  | hasSet (obj attr : String)
  | hasSetOrCached (obj attr : String)
  | hasCached (obj attr : String)
  | inSet (elem setPath : String)
  | isNone (path : String)
  | not (g : Guard)
  | and (a b : Guard)
  | or (a b : Guard)
  | opaque (src : String)
  deriving Repr, DecidableEq, Inhabited

inductive Body where
  | expr (e : Expr)
  | sumOver (coll attr : String)     -- `sum([u.attr for u in self.coll])`
  | none
  | opaque (src : String)
  deriving Repr, DecidableEq, Inhabited

structure Impl where
  host : String
  hook : String
  fn : String
  tier : Nat          -- 0 tryfirst, 1 normal, 2 trylast
  wrapper : Bool
  wantsCycle : Bool
  alts : List (Guard × Body)
  deriving Repr, DecidableEq, Inhabited

namespace Impl
/-- the formula of an implementation that is a single unguarded (or singly guarded) arithmetic expression -/
def mainExpr (i : Impl) : Option Expr :=
  i.alts.findSome? fun p => match p.2 with
    | .expr e => some e
    | _ => Option.none
end Impl
