import PyrollModel.Lifecycle
import PyrollModel.Gen.C02Units

/-
  RootUnits — WHICH OBJECTS the solution procedure evaluates root hooks on (C02, third sentence: "root hooks evaluated by
  the solver become explicit values of their object").

  `Unit.solve` calls `self.get_root_hook_results()` once per iteration; the method is overridden along the class hierarchy
  (`Unit`: in profile, out profile, the unit; `SymmetricRollPass`, `TwoRollPass`: `super()` + the working roll).  Which
  override evaluates which object is READ FROM THE SOURCE on every run (`driver/translate/c02_units.py` →
  `PyrollModel/Gen/C02Units.lean`: `mros`, `overrides`, `unitObjects`, `rootHooks`, `solveRootCalls`); this file is the
  python method resolution on those tables:

    * `evaluatedFrom ovr mro`  - `type(self).get_root_hook_results(self)`: the first class of the MRO that defines the method
                                 runs its statements; `super().get_root_hook_results()` continues behind that class;
    * `phaseOps`               - the `evaluate_and_set_hooks` calls of one iteration as operations of the life-cycle model
                                 (`Life.Op.evalRoot`), so that the theorems of `PyrollProps/C02.lean` speak about them;
    * `rootsOf`                - the root hooks that belong to a class (walk of the `root_hooks` list by owner along the MRO).

  Executable (`PyrollModel/RootUnitsDriver.lean`, `lean/Drivers/c02units.lean`); compared with the implementation by driver/props/c02_units.py.
-/

namespace RootUnits

open Gen.C02.Units

def assoc {α : Type} (k : Nat) : List (Nat × α) → Option α
  | [] => none
  | (a, v) :: l => if a = k then some v else assoc k l

/-- `__mro__` of a class of the generated table (an unknown class has only itself) -/
def mroOf (c : Nat) : List Nat := (assoc c mros).getD [c]

/-- the statements of one override; `sup` = what `super().get_root_hook_results()` evaluates.  A statement outside the
subset ((2, _)) contributes the impossible attribute 99, which no theorem accepts. -/
def runSteps (sup : List Nat) : List (Nat × Nat) → List Nat
  | [] => []
  | (0, _) :: ss => sup ++ runSteps sup ss
  | (1, a) :: ss => a :: runSteps sup ss
  | _ :: ss => 99 :: runSteps sup ss

/-- python method resolution of `get_root_hook_results` along an MRO: the attribute ids of the objects whose
`evaluate_and_set_hooks` runs, in order -/
def evaluatedFrom (ovr : List (Nat × List (Nat × Nat))) : List Nat → List Nat
  | [] => []
  | c :: rest =>
    match assoc c ovr with
    | none => evaluatedFrom ovr rest
    | some ss => runSteps (evaluatedFrom ovr rest) ss

/-- the objects ONE call of `get_root_hook_results()` on a unit of class `c` evaluates (attribute ids, in order) -/
def evaluated (c : Nat) : List Nat := evaluatedFrom overrides (mroOf c)

/-- ... per iteration of the loop of `Unit.solve` -/
def evaluatedPerIteration (c : Nat) : List Nat := (List.replicate solveRootCalls (evaluated c)).flatten

/-- the root hooks (hook ids, list order) that belong to class `k`: entries of `root_hooks` whose owner is in the MRO -/
def rootsOf (k : Nat) : List Nat :=
  (rootHooks.filter fun e => (mroOf k).contains e.1).map (·.2)

/-- the objects the library constructs for a unit class -/
def objectsOf (c : Nat) : List (Nat × Nat) := (assoc c unitObjects).getD []

/-- the `evaluate_and_set_hooks` calls of one iteration of a unit of class `c` whose objects are the instances `inst a` of the
life-cycle model -/
def phaseOps (inst : Nat → Life.Inst) (c : Nat) : List Life.Op :=
  (evaluatedPerIteration c).map fun a => Life.Op.evalRoot (inst a)

/-- a world of the life-cycle model carrying the class table and the root-hook list of the source -/
def worldOps : List Life.Op :=
  mros.map (fun e => Life.Op.defClass e.1 e.2) ++ [Life.Op.setRoots rootHooks]

end RootUnits
