import PyrollModel.Proc
import PyrollModel.Proto
open Proto

/-! Line-protocol driver of the processor model (C18): one op per line in, one line out. -/

namespace Proc

inductive FacKind where
  | always (p : Nat)
  | never
  | flag (p : Nat)       -- returns the processor only for units whose flag is set
  deriving Repr

structure DState where
  H : Hier
  facs : List (Nat × FacKind)
  behs : List (Nat × Beh)
  units : List (Nat × Bool × List Nat)     -- class, flag, sub-units (index = unit id)
  rs : RState
  named : List Nat                          -- profile objects the harness can refer to

def DState.init : DState :=
  { H := Proc.init, facs := [], behs := [], units := [], rs := RState.init, named := [] }

def lookupD {α : Type} (l : List (Nat × α)) (k : Nat) : Option α :=
  (l.find? (fun e => e.1 = k)).map (·.2)

def DState.env (d : DState) : Env :=
  { H := d.H,
    ucls := fun u => (d.units[u]?.map (·.1)).getD 0,
    fac := fun f u =>
      match lookupD d.facs f with
      | some (.always p) => some p
      | some (.flag p) => if (d.units[u]?.map (·.2.1)).getD false then some p else none
      | _ => none,
    beh := fun p => (lookupD d.behs p).getD .same }

def which? (s : String) : Option Bool :=
  if s = "p" then some true else if s = "q" then some false else none

def isub? (s : String) : Option InitSub :=
  if s = "a" then some .absent else if s = "c" then some .coop else if s = "n" then some .noncoop
  else if s = "u" then some .unitImpl else none

/-- the harness's processor behaviours (driver/props/c18.py: `BEHS`).  The model's state is the marks, so a processor
that hands back a NEW profile object in which it also added (`a`), changed (`c`) or did not take over (`d`) some other
value is `fresh`, one that does the same in place (`A`, `C`, `D`) is `inplace`; what happens to those other values is
looked at by the oracle on the real objects, and for the re-use branch of `init_solve` by `refreshEntry`
(ProcProg.lean) -/
def beh? (s : String) : Option Beh :=
  if s = "i" ∨ s = "A" ∨ s = "C" ∨ s = "D" then some .inplace
  else if s = "f" ∨ s = "a" ∨ s = "c" ∨ s = "d" then some .fresh
  else if s = "s" then some .same else none

def showOut : Out → String
  | .ok => "ok"
  | .cls c => s!"c{c}"
  | .attrError => "AttributeError"
  | .valueError => "ValueError"

def showMark : Mark → String
  | .proc p => s!"p{p}"
  | .own u => s!"o{u}"

def showMarks (l : List Mark) : String :=
  if l.isEmpty then "-" else ",".intercalate (l.map showMark)

def showW (w : Bool) : String := if w then "p" else "q"

def showEv : Ev → String
  | .enter u o => s!"E {u} #{o}"
  | .consult w f u => s!"C {showW w} {f} {u}"
  | .proc w p r t => s!"P {showW w} {p} #{r} #{t}"
  | .own u => s!"O {u}"
  | .leave u r i o mr mi mo => s!"L {u} #{r} #{i} #{o} {showMarks mr} {showMarks mi} {showMarks mo}"

def showEvs (l : List Ev) : String := ";".intercalate (l.map showEv)

def parseCOp (t : List String) : Option COp :=
  match t with
  | ["class", tail, i, b] => do pure (.defClass (← natList? tail) (← isub? i) ((← nat? b) != 0))
  | ["reg", w, c, f] => do pure (.register (← which? w) (← nat? c) (← nat? f))
  | ["unreg", w, c, f] => do pure (.unregister (← which? w) (← nat? c) (← nat? f))
  | ["clear", w, c] => do pure (.clear (← which? w) (← nat? c))
  | _ => none

def handle (d : DState) (line : String) : DState × String :=
  match toks line with
  | ["reset"] => (DState.init, "ok")
  | ["yield", w, c] => match which? w, nat? c with
    | some w, some c => (d, showNatList (walk d.H w c))
    | _, _ => (d, "bad-op")
  | ["yieldspec", w, c] => match which? w, nat? c with
    | some w, some c => (d, showNatList (yieldOf d.H w c))
    | _, _ => (d, "bad-op")
  | ["own", w, c] => match which? w, nat? c with
    | some w, some c => (d, match d.H.lists w c with | none => "_" | some l => showNatList l)
    | _, _ => (d, "bad-op")
  | ["fac", f, k, p] => match nat? f, nat? p with
    | some f, some p =>
      let kind? : Option FacKind :=
        if k = "always" then some (.always p) else if k = "never" then some .never
        else if k = "flag" then some (.flag p) else none
      (match kind? with
       | some kind => ({ d with facs := (f, kind) :: d.facs }, "ok")
       | none => (d, "bad-op"))
    | _, _ => (d, "bad-op")
  | ["beh", p, b] => match nat? p, beh? b with
    | some p, some b => ({ d with behs := (p, b) :: d.behs }, "ok")
    | _, _ => (d, "bad-op")
  | ["unit", c, fl] => match nat? c, nat? fl with
    | some c, some fl => ({ d with units := d.units ++ [(c, fl != 0, [])] }, s!"u{d.units.length}")
    | _, _ => (d, "bad-op")
  | ["seq", c, fl, subs] => match nat? c, nat? fl, natList? subs with
    | some c, some fl, some subs =>
      ({ d with units := d.units ++ [(c, fl != 0, subs)] }, s!"u{d.units.length}")
    | _, _, _ => (d, "bad-op")
  | ["setflag", u, fl] => match nat? u, nat? fl with
    -- unit state the unit-dependent factories look at changes BETWEEN solves (`Env` is rebuilt for every solve:
    -- the factories are asked again, nothing of an earlier solve's answers is kept)
    | some u, some fl =>
      (match d.units[u]? with
       | some (c, _, subs) => ({ d with units := d.units.set u (c, fl != 0, subs) }, "ok")
       | none => (d, "bad-op"))
    | _, _ => (d, "bad-op")
  | ["newprof"] =>
    let (h, o) := d.rs.heap.alloc []
    ({ d with rs := { d.rs with heap := h }, named := d.named ++ [o] }, s!"#{o}")
  | ["solve", u, k] => match nat? u, nat? k with
    | some u, some k =>
      (match d.named[k]? with
       | some inp =>
         let (rs, ret, evs) := solveLeaf d.env d.rs u inp
         ({ d with rs := rs, named := d.named ++ [ret] }, showEvs evs)
       | none => (d, "bad-op"))
    | _, _ => (d, "bad-op")
  | ["solveseq", s, iters, k] => match nat? s, nat? iters, nat? k with
    | some s, some iters, some k =>
      (match d.named[k]? with
       | some inp =>
         let subs := (d.units[s]?.map (·.2.2)).getD []
         let (rs, ret, evs) := solveSeq d.env d.rs s subs iters inp
         ({ d with rs := rs, named := d.named ++ [ret] }, showEvs evs)
       | none => (d, "bad-op"))
    | _, _, _ => (d, "bad-op")
  | t => match parseCOp t with
    | some op => let (H', o) := step d.H op; ({ d with H := H' }, showOut o)
    | none => (d, "bad-op")

partial def loop (h : IO.FS.Stream) (d : DState) : IO Unit := do
  let line ← h.getLine
  if line.isEmpty then return ()
  let (d', out) := handle d (line.trimAscii.toString)
  IO.println out
  loop h d'

def main : IO Unit := do loop (← IO.getStdin) DState.init

end Proc
