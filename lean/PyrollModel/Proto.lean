/- Line-protocol helpers shared by the model drivers. -/

namespace Proto

def toks (line : String) : List String :=
  (line.splitOn " ").filter (fun s => s ≠ "")

def nat? (s : String) : Option Nat := s.toNat?
def int? (s : String) : Option Int := s.toInt?

/-- `_` is python `None` -/
def optInt? (s : String) : Option (Option Int) :=
  if s = "_" then some none else (s.toInt?).map some

/-- comma separated naturals, `-` is the empty list -/
def natList? (s : String) : Option (List Nat) :=
  if s = "-" then some [] else (s.splitOn ",").mapM (fun t => t.toNat?)

def showNatList (l : List Nat) : String :=
  if l.isEmpty then "-" else ",".intercalate (l.map toString)

def showOptNat : Option Nat → String
  | none => "_"
  | some n => toString n

end Proto
