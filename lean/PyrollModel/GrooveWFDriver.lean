import PyrollModel.GrooveWF
import PyrollModel.Gen.C03
import PyrollModel.Proto
/-!
Line-protocol driver of the groove construction model (C03), run on `Float` with the tables generated from the source.

```
construct <simple 0|1> <N> cfg <k>=<bits> … args <k>=<bits> …
      GenericElongationGroove(**args) with Config constants `cfg`, GEOS' is_simple verdict `simple` and
      Config.GROOVE_RADIUS_POINT_COUNT = N
      -> `ok <n> <z bits> <y bits> … | <junction>=<bits> … | <resolved arg>=<bits> …`
       | `err missing|negative|bound|arity|empty|check:<i>`
name <code point>,<code point>,…        create_groove_by_type_name's normalisation of the name (`-` = empty string)
      -> `<normalised, as code points> <resolved class | ->`
spline <ndim> <row>;<row>;…             row = <bits>,<bits>,… : the shape checks of SplineGroove.__init__ (with the generated face test) -> `1` | `0`
tables                                   -> the names of the generated checks, in order
```
floats are IEEE bit patterns (decimal `UInt64`).
-/
namespace GrooveWFDriver
open GrooveWF

def nan : Float := 0.0 / 0.0

def binding? (s : String) : Option (String × Float) :=
  match s.splitOn "=" with
  | [k, v] => (floatOfBitsStr v).map fun x => (k, x)
  | _ => none

def showErr : Err → String
  | .missing => "missing"
  | .negative => "negative"
  | .bound => "bound"
  | .arity => "arity"
  | .empty => "empty"
  | .check i => s!"check:{i}"

def showBind (p : String × Float) : String := p.1 ++ "=" ++ floatToBitsStr p.2

def checkName : Check → String
  | .scalarGt .. => "scalarGt"
  | .simple .. => "simple"
  | .finite .. => "finite"
  | .zStrict .. => "zStrict"
  | .yBelow .. => "yBelow"
  | .deepest .. => "deepest"

def splitAt (tok : String) : List String → List String × List String
  | [] => ([], [])
  | t :: r => if t = tok then ([], r) else let (a, b) := splitAt tok r; (t :: a, b)

def handleConstruct (rest : List String) : String :=
  match rest with
  | simple :: n :: "cfg" :: more =>
    let (cfgT, argT) := splitAt "args" more
    match n.toNat?, cfgT.mapM binding?, argT.mapM binding? with
    | some N, some cfg, some args =>
      match construct Gen.C03.spec (fun _ => simple = "1") cfg N nan ⟨args⟩ with
      | .error e => "err " ++ showErr e
      | .ok g =>
        let σ := envOfL nan (g.env ++ cfg)
        let js := Gen.C03.spec.chain.map fun (nm, e) => showBind (nm, e.eval σ)
        let coords := g.pts.flatMap fun p => [floatToBitsStr p.z, floatToBitsStr p.y]
        s!"ok {g.pts.length} " ++ " ".intercalate coords ++ " | " ++ " ".intercalate js ++ " | "
          ++ " ".intercalate (g.env.map showBind)
    | _, _, _ => "bad-op"
  | _ => "bad-op"

def chars? (s : String) : Option (List Char) :=
  if s = "-" then some [] else (s.splitOn ",").mapM fun t => t.toNat?.map Char.ofNat

def showChars (s : String) : String :=
  if s.isEmpty then "-" else ",".intercalate (s.toList.map fun c => toString c.toNat)

def handleName (rest : List String) : String :=
  match rest with
  | [enc] =>
    match chars? enc with
    | some cs =>
      let name := String.ofList cs
      showChars (normalise Gen.C03.factory name) ++ " " ++
        (match resolveClass Gen.C03.factory Gen.C03.classes name with | some c => c | none => "-")
    | none => "bad-op"
  | _ => "bad-op"

def row? (s : String) : Option (List Float) :=
  if s = "-" then some [] else (s.splitOn ",").mapM floatOfBitsStr

def handleSpline (rest : List String) : String :=
  match rest with
  | [nd, rows] =>
    match nd.toNat?, (if rows = "-" then some [] else (rows.splitOn ";").mapM row?) with
    | some n, some rs => if splineAccepts Gen.C03.splineFace Gen.C03.splineChecks n rs then "1" else "0"
    | _, _ => "bad-op"
  | _ => "bad-op"

def handle (line : String) : String :=
  match Proto.toks line with
  | "construct" :: rest => handleConstruct rest
  | "name" :: rest => handleName rest
  | "spline" :: rest => handleSpline rest
  | ["tables"] => " ".intercalate (Gen.C03.spec.checks.map checkName)
  | _ => "bad-op"

partial def loop (h : IO.FS.Stream) : IO Unit := do
  let line ← h.getLine
  if line.isEmpty then return ()
  IO.println (handle line.trimAscii.toString)
  loop h

def main : IO Unit := do loop (← IO.getStdin)

end GrooveWFDriver
