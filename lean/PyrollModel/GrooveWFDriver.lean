import PyrollModel.GrooveWF
import PyrollModel.Gen.C03
import PyrollModel.GrooveWFFactory
import PyrollModel.Gen.C03Factory
import PyrollModel.GrooveWFRibbed
import PyrollModel.Gen.C03Ribbed
import PyrollModel.Proto
/-!
Line-protocol driver of the groove construction model (C03), run on `Float` with the tables generated from the source.

```
construct <simple 0|1> <N> cfg <k>=<bits> … args <k>=<bits> …
      GenericElongationGroove(**args) with Config constants `cfg`, GEOS' is_simple verdict `simple` and
      Config.GROOVE_RADIUS_POINT_COUNT = N
      -> `ok <n> <z bits> <y bits> … | <junction>=<bits> … | <resolved arg>=<bits> …`
       | `err missing|negative|bound|arity|empty|check:<i>`
name <code point>,<code point>,…        create_groove_by_type_name's normalisation of the name (`-` = empty string)
      -> `<normalised, as code points> <resolved class | ->`
lookup <code points> <ns> <ns> …        the factory's lookup (generated statement list `Gen.C03Factory.steps`) of the name in a world:
      first <ns> = namespace of the package, the others = `sys.modules.values()` in load order;
      <ns> = <label>:<attr>=<g|t|f>[@<owner>/<object name>],…   (g groove class, t other truthy object, f falsy object; an
      object is identified by owner/name, default <label>/<attr>)
      -> `called <owner>/<name>` | `notfound` | `callednone` | `fell`
ribbed given <k>=<bits> … sol <k>=<bits> … kw <k>=<bits> …
      EquivalentRibbedGroove(**given, **kw) with the generated table `Gen.C03Ribbed.ribbed`; `sol` = the solver's answer
      (`sol.alpha3`, `sol.flank_angle`)
      -> `<ok|rejected> <keyword of super().__init__>=<bits> … | <keyword of the solver call>=<bits> …`
         (`rejected`: the `validated` decorator raises)
spline <ndim> <row>;<row>;…             row = <bits>,<bits>,… : the shape checks of SplineGroove.__init__ (with the generated face test) -> `1` | `0`
tables                                   -> the names of the generated checks, in order
```
floats are IEEE bit patterns (decimal `UInt64`).
-/
namespace GrooveWFDriver
open GrooveWF

def nan : Float := 0.0 / 0.0

def binding? (s : String) : Option (String × Float) :=
  match s.splitOn "=" with
  | [k, v] => (floatOfBitsStr v).map fun x => (k, x)
  | _ => none

def showErr : Err → String
  | .missing => "missing"
  | .negative => "negative"
  | .bound => "bound"
  | .arity => "arity"
  | .empty => "empty"
  | .check i => s!"check:{i}"

def showBind (p : String × Float) : String := p.1 ++ "=" ++ floatToBitsStr p.2

def checkName : Check → String
  | .scalarGt .. => "scalarGt"
  | .simple .. => "simple"
  | .finite .. => "finite"
  | .zStrict .. => "zStrict"
  | .yBelow .. => "yBelow"
  | .deepest .. => "deepest"

def splitAt (tok : String) : List String → List String × List String
  | [] => ([], [])
  | t :: r => if t = tok then ([], r) else let (a, b) := splitAt tok r; (t :: a, b)

def handleConstruct (rest : List String) : String :=
  match rest with
  | simple :: n :: "cfg" :: more =>
    let (cfgT, argT) := splitAt "args" more
    match n.toNat?, cfgT.mapM binding?, argT.mapM binding? with
    | some N, some cfg, some args =>
      match construct Gen.C03.spec (fun _ => simple = "1") cfg N nan ⟨args⟩ with
      | .error e => "err " ++ showErr e
      | .ok g =>
        let σ := envOfL nan (g.env ++ cfg)
        let js := Gen.C03.spec.chain.map fun (nm, e) => showBind (nm, e.eval σ)
        let coords := g.pts.flatMap fun p => [floatToBitsStr p.z, floatToBitsStr p.y]
        s!"ok {g.pts.length} " ++ " ".intercalate coords ++ " | " ++ " ".intercalate js ++ " | "
          ++ " ".intercalate (g.env.map showBind)
    | _, _, _ => "bad-op"
  | _ => "bad-op"

def chars? (s : String) : Option (List Char) :=
  if s = "-" then some [] else (s.splitOn ",").mapM fun t => t.toNat?.map Char.ofNat

def showChars (s : String) : String :=
  if s.isEmpty then "-" else ",".intercalate (s.toList.map fun c => toString c.toNat)

def handleName (rest : List String) : String :=
  match rest with
  | [enc] =>
    match chars? enc with
    | some cs =>
      let name := String.ofList cs
      showChars (normalise Gen.C03.factory name) ++ " " ++
        (match resolveClass Gen.C03.factory Gen.C03.classes name with | some c => c | none => "-")
    | none => "bad-op"
  | _ => "bad-op"

def binding1? (label : String) (s : String) : Option (String × Obj) :=
  match s.splitOn "=" with
  | [a, v] =>
    let (k, idt) := match v.splitOn "@" with
      | [k, i] => (k, some i)
      | _ => (v, none)
    let (owner, nm) := match idt with
      | some i => (match i.splitOn "/" with | [o, n] => (o, n) | _ => (label, a))
      | none => (label, a)
    if k = "g" then some (a, { owner := owner, name := nm, groove := true, truthyOther := false })
    else if k = "t" then some (a, { owner := owner, name := nm, groove := false, truthyOther := true })
    else if k = "f" then some (a, { owner := owner, name := nm, groove := false, truthyOther := false })
    else none
  | _ => none

def ns? (s : String) : Option Namespace :=
  match s.splitOn ":" with
  | [label, body] => if body = "" then some [] else (body.splitOn ",").mapM (binding1? label)
  | _ => none

def showOut : FOut → String
  | .called o => "called " ++ o.owner ++ "/" ++ o.name
  | .notFound => "notfound"
  | .calledNone => "callednone"
  | .fellThrough => "fell"

def handleLookup (rest : List String) : String :=
  match rest with
  | enc :: pkg :: mods =>
    match chars? enc, ns? pkg, mods.mapM ns? with
    | some cs, some p, some ms =>
      showOut (resolveObj Gen.C03.factory Gen.C03Factory.steps { pkg := p, modules := ms } (String.ofList cs))
    | _, _, _ => "bad-op"
  | _ => "bad-op"

def handleRibbed (rest : List String) : String :=
  match rest with
  | "given" :: more =>
    let (gT, more2) := splitAt "sol" more
    let (sT, kT) := splitAt "kw" more2
    match gT.mapM binding?, sT.mapM binding?, kT.mapM binding? with
    | some given, some sol, some kw =>
      let R := Gen.C03Ribbed.ribbed
      let args := (ribbedArgs R nan given sol kw).given
      let sargs := ribbedSolverArgs R nan given
      (if ribbedInputOk R given then "ok " else "rejected ") ++ " ".intercalate (args.map showBind) ++ " | "
        ++ " ".intercalate (sargs.map showBind)
    | _, _, _ => "bad-op"
  | _ => "bad-op"

def row? (s : String) : Option (List Float) :=
  if s = "-" then some [] else (s.splitOn ",").mapM floatOfBitsStr

def handleSpline (rest : List String) : String :=
  match rest with
  | [nd, rows] =>
    match nd.toNat?, (if rows = "-" then some [] else (rows.splitOn ";").mapM row?) with
    | some n, some rs => if splineAccepts Gen.C03.splineFace Gen.C03.splineChecks n rs then "1" else "0"
    | _, _ => "bad-op"
  | _ => "bad-op"

def handle (line : String) : String :=
  match Proto.toks line with
  | "construct" :: rest => handleConstruct rest
  | "name" :: rest => handleName rest
  | "lookup" :: rest => handleLookup rest
  | "ribbed" :: rest => handleRibbed rest
  | "spline" :: rest => handleSpline rest
  | ["tables"] => " ".intercalate (Gen.C03.spec.checks.map checkName)
  | _ => "bad-op"

partial def loop (h : IO.FS.Stream) : IO Unit := do
  let line ← h.getLine
  if line.isEmpty then return ()
  IO.println (handle line.trimAscii.toString)
  loop h

def main : IO Unit := do loop (← IO.getStdin)

end GrooveWFDriver
