import PyrollModel.Gen.C07Hooks
import PyrollModel.Gen.C07ErrPath

/-
  Failure — model of hook evaluation with failures (C07).

  Mirrors `pyroll/core/hooks.py`:
    * `_all_finite`                     → `npIsFiniteAll` (what `np.isfinite(value).all()` does) + `allFinite`
    * `Hook.__get__`                    → `eval … (.read i h)`      (dict → cache → get_result → 3 conversions → store →
                                           construction of the error: `finish`)
    * `Hook.get_result`                 → `eval … (.chain i h fs)`  (first not-None result of the chain)
    * `HookFunction.__call__`           → the `f :: fs` case of `.chain` (mark, call, `finally` un-mark by the
                                           outermost call only, `except StopIteration`)
    * `HookHost.has_value`              → `Body.ifHas` / `Op.has` (`hasattr`: AttributeError → False, others propagate)
  Implementations are data: small first-order programs (`Body`).  Python's recursion limit is the fuel: running
  out of fuel is `RecursionError`.  ONE structural recursion on the fuel (`eval`); import-free; executable; tied
  to the code by driver/props/c07.py.

  The state carries four GHOST fields that no python program can observe (`PyrollProofs/FailureLemmas.eval_core`
  proves that they influence neither results nor the observable state); they name the explicit hypotheses of the
  C07 theorems and are compared with the harness' own observations: `hitLimit`, `sawCycle`, `reading`/`reentered`.
  Wrapper implementations (generator protocol) are not modelled here (C01 models them); the C07 oracle exercises
  them on the real code.

  SOURCE TIE (T): three parts of `Hook.__get__` / `HookFunction.__call__` are not written down here but CONSUMED from
  `PyrollModel/Gen/C07Hooks.lean`, which `driver/translate/hooks_skeleton.py` regenerates from `pyroll/core/hooks.py` on
  every run of `./check C07`:
    `Gen.C07.Hooks.getChecks`      → `post`   (which outcome of `get_result` is converted into which exception, in order),
    `Gen.C07.Hooks.getStoreAfter`  → `stored` (how many of these checks have passed when the value is written to `__cache__`),
    `Gen.C07.Hooks.callDiscardInFinally`, `callDiscardGuard` → `unmark` (the mark is discarded also when the call ends in an
                                      exception; a nested, cycled call leaves the mark of the outer one).
  and from `PyrollModel/Gen/C07ErrPath.lean` (`driver/translate/c07_errpath.py`, same run):
    `Gen.C07.ErrPath.onInstance`   → `errTask` / `finish` (the CONSTRUCTION OF THE ERROR is a step of its own: per failing check the
                                      evaluations ON the instance that building the message performs - `{instance!r}`,
                                      `instance.__attrs__`, a `__str__` that reads hooks …; when the entry of the failing check is
                                      not empty the frame runs the instance's `__attrs__` program (`Prog.attrs`) before it
                                      raises: what that program reads is computed and remembered, and an exception it raises
                                      replaces the documented one).
-/

namespace Failure

/-! ### values, as far as the finiteness test can tell them apart -/

inductive FKind where
  | fin (k : Int)      -- the finite float k + 0.5
  | nan | pinf | ninf
  deriving DecidableEq, Repr, Inhabited

def FKind.finite : FKind → Bool
  | .fin _ => true
  | _ => false

/-- Python values.  A list / tuple is a `cons` chain ending in `nil tup` (`tup` = it is a tuple). -/
inductive Val where
  | none
  | int (n : Int)
  | bool (b : Bool)
  | flt (f : FKind)
  | str (s : Nat)
  | arr (xs : List FKind)     -- 1-d float ndarray
  | set (n : Nat)             -- a python set (contains nan in the harness: sets are not tested)
  | geom (n : Nat)            -- a shapely geometry
  | fn (n : Nat)              -- a callable
  | nil (tup : Bool)
  | cons (hd tl : Val)
  deriving DecidableEq, Repr, Inhabited

/-- numpy's shape discovery for `np.asarray(v)`; `none` = "inhomogeneous shape" (ragged) -/
def shape : Val → Option (List Nat)
  | .nil _ => some [0]
  | .cons h t =>
    match t with
    | .cons _ _ =>
      match shape h, shape t with
      | some sh, some (n :: st) => if st = sh then some ((n + 1) :: sh) else none
      | _, _ => none
    | _ => (shape h).map (fun sh => 1 :: sh)
  | .arr xs => some [xs.length]
  | _ => some []

/-- every leaf is a number (the array gets a numeric dtype); a string leaf gives a `<U` dtype, `None`/objects `O` -/
def allNumeric : Val → Bool
  | .int _ | .bool _ | .flt _ | .arr _ | .nil _ => true
  | .cons h t => allNumeric h && allNumeric t
  | _ => false

/-- no float leaf reachable through lists, tuples and arrays is nan or ±inf  (the SPECIFICATION of the test) -/
def leavesFinite : Val → Bool
  | .flt f => f.finite
  | .arr xs => xs.all FKind.finite
  | .cons h t => leavesFinite h && leavesFinite t
  | _ => true

inductive NpRes where
  | ok (b : Bool)
  | typeError       -- ufunc 'isfinite' not supported for the input types
  | valueError      -- inhomogeneous shape
  deriving DecidableEq, Repr

/-- `bool(np.isfinite(value).all())` -/
def npIsFiniteAll (v : Val) : NpRes :=
  match shape v with
  | none => .valueError
  | some _ => if allNumeric v then .ok (leavesFinite v) else .typeError

/-- `_all_finite`.  First argument: `true` = "the rest of a sequence whose elements are tested one by one"
(`all(_all_finite(v) for v in value)`).
```
    try:    return bool(np.isfinite(value).all())
    except TypeError:  return all(_all_finite(v) for v in value) if isinstance(value, (list, tuple, ndarray)) else True
    except ValueError: return all(_all_finite(v) for v in value)
```
(the model's arrays are 1-d float arrays, which never take the `TypeError` branch) -/
def af : Bool → Val → Bool
  | true, .cons h t => af false h && af true t
  | false, .cons h t =>
    match npIsFiniteAll (.cons h t) with
    | .ok b => b
    | .typeError => af false h && af true t      -- a list/tuple that is not numeric as a whole: test the elements
    | .valueError => af false h && af true t     -- ragged: test the elements
  | _, v =>
    match npIsFiniteAll v with
    | .ok b => b
    | _ => true                                   -- non-numeric values count as finite

def allFinite (v : Val) : Bool := af false v

/-! ### exceptions, implementation bodies -/

inductive Exc where
  | attributeError
  | valueError
  | recursionError
  | stopIteration
  | other (k : Nat)       -- ZeroDivisionError, TypeError, KeyError, RuntimeError, a custom Exception, a BaseException …
  deriving DecidableEq, Repr, Inhabited

inductive Res where
  | val (v : Val)
  | exc (e : Exc)
  deriving DecidableEq, Repr, Inhabited

/-- The body of an implementation `def f(self, cycle)`.  `r : Option Nat` names the instance a read goes to:
`none` = `self`, `some j` = the instance number `j`.  Every value read is summed into an integer accumulator
(ints count with their value, everything else 0) which `retAcc` returns. -/
inductive Body where
  | ret (v : Val)                                  -- `return v`   (`ret none` = no value)
  | retAcc (c : Int)                               -- `return acc + c`
  | raise (e : Exc)
  | read (r : Option Nat) (h : Nat) (k : Body)     -- `acc += getattr(r, h)` then `k`
  | ifCycle (a b : Body)                           -- `if cycle: a else: b`
  | ifHas (r : Option Nat) (h : Nat) (a b : Body)  -- `if r.has_value(h): a else: b`
  deriving DecidableEq, Repr, Inhabited

def Val.intOf : Val → Int
  | .int n => n
  | _ => 0

def resolve (self : Nat) : Option Nat → Nat
  | none => self
  | some j => j

/-- one class: `chain h` = the implementations of hook `h` in the order in which `functions_gen` yields them -/
structure Prog where
  chain : Nat → List Nat
  body : Nat → Body
  /-- `attrs i` = what evaluating `repr(instance)` / `instance.__attrs__` runs on instance `i` (`pyroll/core/repr.py`: the
      `__attrs__` property; on roll passes it computes the contour lines, i.e. reads `gap` and the roll's contour): a program
      like an implementation body (`none` = the instance itself).  Hosts whose `__attrs__` only lists `__dict__` and
      `__cache__` have the default. -/
  attrs : Nat → Body := fun _ => .ret .none

/-! ### state -/

structure St where
  dict : Nat → Nat → Option Val      -- instance, hook   (`__dict__`)
  cache : Nat → Nat → Option Val     -- instance, hook   (`__cache__`)
  marks : Nat → Nat → Bool           -- function, instance (`HookFunction._active_instances`)
  hitLimit : Bool                    -- ghost: the recursion limit was reached at least once
  sawCycle : Bool                    -- ghost: some `if cycle` was evaluated in a re-entrant call
  reading : Nat → Nat → Bool         -- ghost: instance, hook: a computing `Hook.__get__` of that hook is on the stack
  reentered : Bool                   -- ghost: a hook was read (and had to be computed) while it was being computed

def init : St :=
  { dict := fun _ _ => none, cache := fun _ _ => none, marks := fun _ _ => false,
    hitLimit := false, sawCycle := false, reading := fun _ _ => false, reentered := false }

/-- `d.get(name, None)` followed by `is not None` -/
def present : Option Val → Option Val
  | some .none => none
  | o => o

def St.setCache (st : St) (i h : Nat) (v : Val) : St :=
  { st with cache := fun i' h' => if i' = i ∧ h' = h then some v else st.cache i' h' }

def St.setDict (st : St) (i h : Nat) (v : Option Val) : St :=
  { st with dict := fun i' h' => if i' = i ∧ h' = h then v else st.dict i' h' }

def St.setMark (st : St) (f i : Nat) (b : Bool) : St :=
  { st with marks := fun f' i' => if f' = f ∧ i' = i then b else st.marks f' i' }

def St.setReading (st : St) (i h : Nat) (b : Bool) : St :=
  { st with reading := fun i' h' => if i' = i ∧ h' = h then b else st.reading i' h' }

/-- entering the computing part of `Hook.__get__` (ghost bookkeeping only) -/
def St.enter (st : St) (i h : Nat) : St :=
  { st with reading := fun i' h' => if i' = i ∧ h' = h then true else st.reading i' h',
            reentered := st.reentered || st.reading i h }

def St.clearCaches (st : St) : St := { st with cache := fun _ _ => none }

/-! ### evaluation -/

inductive Task where
  | read (i h : Nat)                                      -- `Hook.__get__(instance i)` of hook `h`
  | chain (i h : Nat) (fs : List Nat)                     -- rest of the loop of `get_result`
  | body (f i : Nat) (cyc : Bool) (acc : Int) (b : Body)  -- rest of the body of `f` running on `i`
  deriving Repr

/-- the exception classes `Hook.__get__` names -/
def excOfName : String → Option Exc
  | "AttributeError" => some .attributeError
  | "ValueError" => some .valueError
  | "RecursionError" => some .recursionError
  | "StopIteration" => some .stopIteration
  | _ => none

/-- one entry (condition, exception raised) of the GENERATED list of checks applied to the outcome so far: an outcome
    that already is an exception passes the later `if` checks untouched -/
def applyCheck (c : String × String) (r : Res) : Res :=
  match excOfName c.2 with
  | none => r
  | some e =>
    if c.1 == "except RecursionError" then
      match r with
      | .exc .recursionError => .exc e
      | r => r
    else if c.1 == "is None" then
      match r with
      | .val .none => .exc e
      | r => r
    else if c.1 == "not _all_finite" then
      match r with
      | .val v => if allFinite v then .val v else .exc e
      | r => r
    else r

def postWith (cs : List (String × String)) (r : Res) : Res := cs.foldl (fun r c => applyCheck c r) r

/-- what `Hook.__get__` does with the outcome of `get_result`: the checks of the GENERATED list, in source order -/
def post (r : Res) : Res := postWith Gen.C07.Hooks.getChecks r

/-- the outcome as far as it is known at the statement `instance.__cache__[name] = result`: the checks that precede the
    store in the source (GENERATED count) have been made; an exception among them means the store is not reached -/
def stored (r : Res) : Res := postWith (Gen.C07.Hooks.getChecks.take Gen.C07.Hooks.getStoreAfter) r

/-- the end of `HookFunction.__call__`: the mark of the call is discarded - unless the call was a cycled one and the
    source guards the discard with `if not cycle` - provided the discard is reached: always when it sits in the
    `finally` clause, otherwise only when no exception escapes (`StopIteration` is caught by the `except` clause) -/
def unmark (st1 : St) (f i : Nat) (cyc : Bool) (r : Res) : St :=
  let reached := Gen.C07.Hooks.callDiscardInFinally ||
    (match r with
     | .exc .stopIteration => true
     | .exc _ => false
     | .val _ => true)
  if reached then
    (if cyc && Gen.C07.Hooks.callDiscardGuard == "unless cycle" then st1 else st1.setMark f i false)
  else st1

/-- which entry of the list of checks raises for the outcome `r` of `get_result` (`none`: a value that passes, or an exception
    of an implementation that passes through untouched) -/
def firedAux : List (String × String) → Nat → Res → Option Nat
  | [], _, _ => none
  | c :: cs, k, r => if applyCheck c r != r then some k else firedAux cs (k + 1) r

/-- THE ERROR PATH.  What the construction of the exception evaluates on the instance, as a program to run before the
    `raise`: nothing (`none`) when no check fires or when the block of the firing check evaluates nothing on the instance
    (its entry of the GENERATED table `tbl` is empty); otherwise the instance's `__attrs__` program. -/
def errTaskWith (tbl : List (List String)) (cs : List (String × String)) (P : Prog) (i : Nat) (r : Res) : Option Body :=
  match firedAux cs 0 r with
  | none => none
  | some k => if (tbl.getD k []).isEmpty then none else some (P.attrs i)

/-- … for the tables read from the source -/
def errTask (P : Prog) (i : Nat) (r : Res) : Option Body :=
  errTaskWith Gen.C07.ErrPath.onInstance Gen.C07.Hooks.getChecks P i r

/-- the end of a computing `Hook.__get__`: `pr` = the converted outcome, `st2` = the state at the `raise` / `return`; `ev` = the
    evaluation with the remaining frames.  The error-path program `et` runs first (it is not an implementation: function
    number 0, not cycled); what it remembers stays, and an exception it raises is what the read raises. -/
def finish (et : Option Body) (ev : St → Task → Res × St) (i : Nat) (pr : Res) (st2 : St) : Res × St :=
  match et with
  | none => (pr, st2)
  | some b =>
    match ev st2 (.body 0 i false 0 b) with
    | (.exc e, st3) => (.exc e, st3)
    | (.val _, st3) => (pr, st3)

/-- the state after `__get__` finished: stored only if all checks passed -/
def store (st : St) (i h : Nat) : Res → St
  | .val v => st.setCache i h v
  | .exc _ => st

def eval (P : Prog) : Nat → St → Task → Res × St
  | 0, st, _ => (.exc .recursionError, { st with hitLimit := true })
  | n + 1, st, .read i h =>
    match present (st.dict i h) with
    | some v => (.val v, st)
    | none =>
      match present (st.cache i h) with
      | some v => (.val v, st)
      | none =>
        let (r, st1) := eval P n (st.enter i h) (.chain i h (P.chain h))
        finish (errTask P i r) (eval P n) i (post r) (store (st1.setReading i h (st.reading i h)) i h (stored r))
  | _ + 1, st, .chain _ _ [] => (.val .none, st)
  | n + 1, st, .chain i h (f :: fs) =>
    let cyc := st.marks f i
    let (r, st1) := eval P n (st.setMark f i true) (.body f i cyc 0 (P.body f))
    let st2 := unmark st1 f i cyc r                               -- finally
    match r with
    | .exc .stopIteration => eval P n st2 (.chain i h fs)         -- `except StopIteration as e: result = e.value`
    | .exc e => (.exc e, st2)
    | .val .none => eval P n st2 (.chain i h fs)
    | .val v => (.val v, st2)
  | n + 1, st, .body f i cyc acc b =>
    match b with
    | .ret v => (.val v, st)
    | .retAcc c => (.val (.int (acc + c)), st)
    | .raise e => (.exc e, st)
    | .read r h k =>
      match eval P n st (.read (resolve i r) h) with
      | (.val v, st1) => eval P n st1 (.body f i cyc (acc + v.intOf) k)
      | (.exc e, st1) => (.exc e, st1)
    | .ifCycle a b' =>
      if cyc then eval P n { st with sawCycle := true } (.body f i cyc acc a)
      else eval P n st (.body f i cyc acc b')
    | .ifHas r h a b' =>
      match eval P n st (.read (resolve i r) h) with
      | (.val _, st1) => eval P n st1 (.body f i cyc acc a)
      | (.exc .attributeError, st1) => eval P n st1 (.body f i cyc acc b')
      | (.exc e, st1) => (.exc e, st1)

/-- a read from outside (`getattr(instance, name)`) -/
def readHook (P : Prog) (fuel : Nat) (st : St) (i h : Nat) : Res × St := eval P fuel st (.read i h)

/-! ### operations from outside -/

inductive Op where
  | read (i h : Nat)
  | has (i h : Nat)                 -- `instance.has_value(name)`
  | set (i h : Nat) (v : Val)       -- `setattr(instance, name, v)`
  | del (i h : Nat)                 -- `delattr(instance, name)`
  | clear                           -- clear the caches of all instances
  deriving Repr

inductive Out where
  | res (r : Res)
  | bool (b : Bool)
  | ok
  deriving DecidableEq, Repr

def step (P : Prog) (fuel : Nat) (st : St) : Op → Out × St
  | .read i h => let (r, st1) := readHook P fuel st i h; (.res r, st1)
  | .has i h =>
    match readHook P fuel st i h with
    | (.val _, st1) => (.bool true, st1)
    | (.exc .attributeError, st1) => (.bool false, st1)
    | (.exc e, st1) => (.res (.exc e), st1)
  | .set i h v => (.ok, st.setDict i h (some v))
  | .del i h => (.ok, st.setDict i h none)
  | .clear => (.ok, st.clearCaches)

/-- outputs of a whole op sequence and the final state -/
def run (P : Prog) (fuel : Nat) : St → List Op → List Out × St
  | st, [] => ([], st)
  | st, op :: ops =>
    let (o, st1) := step P fuel st op
    let (os, st2) := run P fuel st1 ops
    (o :: os, st2)

end Failure
