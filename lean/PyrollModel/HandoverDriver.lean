import PyrollModel.Handover
import PyrollModel.EvalDriver
import PyrollModel.Gen.C06
import PyrollModel.HandoverGen
import PyrollModel.Refresh
/-
  Line-protocol driver of the C06 models.

    <formula> <var>=<bits> …            Float value of a generated formula (see EvalDriver)
    sum <impl> <bits> …                 value of a generated `sum([u.a for u in self.units])` implementation on the
                                        given member values: answers `<collection> <attr> <bits>`
    thread <formula> <vIn> <vStep> <start bits> <bits> …   `Handover.threadAll` : answers all intermediate values
    H <hidden prefix> <extra root hooks> <dict> <cache> <unit>   hand-over model (`Handover.runObj`) on one unit tree
                                        with the generated root hook list (+ the root hooks a plugin / the harness
                                        added at run time); dict / cache = `__dict__` / hook cache of the handed object.
        dict  = `-` | k=v,k=v,…  (v : value identifier, a natural number)
        unit  = U <inOwners> <outOwners> <inImpl> <outImpl> <inDefault> <#pre> <#post> <#subs>  followed by that many units
        owners = `-` | a,b,…
      answers `ok in;out in;out …` (pre-order, dicts as above) or `AttributeError <hook>`
    H2 <hidden prefix> <extra root hooks> <dict> <cache> <unit> | <dict> <cache> <unit>
                                        the same unit object solved twice (`Handover.solveTwice` with the generated
                                        re-use policy `Handover.genReuse`): the unit as observed after the first solve on
                                        the first object, then as observed after the second solve on the second object;
                                        answers the trace of the SECOND solve, or `AttributeError1 <hook>` /
                                        `AttributeError <hook>` when the first / second solve fails in the model
    I <hidden prefix> <extra root hooks> <outOwners> <previous out dict | none> <incoming dict>
                                        `Handover.initOut genReuse`: the out profile's `__dict__` after `init_solve`
                                        (entries in order)
    R <class>                           what `obj.reevaluate_cache()` does for an object of that class (`Refresh.effects` on
                                        the generated method bodies along the generated MRO): answers `own refresh:roll
                                        reset:_contour_lines …` (in order), `-` for none, `no-mro` for an unknown class
    S <class> <helper attr> <hook> <n,n,…>   consecutive solves (iterations of each) of one NEW unit object of that class
                                        whose sub-units read `<helper>.<hook>` (`Refresh.solves` from `Refresh.fresh`; does the
                                        helper's own method re-evaluate: from the generated `helperClass`): answers the state
                                        index of the value read in every iteration, `a,b,c;d,e,f` (solves separated by `;`)
-/
namespace HandoverDriver
open Handover Proto

def parseDict (s : String) : Option (Dict String Nat) :=
  if s = "-" then some [] else
    (s.splitOn ",").mapM fun kv => match kv.splitOn "=" with
      | [k, v] => v.toNat?.map fun n => (k, n)
      | _ => none

def showDict (d : Dict String Nat) : String :=
  if d.isEmpty then "-" else ",".intercalate (d.map fun p => s!"{p.1}={p.2}")

/-- root hooks added at run time (`root_hooks.add`): `-` | Owner:name,Owner:name -/
def parseExtra (s : String) : Option (List (String × String)) :=
  if s = "-" then some [] else
    (s.splitOn ",").mapM fun on => match on.splitOn ":" with
      | [o, n] => some (o, n)
      | _ => none

def parseOwners (s : String) : List String := if s = "-" then [] else s.splitOn ","

mutual
partial def parseUnit : List String → Option (UnitT String Nat × List String)
  | "U" :: io :: oo :: ii :: oi :: idf :: np :: nq :: ns :: rest => do
    let ii ← parseDict ii
    let oi ← parseDict oi
    let idf ← parseDict idf
    let (pre, rest) ← parseUnits (← np.toNat?) rest
    let (post, rest) ← parseUnits (← nq.toNat?) rest
    let (subs, rest) ← parseUnits (← ns.toNat?) rest
    pure (.mk (parseOwners io) (parseOwners oo) ii oi idf pre post subs, rest)
  | _ => none
partial def parseUnits : Nat → List String → Option (List (UnitT String Nat) × List String)
  | 0, rest => some ([], rest)
  | n + 1, rest => do
    let (u, rest) ← parseUnit rest
    let (us, rest) ← parseUnits n rest
    pure (u :: us, rest)
end

def floats (ts : List String) : Option (List Float) := ts.mapM floatOfBitsStr

def showEffects (es : List Refresh.Effect) : String :=
  if es.isEmpty then "-" else " ".intercalate (es.map fun e => match e with
    | .own => "own"
    | .refresh a => "refresh:" ++ a
    | .reset a => "reset:" ++ a
    | .unknown k => "unknown:" ++ k)

def handle (line : String) : String :=
  match toks line with
  | "H" :: pfx :: extra :: d :: c :: rest =>
    match parseDict d, parseDict c, parseUnit rest, parseExtra extra with
    | some d, some c, some (u, []), some ex =>
      match runObj (Gen.C06.rootHooks ++ ex) (fun k => k.startsWith pfx) u { dict := d, cache := c } with
      | .ok r => "ok " ++ " ".intercalate (r.trace.map fun p => showDict p.1 ++ ";" ++ showDict p.2)
      | .error k => "AttributeError " ++ k
    | _, _, _, _ => "bad-op"
  | "H2" :: pfx :: extra :: d :: c :: rest =>
    match parseDict d, parseDict c, parseUnit rest, parseExtra extra with
    | some d, some c, some (u, "|" :: d2 :: c2 :: rest2), some ex =>
      match parseDict d2, parseDict c2, parseUnit rest2 with
      | some d2, some c2, some (u2, []) =>
        let hooks := Gen.C06.rootHooks ++ ex
        let priv := fun (k : String) => k.startsWith pfx
        match runM genReuse hooks priv u .fresh (Obj.template { dict := d, cache := c }) with
        | .error k => "AttributeError1 " ++ k
        | .ok (_, m) =>
          match runM genReuse hooks priv u2 m (Obj.template { dict := d2, cache := c2 }) with
          | .ok (r, _) => "ok " ++ " ".intercalate (r.trace.map fun p => showDict p.1 ++ ";" ++ showDict p.2)
          | .error k => "AttributeError " ++ k
      | _, _, _ => "bad-op"
    | _, _, _, _ => "bad-op"
  | ["I", pfx, extra, oo, prev, p1] =>
    match parseExtra extra, (if prev = "none" then some none else (parseDict prev).map some), parseDict p1 with
    | some ex, some prev, some p1 =>
      showDict (initOut genReuse (fun (k : String) => k.startsWith pfx)
        (applies (parseOwners oo) (Gen.C06.rootHooks ++ ex)) prev p1)
    | _, _, _ => "bad-op"
  | ["R", cls] =>
    match Refresh.mroOf Gen.C06.mros cls with
    | [] => "no-mro"
    | m => showEffects (Refresh.effects Gen.C06.reevalBodies m)
  | ["S", cls, h, name, ns] =>
    match Refresh.mroOf Gen.C06.mros cls, natList? ns with
    | [], _ => "no-mro"
    | m, some ns =>
      let hcls := (Gen.C06.helperClass.find? fun p => p.1 == cls && p.2.1 == h).map (·.2.2)
      let ho := match hcls with
        | some hc => (Refresh.effects Gen.C06.reevalBodies (Refresh.mroOf Gen.C06.mros hc)).contains Refresh.Effect.own
        | none => false
      ";".intercalate ((Refresh.solves (Refresh.effects Gen.C06.reevalBodies m) h ho name ns Refresh.fresh).map showNatList)
    | _, none => "bad-op"
  | "sum" :: name :: rest =>
    match Gen.C06.sumImpls.find? (fun p => p.1 = name), floats rest with
    | some (_, i), some xs =>
      match i.alts with
      | [(.tt, .sumOver coll attr)] =>
        match implSum i (xs.map fun x => fun _ => x) with
        | some s => s!"{coll} {attr} {floatToBitsStr s}"
        | none => "not-a-sum"
      | _ => "not-a-sum"
    | _, _ => "bad-op"
  | "thread" :: name :: vIn :: vStep :: start :: rest =>
    match Gen.C06.table.find? (fun p => p.1 = name), floatOfBitsStr start, floats rest with
    | some (_, e), some x, some xs => " ".intercalate ((threadAll e vIn vStep x xs).map floatToBitsStr)
    | _, _, _ => "bad-op"
  | _ => EvalDriver.handle Gen.C06.table line

partial def loop (h : IO.FS.Stream) : IO Unit := do
  let line ← h.getLine
  if line.isEmpty then return ()
  IO.println (handle (line.trimAscii.toString))
  loop h

def main : IO Unit := do loop (← IO.getStdin)

end HandoverDriver
