import PyrollModel.Tree
import PyrollModel.Gen.C13

/-!
  TreeProg — interpreter for the programs which `driver/translate/c13_listops.py` reads out of
  `Unit._SubUnitsList`, `Unit.prev/next/prev_of/next_of` and `PassSequence` (C13, tie T).

  `Gen.C13` holds, for every method, the statements of the python source as instructions.  This file says what one
  instruction does to a `TState` (the primitives of a python `list` are given here, as modelled: `pyGetItem`, `pySetItem`,
  `pyDelItem`, `list.append/extend/insert/pop/remove/clear/__init__`) and `PyrollProps/C13.lean` proves that running the
  generated program of a method equals the hand-written `Tree.step` of the corresponding `Op`.
-/

namespace Tree
open Gen.C13

/-- what a local name / parameter holds -/
inductive Val where
  | unbound
  | none
  | unit (u : Nat)
  | list (us : List Nat)
  | iter                 -- the caller's iterable object (`Env.src`), not yet turned into a list
  | selfList             -- the list object itself
  deriving DecidableEq, Repr

/-- subscript `l[i]` / `l[i:j:k]` (a slice without step has `k = 1`) -/
inductive Key where
  | idx (i : Int)
  | slice (i j : Option Int) (k : Int)
  deriving DecidableEq, Repr

inductive Exc where
  | indexError | valueError | typeError
  deriving DecidableEq, Repr

/-! ### the primitives of a python list -/

def pyGetItem (l : List Nat) : Key → Except Exc Val
  | .idx i =>
    match normIdx l.length i with
    | none => .error .indexError
    | some k => match l[k]? with
      | some u => .ok (.unit u)
      | none => .error .indexError
  | .slice i j k =>
    if k = 0 then .error .valueError
    else if k = 1 then
      let (lo, hi) := sliceBounds l.length i j
      .ok (.list ((l.drop lo).take (hi - lo)))
    else .ok (.list (itemsAt l (slicePositions l.length i j k)))

/-- `list.__setitem__(key, v)`: `v` a unit for an index, the list of the items of an iterable for a slice -/
def pySetItem (l : List Nat) : Key → Val → Except Exc (List Nat)
  | .idx i, .unit u =>
    match normIdx l.length i with
    | none => .error .indexError
    | some k => .ok (l.take k ++ [u] ++ l.drop (k + 1))
  | .slice i j k, .list us =>
    if k = 0 then .error .valueError
    else if k = 1 then
      let (lo, hi) := sliceBounds l.length i j
      .ok (l.take lo ++ us ++ l.drop hi)
    else
      let pos := slicePositions l.length i j k
      if us.length = pos.length then .ok (replaceAt pos us l) else .error .valueError
  | _, _ => .error .typeError

def pyDelItem (l : List Nat) : Key → Except Exc (List Nat)
  | .idx i =>
    match normIdx l.length i with
    | none => .error .indexError
    | some k => .ok (l.take k ++ l.drop (k + 1))
  | .slice i j k =>
    if k = 0 then .error .valueError
    else if k = 1 then
      let (lo, hi) := sliceBounds l.length i j
      .ok (l.take lo ++ l.drop hi)
    else .ok (dropAt (slicePositions l.length i j k) l)

/-! ### environment of one method call -/

structure Env where
  st : TState
  /-- the unit whose `_subunits` list `self` is -/
  sid : Nat
  /-- what `self._owner()` gives (`none`: `_owner` not stored yet) -/
  ownerRef : Option Nat
  /-- the `owner` parameter of `__init__` -/
  ownerParam : Nat
  key : Key
  /-- the caller's iterable argument -/
  src : Src
  arg : Val
  loc : Val := .unbound
  cur : Val := .unbound
  res : Val := .unbound
  /-- `some l`: `self` is a NEW list object holding `l`, not bound to any unit (`type(self)(…)`, `_SubUnitsList(…)`) -/
  det : Option (List Nat) := none
  returned : Option Val := none

def Env.items (e : Env) : List Nat :=
  match e.det with
  | some l => l
  | none => e.st.children e.sid

def Env.setItems (e : Env) (l : List Nat) : Env :=
  match e.det with
  | some _ => { e with det := some l }
  | none => { e with st := setChildren e.st e.sid l }

def Env.get (e : Env) : Ref → Val
  | .self => .selfList
  | .arg => e.arg
  | .loc => e.loc
  | .cur => e.cur
  | .res => e.res

def Env.set (e : Env) : Ref → Val → Env
  | .self, _ => e
  | .arg, v => { e with arg := v }
  | .loc, v => { e with loc := v }
  | .cur, v => { e with cur := v }
  | .res, v => { e with res := v }

/-- one complete iteration of what `r` denotes (`for u in r`, `list(r)`, `list.extend(r)`, `list.__init__(r)`) -/
def Env.iterate (e : Env) (r : Ref) : Option (List Nat × Env) :=
  match e.get r with
  | .selfList => some (e.items, e)
  | .list us => some (us, e)
  | .iter => some (e.src.iterate.1, { e with src := e.src.iterate.2 })
  | _ => none

def Env.par (e : Env) : Par → Option (Option Nat)
  | .none => some none
  | .owner => e.ownerRef.map some
  | .ownerParam => some (some e.ownerParam)

def Env.keyOf (e : Env) : Ix → Key
  | .key => e.key
  | .const c => .idx c

def Env.guard (e : Env) : Guard → Option Bool
  | .always => some true
  | .keyIsSlice => some (match e.key with | .slice .. => true | .idx _ => false)
  | .keyNotSlice => some (match e.key with | .slice .. => false | .idx _ => true)
  | .isList r => match e.get r with
    | .list _ => some true
    | .unit _ => some false
    | _ => none
  | .notList r => match e.get r with
    | .list _ => some false
    | .unit _ => some true
    | _ => none

/-- one statement; the state at the moment an exception is raised is the state that stays -/
def exec (e : Env) : Instr → Env × Option Exc
  | .materialise dst src =>
    match e.iterate src with
    | some (us, e') => (e'.set dst (.list us), none)
    | none => (e, some .typeError)
  | .getItem dst ix =>
    match pyGetItem e.items (e.keyOf ix) with
    | .ok v => (e.set dst v, none)
    | .error x => (e, some x)
  | .forSetParent r p =>
    match e.iterate r, e.par p with
    | some (us, e'), some q => ({ e' with st := setParents e'.st us q }, none)
    | _, _ => (e, some .typeError)
  | .setParent r p =>
    match e.get r, e.par p with
    | .unit u, some q => ({ e with st := setParents e.st [u] q }, none)
    | _, _ => (e, some .typeError)
  | .superInit a =>
    match e.iterate a with
    | some (us, e') => (e'.setItems us, none)
    | none => (e, some .typeError)
  | .superAppend a =>
    match e.get a with
    | .unit u => (e.setItems (e.items ++ [u]), none)
    | _ => (e, some .typeError)
  | .superExtend a =>
    match e.iterate a with
    | some (us, e') => (e'.setItems (e'.items ++ us), none)
    | none => (e, some .typeError)
  | .superInsert ix a =>
    match e.keyOf ix, e.get a with
    | .idx i, .unit u =>
      let l := e.items
      let k := clampIdx l.length i
      (e.setItems (l.take k ++ [u] ++ l.drop k), none)
    | _, _ => (e, some .typeError)
  | .superPop dst ix =>
    match e.keyOf ix with
    | .idx i =>
      let l := e.items
      match normIdx l.length i with
      | none => (e, some .indexError)
      | some k => match l[k]? with
        | some u => ((e.setItems (l.take k ++ l.drop (k + 1))).set dst (.unit u), none)
        | none => (e, some .indexError)
    | _ => (e, some .typeError)
  | .superRemove a =>
    match e.get a with
    | .unit u => if u ∈ e.items then (e.setItems (e.items.erase u), none) else (e, some .valueError)
    | _ => (e, some .typeError)
  | .superClear => (e.setItems [], none)
  | .superSetItem dst ix a =>
    match e.keyOf ix with
    | .idx i =>
      (match pySetItem e.items (.idx i) (e.get a) with
       | .ok l => ((e.setItems l).set dst .none, none)
       | .error x => (e, some x))
    | .slice i j k =>
      (match e.iterate a with
       | some (us, e') =>
         (match pySetItem e'.items (.slice i j k) (.list us) with
          | .ok l => ((e'.setItems l).set dst .none, none)
          | .error x => (e', some x))
       | none => (e, some .typeError))
  | .superDelItem dst ix =>
    match pyDelItem e.items (e.keyOf ix) with
    | .ok l => ((e.setItems l).set dst .none, none)
    | .error x => (e, some x)
  | .setOwner p =>
    match e.par p with
    | some (some o) => ({ e with ownerRef := some o }, none)
    | _ => (e, some .typeError)
  | .newList p a =>
    match e.iterate a, e.par p with
    | some (us, e'), some (some o) =>
      ({ e' with det := some [], ownerRef := none, ownerParam := o, arg := .list us }, none)
    | _, _ => (e, some .typeError)
  | .ret r => ({ e with returned := some (e.get r) }, none)
  | .untranslated => (e, some .typeError)

def runProg : List (Guard × Instr) → Env → Env × Option Exc
  | [], e => (e, none)
  | (g, i) :: rest, e =>
    match e.guard g with
    | none => (e, some .typeError)
    | some false => runProg rest e
    | some true =>
      match exec e i with
      | (e', some x) => (e', some x)
      | (e', none) => match e'.returned with
        | some _ => (e', none)
        | none => runProg rest e'

/-- the arguments of one call: the owner of the list, the subscript (if given), the unit / iterable argument -/
structure Args where
  s : Nat
  key : Option Key := none
  arg : Val := .unbound
  src : Src := Src.fresh [] false

structure Res where
  st : TState
  /-- `none`: TypeError / statement outside the modelled subset -/
  out : Option Out
  src : Src
  /-- the method returned the list itself -/
  retSelf : Bool
  /-- the detached list object built by the call, if any -/
  det : Option (List Nat)

def outOf (r : Env × Option Exc) : Option Out :=
  match r.2 with
  | some .indexError => some .indexError
  | some .valueError => some .valueError
  | some .typeError => none
  | none => match r.1.returned with
    | some (.unit u) => some (.unit u)
    | some (.list _) | some .iter | some .unbound => none
    | _ => some .ok

def finish (r : Env × Option Exc) : Res :=
  { st := r.1.st, out := outOf r, src := r.1.src, retSelf := r.1.returned == some .selfList, det := r.1.det }

/-- a call of a method of an existing list (owner `a.s`) -/
def runMeth (m : Meth) (st : TState) (a : Args) : Res :=
  let key := match a.key with
    | some k => k
    | none => .idx (m.keyDefault.getD 0)
  finish (runProg m.body
    { st := st, sid := a.s, ownerRef := some a.s, ownerParam := a.s, key := key, src := a.src, arg := a.arg })

/-- `_SubUnitsList(owner, units)`: `__init__` on a new, detached list object -/
def runInit (m : Meth) (st : TState) (a : Args) : Res :=
  finish (runProg m.body
    { st := st, sid := a.s, ownerRef := none, ownerParam := a.s, key := .idx 0, src := a.src, arg := a.arg,
      det := some [] })

/-! ### `PassSequence.__init__` and `flatten` -/

/-- the new unit list `_SubUnitsList(owner, <arg>)` bound as the unit list of `s` -/
def bindNew (init : Meth) (st : TState) (s : Nat) (arg : Val) (src : Src) : Option (TState × Src) :=
  let r := runInit init st { s := s, arg := arg, src := src }
  match r.out, r.det with
  | some .ok, some l => some (setChildren r.st s l, r.src)
  | _, _ => none

def runSeqInitAux (init : Meth) (s : Nat) : List SInstr → TState → Src → Option (TState × Src)
  | [], st, src => some (st, src)
  | .superInit :: rest, st, src => runSeqInitAux init s rest st src      -- `Unit.__init__`: what `alloc` did
  | .dictUpdate :: rest, st, src => runSeqInitAux init s rest st src     -- no keyword arguments in the model
  | .bindNew a :: rest, st, src =>
    match a with
    | .arg => (match bindNew init st s .iter src with
      | some (st', src') => runSeqInitAux init s rest st' src'
      | none => none)
    | _ => none

/-- `PassSequence(units, label)`: allocate the unit, then the statements of `__init__` -/
def runSeqInit (p : List SInstr) (init : Meth) (st : TState) (label : Nat) (src : Src) : Option ((TState × Nat) × Src) :=
  let (st1, s) := alloc st 3 label
  match runSeqInitAux init s p st1 src with
  | some (st2, src') => some ((st2, s), src')
  | none => none

/-- python class name → kind code of the model (`isinstance` tests) -/
def kindOfClass : String → Option Nat
  | "BaseRollPass" => some 1
  | "Transport" => some 2
  | "PassSequence" => some 3
  | _ => none

/-- the statements of one branch of the loop of `flatten`, for one item -/
def runF (clear : Meth) : List FInstr → TState → Nat → List Nat → Option (TState × List Nat)
  | [], st, _, acc => some (st, acc)
  | .accExtendUnits :: rest, st, item, acc => runF clear rest st item (acc ++ st.children item)
  | .accAppend :: rest, st, item, acc => runF clear rest st item (acc ++ [item])
  | .itemSetParent p :: rest, st, item, acc =>
    (match p with
     | .none => runF clear rest (setParents st [item] none) item acc
     | _ => none)
  | .itemClear :: rest, st, item, acc =>
    let r := runMeth clear st { s := item }
    (match r.out with
     | some .ok => runF clear rest r.st item acc
     | _ => none)

def runFlattenAux (f : Flatten) (clear : Meth) (k : Nat) : TState → List Nat → List Nat → Option (TState × List Nat)
  | st, [], acc => some (st, acc)
  | st, item :: rest, acc =>
    match runF clear (if st.kind item = k then f.thenB else f.elseB) st item acc with
    | some (st', acc') => runFlattenAux f clear k st' rest acc'
    | none => none

def runFlatten (f : Flatten) (clear init : Meth) (st : TState) (s : Nat) : Option TState :=
  match kindOfClass f.cls, f.rebuild with
  | some k, true =>
    (match runFlattenAux f clear k st (st.children s) [] with
     | some (st1, new) => (bindNew init st1 s (.list new) (Src.fresh [] false)).map Prod.fst
     | none => none)
  | _, _ => none

/-! ### read access -/

def runQuery (q : Query) (st : TState) (s : Nat) : Option (List Nat) :=
  if (q.source = "_subunits" ∨ q.source = "subunits") ∧ q.fresh = true then
    match q.cls with
    | none => some (st.children s)
    | some c => (kindOfClass c).map fun k => (st.children s).filter (fun u => st.kind u = k)
  else none

/-- `seq[label]`: `some none` = the lookup raises KeyError -/
def runGetLabel : List GBranch → TState → Nat → Nat → Option (Option Nat)
  | [], _, _, _ => none
  | .label first missing :: _, st, s, lab =>
    if first = true ∧ missing = "KeyError" then some ((st.children s).find? (fun u => st.label u = lab)) else none
  | .delegate ts :: rest, st, s, lab => if "str" ∈ ts then none else runGetLabel rest st s lab
  | .raise _ :: _, _, _, _ => none

/-- `seq[i]` / `seq[i:j:k]` -/
def runGetKey : List GBranch → TState → Nat → Key → Option (Except Exc Val)
  | [], _, _, _ => none
  | .label _ _ :: rest, st, s, key => runGetKey rest st s key
  | .delegate ts :: rest, st, s, key =>
    if (match key with | .idx _ => "int" | .slice .. => "slice") ∈ ts then some (pyGetItem (st.children s) key)
    else runGetKey rest st s key
  | .raise _ :: _, _, _, _ => some (.error .typeError)

/-! ### navigation -/

def navExc : String → Option Nav
  | "IndexError" => some .indexError
  | "ValueError" => some .valueError
  | _ => none

def evalI (i : Option Nat) (len : Nat) : IExp → Option Int
  | .i off => (match i with
    | some i => some ((i : Int) + off)
    | none => none)
  | .len off => some ((len : Int) + off)
  | .lit c => some c

/-- `Unit.prev` / `Unit.next`; `none`: outside the model (falls off the end, unknown exception, unbound `i`) -/
def runNav : List NInstr → TState → Nat → Option Nat → Option Nav
  | [], _, _, _ => none
  | .raiseIfNoParent exc :: rest, st, u, i =>
    (match st.parent u with
     | none => navExc exc
     | some _ => runNav rest st u i)
  | .bindIndex :: rest, st, u, _ =>
    (match st.parent u with
     | none => none
     | some p => if u ∈ st.children p then runNav rest st u (some ((st.children p).idxOf u)) else some .valueError)
  | .raiseIfEq a b exc :: rest, st, u, i =>
    (match st.parent u with
     | none => none
     | some p =>
       match evalI i (st.children p).length a, evalI i (st.children p).length b with
       | some x, some y => if x = y then navExc exc else runNav rest st u i
       | _, _ => none)
  | .retAt e :: _, st, u, i =>
    (match st.parent u with
     | none => none
     | some p =>
       match evalI i (st.children p).length e with
       | none => none
       | some x =>
         match normIdx (st.children p).length x with
         | none => some .indexError
         | some k => match (st.children p)[k]? with
           | some v => some (.unit v)
           | none => some .indexError)

/-- the property a name stands for in `prev_of` / `next_of` -/
def navProp : String → Option (TState → Nat → Nav)
  | "prev" => some prev
  | "next" => some next
  | _ => none

def navLoop (adv : TState → Nat → Nav) : Nat → TState → Nat → Nat → Nav
  | 0, st, cur, q => if isKind st q cur then .unit cur else .loop
  | fuel + 1, st, cur, q =>
    if isKind st q cur then .unit cur else
      match adv st cur with
      | .unit v => navLoop adv fuel st v q
      | e => e

/-- `cur = self.<start>; while True: if isinstance(cur, t): return cur; cur = cur.<advance>` with at most `fuel`
    property reads -/
def runNavOf (p : NavOf) (fuel : Nat) (st : TState) (u q : Nat) : Option Nav :=
  match navProp p.start, navProp p.advance, decide (p.test = "isinstance") with
  | some start, some adv, true =>
    (match fuel with
     | 0 => some .loop
     | fuel + 1 =>
       match start st u with
       | .unit v => some (navLoop adv fuel st v q)
       | e => some e)
  | _, _, _ => none

end Tree
