import PyrollModel.VeloGen
import PyrollModel.EvalDriver
import PyrollModel.Proto
/-
  Line-protocol driver of the velocity-loop model (C19).

      eval <formula> <var>=<bits> …                      → bits of the generated `Expr` over Float (EvalDriver)
      run <b|f> <budget> <speed> <aux> <units> <areas>   → `ok <iterations> <0|1 converged> <v₀;v₁;…>` | `IndexError`
          floats as IEEE bit patterns; <units> = the unit list of the sequence at the time of the call: `t` for a unit that is
          no roll pass, the usable area for a roll pass (`-` = empty); <areas> = vector;vector;… where the k-th vector
          is what the k-th `solve` call of the real run left as out cross-section areas (`S k _`); a call beyond the
          recorded ones yields NaN areas, so a model that runs longer than the implementation shows up.
          <v₀;v₁;…> = the velocities written before every solve call, oldest first.
-/
namespace VeloDriver
open Proto

def floats? (s : String) : Option (List Float) :=
  if s = "-" then some [] else (s.splitOn ",").mapM floatOfBitsStr

/-- the unit list of the sequence at the time of the call: `t` = a unit that is no roll pass, bits = usable area of a pass -/
def units? (s : String) : Option (List (Velo.SeqUnit Float)) :=
  if s = "-" then some [] else (s.splitOn ",").mapM fun t =>
    if t = "t" then some Velo.SeqUnit.other else (floatOfBitsStr t).map Velo.SeqUnit.pass

def vecs? (s : String) : Option (List (List Float)) :=
  if s = "-" then some [] else (s.splitOn ";").mapM floats?

def showVec (v : List Float) : String :=
  if v.isEmpty then "-" else ",".intercalate (v.map floatToBitsStr)

def solveOf (recorded : List (List Float)) (n : Nat) : Nat → List Float → List Float :=
  fun k _ => match recorded[k]? with
    | some a => a
    | none => List.replicate n (0.0 / 0.0)

def showResult : Except Velo.Err (Velo.Result Float) → String
  | .error .indexError => "IndexError"
  | .ok r => s!"ok {r.st.k} {if r.converged then 1 else 0} " ++
      ";".intercalate ((r.st.trace.reverse).map fun p => showVec p.1)

def handle (line : String) : String :=
  match toks line with
  | "eval" :: rest => EvalDriver.handle Gen.C19.table (" ".intercalate rest)
  | ["run", dir, budget, speed, aux, usable, areas] =>
    match nat? budget, floatOfBitsStr speed, floatOfBitsStr aux, units? usable, vecs? areas with
    | some b, some sp, some ax, some us, some rec =>
      let S := solveOf rec (Velo.rollPasses us).length
      if dir = "b" then showResult (VeloGen.backwardSeq S b sp ax us)
      else if dir = "f" then showResult (VeloGen.forwardSeq S b sp ax us)
      else "bad-op"
    | _, _, _, _, _ => "bad-op"
  | _ => "bad-op"

partial def loop (h : IO.FS.Stream) : IO Unit := do
  let line ← h.getLine
  if line.isEmpty then return ()
  IO.println (handle (line.trimAscii.toString))
  loop h

def main : IO Unit := do loop (← IO.getStdin)

end VeloDriver
