/-
  ConfigBase — vocabulary shared by the GENERATED description of `pyroll/core/config.py`
  (`PyrollModel/Gen/C20.lean`, rewritten by `driver/props/c20.py::translate` on every run) and the hand-written
  model `PyrollModel/Config.lean` that interprets it (C20).  Import-free.
-/

namespace Config

/-- texts are lists of characters (python `str`; the model covers ASCII case mapping and ASCII white space) -/
abbrev Text := List Char

/-- the `if` branches of `ConfigValue.parse`, named after the class `self.type` is tested against (the DISPATCH classes;
`custom` = the test on `self.parser`).  `int` is not a branch of the present source; it is a dispatch class of the type
lattice (`bool` is a subclass of `int`, `IntEnum` members are `int`s) and the translator accepts such a branch. -/
inductive Branch where
  | custom      -- `if self.parser:`
  | bool        -- `… bool …`
  | path        -- `… Path …`
  | str         -- `… str …`
  | enum        -- `… enum.Enum …`
  | mapping     -- `… Mapping …`
  | iterable    -- `… Iterable …`
  | int         -- `… int …`
  deriving DecidableEq, Repr

/-- HOW a branch tests `self.type` against its dispatch class -/
inductive TestKind where
  | truthy      -- `if self.parser:` (only the custom branch)
  | identity    -- `self.type is T` / `self.type == T`: holds for `T` itself only, never for a subclass
  | subclass    -- `issubclass(self.type, T)`: holds for `T` and every subclass
  | instance    -- `isinstance(self.default, T)`: the same relation (`self.type` is `type(self.default)`)
  deriving DecidableEq, Repr

/-- what a branch does with the text -/
inductive Body where
  | std         -- the body belonging to the dispatch class (custom parser call, bool tests, enum `try/except` chain, mapping,
                -- iterable): described by the other generated constants
  | text        -- `return s`
  | named       -- `return T(s)`, `T` the dispatch class written out (`Path(s)`, `int(s)`, `str(s)`)
  | selfType    -- `return self.type(s)`
  deriving DecidableEq, Repr

/-- one `if <test>: <body>` of `ConfigValue.parse` -/
structure Test where
  cls : Branch
  kind : TestKind
  body : Body
  deriving DecidableEq, Repr

/-- the three sources of `ConfigValue.__get__` -/
inductive Source where
  | explicit    -- `getattr(instance, "_" + self.name, None)`, used when `is not None`
  | env         -- `os.getenv(self.env_var, None)`, parsed when `is not None`
  | default     -- `self.default`
  deriving DecidableEq, Repr

/-- string methods applied to a text before it is compared / looked up (in application order) -/
inductive StrOp where
  | lower | upper | strip
  | replace (a b : Char)             -- `.replace("a", "b")` for one-character texts
  deriving DecidableEq, Repr

/-- one attempt of the enum branch (`try … except …` chain) -/
inductive EnumLookup where
  | byNumber                       -- `self.type(int(s))`      (ValueError ⇒ next attempt)
  | byName (ops : List StrOp)      -- `self.type[ops(s)]`      (KeyError ⇒ next attempt)
  deriving DecidableEq, Repr

/-- one conjunct of the name test of the `config` decorator (`if <t₁> and <t₂> …:` decides which attributes of the
decorated class become `ConfigValue` descriptors) -/
inductive NameTest where
  | isUpper                          -- `n.isupper()`
  | notStartsWith (p : Text)         -- `not n.startswith("<p>")`
  deriving DecidableEq, Repr

/-- what the decorator carries over from an attribute that already is a `ConfigValue(...)` (besides its default) -/
inductive CVField where
  | envVar                           -- `env_var=v._env_var`
  | parser                           -- `parser=v.parser`
  deriving DecidableEq, Repr

/-- attributes of a `ConfigValue` object written by `__init__` / `__set_name__` -/
inductive CVAttr where
  | default | type | parser | envVar | envPrefix | owner | name
  deriving DecidableEq, Repr

/-- right-hand sides of those assignments -/
inductive InitSrc where
  | argDefault          -- the parameter `default`
  | typeOfDefault       -- `type(default)`
  | argParser           -- the parameter `parser`
  | argEnvVar           -- the parameter `env_var`
  | argEnvPrefix        -- the parameter `env_var_prefix`
  | argOwner            -- `__set_name__`: the parameter `owner`
  | argName             -- `__set_name__`: the parameter `name`
  deriving DecidableEq, Repr

/-- what `ConfigMeta.to_dict` puts under a name -/
inductive DictYield where
  | descriptor          -- the `ConfigValue` object found in the metaclass' `__dict__`
  deriving DecidableEq, Repr

/-- python exception classes the model distinguishes -/
inductive Err where
  | valueError | keyError | typeError | attributeError | other
  deriving DecidableEq, Repr

end Config
