/-
  ConfigBase — vocabulary shared by the GENERATED description of `pyroll/core/config.py`
  (`PyrollModel/Gen/C20.lean`, rewritten by `driver/props/c20.py::translate` on every run) and the hand-written
  model `PyrollModel/Config.lean` that interprets it (C20).  Import-free.
-/

namespace Config

/-- texts are lists of characters (python `str`; the model covers ASCII case mapping and ASCII white space) -/
abbrev Text := List Char

/-- the `if` tests of `ConfigValue.parse`, in the vocabulary of the source -/
inductive Branch where
  | custom      -- `if self.parser:`
  | bool        -- `if self.type is bool:`
  | path        -- `if self.type is Path:`
  | str         -- `if self.type is str:`
  | enum        -- `if issubclass(self.type, enum.Enum):`
  | mapping     -- `if issubclass(self.type, Mapping):`
  | iterable    -- `if issubclass(self.type, Iterable):`
  deriving DecidableEq, Repr

/-- the three sources of `ConfigValue.__get__` -/
inductive Source where
  | explicit    -- `getattr(instance, "_" + self.name, None)`, used when `is not None`
  | env         -- `os.getenv(self.env_var, None)`, parsed when `is not None`
  | default     -- `self.default`
  deriving DecidableEq, Repr

/-- string methods applied to a text before it is compared / looked up (in application order) -/
inductive StrOp where
  | lower | upper | strip
  deriving DecidableEq, Repr

/-- one attempt of the enum branch (`try … except …` chain) -/
inductive EnumLookup where
  | byNumber                       -- `self.type(int(s))`      (ValueError ⇒ next attempt)
  | byName (ops : List StrOp)      -- `self.type[ops(s)]`      (KeyError ⇒ next attempt)
  deriving DecidableEq, Repr

/-- one conjunct of the name test of the `config` decorator (`if <t₁> and <t₂> …:` decides which attributes of the
decorated class become `ConfigValue` descriptors) -/
inductive NameTest where
  | isUpper                          -- `n.isupper()`
  | notStartsWith (p : Text)         -- `not n.startswith("<p>")`
  deriving DecidableEq, Repr

/-- what the decorator carries over from an attribute that already is a `ConfigValue(...)` (besides its default) -/
inductive CVField where
  | envVar                           -- `env_var=v._env_var`
  | parser                           -- `parser=v.parser`
  deriving DecidableEq, Repr

/-- python exception classes the model distinguishes -/
inductive Err where
  | valueError | keyError | typeError | attributeError | other
  deriving DecidableEq, Repr

end Config
