import PyrollModel.Impl
/-
  Handover — model of how state travels along a solved unit tree (C06).

  Mirrors, of `pyroll/core/unit/unit.py` and `pyroll/core/hooks.py`:

  * `Unit.Profile.__init__(unit, template)`  : the new profile gets the template's `__dict__` entries whose name does
    not start with "_"                                                              (`pub`)
  * `Unit.init_solve`                        : pre-processors are solved in a chain on the incoming profile; the
    in profile is a `Unit.Profile` copy of the result; so is the out profile when it is first created
  * `Unit._solve_subunits`                   : `last_profile = self.in_profile; for u in subunits: last_profile = u.solve(last_profile)`
  * `HookHost.evaluate_and_set_hooks`        : for every root hook (in list order) whose owner is a base of the object's
    class: value of the implementations, else `root_hook_fallback`, else AttributeError; `setattr`   (`evalSet`)
  * `Unit.OutProfile.root_hook_fallback`     : the last sub-unit's out profile if there are sub-units, else the in profile
  * `Unit.solve` return                      : `Profile(**public entries of out_profile.__dict__)`, then the post-processors in a chain
  * the object handed to `solve`             : a `HookHost` with explicit values (`__dict__`) AND a hook cache
    (`__cache__`, filled by every READ of a derived hook on the object); `Unit.Profile.__init__` reads
    `template.__dict__` only                                                        (`Obj`, `Obj.template`, `runObj`)

  The model describes the state after the LAST iteration of `solve` (a fixed point): what the hook implementations
  returned in that iteration is data (`inImpl`, `outImpl` : name ↦ value, absent = every implementation returned None).
  Keys `K` and values `V` are abstract (the driver uses strings and value identifiers); `priv` says which names are
  private; `hooks` is the root hook list — the theorems instantiate it with the list generated from the source
  (`Gen.C06.rootHooks`).  The shape of the mirrored statements is itself regenerated from the source on every run and
  compared with `expected…` below by `C06.skeleton_certificate`.
-/

namespace Handover

variable {K V : Type} [DecidableEq K]

/-! ### python `dict` (insertion ordered) -/

abbrev Dict (K V : Type) := List (K × V)

def get : Dict K V → K → Option V
  | [], _ => none
  | (k', v) :: r, k => if k' = k then some v else get r k

/-- `d[k] = v` : replace in place or append -/
def set : Dict K V → K → V → Dict K V
  | [], k, v => [(k, v)]
  | (k', v') :: r, k, v => if k' = k then (k, v) :: r else (k', v') :: set r k v

/-- the entries a `Unit.Profile` copies from its template: names not starting with "_" -/
def pub (priv : K → Bool) (d : Dict K V) : Dict K V := d.filter fun p => !priv p.1

/-! ### the object handed to `solve` -/

/-- a profile object as its holder sees it: the explicit values (`__dict__`, private entries included) and the hook
    cache (`__cache__`: the result of every derived hook that was READ on the object, e.g. `equivalent_height`) -/
structure Obj (K V : Type) where
  dict : Dict K V
  cache : Dict K V

/-- python `a | b` on dicts -/
def union (a : Dict K V) : Dict K V → Dict K V
  | [] => a
  | (k, v) :: r => union (set a k v) r

/-- `HookHost.__attrs__` = `__dict__ | __cache__`: what `repr` shows of the object — NOT what is handed over -/
def Obj.attrs (o : Obj K V) : Dict K V := union o.dict o.cache

/-- the dict `Unit.Profile.__init__(unit, template)` copies from: `template.__dict__` (`expectedProfileInit`) -/
def Obj.template (o : Obj K V) : Dict K V := o.dict

/-! ### `evaluate_and_set_hooks` -/

/-- is `k` the name of a root hook that applies to an object whose class derives from `owners`? -/
def applies (owners : List String) (hooks : List (String × K)) (k : K) : Bool :=
  hooks.any fun h => decide (h.1 ∈ owners) && decide (h.2 = k)

/-- `Except K` : `.error k` is the AttributeError "Call for root hook 'k' … resulted in None" -/
def evalSet (owners : List String) (impl : Dict K V) (fb : K → Option V) :
    List (String × K) → Dict K V → Except K (Dict K V)
  | [], d => .ok d
  | (o, k) :: hs, d =>
    if o ∈ owners then
      match get impl k with
      | some v => evalSet owners impl fb hs (set d k v)
      | none =>
        match fb k with
        | some v => evalSet owners impl fb hs (set d k v)
        | none => .error k
    else evalSet owners impl fb hs d

/-! ### units -/

/-- a unit of the tree with everything the hand-over depends on:
    the root-hook owners its in / out profile classes derive from, the values its implementations gave for the
    root hooks of the in / out profile in the final iteration, the values `getattr` finds on the in profile beyond
    the explicit ones (hook results such as the defaults `Unit.InProfile.length = 0`, `strain = 0`; the fallback reads
    the in profile with `getattr`), its pre- and post-processors and its sub-units -/
inductive UnitT (K V : Type) where
  | mk (inOwners outOwners : List String) (inImpl outImpl inDefault : Dict K V) (pre post subs : List (UnitT K V)) : UnitT K V

namespace UnitT
def inOwners : UnitT K V → List String | .mk io _ _ _ _ _ _ _ => io
def outOwners : UnitT K V → List String | .mk _ oo _ _ _ _ _ _ => oo
def inImpl : UnitT K V → Dict K V | .mk _ _ ii _ _ _ _ _ => ii
def outImpl : UnitT K V → Dict K V | .mk _ _ _ oi _ _ _ _ => oi
def inDefault : UnitT K V → Dict K V | .mk _ _ _ _ d _ _ _ => d
def pre : UnitT K V → List (UnitT K V) | .mk _ _ _ _ _ p _ _ => p
def post : UnitT K V → List (UnitT K V) | .mk _ _ _ _ _ _ q _ => q
def subs : UnitT K V → List (UnitT K V) | .mk _ _ _ _ _ _ _ s => s
end UnitT

/-- the observable result of solving one unit -/
structure Solved (K V : Type) where
  /-- what the unit itself received (after its pre-processors) -/
  received : Dict K V
  inP : Dict K V
  outP : Dict K V
  /-- what `solve` returned (after the post-processors) -/
  ret : Dict K V
  /-- (in, out) profiles of every unit of the subtree in the order pre-processors, self, sub-units, post-processors -/
  trace : List (Dict K V × Dict K V)

/-- the profile after a chain of units: what the last one returned, or the input if there is none -/
def lastRet (P : Dict K V) : List (Solved K V) → Dict K V
  | [] => P
  | [r] => r.ret
  | _ :: rs => lastRet P rs

/-- out profile of the last unit of a chain -/
def lastOut : List (Solved K V) → Option (Dict K V)
  | [] => none
  | [r] => some r.outP
  | _ :: rs => lastOut rs

def noFallback : K → Option V := fun _ => none

/-- `getattr(in_profile, name, None)`: the explicit value, else what the hooks of the in profile give -/
def getattrIn (inP dflt : Dict K V) (k : K) : Option V :=
  match get inP k with
  | some v => some v
  | none => get dflt k

/-- `Unit.OutProfile.root_hook_fallback` -/
def outFallback (subs : List (Solved K V)) (inP dflt : Dict K V) : K → Option V :=
  fun k => match lastOut subs with
    | some o => get o k
    | none => getattrIn inP dflt k

mutual
/-- `u.solve(P)` -/
def run (hooks : List (String × K)) (priv : K → Bool) : UnitT K V → Dict K V → Except K (Solved K V)
  | .mk io oo ii oi idf pre post subs, P =>
    match runList hooks priv pre P with
    | .error e => .error e
    | .ok rpre =>
      let P1 := lastRet P rpre
      match evalSet io ii noFallback hooks (pub priv P1) with
      | .error e => .error e
      | .ok inP =>
        match runList hooks priv subs inP with
        | .error e => .error e
        | .ok rs =>
          match evalSet oo oi (outFallback rs inP idf) hooks (pub priv P1) with
          | .error e => .error e
          | .ok outP =>
            match runList hooks priv post (pub priv outP) with
            | .error e => .error e
            | .ok rpost =>
              .ok { received := P1, inP := inP, outP := outP, ret := lastRet (pub priv outP) rpost,
                    trace := (rpre.flatMap (·.trace)) ++ (inP, outP) :: (rs.flatMap (·.trace)) ++ (rpost.flatMap (·.trace)) }
/-- `last = P; for u in us: last = u.solve(last)` -/
def runList (hooks : List (String × K)) (priv : K → Bool) : List (UnitT K V) → Dict K V → Except K (List (Solved K V))
  | [], _ => .ok []
  | u :: us, P =>
    match run hooks priv u P with
    | .error e => .error e
    | .ok r =>
      match runList hooks priv us r.ret with
      | .error e => .error e
      | .ok rs => .ok (r :: rs)
end

/-- `u.solve(o)` on an object: `init_solve` builds the in and out profile with `Unit.Profile.__init__(self, o)` -/
def runObj (hooks : List (String × K)) (priv : K → Bool) (u : UnitT K V) (o : Obj K V) : Except K (Solved K V) :=
  run hooks priv u o.template

/-! ### solving a unit AGAIN: `init_solve` on a unit that keeps the out profile of its previous solve

`Unit.init_solve`: `if not self.out_profile: self.out_profile = self.OutProfile(self, in_profile)` — and, in the source
form with an `else:` branch, the RE-USED out profile gets the current incoming state handed over: entries of it that are
neither private, nor root hooks of the out profile, nor handed over now are deleted; every handed-over entry that is
not a root hook, or is missing, is set.  WHICH entries are deleted / set is data read from the source on every run
(`Gen.C06.reuseDelete`, `reuseSet`: literals over the atoms hidden / root / handed / present), bundled as `Reuse`;
`Reuse.old` is the source form without the branch (the previous out profile is kept as it is). -/

/-- what `init_solve` does with an out profile that exists already: `handsOver` = there is an `else:` branch;
    `delete` = conjunction of literals (atom, polarity) selecting the entries of the out profile that are deleted;
    `set` = disjunction of literals selecting the handed-over entries that are set -/
structure Reuse where
  handsOver : Bool
  delete : List (String × Bool)
  set : List (String × Bool)
  deriving DecidableEq, Repr

/-- the source form without `else:` branch -/
def Reuse.old : Reuse := { handsOver := false, delete := [], set := [] }
/-- the source form with the hand-over branch as the theorems of `PyrollProps/C06.lean` know it:
    delete `not hidden and not root and not handed`; set `not root or not present` -/
def Reuse.new : Reuse :=
  { handsOver := true, delete := [("hidden", false), ("root", false), ("handed", false)],
    set := [("root", false), ("present", false)] }

/-- the atoms of the conditions: the name starts with the hidden prefix / is a root hook of the out profile / is among
    the handed-over entries / is in the out profile's `__dict__` -/
def atomEnv (hidden root handed present : Bool) (a : String) : Bool :=
  if a = "hidden" then hidden else if a = "root" then root else if a = "handed" then handed
  else if a = "present" then present else false

def litsAll (env : String → Bool) (ls : List (String × Bool)) : Bool := ls.all fun l => env l.1 == l.2
def litsAny (env : String → Bool) (ls : List (String × Bool)) : Bool := ls.any fun l => env l.1 == l.2

/-- python `d.items()`: every name of the dict with the value `d[name]` -/
def items (d : Dict K V) : Dict K V := d.map fun p => (p.1, (get d p.1).getD p.2)

/-- `outdated = [k for k in out.__dict__ if <delete>]; for k in outdated: delattr(out, k)` -/
def dropOutdated (pol : Reuse) (priv root : K → Bool) (handed out : Dict K V) : Dict K V :=
  out.filter fun p => !litsAll (atomEnv (priv p.1) (root p.1) (get handed p.1).isSome true) pol.delete

/-- `for k, v in handed.items(): if <set>: setattr(out, k, v)` -/
def fill (pol : Reuse) (priv root : K → Bool) : Dict K V → Dict K V → Dict K V
  | [], out => out
  | (k, v) :: r, out =>
    fill pol priv root r
      (if litsAny (atomEnv (priv k) (root k) true (get out k).isSome) pol.set then set out k v else out)

/-- the `else:` branch -/
def handOver (pol : Reuse) (priv root : K → Bool) (out handed : Dict K V) : Dict K V :=
  fill pol priv root (items handed) (dropOutdated pol priv root handed out)

/-- the `__dict__` of `self.out_profile` after `init_solve`: `prev` = the out profile the unit has kept (`none`: never
    solved), `P1` = the incoming profile after the pre-processors, `root` = "is a root hook of this out profile" -/
def initOut (pol : Reuse) (priv root : K → Bool) (prev : Option (Dict K V)) (P1 : Dict K V) : Dict K V :=
  match prev with
  | none => pub priv P1
  | some out => if pol.handsOver then handOver pol priv root out (pub priv P1) else out

/-- what a unit tree keeps from one `solve` to the next: per unit the `__dict__` of its out profile (`none` before
    the first solve) and the same of its sub-units (disk elements are created once).  In profiles are built anew by
    every `init_solve`; pre- and post-processors are made by their factories on every call (the entry rotator of a
    roll pass is local to `init_solve`). -/
inductive Mem (K V : Type) where
  | mk (out : Option (Dict K V)) (subs : List (Mem K V)) : Mem K V

namespace Mem
def out : Mem K V → Option (Dict K V) | .mk o _ => o
def subs : Mem K V → List (Mem K V) | .mk _ s => s
/-- a unit that has not been solved yet -/
def fresh : Mem K V := .mk none []
end Mem

mutual
/-- `u.solve(P)` on a unit with history `m`: as `run`, but the out profile starts from `initOut`; returns also what
    the unit keeps for the next solve -/
def runM (pol : Reuse) (hooks : List (String × K)) (priv : K → Bool) :
    UnitT K V → Mem K V → Dict K V → Except K (Solved K V × Mem K V)
  | .mk io oo ii oi idf pre post subs, m, P =>
    match runList hooks priv pre P with
    | .error e => .error e
    | .ok rpre =>
      let P1 := lastRet P rpre
      match evalSet io ii noFallback hooks (pub priv P1) with
      | .error e => .error e
      | .ok inP =>
        match runListM pol hooks priv subs m.subs inP with
        | .error e => .error e
        | .ok (rs, ms) =>
          match evalSet oo oi (outFallback rs inP idf) hooks (initOut pol priv (applies oo hooks) m.out P1) with
          | .error e => .error e
          | .ok outP =>
            match runList hooks priv post (pub priv outP) with
            | .error e => .error e
            | .ok rpost =>
              .ok ({ received := P1, inP := inP, outP := outP, ret := lastRet (pub priv outP) rpost,
                     trace := (rpre.flatMap (·.trace)) ++ (inP, outP) :: (rs.flatMap (·.trace)) ++ (rpost.flatMap (·.trace)) },
                   .mk (some outP) ms)
/-- `last = P; for u in us: last = u.solve(last)` on units with histories `ms` (a missing history = never solved) -/
def runListM (pol : Reuse) (hooks : List (String × K)) (priv : K → Bool) :
    List (UnitT K V) → List (Mem K V) → Dict K V → Except K (List (Solved K V) × List (Mem K V))
  | [], _, _ => .ok ([], [])
  | u :: us, ms, P =>
    match runM pol hooks priv u (ms.headD .fresh) P with
    | .error e => .error e
    | .ok (r, m) =>
      match runListM pol hooks priv us ms.tail r.ret with
      | .error e => .error e
      | .ok (rs, ms') => .ok (r :: rs, m :: ms')
end

/-- two solves of the same unit object: first `u₁` (the unit with what its implementations returned in the first
    solve) on `o₁` without history, then `u₂` on `o₂` with what the first solve left -/
def solveTwice (pol : Reuse) (hooks : List (String × K)) (priv : K → Bool) (u₁ : UnitT K V) (o₁ : Obj K V)
    (u₂ : UnitT K V) (o₂ : Obj K V) : Except K (Solved K V × Solved K V) :=
  match runM pol hooks priv u₁ .fresh o₁.template with
  | .error e => .error e
  | .ok (r₁, m) =>
    match runM pol hooks priv u₂ m o₂.template with
    | .error e => .error e
    | .ok (r₂, _) => .ok (r₁, r₂)

/-! ### the shape of the source the definitions above mirror (compared with `Gen.C06.*` by `C06.skeleton_certificate`) -/

def expectedProfileInit : String × String × List String := ("template.__dict__", "_", ["super().__init__(**COPY)"])
def expectedFallback : String × String × String :=
  ("self.unit.subunits", "self.unit.subunits[-1].out_profile", "self.unit.in_profile")
def expectedSolveSubunits : String × String × String × String :=
  ("self._subunits", "last_profile = self.in_profile", "self._subunits", "last_profile = u.solve(last_profile)")
def expectedInitSolve : List String :=
  ["pre_processor = factory(self)", "in_profile = pre_processor.solve(in_profile)",
   "self.in_profile = self.InProfile(self, in_profile)",
   "if not self.out_profile: self.out_profile = self.OutProfile(self, in_profile)"]
/-- the `else:` branch of the out profile guard (`Gen.C06.reuse…`): which names are root hooks there / what is handed
    over (source dict, hidden prefix) / what is iterated and done in the two loops -/
def expectedReuseRoots : String × String × String :=
  ("HOOK.name", "root_hooks", "isinstance(self.out_profile, HOOK.owner)")
def expectedReuseHanded : String × String := ("in_profile.__dict__", "_")
def expectedReuseDelete : String × String := ("self.out_profile.__dict__", "delattr(self.out_profile, k)")
def expectedReuseSet : String × String := ("HANDED.items()", "setattr(self.out_profile, k, v)")
def expectedRootResults : List String :=
  ["in_profile_results = self.in_profile.evaluate_and_set_hooks()",
   "out_profile_results = self.out_profile.evaluate_and_set_hooks()",
   "self_results = self.evaluate_and_set_hooks()"]
def expectedSolveBefore : List String := ["self.init_solve(in_profile)"]
def expectedSolveLoop : List String :=
  ["self.in_profile.reevaluate_cache()", "self._solve_subunits()", "self.reevaluate_cache()",
   "self.out_profile.reevaluate_cache()", "current_results = self.get_root_hook_results()"]
def expectedSolveReturned : String × String × String × String :=
  ("out_profile", "BaseProfile", "self.out_profile.__dict__", "_")
def expectedSolvePost : List String :=
  ["post_processor = factory(self)", "out_profile = post_processor.solve(out_profile)", "return out_profile"]
def expectedEvaluateAndSet : List String :=
  ["if issubclass(type(self), HOOK.owner):", "HOOK = getattr(type(self), HOOK.name)", "result = HOOK.get_result(self)",
   "if result is None: result = self.root_hook_fallback(HOOK)", "if result is None: raise AttributeError",
   "setattr(self, HOOK.name, result)"]
def expectedDiskCreation : String × String × String := ("super().init_solve(in_profile)", "not self._subunits", "self")
def expectedDiskInX : String × String × String × String :=
  ("DiskElementUnit.DiskElement.InProfile.x", "disk_element.prev.out_profile.x", "IndexError",
   "disk_element.parent.in_profile.x")

/-! ### numeric chains (generic in the carrier: run over `Float`, proved over ℝ) -/

section Num
variable {α : Type} [PyNum α]

/-- python `sum(xs)` : `0 + x₀ + x₁ + …` -/
def pySum (xs : List α) : α := xs.foldl (· + ·) (PyNum.nat 0)

/-- python `prod` -/
def pyProd (xs : List α) : α := xs.foldl (· * ·) (PyNum.nat 1)

/-- value of an implementation whose body is `sum([u.attr for u in self.<coll>])`, given the members of the collection
    as environments -/
def implSum (i : Impl) (units : List (String → α)) : Option α :=
  match i.alts with
  | [(.tt, .sumOver _ attr)] => some (pySum (units.map fun u => u attr))
  | _ => none

/-- thread a value through a list of steps with a formula `e` over the two variables `vIn` (the threaded value) and
    `vStep` (the step's own quantity): `x ↦ e[vIn := x, vStep := s]` — e.g. `out.t = in.t + duration` along a sequence -/
def thread (e : Expr) (vIn vStep : String) : α → List α → α
  | x, [] => x
  | x, s :: ss => thread e vIn vStep (e.eval fun n => if n = vIn then x else if n = vStep then s else PyNum.nat 0) ss

/-- all intermediate values of `thread` (start value first) -/
def threadAll (e : Expr) (vIn vStep : String) : α → List α → List α
  | x, [] => [x]
  | x, s :: ss => x :: threadAll e vIn vStep (e.eval fun n => if n = vIn then x else if n = vStep then s else PyNum.nat 0) ss

end Num

end Handover
