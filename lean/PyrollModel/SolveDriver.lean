import PyrollModel.SolveGen
import PyrollModel.Proto
/-
  Line-protocol driver of the solve-loop model (C05).  Floats as IEEE bit patterns.

      solve <maxIter> <prec> <old> <hasOut> <script>
          <old>    = `N` (the scalar NaN of a fresh unit) | vector
          vector   = b,b,…  (`-` = the empty vector)
          <script> = item;item;…  (`.` = no item) – what the k-th `get_root_hook_results` call of the real solve
                     returned: a vector, or `!<Exc>` when the loop body raised.  A call beyond the recorded ones
                     answers `!overrun`, so a model that runs longer than the implementation shows up.
        → <iterations> <warned> <ok|Exc> <createdOut> <logged i | _> <old afterwards> <items consumed>
      within <prec> <cur> <old>   → 1 | 0      the generated element-wise comparison over Float
      consts                      → <default precision> <default max iterations> <budget of 100> <allQ> <reusesOut>
      sub <o|e,…>                 → <sub-units entered> <ok|RuntimeError>     (`_solve_subunits`; `-` = none)
      handover <roots> <out> <tmpl> → <entries>   public entries of the out profile after `init_solve`
          <roots>   = name,name,… (`-` = none)      names of the root hooks of the out profile's class
          <out>     = `N` (no out profile yet) | entries      <tmpl> = entries of the incoming profile
          entries   = name=value,name=value,… (`-` = none; values are naturals = identities)
      parts <Class>               → <hosts in evaluation order> <hosts in concatenation order> <memos absent after reevaluate_cache>
          (comma separated, `-` = none)   `get_root_hook_results` / `reevaluate_cache` of a roll-pass class; memos:
          `_contour_lines`, `roll._contour_line`, both present before the call, remembered hook values reading them
      memo <Class> <pass|roll> <n> <stale 0|1> → i,i,…   which iteration's input (0-based; 999 = what a stale memo held) the
          pass contour (`pass`) / the roll's contour line (`roll`) used in each of `n` consecutive loop bodies was built from
-/
namespace SolveDriver
open Proto Solve

def floats? (s : String) : Option (List Float) :=
  if s = "-" then some [] else (s.splitOn ",").mapM floatOfBitsStr

def showVec (v : List Float) : String :=
  if v.isEmpty then "-" else ",".intercalate (v.map floatToBitsStr)

def old? (s : String) : Option (Old Float) :=
  if s = "N" then some .nan else (floats? s).map .vec

def showOld : Old Float → String
  | .nan => "N"
  | .vec v => showVec v

def excOfName (s : String) : Exc :=
  if s = "AttributeError" then .attributeError else if s = "ValueError" then .valueError
  else if s = "ZeroDivisionError" then .zeroDivisionError else if s = "TypeError" then .typeError
  else if s = "KeyError" then .keyError else if s = "IndexError" then .indexError
  else if s = "RuntimeError" then .runtimeError else .other

def excName : Exc → String
  | .attributeError => "AttributeError" | .valueError => "ValueError" | .zeroDivisionError => "ZeroDivisionError"
  | .typeError => "TypeError" | .keyError => "KeyError" | .indexError => "IndexError"
  | .runtimeError => "RuntimeError" | .other => "Other"

def item? (s : String) : Option (Except Exc (List Float)) :=
  if s.startsWith "!" then some (.error (excOfName (s.drop 1).toString)) else (floats? s).map .ok

def script? (s : String) : Option (List (Except Exc (List Float))) :=
  if s = "." then some [] else (s.splitOn ";").mapM item?

def entries? (s : String) : Option Entries :=
  if s = "-" then some [] else (s.splitOn ",").mapM fun t =>
    match t.splitOn "=" with
    | [k, v] => v.toNat?.map fun n => (k, n)
    | _ => none

def showEntries (e : Entries) : String :=
  if e.isEmpty then "-" else ",".intercalate (e.map fun x => s!"{x.1}={x.2}")

/-- playing back a recorded solve: the state is the number of items consumed -/
def playback (script : List (Except Exc (List Float))) (k : Nat) : Nat × Except Exc (List Float) :=
  (k + 1, match script[k]? with
    | some r => r
    | none => .error .other)

def showResult (r : Result Float Nat) (overrun : Bool) : String :=
  let e := match r.exc with
    | none => "ok"
    | some x => if overrun then "overrun" else excName x
  let logged := if r.exc.isNone && !r.warned then toString (SolveGen.loggedIndex r.iterations) else "_"
  s!"{r.iterations} {if r.warned then 1 else 0} {e} {if r.createdOut then 1 else 0} {logged} {showOld r.carried.old} {r.carried.st}"

def handle (line : String) : String :=
  match toks line with
  | ["solve", maxIter, prec, old, hasOut, script] =>
    match nat? maxIter, floatOfBitsStr prec, old? old, nat? hasOut, script? script with
    | some m, some p, some o, some h, some sc =>
      let r := SolveGen.solve (playback sc) m p { old := o, hasOut := h != 0, st := 0 }
      showResult r (r.exc.isSome && r.carried.st > sc.length)
    | _, _, _, _, _ => "bad-op"
  | ["within", prec, cur, old] =>
    match floatOfBitsStr prec, floatOfBitsStr cur, floatOfBitsStr old with
    | some p, some c, some o => if SolveGen.within p c o then "1" else "0"
    | _, _, _ => "bad-op"
  | ["consts"] =>
    s!"{floatToBitsStr (SolveGen.defaultPrec : Float)} {SolveGen.defaultMaxIter} {SolveGen.budget 100} " ++
      s!"{if SolveGen.allQ then 1 else 0} {if SolveGen.reusesOut then 1 else 0}"
  | ["handover", roots, out, tmpl] =>
    let rs := if roots = "-" then [] else roots.splitOn ","
    match (if out = "N" then some none else (entries? out).map some), entries? tmpl with
    | some o, some t => showEntries (SolveGen.initOut rs o t)
    | _, _ => "bad-op"
  | ["parts", cls] =>
    let sh := fun (l : List String) => if l.isEmpty then "-" else ",".intercalate l
    let sv := SolveBody.survivors (SolveGen.cacheProgram cls)
    let gone := (if sv.1 then [] else ["_contour_lines"]) ++ (if sv.2 == .none then ["roll._contour_line"] else [])
    s!"{sh (SolveGen.evalParts cls)} {sh (SolveGen.resultParts cls)} {sh gone}"
  | ["memo", cls, which, n, stale] =>
    match nat? n, nat? stale with
    | some k, some st =>
      let used := SolveBody.usedGeometries (fun (i : Nat) => i) (fun (i r : Nat) => (i, r)) (SolveGen.cacheProgram cls)
        ((List.range k).map fun i => { rollMid := i, rollNew := i, passMid := i, passNew := i })
        (if st != 0 then { pm := some (999, 999), rm := some 999, rv := 999, pv := 999 }
         else { pm := none, rm := none, rv := 999, pv := 999 })
      if used.isEmpty then "-" else ",".intercalate (used.map fun t => toString (if which = "roll" then t.2.1 else t.1.1))
    | _, _ => "bad-op"
  | ["sub", outcomes] =>
    let os := if outcomes = "-" then [] else outcomes.splitOn ","
    let subs : List (Nat → Nat × Except Exc Unit) :=
      os.map fun o => fun k => (k + 1, if o = "o" then .ok () else .error .other)
    match solveSubunits subs 0 with
    | (k, .ok _) => s!"{k} ok"
    | (k, .error e) => s!"{k} {excName e}"
  | _ => "bad-op"

partial def loop (h : IO.FS.Stream) : IO Unit := do
  let line ← h.getLine
  if line.isEmpty then return ()
  IO.println (handle (line.trimAscii.toString))
  loop h

def main : IO Unit := do loop (← IO.getStdin)

end SolveDriver
