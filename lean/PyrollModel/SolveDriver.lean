import PyrollModel.SolveGen
import PyrollModel.Proto
/-
  Line-protocol driver of the solve-loop model (C05).  Floats as IEEE bit patterns.

      solve <maxIter> <prec> <old> <hasOut> <script>
          <old>    = `N` (the scalar NaN of a fresh unit) | vector
          vector   = b,b,…  (`-` = the empty vector)
          <script> = item;item;…  (`.` = no item) – what the k-th `get_root_hook_results` call of the real solve
                     returned: a vector, or `!<Exc>` when the loop body raised.  A call beyond the recorded ones
                     answers `!overrun`, so a model that runs longer than the implementation shows up.
        → <iterations> <warned> <ok|Exc> <createdOut> <logged i | _> <old afterwards> <items consumed>
      within <prec> <cur> <old>   → 1 | 0      the generated element-wise comparison over Float
      consts                      → <default precision> <default max iterations> <budget of 100> <allQ> <reusesOut>
      sub <o|e,…>                 → <sub-units entered> <ok|RuntimeError>     (`_solve_subunits`; `-` = none)
      handover <roots> <out> <tmpl> → <entries>   public entries of the out profile after `init_solve`
          <roots>   = name,name,… (`-` = none)      names of the root hooks of the out profile's class
          <out>     = `N` (no out profile yet) | entries      <tmpl> = entries of the incoming profile
          entries   = name=value,name=value,… (`-` = none; values are naturals = identities)
      parts <Class>               → <hosts in evaluation order> <hosts in concatenation order> <memos absent after reevaluate_cache>
          (comma separated, `-` = none)   `get_root_hook_results` / `reevaluate_cache` of a roll-pass class; memos:
          `_contour_lines`, `roll._contour_line`, both present before the call, remembered hook values reading them
      memo <Class> <pass|roll> <n> <stale 0|1> → i,i,…   which iteration's input (0-based; 999 = what a stale memo held) the
          pass contour (`pass`) / the roll's contour line (`roll`) used in each of `n` consecutive loop bodies was built from
      marks <hooks> <instances> <cells> <queries> → <result>|<marks>;…   nested hook evaluations on `instances` hook hosts with
          `hooks` hooks (one implementation taking `cycle` + an optional `trylast` default each), `SolveGen.runReads` from no mark
          <cells>   = cell;cell;…  for hook 0 instance 0, hook 0 instance 1, …: <explicit>/<impl>/<default>
                      explicit, default = integer | `_`;  impl = `v<int>` | `p` | `a<hook>,<instance>,<a>,<b>`
          <queries> = hook.instance,…   top-level reads in order (caches are clean before each)
          result    = integer | `E` (AttributeError);  marks = the marks set after the read: hook.instance+… sorted (`-` = none)
-/
namespace SolveDriver
open Proto Solve

def floats? (s : String) : Option (List Float) :=
  if s = "-" then some [] else (s.splitOn ",").mapM floatOfBitsStr

def showVec (v : List Float) : String :=
  if v.isEmpty then "-" else ",".intercalate (v.map floatToBitsStr)

def old? (s : String) : Option (Old Float) :=
  if s = "N" then some .nan else (floats? s).map .vec

def showOld : Old Float → String
  | .nan => "N"
  | .vec v => showVec v

def excOfName (s : String) : Exc :=
  if s = "AttributeError" then .attributeError else if s = "ValueError" then .valueError
  else if s = "ZeroDivisionError" then .zeroDivisionError else if s = "TypeError" then .typeError
  else if s = "KeyError" then .keyError else if s = "IndexError" then .indexError
  else if s = "RuntimeError" then .runtimeError else .other

def excName : Exc → String
  | .attributeError => "AttributeError" | .valueError => "ValueError" | .zeroDivisionError => "ZeroDivisionError"
  | .typeError => "TypeError" | .keyError => "KeyError" | .indexError => "IndexError"
  | .runtimeError => "RuntimeError" | .other => "Other"

def item? (s : String) : Option (Except Exc (List Float)) :=
  if s.startsWith "!" then some (.error (excOfName (s.drop 1).toString)) else (floats? s).map .ok

def script? (s : String) : Option (List (Except Exc (List Float))) :=
  if s = "." then some [] else (s.splitOn ";").mapM item?

def entries? (s : String) : Option Entries :=
  if s = "-" then some [] else (s.splitOn ",").mapM fun t =>
    match t.splitOn "=" with
    | [k, v] => v.toNat?.map fun n => (k, n)
    | _ => none

def showEntries (e : Entries) : String :=
  if e.isEmpty then "-" else ",".intercalate (e.map fun x => s!"{x.1}={x.2}")

/-- playing back a recorded solve: the state is the number of items consumed -/
def playback (script : List (Except Exc (List Float))) (k : Nat) : Nat × Except Exc (List Float) :=
  (k + 1, match script[k]? with
    | some r => r
    | none => .error .other)

def showResult (r : Result Float Nat) (overrun : Bool) : String :=
  let e := match r.exc with
    | none => "ok"
    | some x => if overrun then "overrun" else excName x
  let logged := if r.exc.isNone && !r.warned then toString (SolveGen.loggedIndex r.iterations) else "_"
  s!"{r.iterations} {if r.warned then 1 else 0} {e} {if r.createdOut then 1 else 0} {logged} {showOld r.carried.old} {r.carried.st}"

def optInt2? (s : String) : Option (Option Int) := if s = "_" then some none else s.toInt?.map some

def impl? (s : String) : Option SolveMarks.Impl :=
  if s = "p" then some .pass
  else if s.startsWith "v" then (s.drop 1).toString.toInt?.map .value
  else if s.startsWith "a" then
    match (s.drop 1).toString.splitOn "," with
    | [g, k, a, b] =>
      match g.toNat?, k.toNat?, a.toInt?, b.toInt? with
      | some g, some k, some a, some b => some (.ask g k a b)
      | _, _, _, _ => none
    | _ => none
  else none

def cell? (s : String) : Option (Option Int × SolveMarks.Impl × Option Int) :=
  match s.splitOn "/" with
  | [e, i, d] =>
    match optInt2? e, impl? i, optInt2? d with
    | some e, some i, some d => some (e, i, d)
    | _, _, _ => none
  | _ => none

def query? (s : String) : Option (Nat × Nat) :=
  match s.splitOn "." with
  | [g, k] => match g.toNat?, k.toNat? with
    | some g, some k => some (g, k)
    | _, _ => none
  | _ => none

def worldOf (ni : Nat) (cells : Array (Option Int × SolveMarks.Impl × Option Int)) : SolveMarks.World :=
  let at' := fun (g k : Nat) => (cells[g * ni + k]?).getD (none, .pass, none)
  { explicit := fun g k => (at' g k).1, impl := fun g k => (at' g k).2.1, dflt := fun g k => (at' g k).2.2 }

def leKey (a b : Nat × Nat) : Bool := a.1 < b.1 || (a.1 == b.1 && a.2 ≤ b.2)

def insertKey (x : Nat × Nat) : List (Nat × Nat) → List (Nat × Nat)
  | [] => [x]
  | y :: ys => if leKey x y then x :: y :: ys else y :: insertKey x ys

def showMarks (m : SolveMarks.Marks) : String :=
  let s := m.foldl (fun acc x => insertKey x acc) []
  if s.isEmpty then "-" else "+".intercalate (s.map fun x => s!"{x.1}.{x.2}")

def showRes : SolveMarks.Res → String
  | .val v => toString v
  | .attributeError => "E"

/-- the history one read at a time (the marks after EVERY read are shown) -/
def marksHistory (W : SolveMarks.World) (fuel : Nat) : List (Nat × Nat) → SolveMarks.Marks → List String
  | [], _ => []
  | q :: qs, m =>
    let r := SolveGen.runReads fuel [(W, q.1, q.2)] m
    s!"{match r.2 with | [x] => showRes x | _ => "?"}|{showMarks r.1}" :: marksHistory W fuel qs r.1

def handle (line : String) : String :=
  match toks line with
  | ["solve", maxIter, prec, old, hasOut, script] =>
    match nat? maxIter, floatOfBitsStr prec, old? old, nat? hasOut, script? script with
    | some m, some p, some o, some h, some sc =>
      let r := SolveGen.solve (playback sc) m p { old := o, hasOut := h != 0, st := 0 }
      showResult r (r.exc.isSome && r.carried.st > sc.length)
    | _, _, _, _, _ => "bad-op"
  | ["within", prec, cur, old] =>
    match floatOfBitsStr prec, floatOfBitsStr cur, floatOfBitsStr old with
    | some p, some c, some o => if SolveGen.within p c o then "1" else "0"
    | _, _, _ => "bad-op"
  | ["consts"] =>
    s!"{floatToBitsStr (SolveGen.defaultPrec : Float)} {SolveGen.defaultMaxIter} {SolveGen.budget 100} " ++
      s!"{if SolveGen.allQ then 1 else 0} {if SolveGen.reusesOut then 1 else 0}"
  | ["handover", roots, out, tmpl] =>
    let rs := if roots = "-" then [] else roots.splitOn ","
    match (if out = "N" then some none else (entries? out).map some), entries? tmpl with
    | some o, some t => showEntries (SolveGen.initOut rs o t)
    | _, _ => "bad-op"
  | ["parts", cls] =>
    let sh := fun (l : List String) => if l.isEmpty then "-" else ",".intercalate l
    let sv := SolveBody.survivors (SolveGen.cacheProgram cls)
    let gone := (if sv.1 then [] else ["_contour_lines"]) ++ (if sv.2 == .none then ["roll._contour_line"] else [])
    s!"{sh (SolveGen.evalParts cls)} {sh (SolveGen.resultParts cls)} {sh gone}"
  | ["memo", cls, which, n, stale] =>
    match nat? n, nat? stale with
    | some k, some st =>
      let used := SolveBody.usedGeometries (fun (i : Nat) => i) (fun (i r : Nat) => (i, r)) (SolveGen.cacheProgram cls)
        ((List.range k).map fun i => { rollMid := i, rollNew := i, passMid := i, passNew := i })
        (if st != 0 then { pm := some (999, 999), rm := some 999, rv := 999, pv := 999 }
         else { pm := none, rm := none, rv := 999, pv := 999 })
      if used.isEmpty then "-" else ",".intercalate (used.map fun t => toString (if which = "roll" then t.2.1 else t.1.1))
    | _, _ => "bad-op"
  | ["marks", nh, ni, cells, queries] =>
    match nat? nh, nat? ni, (cells.splitOn ";").mapM cell?, (queries.splitOn ",").mapM query? with
    | some _, some ni, some cs, some qs => ";".intercalate (marksHistory (worldOf ni cs.toArray) 64 qs [])
    | _, _, _, _ => "bad-op"
  | ["sub", outcomes] =>
    let os := if outcomes = "-" then [] else outcomes.splitOn ","
    let subs : List (Nat → Nat × Except Exc Unit) :=
      os.map fun o => fun k => (k + 1, if o = "o" then .ok () else .error .other)
    match solveSubunits subs 0 with
    | (k, .ok _) => s!"{k} ok"
    | (k, .error e) => s!"{k} {excName e}"
  | _ => "bad-op"

partial def loop (h : IO.FS.Stream) : IO Unit := do
  let line ← h.getLine
  if line.isEmpty then return ()
  IO.println (handle (line.trimAscii.toString))
  loop h

def main : IO Unit := do loop (← IO.getStdin)

end SolveDriver
