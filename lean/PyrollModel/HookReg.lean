/-
  HookReg — model of hook registration and resolution order of pyroll.core (C01).

  Mirrors `pyroll/core/hooks.py`:
  * `Hook.__get__` on a class (`getattr(C, "h")`): the hook found along `C.__mro__` is returned if it is owned by
    `C`, otherwise a NEW empty `Hook` is created on `C` (lazy per-subclass hook object)            → `touch`
  * `Hook._yield_functions_from(attr)`: walk over `owner.__mro__`, `getattr(s, name, None)` (which again creates
    hook objects lazily), `reversed(store)`                                                          → `walk`
  * `Hook.functions_gen`: the six stores in the order first_wrappers, wrappers, last_wrappers, first_functions,
    functions, last_functions                                                                        → `walkAll`
  * `Hook.add_function` / `Hook.remove_function`: the six per-owner stores                          → `HookObj.push/erase`
  * `_HookHostMeta.__setattr__` + `HookHost.extension_class`: a hook object put on an existing class → `Op.extension`

  One hook name is modelled (hooks of different names do not interact).  Classes are natural numbers, the
  `__mro__` of every class is DATA handed over at class creation (restricted to the classes of the case;
  `HookHost`, `object` and the mixins own no hook).  Import-free, executable; tied to the code by
  driver/props/c01.py.
-/

namespace Hooks

abbrev Cls := Nat

inductive Tier where
  | first | normal | last
  deriving DecidableEq, Repr

/-- what an implementation does when called on an instance (implementations are data) -/
inductive Body where
  /-- plain implementation returning a constant (`none` = python `None`) -/
  | ret (v : Option Nat)
  /-- plain implementation that reads the same hook on a fresh instance of class `c` (once: nested calls answer `None`) -/
  | delegate (c : Cls)
  /-- cooperating wrapper: `None` when cycled, otherwise yields once, maps the inner value `x` to `10*x+k`,
      and an inner `None` to `dflt` -/
  | wrap (k : Nat) (dflt : Option Nat)
  /-- wrapper that returns `None` BEFORE its yield (declines to wrap) -/
  | decline
  deriving DecidableEq, Repr

/-- a `HookFunction` object: `add_function` creates one per call (also when the same function object is registered
    already, on whatever class); `id` is its identity, by which `remove_function` finds it -/
structure HF where
  id : Nat
  wrapper : Bool
  body : Body
  deriving DecidableEq, Repr

/-- a `Hook` object: the six stores -/
structure HookObj where
  firstFns : List HF := []
  fns : List HF := []
  lastFns : List HF := []
  firstWr : List HF := []
  wr : List HF := []
  lastWr : List HF := []
  deriving Repr

def HookObj.store (h : HookObj) : Bool → Tier → List HF
  | true, .first => h.firstWr
  | true, .normal => h.wr
  | true, .last => h.lastWr
  | false, .first => h.firstFns
  | false, .normal => h.fns
  | false, .last => h.lastFns

/-- `add_function`: append to the store selected by the flags -/
def HookObj.push (h : HookObj) (w : Bool) (t : Tier) (f : HF) : HookObj :=
  match w, t with
  | true, .first => { h with firstWr := h.firstWr ++ [f] }
  | true, .normal => { h with wr := h.wr ++ [f] }
  | true, .last => { h with lastWr := h.lastWr ++ [f] }
  | false, .first => { h with firstFns := h.firstFns ++ [f] }
  | false, .normal => { h with fns := h.fns ++ [f] }
  | false, .last => { h with lastFns := h.lastFns ++ [f] }

/-- `list.remove(x)`: the first element equal (= identical) to the hook function, nothing if absent -/
def eraseId (l : List HF) (id : Nat) : List HF := l.eraseP (fun f => f.id == id)

/-- `remove_function`: tried on every one of the six stores -/
def HookObj.erase (h : HookObj) (id : Nat) : HookObj :=
  { firstFns := eraseId h.firstFns id, fns := eraseId h.fns id, lastFns := eraseId h.lastFns id,
    firstWr := eraseId h.firstWr id, wr := eraseId h.wr id, lastWr := eraseId h.lastWr id }

structure State where
  /-- `C.__mro__` (restricted to the classes of the case); `[]` = class not defined -/
  mro : Cls → List Cls
  /-- the `Hook` object in `C.__dict__`, if any -/
  own : Cls → Option HookObj
  /-- number of `HookFunction` objects created so far (their identity) -/
  next : Nat

def init : State := { mro := fun _ => [], own := fun _ => none, next := 0 }

/-- attribute lookup on the class `s`: the first class along `s.__mro__` whose `__dict__` holds the hook -/
def lookup (st : State) (s : Cls) : Option Cls :=
  (st.mro s).find? (fun k => (st.own k).isSome)

/-- `getattr(s, "h", None)`: `Hook.__get__(None, s)` – when the hook found is not owned by `s`,
    a new empty hook object is put on `s` -/
def touch (st : State) (s : Cls) : State :=
  match lookup st s with
  | none => st
  | some k => if k = s then st else { st with own := fun x => if x = s then some {} else st.own x }

def storeOf (st : State) (s : Cls) (w : Bool) (t : Tier) : List HF :=
  match st.own s with
  | some h => h.store w t
  | none => []

/-- `_yield_functions_from(attr)` over the given `__mro__` -/
def walk (w : Bool) (t : Tier) : State → List Cls → State × List HF
  | st, [] => (st, [])
  | st, s :: rest =>
    let st1 := touch st s
    let r := walk w t st1 rest
    (r.1, (storeOf st1 s w t).reverse ++ r.2)

def tiers6 : List (Bool × Tier) :=
  [(true, .first), (true, .normal), (true, .last), (false, .first), (false, .normal), (false, .last)]

/-- `functions_gen`: one walk per store kind -/
def walkAll : State → List Cls → List (Bool × Tier) → State × List HF
  | st, _, [] => (st, [])
  | st, m, wt :: ks =>
    let r1 := walk wt.1 wt.2 st m
    let r2 := walkAll r1.1 m ks
    (r2.1, r1.2 ++ r2.2)

def visible (st : State) (c : Cls) : Bool := (lookup st c).isSome

/-- `C.h.functions`: state after the lazy creations, and the list (`none` = AttributeError: no such hook on `C`) -/
def functionsOf (st : State) (c : Cls) : State × Option (List HF) :=
  let st1 := touch st c
  if visible st1 c then
    let r := walkAll st1 (st1.mro c) tiers6
    (r.1, some r.2)
  else (st1, none)

/-- the resolution order for instances of class `c` in state `st` -/
def implOrder (st : State) (c : Cls) : List HF := (walkAll st (st.mro c) tiers6).2

/-- a real `__mro__`: starts with the new class, lists every class once, every listed base is defined and its own
    `__mro__` is contained (C3 linearisation guarantees this; the harness asserts that real classes pass) -/
def classOk (mro : Cls → List Cls) (c : Cls) (m : List Cls) : Bool :=
  mro c == [] && m.head? == some c && decide m.Nodup &&
    m.tail.all (fun k => mro k != [] && (mro k).all (fun j => decide (j ∈ m.tail)))

/-! ### abstract specification: the registration log -/

structure Reg where
  hf : HF
  cls : Cls
  tier : Tier
  deriving DecidableEq, Repr

/-- the documented order: wrappers before plain, tryfirst < normal < trylast, most derived class first along the MRO,
    latest registration first -/
def specRegs (mro : List Cls) (log : List Reg) : List Reg :=
  tiers6.flatMap fun wt => mro.flatMap fun k =>
    (log.filter fun r => r.cls == k && r.hf.wrapper == wt.1 && r.tier == wt.2).reverse

def specOrder (mro : List Cls) (log : List Reg) : List HF := (specRegs mro log).map (·.hf)

end Hooks
