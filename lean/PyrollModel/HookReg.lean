import PyrollModel.Gen.C01Hooks

/-
  HookReg — model of hook registration and resolution order of pyroll.core (C01).

  Mirrors `pyroll/core/hooks.py`:
  * `Hook.__get__` on a class (`getattr(C, "h")`): the hook found along `C.__mro__` is returned if it is owned by
    `C`, otherwise a NEW empty `Hook` is created on `C` (lazy per-subclass hook object)            → `touch`
  * `Hook.__get__` of the hook object of a BASE class asked for `C` although `C` may carry its own (`super(K, x).h`,
    `Base.__dict__["h"].__get__(x, C)`)                                                              → `askAs`
  * `Hook._yield_functions_from(attr)`: walk over `owner.__mro__`, `getattr(s, name, None)` (which again creates
    hook objects lazily), `reversed(store)`                                                          → `walk`
  * `Hook.functions_gen`: the six stores in the order first_wrappers, wrappers, last_wrappers, first_functions,
    functions, last_functions                                                                        → `walkAll`
  * `Hook.add_function` / `Hook.remove_function`: the six per-owner stores                          → `HookObj.push/erase`
  * `_HookHostMeta.__setattr__` + `HookHost.extension_class`: a hook object put on an existing class → `Op.extension`

  SOURCE TIE (T): the parts of these functions that are pure data are not written down here but CONSUMED from
  `PyrollModel/Gen/C01Hooks.lean`, which `driver/translate/hooks_skeleton.py` regenerates from `pyroll/core/hooks.py` on
  every run of `./check C01`:
    `Gen.C01.Hooks.functionsGenOrder` → `implTiers` (order of the six walks of `functions_gen`),
    `Gen.C01.Hooks.yieldReversed`     → `orient` (`reversed(...)` in `_yield_functions_from`),
    `Gen.C01.Hooks.addStores`         → `addStore?` / `HookObj.push` (which store `add_function` appends to),
    `Gen.C01.Hooks.removeStores`      → `removeHits` / `HookObj.erase` (which stores `remove_function` looks into),
    `Gen.C01.Hooks.getOwnerReuse`     → `ownerReuse` / `askAs` (a hook asked with another owner: the hook object that class
                                        carries answers, a new one is created only when it carries none).
  The specification side (`tiers6`, `specRegs`, `specOrder`) is hand-written and does not depend on the generated module.

  One hook name is modelled (hooks of different names do not interact).  Classes are natural numbers, the
  `__mro__` of every class is DATA handed over at class creation (restricted to the classes of the case;
  `HookHost`, `object` and the mixins own no hook).  Import-free, executable; tied to the code by
  driver/props/c01.py.
-/

namespace Hooks

abbrev Cls := Nat

inductive Tier where
  | first | normal | last
  deriving DecidableEq, Repr

/-- what an implementation does when called on an instance (implementations are data) -/
inductive Body where
  /-- plain implementation returning a constant (`none` = python `None`) -/
  | ret (v : Option Nat)
  /-- plain implementation that reads the same hook on a fresh instance of class `c` (once: nested calls answer `None`) -/
  | delegate (c : Cls)
  /-- cooperating wrapper: `None` when cycled, otherwise yields once, maps the inner value `x` to `10*x+k`,
      and an inner `None` to `dflt` -/
  | wrap (k : Nat) (dflt : Option Nat)
  /-- wrapper that returns `None` BEFORE its yield (declines to wrap) -/
  | decline
  deriving DecidableEq, Repr

/-- a `HookFunction` object: `add_function` creates one per call (also when the same function object is registered
    already, on whatever class); `id` is its identity, by which `remove_function` finds it -/
structure HF where
  id : Nat
  wrapper : Bool
  body : Body
  deriving DecidableEq, Repr

/-- a `Hook` object: the six stores -/
structure HookObj where
  firstFns : List HF := []
  fns : List HF := []
  lastFns : List HF := []
  firstWr : List HF := []
  wr : List HF := []
  lastWr : List HF := []
  deriving Repr

def HookObj.store (h : HookObj) : Bool → Tier → List HF
  | true, .first => h.firstWr
  | true, .normal => h.wr
  | true, .last => h.lastWr
  | false, .first => h.firstFns
  | false, .normal => h.fns
  | false, .last => h.lastFns

/-- the six stores by the name of the python attribute (the naming of the model's six fields) -/
def storeKey : String → Option (Bool × Tier)
  | "_first_wrappers" => some (true, .first)
  | "_wrappers" => some (true, .normal)
  | "_last_wrappers" => some (true, .last)
  | "_first_functions" => some (false, .first)
  | "_functions" => some (false, .normal)
  | "_last_functions" => some (false, .last)
  | _ => none

/-- the keyword flags `(tryfirst, trylast)` a registration of tier `t` is made with -/
def tierFlags : Tier → Bool × Bool
  | .first => (true, false)
  | .normal => (false, false)
  | .last => (false, true)

/-- the `if wrapper: … if tryfirst: … elif trylast: … else: …` selection of `add_function` as a decision list
    (wrapper flag, tested keyword or "" for `else`, store): the first entry that applies -/
def selectStore : List (Bool × String × String) → Bool → Bool → Bool → Option String
  | [], _, _, _ => none
  | (w', c, s) :: rest, w, tf, tl =>
    if w' == w && (c == "" || (c == "tryfirst" && tf) || (c == "trylast" && tl)) then some s
    else selectStore rest w tf tl

/-- the store `add_function` appends to for the flags of a registration, read from the GENERATED table -/
def addStore? (w : Bool) (t : Tier) : Option (Bool × Tier) :=
  (selectStore Gen.C01.Hooks.addStores w (tierFlags t).1 (tierFlags t).2).bind storeKey

/-- append to one of the six stores -/
def HookObj.pushAt (h : HookObj) (w : Bool) (t : Tier) (f : HF) : HookObj :=
  match w, t with
  | true, .first => { h with firstWr := h.firstWr ++ [f] }
  | true, .normal => { h with wr := h.wr ++ [f] }
  | true, .last => { h with lastWr := h.lastWr ++ [f] }
  | false, .first => { h with firstFns := h.firstFns ++ [f] }
  | false, .normal => { h with fns := h.fns ++ [f] }
  | false, .last => { h with lastFns := h.lastFns ++ [f] }

/-- `add_function`: append to the store the generated selection table names for the flags (no store named: the new
    `HookFunction` is stored nowhere) -/
def HookObj.push (h : HookObj) (w : Bool) (t : Tier) (f : HF) : HookObj :=
  match addStore? w t with
  | some k => h.pushAt k.1 k.2 f
  | none => h

/-- `list.remove(x)`: the first element equal (= identical) to the hook function, nothing if absent -/
def eraseId (l : List HF) (id : Nat) : List HF := l.eraseP (fun f => f.id == id)

/-- is this store among the ones `remove_function` looks into (GENERATED list `Gen.C01.Hooks.removeStores`)? -/
def removeHits (w : Bool) (t : Tier) : Bool :=
  Gen.C01.Hooks.removeStores.any fun s => storeKey s == some (w, t)

/-- `remove_function`: `remove` is tried on every store of the generated list (an absent function is passed over) -/
def HookObj.erase (h : HookObj) (id : Nat) : HookObj :=
  { firstFns := if removeHits false .first then eraseId h.firstFns id else h.firstFns,
    fns := if removeHits false .normal then eraseId h.fns id else h.fns,
    lastFns := if removeHits false .last then eraseId h.lastFns id else h.lastFns,
    firstWr := if removeHits true .first then eraseId h.firstWr id else h.firstWr,
    wr := if removeHits true .normal then eraseId h.wr id else h.wr,
    lastWr := if removeHits true .last then eraseId h.lastWr id else h.lastWr }

structure State where
  /-- `C.__mro__` (restricted to the classes of the case); `[]` = class not defined -/
  mro : Cls → List Cls
  /-- the `Hook` object in `C.__dict__`, if any -/
  own : Cls → Option HookObj
  /-- number of `HookFunction` objects created so far (their identity) -/
  next : Nat

def init : State := { mro := fun _ => [], own := fun _ => none, next := 0 }

/-- attribute lookup on the class `s`: the first class along `s.__mro__` whose `__dict__` holds the hook -/
def lookup (st : State) (s : Cls) : Option Cls :=
  (st.mro s).find? (fun k => (st.own k).isSome)

/-- `getattr(s, "h", None)`: `Hook.__get__(None, s)` – when the hook found is not owned by `s`,
    a new empty hook object is put on `s` -/
def touch (st : State) (s : Cls) : State :=
  match lookup st s with
  | none => st
  | some k => if k = s then st else { st with own := fun x => if x = s then some {} else st.own x }

/-- does `Hook.__get__`, asked with an owner that is not its own, hand the question to the hook object that owner class
    carries in its own `__dict__` (creating a new one only when the class carries none)?  GENERATED fact, read from the
    class-level part of `Hook.__get__`; `false` = a new hook object is created and put on the owner class every time. -/
def ownerReuse : Bool := Gen.C01.Hooks.getOwnerReuse

/-- `Hook.__get__(x, c)` of the hook object in the `__dict__` of class `s`, whatever made python call it with that owner:
    plain attribute lookup (`touch`: then `s` is the first class of `c.__mro__` that carries a hook object, so `c` carries
    none unless `s = c`), `super(K, x).h`, or the explicit descriptor call `S.__dict__["h"].__get__(x, C)`.  Its own class:
    nothing happens.  Another class: with `reuse` the hook object `c` carries already answers, and only a class that
    carries none gets a new empty one; without it a new empty hook object REPLACES whatever `c` carries. -/
def askAs (reuse : Bool) (st : State) (s c : Cls) : State :=
  if s = c then st
  else if reuse && (st.own c).isSome then st
  else { st with own := fun x => if x = c then some {} else st.own x }

def storeOf (st : State) (s : Cls) (w : Bool) (t : Tier) : List HF :=
  match st.own s with
  | some h => h.store w t
  | none => []

/-- `yield from reversed(funcs)` resp. `yield from funcs` -/
def orient (rev : Bool) (l : List HF) : List HF := if rev then l.reverse else l

/-- `_yield_functions_from(attr)` over the given `__mro__`; whether the store is yielded reversed is read from the
    GENERATED flag -/
def walk (w : Bool) (t : Tier) : State → List Cls → State × List HF
  | st, [] => (st, [])
  | st, s :: rest =>
    let st1 := touch st s
    let r := walk w t st1 rest
    (r.1, orient Gen.C01.Hooks.yieldReversed (storeOf st1 s w t) ++ r.2)

/-- the DOCUMENTED order of the six kinds of stores (specification side, hand-written) -/
def tiers6 : List (Bool × Tier) :=
  [(true, .first), (true, .normal), (true, .last), (false, .first), (false, .normal), (false, .last)]

/-- the order in which `functions_gen` walks the stores: the GENERATED list of store names (implementation side) -/
def implTiers : List (Bool × Tier) := Gen.C01.Hooks.functionsGenOrder.filterMap storeKey

/-- `functions_gen`: one walk per store kind -/
def walkAll : State → List Cls → List (Bool × Tier) → State × List HF
  | st, _, [] => (st, [])
  | st, m, wt :: ks =>
    let r1 := walk wt.1 wt.2 st m
    let r2 := walkAll r1.1 m ks
    (r2.1, r1.2 ++ r2.2)

def visible (st : State) (c : Cls) : Bool := (lookup st c).isSome

/-- `C.h.functions`: state after the lazy creations, and the list (`none` = AttributeError: no such hook on `C`) -/
def functionsOf (st : State) (c : Cls) : State × Option (List HF) :=
  let st1 := touch st c
  if visible st1 c then
    let r := walkAll st1 (st1.mro c) implTiers
    (r.1, some r.2)
  else (st1, none)

/-- the resolution order for instances of class `c` in state `st` -/
def implOrder (st : State) (c : Cls) : List HF := (walkAll st (st.mro c) implTiers).2

/-- a real `__mro__`: starts with the new class, lists every class once, every listed base is defined and its own
    `__mro__` is contained (C3 linearisation guarantees this; the harness asserts that real classes pass) -/
def classOk (mro : Cls → List Cls) (c : Cls) (m : List Cls) : Bool :=
  mro c == [] && m.head? == some c && decide m.Nodup &&
    m.tail.all (fun k => mro k != [] && (mro k).all (fun j => decide (j ∈ m.tail)))

/-! ### abstract specification: the registration log -/

structure Reg where
  hf : HF
  cls : Cls
  tier : Tier
  deriving DecidableEq, Repr

/-- the documented order: wrappers before plain, tryfirst < normal < trylast, most derived class first along the MRO,
    latest registration first -/
def specRegs (mro : List Cls) (log : List Reg) : List Reg :=
  tiers6.flatMap fun wt => mro.flatMap fun k =>
    (log.filter fun r => r.cls == k && r.hf.wrapper == wt.1 && r.tier == wt.2).reverse

def specOrder (mro : List Cls) (log : List Reg) : List HF := (specRegs mro log).map (·.hf)

end Hooks
