/-
  SolveMarks — hand-written model (import-free) of NESTED hook evaluations and the re-entrancy marks of
  `HookFunction.__call__` (pyroll/core/hooks.py), as far as C05's reproducibility clause needs them:

      key = id(instance); cycle = key in self._active_instances          -- one mark store PER hook function
      extra_args = {"cycle": cycle} if the implementation takes it
      self._active_instances.add(key)
      try:     result = self.function(instance, **extra_args)
      finally:
          if not cycle: self._active_instances.discard(key)

  A model implementation that takes the `cycle` argument may, while running on one instance, read the SAME hook (or
  another one) on ANOTHER instance (a transport without ambient temperature asks the following transport, a profile
  without grain size asks the profile before it, …): `Impl.ask`.  Such a read goes through `Hook.__get__`
  (explicit value, else the hook functions in order: the model implementation, then a `trylast` default, first result
  that is not `None`, else `AttributeError`) and through `HookFunction.__call__` of the same function object again.

  The marks of ALL hook functions are one list of keys `(function, instance)`; `_active_instances` of function `g` is
  `{k | (g, k) ∈ marks}`.  How the `cycle` flag is computed and when the mark is discarded is a parameter (`Policy`)
  that `SolveGen.marksPolicy` fills from what the translator read out of hooks.py.
-/
namespace SolveMarks

/-- when `HookFunction.__call__` discards its mark -/
inductive Unmark
  | unlessCycle   -- `finally: if not cycle: discard(key)`
  | always        -- `finally: discard(key)`
  | never         -- no `finally` that discards
deriving DecidableEq, Repr

structure Policy where
  /-- the mark store is an attribute of each hook function object (`self._active_instances = set()` in `__init__`);
      `false`: one store shared by all functions (class attribute) -/
  perFunction : Bool
  /-- `cycle = key in self._active_instances` (`true`) | `cycle = <the store is not empty>` (`false`: the function is
      "in a cycle" as soon as it runs on ANY instance) -/
  perInstance : Bool
  unmark : Unmark
deriving DecidableEq, Repr

/-- (hook function, instance) -/
abbrev Key := Nat × Nat
abbrev Marks := List Key

/-- what a model implementation does on one instance when it is NOT told `cycle` (told `cycle` it returns `None`) -/
inductive Impl
  | value (v : Int)                   -- returns a value without asking anybody
  | pass                              -- returns `None`
  | ask (g k : Nat) (a b : Int)       -- `return a * getattr(<instance k>, <hook g>) + b`
deriving DecidableEq, Repr

structure World where
  /-- value set explicitly on the instance (`__dict__`) -/
  explicit : Nat → Nat → Option Int
  impl : Nat → Nat → Impl
  /-- a `trylast` implementation without the `cycle` argument (`none`: it returns `None` / there is none) -/
  dflt : Nat → Nat → Option Int

inductive Res
  | val (v : Int)
  | attributeError          -- "could not provide a value" (also: `RecursionError` turned into `AttributeError`)
deriving DecidableEq, Repr

/-- the key under which a running call is remembered -/
def key (P : Policy) (g k : Nat) : Key := (if P.perFunction then g else 0, k)

/-- the `cycle` flag handed to the implementation of function `g` called on instance `k` -/
def flag (P : Policy) (m : Marks) (g k : Nat) : Bool :=
  if P.perInstance then m.contains (key P g k) else m.any (fun x => x.1 == (key P g k).1)

/-- the `finally` clause -/
def unmarked (P : Policy) (cycle : Bool) (m : Marks) (x : Key) : Marks :=
  match P.unmark with
  | .always => m.erase x
  | .never => m
  | .unlessCycle => if cycle then m else m.erase x

/-- `getattr(<instance k>, <hook g>)` from clean caches: marks afterwards, value / `AttributeError`.
    ONE structural recursion on `fuel` (the python call depth; out of fuel = `RecursionError` → `AttributeError`). -/
def read (P : Policy) (W : World) : Nat → Nat → Nat → Marks → Marks × Res
  | 0, _, _, m => (m, .attributeError)
  | fuel + 1, g, k, m =>
    match W.explicit g k with
    | some v => (m, .val v)
    | none =>
      let cycle := flag P m g k
      let m1 := if m.contains (key P g k) then m else key P g k :: m
      -- the implementation: `none` = raised, `some none` = returned `None`
      let mr : Marks × Option (Option Int) :=
        if cycle then (m1, some none) else
        match W.impl g k with
        | .value v => (m1, some (some v))
        | .pass => (m1, some none)
        | .ask g' k' a b =>
          match read P W fuel g' k' m1 with
          | (m', .val v) => (m', some (some (a * v + b)))
          | (m', .attributeError) => (m', none)
      let m3 := unmarked P cycle mr.1 (key P g k)
      match mr.2 with
      | none => (m3, .attributeError)
      | some (some v) => (m3, .val v)
      | some none =>
        match W.dflt g k with
        | some v => (m3, .val v)
        | none => (m3, .attributeError)

/-- a history of top-level reads (what the loop bodies of any number of solves of any sequences evaluate, each in the
    world = explicit values / implementations of that moment), the marks handed on from one to the next -/
def runAll (P : Policy) (fuel : Nat) : List (World × Nat × Nat) → Marks → Marks × List Res
  | [], m => (m, [])
  | q :: qs, m =>
    let r := read P q.1 fuel q.2.1 q.2.2 m
    let rs := runAll P fuel qs r.1
    (rs.1, r.2 :: rs.2)

/-- `d` times `v ↦ a * v + b` -/
def linIter (a b : Int) : Nat → Int → Int
  | 0, v => v
  | d + 1, v => a * linIter a b d v + b

/-- a line of instances each of which asks the next one for the same hook `g`; instance `n` holds the value -/
def chain (g n : Nat) (v a b : Int) (dflt : Option Int) : World :=
  { explicit := fun g' k => if g' = g ∧ k = n then some v else none,
    impl := fun _ k => .ask g (k + 1) a b,
    dflt := fun _ _ => dflt }

end SolveMarks
