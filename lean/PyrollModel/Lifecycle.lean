import PyrollModel.Gen.C02Hooks
import PyrollModel.Gen.C02Extra

/-
  Lifecycle — model of the hook value life-cycle of pyroll.core (C02).

  Mirrors `Hook.__get__ / __set__ / __delete__`, `Hook.get_result`, `HookHost.reevaluate_cache`,
  `has_set / has_cached / has_set_or_cached / has_value`, `evaluate_and_set_hooks` (with its inner generator `_gen`),
  `root_hook_fallback`, `HookFunction.__call__` (executing marks, `cycle`), `Hook.add_function / __call__ /
  remove_function`, `HookFunction.__enter__ / __exit__` (`with` blocks), `Hook.functions_gen` (store order),
  `_RootHooksList.add / insert_before / insert_after / remove_last` (pyroll/core/hooks.py) and the hand-over
  `Unit.Profile.__init__` (pyroll/core/unit/unit.py).  `HookHost.__copy__`: `PyrollModel/LifecycleCopy.lean`.

  * an instance has an ordered `dict` (explicit values, python `__dict__` restricted to hook names) and an
    ordered `cache` (python `__cache__`; an entry may hold `None`, which `reevaluate_cache` can store);
  * implementations are data (`Body`): a constant, `None`, "read another hook of the same instance and
    combine" (errors propagate), "read it if `has_value`" (AttributeError swallowed);
  * every invocation of an implementation or of an explicitly assigned callable is logged in `trace`;
  * evaluation is ONE structural recursion on fuel (`ev`) over a small task language
    (`get` = `Hook.__get__`, `unset` = its cache/compute part, `chain` = the loop of `get_result`,
    `body` = one function body); exhausted fuel is the result `fuelOut`.

  SOURCE TIE (T): four parts are not written down here but CONSUMED from `PyrollModel/Gen/C02Hooks.lean`, which
  `driver/translate/hooks_skeleton.py` regenerates from `pyroll/core/hooks.py` on every run of `./check C02`:
    `Gen.C02.Hooks.hasSetIn`, `hasCachedIn`  → `hasSet`, `hasCached` (the dictionary whose keys `has_set` / `has_cached` test),
    `Gen.C02.Hooks.reevalMode`               → `reeval` (what `reevaluate_cache` does with the remembered names),
    `Gen.C02.Hooks.getChecks`, `getStoreAfter` → `noneOutcome` (a `None` result of `get_result` raises AttributeError and
                                                 nothing is stored: the check exists and precedes the store).

  Second generated module `PyrollModel/Gen/C02Extra.lean` (`driver/translate/c02_extra.py`), CONSUMED here:
    `callDiscardGuard`, `callDiscardInFinally` → `discards` / `State.leave` (`HookFunction.__call__`: the per-(registration,
                                                 instance) "currently executing" mark is removed in the `finally`, i.e. also
                                                 when the function RAISED, unless the call was a cycled one),
    `functionTiers`, `yieldOver`, `yieldReversed` → `tierOrder`, `tierRegs`, `order` (`Hook.functions_gen`),
    `addStoreFor`                              → `tierOfFlags` (`Hook.add_function`: tryfirst / trylast),
    `removeStores`, `removeMatches`            → `removes` (`Hook.remove_function`: the registration OBJECT is removed),
    `rootAddMode`, `insertBeforeShift`, `insertAfterShift`, `removeLastWhich` → `rootAdd`, `insertRel`, `rootRemove`
                                                 (`_RootHooksList.add / insert_before / insert_after / remove_last`).

  FAILED EVALUATIONS AND EXECUTING MARKS.  `State.active` is the union of the `_active_instances` sets of all registrations:
  `(key, i)` = registration `key` is currently executing on instance `i`.  `ev` sets the mark before a function body runs
  and removes it on EVERY way out (value, `None`, AttributeError, TypeError, exhausted fuel) as the source says; a
  registration whose function takes the `cycle` parameter (`Body.cread`, `Body.ctry`) returns `None` at once when it
  finds its own mark.

  REGISTRATIONS are a multiset: `Reg.id` is the FUNCTION (what the invocation trace shows), `Reg.key` the registration
  object (`HookFunction`, what `remove_function` / leaving a `with` block removes), `Reg.tier` the store
  (0 `tryfirst`, 1 normal, 2 `trylast`).  One function may be registered several times.

  Executable; tied to the code by driver/props/c02.py.
-/

namespace Life

abbrev Name := Nat
abbrev Cls := Nat
abbrev Inst := Nat
abbrev Id := Nat

/-- non-`None` python values that occur: integers and booleans (`0` and `False` are the falsy ones) -/
inductive Val where
  | int (i : Int)
  | bool (b : Bool)
  deriving DecidableEq, Repr

/-- python arithmetic on a value (`True * 2 + 1 = 3`) -/
def Val.toInt : Val → Int
  | .int i => i
  | .bool true => 1
  | .bool false => 0

/-- a function body (hook implementation or one-argument explicit callable) -/
inductive Body where
  | const (v : Val)                       -- `return v`
  | none                                  -- `return None`
  | read (m : Name) (k c : Int)           -- `return self.m * k + c`            (errors propagate)
  | tryRead (m : Name) (k c : Int)        -- `if self.has_value(m): return self.m * k + c`   (else `None`)
  | cread (m : Name) (k c : Int)          -- `def f(self, cycle): if cycle: return None` then as `read`
  | ctry (m : Name) (k c : Int)           -- `def f(self, cycle): if cycle: return None` then as `tryRead`
  deriving DecidableEq, Repr

/-- the body a registered function executes when `HookFunction.__call__` hands it `cycle` (only functions with that
parameter look at it; an explicit callable is never given one) -/
def Body.under (cyc : Bool) : Body → Body
  | .cread m k c => if cyc then .none else .read m k c
  | .ctry m k c => if cyc then .none else .tryRead m k c
  | b => b

/-- what can sit in `__dict__` under a hook name.  A callable is known to the model only by the number of parameters
`inspect.signature` reports for it (`Hook.__get__`: `len(inspect.signature(v).parameters) == 0` → `v()`, else
`v(instance)`); the python KIND of callable — lambda, def, bound method, classmethod, partial, callable object,
builtin, `functools.wraps` wrapper — does not change the behaviour and is therefore no part of the model (the harness
draws every kind and maps it to `call0 / call1 / call2`; trusted base). -/
inductive PyVal where
  | plain (v : Val)                       -- a plain value (incl. falsy `0`, `False`)
  | call0 (id : Id) (r : Option Val)      -- `lambda: r`
  | call1 (id : Id) (b : Body)            -- `lambda self: <b>`
  | call2 (id : Id)                       -- `lambda self, x: ...` (malformed: the call with one argument is a TypeError)
  | none                                  -- python `None` assigned explicitly
  deriving DecidableEq, Repr

/-- result of an evaluation: a value, python `None`, or an exception kind -/
inductive Res where
  | val (v : Val)
  | none
  | attrErr
  | typeErr
  | fuelOut
  deriving DecidableEq, Repr

def Res.ofOpt : Option Val → Res
  | some v => .val v
  | .none => .none

/-! ### python `dict` as an insertion-ordered association list -/

def lookup {α : Type} (n : Name) : List (Name × α) → Option α
  | [] => none
  | (k, v) :: l => if k = n then some v else lookup n l

/-- `d[n] = v` : in place when the key exists, appended otherwise -/
def put {α : Type} (n : Name) (v : α) : List (Name × α) → List (Name × α)
  | [] => [(n, v)]
  | (k, w) :: l => if k = n then (k, v) :: l else (k, w) :: put n v l

/-- `d.pop(n, None)` -/
def del {α : Type} (n : Name) (l : List (Name × α)) : List (Name × α) :=
  l.filter fun e => e.1 != n

def keys {α : Type} (l : List (Name × α)) : List Name := l.map (·.1)

/-! ### state -/

structure Reg where
  id : Id                                  -- the FUNCTION (logged in the invocation trace)
  cls : Cls
  hook : Name
  body : Body
  key : Id := id                           -- the REGISTRATION object (`HookFunction`): what `remove_function` matches
  tier : Nat := 1                          -- 0 `_first_functions` (tryfirst), 1 `_functions`, 2 `_last_functions` (trylast)
  deriving DecidableEq, Repr

structure Obj where
  cls : Cls
  dict : List (Name × PyVal)
  cache : List (Name × Option Val)
  fb : Option Inst                         -- object `root_hook_fallback` copies from (`getattr(o, name, None)`)
  deriving DecidableEq, Repr

structure State where
  n : Nat                                  -- number of instances
  obj : Inst → Obj
  mro : Cls → List Cls                     -- python `__mro__` restricted to the case's classes (data)
  regs : List Reg                          -- live registrations in registration order
  roots : List (Cls × Name)                -- `root_hooks` (owner, name)
  trace : List Id                          -- invocation log
  active : List (Id × Inst) := []          -- executing marks: (registration key, instance) (`HookFunction._active_instances`)

def blank : Obj := { cls := 0, dict := [], cache := [], fb := none }

def init : State :=
  { n := 0, obj := fun _ => blank, mro := fun c => [c], regs := [], roots := [], trace := [], active := [] }

def State.setObj (st : State) (i : Inst) (o : Obj) : State :=
  { st with obj := fun j => if j = i then o else st.obj j }

def State.log (st : State) (id : Id) : State := { st with trace := st.trace ++ [id] }

/-- `instance.__cache__[n] = v` -/
def State.remember (st : State) (i : Inst) (n : Name) (v : Option Val) : State :=
  st.setObj i { st.obj i with cache := put n v (st.obj i).cache }

/-- `instance.__dict__[n] = v` -/
def State.assign (st : State) (i : Inst) (n : Name) (v : PyVal) : State :=
  st.setObj i { st.obj i with dict := put n v (st.obj i).dict }

/-! ### stores (tiers) of the plain implementations, as the GENERATED tables name them -/

def storeName : Nat → String
  | 0 => "_first_functions"
  | 1 => "_functions"
  | _ => "_last_functions"

def tierOfStore (s : String) : Option Nat :=
  if s == "_first_functions" then some 0 else if s == "_functions" then some 1
  else if s == "_last_functions" then some 2 else none

/-- the non-wrapper stores in the order `Hook.functions_gen` yields them -/
def tierOrder : List Nat := Gen.C02.Extra.functionTiers.filterMap tierOfStore

/-- `Hook._yield_functions_from(store)`: the classes of the MRO in order, per class the registrations of that store
(latest first when the source says `reversed`) -/
def tierRegs (st : State) (c : Cls) (n : Name) (t : Nat) : List Reg :=
  (if Gen.C02.Extra.yieldOver == "self.owner.__mro__" then st.mro c else [c]).flatMap fun k =>
    if Gen.C02.Extra.yieldReversed then (st.regs.filter fun r => r.cls == k && r.hook == n && r.tier == t).reverse
    else st.regs.filter fun r => r.cls == k && r.hook == n && r.tier == t

/-- resolution order of the plain implementations: store-major (tryfirst, normal, trylast), within a store the classes in
MRO order, latest registration first -/
def order (st : State) (c : Cls) (n : Name) : List Reg := tierOrder.flatMap (tierRegs st c n)

/-- `Hook.add_function`: the decision list (flag, store) read from the source, in its if / elif / else order -/
def pickStore : List (String × String) → Bool → Bool → String
  | [], _, _ => "<none>"
  | (c, s) :: l, first, last =>
    if c == "" || (c == "tryfirst" && first) || (c == "trylast" && last) then s else pickStore l first last

/-- the tier a registration with these flags lands in (3 = a store that is never yielded) -/
def tierOfFlags (first last : Bool) : Nat :=
  (tierOfStore (pickStore Gen.C02.Extra.addStoreFor first last)).getD 3

/-- `Hook.remove_function(func)`: does it remove registration `r`?  `store.remove(func)` removes the registration object
itself, from the stores the source lists -/
def removes (r : Reg) (key : Id) : Bool :=
  r.key == key && Gen.C02.Extra.removeMatches == "func" && Gen.C02.Extra.removeStores.contains (storeName r.tier)

/-! ### executing marks (`HookFunction.__call__`) -/

/-- `key in self._active_instances` -/
def State.marked (st : State) (k : Id) (i : Inst) : Bool := st.active.contains (k, i)

/-- `self._active_instances.add(key)` (a set: adding a present mark changes nothing) -/
def State.enter (st : State) (k : Id) (i : Inst) : State :=
  if st.marked k i then st else { st with active := (k, i) :: st.active }

/-- is the mark discarded on this way out?  Read from the GENERATED tables: the guard of the discard (`if not cycle`) and
whether it sits in the `finally` clause (then it also runs when the function raised) -/
def discards (cyc failed : Bool) : Bool :=
  (if Gen.C02.Extra.callDiscardGuard == "unless cycle" then !cyc else Gen.C02.Extra.callDiscardGuard == "always") &&
  (!failed || Gen.C02.Extra.callDiscardInFinally)

/-- `self._active_instances.discard(key)` where the source does it -/
def State.leave (st : State) (cyc failed : Bool) (k : Id) (i : Inst) : State :=
  if discards cyc failed then { st with active := st.active.erase (k, i) } else st

/-! ### the `root_hooks` list (`_RootHooksList`) -/

def idxOf {α : Type} [DecidableEq α] (p : α) : List α → Option Nat
  | [] => none
  | x :: l => if x = p then some 0 else (idxOf p l).map (· + 1)

/-- python `list.insert(k, x)` (beyond the end: appended) -/
def insertAt {α : Type} (x : α) : Nat → List α → List α
  | 0, l => x :: l
  | _ + 1, [] => [x]
  | k + 1, y :: l => y :: insertAt x k l

/-- `self.insert(self.index(position) + shift, item)`; `none` = ValueError (`position` is not in the list) -/
def insertRel {α : Type} [DecidableEq α] (shift : Nat) (p x : α) (l : List α) : Option (List α) :=
  (idxOf p l).map fun k => insertAt x (k + shift) l

/-- delete the LAST occurrence; `none` = ValueError -/
def removeLastOcc {α : Type} [DecidableEq α] (x : α) : List α → Option (List α)
  | [] => none
  | y :: l =>
    match removeLastOcc x l with
    | some l' => some (y :: l')
    | none => if y = x then some l else none

/-- delete the FIRST occurrence; `none` = ValueError -/
def removeFirstOcc {α : Type} [DecidableEq α] (x : α) : List α → Option (List α)
  | [] => none
  | y :: l => if y = x then some l else (removeFirstOcc x l).map (y :: ·)

/-- `_RootHooksList.remove_last` as the GENERATED description says -/
def rootRemove {α : Type} [DecidableEq α] (x : α) (l : List α) : Option (List α) :=
  if Gen.C02.Extra.removeLastWhich == "last" then removeLastOcc x l
  else if Gen.C02.Extra.removeLastWhich == "first" then removeFirstOcc x l else none

/-- `_RootHooksList.add` as the GENERATED description says -/
def rootAdd {α : Type} [DecidableEq α] (x : α) (l : List α) : List α :=
  if Gen.C02.Extra.rootAddMode == "append" then l ++ [x]
  else if Gen.C02.Extra.rootAddMode == "append unless present" then (if x ∈ l then l else l ++ [x]) else l

/-! ### evaluation -/

inductive Task where
  | get (i : Inst) (n : Name)              -- `Hook.__get__(instance)`
  | unset (i : Inst) (n : Name)            -- ... its part after the `__dict__` lookup: cache, then compute+store
  | chain (i : Inst) (rs : List Reg)       -- the remaining loop of `Hook.get_result`
  | body (i : Inst) (b : Body)             -- one function body

def Task.inst : Task → Inst
  | .get i _ | .unset i _ | .chain i _ | .body i _ => i

/-- `self.m * k + c` on the result of reading `m` (`None * k` is a TypeError) -/
def combine (k c : Int) : State × Res → State × Res
  | (s, .val v) => (s, .val (.int (v.toInt * k + c)))
  | (s, .none) => (s, .typeErr)
  | (s, .attrErr) => (s, .attrErr)
  | (s, .typeErr) => (s, .typeErr)
  | (s, .fuelOut) => (s, .fuelOut)

/-- position of the check (condition, exception) in the GENERATED list of checks `Hook.__get__` makes after `get_result` -/
def checkIdx (c : String × String) : List (String × String) → Option Nat
  | [] => none
  | x :: xs => if x == c then some 0 else (checkIdx c xs).map (· + 1)

/-- `get_result` returned `None`: what `Hook.__get__` does is read from the GENERATED tables - with the check
    `if result is None: raise AttributeError` in front of the store nothing is stored; were the store in front of it, `None`
    would be stored first; without the check `None` would be stored and returned -/
def noneOutcome (i : Inst) (n : Name) (s : State) : State × Res :=
  match checkIdx ("is None", "AttributeError") Gen.C02.Hooks.getChecks with
  | some k => if k < Gen.C02.Hooks.getStoreAfter then (s, .attrErr) else (s.remember i n none, .attrErr)
  | none => (s.remember i n none, .none)

/-- tail of `Hook.__get__` after `get_result`: `None` → AttributeError, a value is stored in `__cache__` -/
def finishGet (i : Inst) (n : Name) : State × Res → State × Res
  | (s, .val v) => (s.remember i n (some v), .val v)
  | (s, .none) => noneOutcome i n s
  | (s, .attrErr) => (s, .attrErr)
  | (s, .typeErr) => (s, .typeErr)
  | (s, .fuelOut) => (s, .fuelOut)

def ev : Nat → State → Task → State × Res
  | 0, st, _ => (st, .fuelOut)
  | f + 1, st, .get i n =>
    match lookup n (st.obj i).dict with
    | some (.plain v) => (st, .val v)
    | some (.call0 id r) => (st.log id, Res.ofOpt r)
    | some (.call1 id b) => ev f (st.log id) (.body i b)
    | some (.call2 _) => (st, .typeErr)
    | some .none => ev f st (.unset i n)
    | none => ev f st (.unset i n)
  | f + 1, st, .unset i n =>
    match lookup n (st.obj i).cache with
    | some (some v) => (st, .val v)
    | some none => finishGet i n (ev f st (.chain i (order st (st.obj i).cls n)))
    | none => finishGet i n (ev f st (.chain i (order st (st.obj i).cls n)))
  | _ + 1, st, .chain _ [] => (st, .none)
  | f + 1, st, .chain i (r :: rs) =>
    -- `HookFunction.__call__`: cycle := mark present; set the mark; run the function (it is given `cycle` when it has
    -- such a parameter); remove the mark on every way out (unless the call was a cycled one)
    match ev f ((st.log r.id).enter r.key i) (.body i (r.body.under (st.marked r.key i))) with
    | (st1, .none) => ev f (st1.leave (st.marked r.key i) false r.key i) (.chain i rs)
    | (st1, .val v) => (st1.leave (st.marked r.key i) false r.key i, .val v)
    | (st1, .attrErr) => (st1.leave (st.marked r.key i) true r.key i, .attrErr)
    | (st1, .typeErr) => (st1.leave (st.marked r.key i) true r.key i, .typeErr)
    | (st1, .fuelOut) => (st1.leave (st.marked r.key i) true r.key i, .fuelOut)
  | _ + 1, st, .body _ (.const v) => (st, .val v)
  | _ + 1, st, .body _ .none => (st, .none)
  | f + 1, st, .body i (.read m k c) => combine k c (ev f st (.get i m))
  | f + 1, st, .body i (.tryRead m k c) =>
    match ev f st (.get i m) with
    | (st1, .attrErr) => (st1, .none)                          -- `has_value` is False
    | (st1, .val _) => combine k c (ev f st1 (.get i m))       -- `has_value` is True: read again
    | (st1, .none) => combine k c (ev f st1 (.get i m))
    | (st1, .typeErr) => (st1, .typeErr)
    | (st1, .fuelOut) => (st1, .fuelOut)
  -- a `cycle`-aware body that is not called through `HookFunction.__call__` with a mark present: `cycle` is False
  | f + 1, st, .body i (.cread m k c) => ev f st (.body i (.read m k c))
  | f + 1, st, .body i (.ctry m k c) => ev f st (.body i (.tryRead m k c))

/-! ### loops of `reevaluate_cache` and `evaluate_and_set_hooks` -/

/-- `for n in list(cache.keys()): cache[n] = getattr(type(self), n).get_result(self)` -/
def reevalLoop (fuel : Nat) (i : Inst) : State → List Name → State × Res
  | st, [] => (st, .none)
  | st, n :: ns =>
    match ev fuel st (.chain i (order st (st.obj i).cls n)) with
    | (st1, .val v) => reevalLoop fuel i (st1.remember i n (some v)) ns
    | (st1, .none) => reevalLoop fuel i (st1.remember i n none) ns
    | (st1, .attrErr) => (st1, .attrErr)
    | (st1, .typeErr) => (st1, .typeErr)
    | (st1, .fuelOut) => (st1, .fuelOut)

/-- `reevaluate_cache` as the GENERATED description of its body says: every remembered name (a copy of the key list) is
    recomputed with `get_result` and stored whatever the result / the cache is cleared / a body the model has no reading
    for (then no theorem about re-evaluation can be proved: the result is the model's "did not finish") -/
def reeval (fuel : Nat) (i : Inst) (st : State) : State × Res :=
  if Gen.C02.Hooks.reevalMode == "for each remembered name (copy): __cache__[name] := hook.get_result(self)" then
    reevalLoop fuel i st (keys (st.obj i).cache)
  else if Gen.C02.Hooks.reevalMode == "clear" then (st.setObj i { st.obj i with cache := [] }, .none)
  else (st, .fuelOut)

/-- `root_hook_fallback`: `getattr(other, name, None)` on the configured object (default: `None`) -/
def fallback (fuel : Nat) (st : State) (i : Inst) (n : Name) : State × Res :=
  match (st.obj i).fb with
  | none => (st, .none)
  | some j =>
    match ev fuel st (.get j n) with
    | (s, .attrErr) => (s, .none)
    | x => x

/-- the generator inside `evaluate_and_set_hooks`; the accumulated list is its return value -/
def rootLoop (fuel : Nat) (i : Inst) : State → List (Cls × Name) → List Val → State × Res × List Val
  | st, [], acc => (st, .none, acc)
  | st, (c, n) :: rs, acc =>
    if (st.mro (st.obj i).cls).contains c then
      match ev fuel st (.chain i (order st (st.obj i).cls n)) with
      | (st1, .val v) => rootLoop fuel i (st1.assign i n (.plain v)) rs (acc ++ [v])
      | (st1, .none) =>
        match fallback fuel st1 i n with
        | (st2, .val v) => rootLoop fuel i (st2.assign i n (.plain v)) rs (acc ++ [v])
        | (st2, .none) => (st2, .attrErr, acc)
        | (st2, .attrErr) => (st2, .attrErr, acc)
        | (st2, .typeErr) => (st2, .typeErr, acc)
        | (st2, .fuelOut) => (st2, .fuelOut, acc)
      | (st1, .attrErr) => (st1, .attrErr, acc)
      | (st1, .typeErr) => (st1, .typeErr, acc)
      | (st1, .fuelOut) => (st1, .fuelOut, acc)
    else rootLoop fuel i st rs acc

/-! ### operations -/

inductive Op where
  | defClass (c : Cls) (mro : List Cls)
  | newInst (c : Cls)
  | read (i : Inst) (n : Name)
  | assign (i : Inst) (n : Name) (v : PyVal)
  | delete (i : Inst) (n : Name)
  | reevaluate (i : Inst)
  | clearCache (i : Inst)
  | addImpl (id : Id) (c : Cls) (n : Name) (b : Body)
  | removeImpl (id : Id)
  | hasSet (i : Inst) (n : Name)
  | hasCached (i : Inst) (n : Name)
  | hasSetOrCached (i : Inst) (n : Name)
  | hasValue (i : Inst) (n : Name)
  | setRoots (l : List (Cls × Name))
  | evalRoot (i : Inst)
  | setFallback (i : Inst) (j : Option Inst)
  | handOver (i : Inst) (c : Cls)
  | addReg (key fn : Id) (c : Cls) (n : Name) (b : Body) (first last : Bool)   -- `add_function(f, tryfirst, trylast)`,
                                                    -- also `with hook(f, ...):` (enter) and re-registration of a function
  | rootAdd (e : Cls × Name)                        -- `root_hooks.add(e)`
  | rootInsertBefore (p e : Cls × Name)             -- `root_hooks.insert_before(p, e)`
  | rootInsertAfter (p e : Cls × Name)              -- `root_hooks.insert_after(p, e)`
  | rootRemoveLast (e : Cls × Name)                 -- `root_hooks.remove_last(e)`

inductive Out where
  | valueErr
  | ok
  | res (r : Res)
  | flag (b : Bool)
  | vals (r : Res) (l : List Val)
  deriving DecidableEq, Repr

/-- `name in self.<dictionary>` for the dictionary named in the source -/
def hasIn (o : Obj) (n : Name) : String → Bool
  | "__dict__" => (lookup n o.dict).isSome
  | "__cache__" => (lookup n o.cache).isSome
  | _ => false

/-- `has_set` / `has_cached`: the dictionary is the one the GENERATED tables name -/
def hasSet (st : State) (i : Inst) (n : Name) : Bool := hasIn (st.obj i) n Gen.C02.Hooks.hasSetIn
def hasCached (st : State) (i : Inst) (n : Name) : Bool := hasIn (st.obj i) n Gen.C02.Hooks.hasCachedIn

/-- one operation; the trace is reset first, so that `(step ..).1.trace` is the invocation log of this operation -/
def step (fuel : Nat) (st0 : State) (op : Op) : State × Out :=
  let st := { st0 with trace := [] }
  match op with
  | .defClass c mro => ({ st with mro := fun k => if k = c then mro else st.mro k }, .ok)
  | .newInst c => ({ st.setObj st.n { blank with cls := c } with n := st.n + 1 }, .ok)
  | .read i n => let r := ev fuel st (.get i n); (r.1, .res r.2)
  | .assign i n v => (st.assign i n v, .ok)
  | .delete i n => (st.setObj i { st.obj i with dict := del n (st.obj i).dict }, .ok)
  | .reevaluate i => let r := reeval fuel i st; (r.1, .res r.2)
  | .clearCache i => (st.setObj i { st.obj i with cache := [] }, .ok)
  | .addImpl id c n b => ({ st with regs := st.regs ++ [{ id := id, cls := c, hook := n, body := b }] }, .ok)
  | .removeImpl key => ({ st with regs := st.regs.filter fun r => !(removes r key) }, .ok)
  | .hasSet i n => (st, .flag (hasSet st i n))
  | .hasCached i n => (st, .flag (hasCached st i n))
  | .hasSetOrCached i n => (st, .flag (hasSet st i n || hasCached st i n))
  | .hasValue i n =>
    match ev fuel st (.get i n) with
    | (s, .val _) => (s, .flag true)
    | (s, .none) => (s, .flag true)
    | (s, .attrErr) => (s, .flag false)
    | (s, .typeErr) => (s, .res .typeErr)
    | (s, .fuelOut) => (s, .res .fuelOut)
  | .setRoots l => ({ st with roots := l }, .ok)
  | .evalRoot i => let r := rootLoop fuel i st st.roots []; (r.1, .vals r.2.1 r.2.2)
  | .setFallback i j => (st.setObj i { st.obj i with fb := j }, .ok)
  | .handOver i c =>
    -- `Unit.Profile.__init__`: exactly the public `__dict__` entries of the template; a fresh `__cache__`
    ({ st.setObj st.n { cls := c, dict := (st.obj i).dict, cache := [], fb := none } with n := st.n + 1 }, .ok)
  | .addReg key fn c n b first last =>
    ({ st with regs := st.regs ++ [{ id := fn, cls := c, hook := n, body := b, key := key, tier := tierOfFlags first last }] },
     .ok)
  | .rootAdd e => ({ st with roots := rootAdd e st.roots }, .ok)
  | .rootInsertBefore p e =>
    match insertRel Gen.C02.Extra.insertBeforeShift p e st.roots with
    | some l => ({ st with roots := l }, .ok)
    | none => (st, .valueErr)
  | .rootInsertAfter p e =>
    match insertRel Gen.C02.Extra.insertAfterShift p e st.roots with
    | some l => ({ st with roots := l }, .ok)
    | none => (st, .valueErr)
  | .rootRemoveLast e =>
    match rootRemove e st.roots with
    | some l => ({ st with roots := l }, .ok)
    | none => (st, .valueErr)

def run (fuel : Nat) (st : State) (ops : List Op) : State :=
  ops.foldl (fun s op => (step fuel s op).1) st

end Life
