import PyrollModel.ConfigBase
import PyrollModel.Gen.C20

/-
  Config — executable model of `pyroll/core/config.py` (C20).  Import-free (core Lean only).

  The model is an INTERPRETER of a description `Desc` of the source: for every `if` branch of `ConfigValue.parse` the dispatch
  class `self.type` is tested against, the KIND of test (`is` / `issubclass` / `isinstance` on the default) and what the branch
  returns, in source order; the string methods and literals of the bool tests, the `try/except` chain of the enum branch,
  separators / `strip` calls of the mapping and iterable branches; the order of the sources in `__get__` and the slot attribute
  `__get__` / `__set__` / `__delete__` use; the assignments of `__init__` and `__set_name__`; the format of `env_var`; what
  `ConfigMeta.to_dict` collects, whether the unknown-name branch of `ConfigMeta.update` raises and what `update` returns; the
  name test of the `config` decorator.  `Config.src` is that description filled with the GENERATED constants of
  `PyrollModel/Gen/C20.lean`, which `driver/props/c20.py::translate` rewrites from the repository's working tree on every run;
  the theorems of `PyrollProps/C20.lean` are about `src`.

  Value types form a LATTICE (`Ty`, `Ty.supers`, `Ty.exact`): a type may be a subclass of several dispatch classes (an enum
  mixing in `str` is an `Enum`, a `str` and an `Iterable`; `bool` is an `int`; user-defined subclasses inherit the relations of
  their base).  `parse` takes the first test of the source that holds for the type of the default.

  Every recursive function is one structural recursion on a list or on a `fuel : Nat`.
-/

namespace Config

/-! ### characters and texts (python `str`; ASCII case mapping, white space of the Latin-1 range) -/

/-- code points below 256 for which python's `str.isspace` holds (what `str.strip()` / `int()` / `float()` remove) -/
def spaces : List Char := [9, 10, 11, 12, 13, 28, 29, 30, 31, 32, 133, 160].map Char.ofNat

def isSpace (c : Char) : Bool := spaces.contains c

def lowers : List Char := "abcdefghijklmnopqrstuvwxyz".toList
def uppers : List Char := "ABCDEFGHIJKLMNOPQRSTUVWXYZ".toList

/-- replace `c` by its partner when it occurs in `src` (table look-up; no arithmetic on code points) -/
def mapVia : List Char → List Char → Char → Char
  | a :: as, b :: bs, c => if c = a then b else mapVia as bs c
  | _, _, c => c

def lowerC (c : Char) : Char := mapVia uppers lowers c
def upperC (c : Char) : Char := mapVia lowers uppers c

/-- the cased characters of the Latin-1 range (code points below 256), as CPython's `str.isupper` / `str.islower` class
them; characters from 256 on are uncased in the model (true of CJK letters; the generators stay below 256 otherwise).
The tables are compared with `str.isupper()` by the harness (`isupper` lines). -/
def casedUppers : List Char :=
  uppers ++ ([192, 193, 194, 195, 196, 197, 198, 199, 200, 201, 202, 203, 204, 205, 206, 207, 208, 209, 210, 211, 212, 213,
    214, 216, 217, 218, 219, 220, 221, 222].map Char.ofNat)
def casedLowers : List Char :=
  lowers ++ ([170, 181, 186, 223, 224, 225, 226, 227, 228, 229, 230, 231, 232, 233, 234, 235, 236, 237, 238, 239, 240, 241,
    242, 243, 244, 245, 246, 248, 249, 250, 251, 252, 253, 254, 255].map Char.ofNat)

/-- `str.isupper()`: at least one cased character and no lower-case one (digits, `_` … are uncased and allowed) -/
def pyIsUpper (t : Text) : Bool := t.any (fun c => casedUppers.contains c) && !t.any (fun c => casedLowers.contains c)

/-- `str.startswith(p)` -/
def startsWith : Text → Text → Bool
  | [], _ => true
  | _ :: _, [] => false
  | a :: as, b :: bs => a == b && startsWith as bs

/-- what `int()` / `float()` skip around a number: as above without the separators FS, GS, RS, US (28–31) -/
def numSpaces : List Char := [9, 10, 11, 12, 13, 32, 133, 160].map Char.ofNat

def isNumSpace (c : Char) : Bool := numSpaces.contains c

/-- remove the leading / leading and trailing characters satisfying `p` -/
def lstripBy (p : Char → Bool) (t : Text) : Text := t.dropWhile p
def stripBy (p : Char → Bool) (t : Text) : Text := (lstripBy p (lstripBy p t).reverse).reverse

/-- `str.strip()` -/
def strip (t : Text) : Text := stripBy isSpace t

def applyOp : StrOp → Text → Text
  | .lower, t => t.map lowerC
  | .upper, t => t.map upperC
  | .strip, t => strip t
  | .replace a b, t => t.map (fun c => if c = a then b else c)

/-- `t.op1().op2()…` (application order) -/
def applyOps : List StrOp → Text → Text
  | [], t => t
  | o :: os, t => applyOps os (applyOp o t)

/-- `str.split(sep)` for a one-character separator: never empty, `"".split(",") == [""]` -/
def split (sep : Char) : Text → List Text
  | [] => [[]]
  | c :: cs =>
    if c = sep then [] :: split sep cs
    else match split sep cs with
      | [] => [[c]]
      | p :: ps => (c :: p) :: ps

/-- `sep.join(items)` -/
def join (sep : Char) : List Text → Text
  | [] => []
  | [x] => x
  | x :: y :: r => x ++ sep :: join sep (y :: r)

/-! ### integers: `str(n)` and `int(s)` -/

def digits : List Char := "0123456789".toList

def digitChar (d : Nat) : Char := digits.getD d '0'
def digitVal (c : Char) : Nat := digits.idxOf c
def isDigit (c : Char) : Bool := digits.contains c

/-- decimal digits of `n`, least significant first -/
def revDigits : Nat → Nat → Text
  | 0, _ => []
  | fuel + 1, n => if n < 10 then [digitChar n] else digitChar (n % 10) :: revDigits fuel (n / 10)

/-- `str(n)` for a natural number -/
def renderNat (n : Nat) : Text := (revDigits (n + 1) n).reverse

/-- `str(n)` -/
def renderInt : Int → Text
  | .ofNat n => renderNat n
  | .negSucc n => '-' :: renderNat (n + 1)

/-- value of a digit string given least significant digit first -/
def valueRev : Text → Nat
  | [] => 0
  | c :: cs => digitVal c + 10 * valueRev cs

/-- python's decimal integer literal body: digits, single underscores only between digits -/
def okDigits (prevDigit : Bool) : Text → Bool
  | [] => prevDigit
  | c :: cs =>
    if isDigit c then okDigits true cs
    else if c = '_' && prevDigit then okDigits false cs
    else false

def natBody (body : Text) : Option Nat :=
  if okDigits false body then some (valueRev (body.filter (fun c => c != '_')).reverse) else none

/-- `int(s)`: surrounding white space, optional sign, digits with single underscores; `none` = `ValueError` -/
def pyInt (t : Text) : Option Int :=
  match stripBy isNumSpace t with
  | [] => none
  | c :: body =>
    if c = '-' then (natBody body).map (fun n => - (Int.ofNat n))
    else if c = '+' then (natBody body).map Int.ofNat
    else (natBody (c :: body)).map Int.ofNat

/-! ### values, types, declarations -/

/-- python values the model distinguishes -/
inductive V where
  | none                                   -- `None`
  | bool (b : Bool)
  | int (n : Int)
  | str (t : Text)
  | path (t : Text)                        -- `Path(t)` (pathlib normalisation is not modelled: symbolic)
  | enum (value : Int)                     -- the member with this value
  | list (items : List Text)
  | tuple (items : List Text)
  | dict (kvs : List (Text × Text))        -- insertion order
  | sym (ctor : Nat) (t : Text)            -- `T(t)` for a constructor `T` the model does not interpret (float, …)
  | obj (id : Nat)                         -- any other object (only ever assigned explicitly / used as default)
  | inst (k : Nat) (v : V)                 -- an instance of the user-defined class #k (`class MyList(list)`) with base value `v`
  | desc (c : Nat) (n : Text)              -- the `ConfigValue` descriptor object of value `n` of class `c`
  deriving DecidableEq, Repr

/-- the data type mixed into an enum class -/
inductive Mix where
  | plain                    -- `class E(Enum)`
  | str                      -- `class E(str, Enum)` / `enum.StrEnum`: the members are `str` instances (values are texts)
  | int                      -- `enum.IntEnum` / `class E(int, Enum)`: the members are `int` instances
  | flag (cls : Nat)         -- `enum.IntFlag` #cls: members are `int` instances; `E(n)` for a number that is no member's
                             -- value is CPython's business (combination of flags): left symbolic
  deriving DecidableEq, Repr

/-- can `E(int(s))` find a member (the members carry integer values) -/
def Mix.byNumber : Mix → Bool
  | .str => false
  | _ => true

/-- the type of a default value: the TYPE LATTICE `ConfigValue.parse` dispatches on.  A type is related to the dispatch
classes (`Branch`) by `supers` (every dispatch class it is a subclass of - possibly several) and `exact` (the dispatch
class it IS). -/
inductive Ty where
  | bool | path | str | int                 -- `bool`, `PosixPath` (what every `Path(…)` object is), `str`, `int`
  | enum (mix : Mix) (members : List (Text × Int))    -- `(name, id)` of `__members__` (aliases included); id = the value
                                                      -- for integer-valued enums, a serial number for `Mix.str`
  | dict | list | tuple
  | other (ctor : Nat)                     -- anything else: `self.type(s)` is left symbolic (0 = float, 1 = NoneType, …)
  | sub (k : Nat) (base : Ty)              -- the user-defined subclass #k of `base` (`class MyList(list): pass`)
  | ntuple (k : Nat)                       -- the `NamedTuple` class #k (≥ 2 fields): a `tuple` whose constructor wants the fields
  deriving DecidableEq, Repr

/-- every dispatch class the type is a subclass of (`issubclass(self.type, T)` / `isinstance(self.default, T)`) -/
def Ty.supers : Ty → List Branch
  | .bool => [.bool, .int]
  | .path => [.path]
  | .str => [.str, .iterable]
  | .int => [.int]
  | .enum .plain _ => [.enum]
  | .enum .str _ => [.enum, .str, .iterable]
  | .enum .int _ => [.enum, .int]
  | .enum (.flag _) _ => [.enum, .int, .iterable]      -- a flag value iterates over its single flags
  | .dict => [.mapping, .iterable]
  | .list => [.iterable]
  | .tuple => [.iterable]
  | .ntuple _ => [.iterable]
  | .other _ => []
  | .sub _ b => b.supers

/-- the dispatch class the type IS (`self.type is T`); `Path` itself is never the type of an object -/
def Ty.exact : Ty → Option Branch
  | .bool => some .bool
  | .str => some .str
  | .int => some .int
  | _ => none

/-- the built-in type at the root of a chain of user-defined subclasses -/
def Ty.root : Ty → Ty
  | .sub _ b => b.root
  | t => t

/-- an object made by the constructor of the type: instances of user-defined classes carry their class -/
def Ty.wrap : Ty → V → V
  | .sub k _, v => .inst k v
  | .ntuple k, v => .inst k v
  | _, v => v

/-- does the `if` test `(b, kind)` of `ConfigValue.parse` hold for a value of this type (`hasParser`: a custom parser is set) -/
def Ty.passes (ty : Ty) (hasParser : Bool) : Branch × TestKind → Bool
  | (.custom, _) => hasParser
  | (_, .truthy) => false
  | (b, .identity) => ty.exact == some b
  | (b, .subclass) => ty.supers.contains b
  | (b, .instance) => ty.supers.contains b

/-- one declared configuration value (a `ConfigValue` descriptor after `__init__` and `__set_name__`) -/
structure CV where
  cls : Nat                  -- the config class it belongs to
  name : Text
  default : V
  ty : Ty                    -- `self.type`
  parser : Option Nat        -- index of the custom parser
  envOverride : Text         -- `self._env_var` ([] = not given / falsy)
  envPrefix : Text           -- `self._env_var_prefix` after `__set_name__`
  module : Text              -- `owner.__module__`
  deriving Repr

/-- a slot of the explicit values: (config class, ATTRIBUTE name - the value's name behind the slot prefix) -/
abbrev Key := Nat × Text
/-- custom parsers: index ↦ function -/
abbrev Parsers := Nat → Text → Except Err V

/-- description of the source (see the header); `src` below is the generated instance -/
structure Desc where
  parseTests : List Test
  boolTests : List (List StrOp × Text × Bool)
  boolElse : Err
  enumLookups : List EnumLookup
  mapSep : Char
  mapKvSep : Char
  mapPairNorm : List StrOp
  mapPartNorm : List StrOp
  listSep : Char
  listItemNorm : List StrOp
  getOrder : List Source
  getSlot : Text                     -- `__get__` reads the attribute `getSlot + name` of the class …
  setSlot : Text                     -- … `__set__` writes `setSlot + name` …
  delSlot : Text                     -- … `__delete__` removes `delSlot + name`
  initStores : List (CVAttr × InitSrc)       -- the assignments of `__init__`
  setNameStores : List (CVAttr × InitSrc)    -- the assignments of `__set_name__`
  prefixFallback : Bool              -- `__set_name__`: a falsy prefix is replaced by the owner's module path, normalised by
  modulePrefixNorm : List StrOp
  envSep : Text
  envNameNorm : List StrOp
  toDictYield : DictYield            -- what `to_dict` stores under a name
  updateRaises : Bool
  updateErr : Err
  updateReturnsToDict : Bool
  nameTests : List NameTest          -- `config` decorator: the conjuncts deciding which attributes become config values
  wrappedKeeps : List CVField        -- … and what it carries over from an attribute given as `ConfigValue(...)`

/-- the description generated from the repository's working tree -/
def src : Desc where
  parseTests := Gen.C20.parseTests
  boolTests := Gen.C20.boolTests
  boolElse := Gen.C20.boolElse
  enumLookups := Gen.C20.enumLookups
  mapSep := Gen.C20.mapSep
  mapKvSep := Gen.C20.mapKvSep
  mapPairNorm := Gen.C20.mapPairNorm
  mapPartNorm := Gen.C20.mapPartNorm
  listSep := Gen.C20.listSep
  listItemNorm := Gen.C20.listItemNorm
  getOrder := Gen.C20.getOrder
  getSlot := Gen.C20.getSlot
  setSlot := Gen.C20.setSlot
  delSlot := Gen.C20.delSlot
  initStores := Gen.C20.initStores
  setNameStores := Gen.C20.setNameStores
  prefixFallback := Gen.C20.prefixFallback
  modulePrefixNorm := Gen.C20.modulePrefixNorm
  envSep := Gen.C20.envSep
  envNameNorm := Gen.C20.envNameNorm
  toDictYield := Gen.C20.toDictYield
  updateRaises := Gen.C20.updateRaises
  updateErr := Gen.C20.updateErr
  updateReturnsToDict := Gen.C20.updateReturnsToDict
  nameTests := Gen.C20.nameTests
  wrappedKeeps := Gen.C20.wrappedKeeps

/-! ### `ConfigValue.__init__`, `__set_name__`, `env_var` -/

/-- the arguments of `ConfigValue(default, env_var=…, env_var_prefix=…, parser=…)`; `ty` is python's `type(default)` -/
structure InitArgs where
  default : V
  ty : Ty
  envVar : Text              -- [] = not given (`None`) or empty
  envPrefix : Text           -- ditto
  parser : Option Nat
  deriving Repr

/-- a `ConfigValue` object after `__init__`: an attribute the constructor does not assign stays at the neutral value -/
structure Raw where
  default : V
  ty : Ty
  parser : Option Nat
  envVar : Text
  envPrefix : Text
  deriving Repr

/-- `ConfigValue.__init__`: every attribute gets what the source assigns to it -/
def init (d : Desc) (a : InitArgs) : Raw where
  default := if d.initStores.contains (.default, .argDefault) then a.default else .none
  ty := if d.initStores.contains (.type, .typeOfDefault) then a.ty else .other 1
  parser := if d.initStores.contains (.parser, .argParser) then a.parser else none
  envVar := if d.initStores.contains (.envVar, .argEnvVar) then a.envVar else []
  envPrefix := if d.initStores.contains (.envPrefix, .argEnvPrefix) then a.envPrefix else []

/-- `owner.__module__.upper().replace(".", "_")` -/
def modulePrefix (m : Text) : Text := (m.map upperC).map (fun c => if c = '.' then '_' else c)

/-- `ConfigValue.__set_name__(owner, name)`, `owner` = config class `c` defined in module `m`: remembers owner and name and
replaces a falsy prefix by the normalised module path of the owner -/
def setName (d : Desc) (r : Raw) (c : Nat) (n m : Text) : CV where
  cls := if d.setNameStores.contains (.owner, .argOwner) then c else 0
  name := if d.setNameStores.contains (.name, .argName) then n else []
  default := r.default
  ty := r.ty
  parser := r.parser
  envOverride := r.envVar
  envPrefix := if r.envPrefix ≠ [] then r.envPrefix else if d.prefixFallback then applyOps d.modulePrefixNorm m else []
  module := m

/-- a descriptor as it stands in the metaclass: `NAME = ConfigValue(…)` in the body of a class created in module `m` -/
def declare (d : Desc) (a : InitArgs) (c : Nat) (n m : Text) : CV := setName d (init d a) c n m

/-- `ConfigValue.env_var` -/
def envName (d : Desc) (cv : CV) : Text :=
  if cv.envOverride ≠ [] then cv.envOverride
  else cv.envPrefix ++ d.envSep ++ applyOps d.envNameNorm cv.name

/-! ### the `config` decorator: which attributes of the decorated class become configuration values -/

def nameTest (n : Text) : NameTest → Bool
  | .isUpper => pyIsUpper n
  | .notStartsWith p => !startsWith p n

/-- the `if` of the decorator's loop over `cls.__dict__` -/
def isConfigName (d : Desc) (n : Text) : Bool := d.nameTests.all (nameTest n)

/-- one attribute of the body of a decorated class: `NAME = default` or `NAME = ConfigValue(default, env_var=…, parser=…)` -/
structure Attr where
  name : Text
  default : V
  ty : Ty
  parser : Option Nat        -- only for attributes given as `ConfigValue(...)`
  envOverride : Text         -- ditto
  deriving Repr

/-- what the decorator `config(pre)` makes of one attribute of class `c` (metaclass created in module `m`):
`ConfigValue(default=…, env_var_prefix=pre, …)` placed in the metaclass when the name passes the test, nothing (the
attribute stays a plain class attribute) otherwise -/
def decorate1 (d : Desc) (c : Nat) (pre m : Text) (a : Attr) : Option CV :=
  if isConfigName d a.name then
    some (declare d ⟨a.default, a.ty, if d.wrappedKeeps.contains .envVar then a.envOverride else [], pre,
      if d.wrappedKeeps.contains .parser then a.parser else none⟩ c a.name m)
  else none

/-- the declarations the decorator creates for the body `attrs` -/
def decorate (d : Desc) (c : Nat) (pre m : Text) (attrs : List Attr) : List CV := attrs.filterMap (decorate1 d c pre m)

/-! ### `ConfigValue.parse` -/

def parseBool (els : Err) (t : Text) : List (List StrOp × Text × Bool) → Except Err V
  | [] => .error els
  | (ops, lit, r) :: rest => if applyOps ops t = lit then .ok (.bool r) else parseBool els t rest

def memberByName (name : Text) : List (Text × Int) → Option Int
  | [] => none
  | (n, v) :: rest => if n = name then some v else memberByName name rest

def hasValue (v : Int) : List (Text × Int) → Bool
  | [] => false
  | (_, w) :: rest => w == v || hasValue v rest

/-- symbolic constructor index of `E(n)` for the `IntFlag` class #k and a number that is no member's value -/
def flagCtor (k : Nat) : Nat := 100 + k

/-- one attempt of the enum branch -/
def enumAttempt (mix : Mix) (ms : List (Text × Int)) (t : Text) : EnumLookup → Except Err V
  | .byNumber => match pyInt t with
    | some n =>
      if mix.byNumber && hasValue n ms then .ok (.enum n)
      else match mix with
        | .flag k => .ok (.sym (flagCtor k) t)
        | _ => .error .valueError
    | none => .error .valueError
  | .byName ops => match memberByName (applyOps ops t) ms with
    | some v => .ok (.enum v)
    | none => .error .keyError

/-- `try: a₁ except: try: a₂ except: … aₙ` — the error of the last attempt propagates -/
def enumChain (mix : Mix) (ms : List (Text × Int)) (t : Text) : List EnumLookup → Except Err V
  | [] => .error .other
  | a :: rest => match enumAttempt mix ms t a with
    | .ok v => .ok v
    | .error e => if rest.isEmpty then .error e else enumChain mix ms t rest

/-- `dict.__setitem__` on an insertion-ordered association list -/
def dictSet (k v : Text) : List (Text × Text) → List (Text × Text)
  | [] => [(k, v)]
  | (k', v') :: rest => if k' = k then (k, v) :: rest else (k', v') :: dictSet k v rest

/-- `dict(pairs)`: every element must have exactly two parts (else `ValueError`) -/
def dictOf (acc : List (Text × Text)) : List (List Text) → Except Err V
  | [] => .ok (.dict acc)
  | [k, v] :: rest => dictOf (dictSet k v acc) rest
  | _ :: _ => .error .valueError

/-- `T(s)` for a built-in type `T` and a text -/
def constructRoot (ty : Ty) (t : Text) : Except Err V :=
  match ty with
  | .int => match pyInt t with | some n => .ok (.int n) | none => .error .valueError
  | .other c => .ok (.sym c t)
  | .bool => .ok (.bool (t ≠ []))
  | .str => .ok (.str t)
  | .path => .ok (.path t)
  | .list => .ok (.list (t.map fun c => [c]))
  | .tuple => .ok (.tuple (t.map fun c => [c]))
  | .dict => if t = [] then .ok (.dict []) else .error .valueError
  | .enum _ _ => .error .valueError
  | .ntuple _ => .error .typeError             -- the fields are missing
  | .sub _ _ => .error .other                  -- not a root

/-- `self.type(s)`: the constructor of the built-in root, the object belongs to the (possibly user-defined) class itself -/
def construct (ty : Ty) (t : Text) : Except Err V := (constructRoot ty.root t).map ty.wrap

/-- the text the repr of a generator object stands for in the model (it holds an address: `V.sym garbageCtor []`) -/
def garbageCtor : Nat := 2

/-- `T(<generator of the texts items>)` for a built-in type `T` -/
def itemsRoot (ty : Ty) (items : List Text) : Except Err V :=
  match ty with
  | .list => .ok (.list items)
  | .tuple => .ok (.tuple items)
  | .str => .ok (.sym garbageCtor [])          -- `str(<generator>)` is the repr of the generator object
  | .ntuple _ => .error .typeError             -- one argument where the fields are wanted
  | .enum _ _ => .error .valueError            -- no member has a generator as value
  | .dict => .error .valueError                -- `dict(<texts>)` (texts of length 2 aside)
  | _ => .error .typeError

def runBranch (d : Desc) (P : Parsers) (cv : CV) (t : Text) (b : Test) : Except Err V :=
  match b.body with
  | .text => .ok (.str t)                                              -- `return s`
  | .selfType => construct cv.ty t                                     -- `return self.type(s)`
  | .named => match b.cls with                                         -- `return T(s)`
    | .path => .ok (.path t)
    | .str => .ok (.str t)
    | .int => constructRoot .int t
    | _ => .error .other
  | .std => match b.cls with
    | .custom => match cv.parser with | some i => P i t | none => .error .other
    | .bool => parseBool d.boolElse t d.boolTests
    | .enum => match cv.ty with
      | .enum mix ms => enumChain mix ms t d.enumLookups
      | _ => .error .other
    | .mapping =>
      match cv.ty.root with
      | .dict => (dictOf [] ((split d.mapSep t).map fun p =>
          (split d.mapKvSep (applyOps d.mapPairNorm p)).map (applyOps d.mapPartNorm))).map cv.ty.wrap
      | _ => .error .other
    | .iterable => (itemsRoot cv.ty.root ((split d.listSep t).map (applyOps d.listItemNorm))).map cv.ty.wrap
    | _ => .error .other

/-- the `if` cascade of `parse`: first test that holds decides; otherwise `self.type(s)` -/
def parseBranches (d : Desc) (P : Parsers) (cv : CV) (t : Text) : List Test → Except Err V
  | [] => construct cv.ty t
  | b :: rest =>
    if cv.ty.passes cv.parser.isSome (b.cls, b.kind) then runBranch d P cv t b else parseBranches d P cv t rest

def parse (d : Desc) (P : Parsers) (cv : CV) (t : Text) : Except Err V := parseBranches d P cv t d.parseTests

/-- the branch `parse` takes for a value of type `ty` without custom parser (`none` = falls through to `self.type(s)`) -/
def selectedTest (ty : Ty) : List Test → Option Test
  | [] => none
  | b :: rest => if ty.passes false (b.cls, b.kind) then some b else selectedTest ty rest

/-! ### state, `__get__`, operations -/

structure State where
  explicit : Key → Option V         -- the attributes of the config classes holding explicit values (`none` = attribute absent)
  env : Text → Option Text          -- `os.environ`

def State.init : State := ⟨fun _ => none, fun _ => none⟩

/-- the slot `__get__` reads for value `n` of class `c` -/
def slotKey (d : Desc) (c : Nat) (n : Text) : Key := (c, d.getSlot ++ n)

/-- `ConfigValue.__get__`: the sources in order, each used when it is `not None` -/
def getFrom (d : Desc) (P : Parsers) (cv : CV) (s : State) : List Source → Except Err V
  | [] => .ok .none
  | .explicit :: rest => match s.explicit (slotKey d cv.cls cv.name) with
    | some v => if v ≠ .none then .ok v else getFrom d P cv s rest
    | none => getFrom d P cv s rest
  | .env :: rest => match s.env (envName d cv) with
    | some t => parse d P cv t
    | none => getFrom d P cv s rest
  | .default :: _ => .ok cv.default

def get (d : Desc) (P : Parsers) (cv : CV) (s : State) : Except Err V := getFrom d P cv s d.getOrder

inductive Op where
  | assign (c : Nat) (n : Text) (v : V)          -- `C.N = v`
  | delete (c : Nat) (n : Text)                  -- `del C.N`
  | setenv (var : Text) (t : Text)               -- `os.environ[var] = t`
  | unsetenv (var : Text)                        -- `os.environ.pop(var, None)`
  | update (c : Nat) (d : List (Text × V))       -- `C.update({...})`
  deriving Repr

inductive Out where
  | ok
  | err (e : Err)
  deriving DecidableEq, Repr

/-- the declared value `n` of class `c` -/
def lookupCV (D : List CV) (c : Nat) (n : Text) : Option CV :=
  D.find? (fun cv => cv.cls == c && cv.name == n)

def known (D : List CV) (c : Nat) (n : Text) : Bool := (lookupCV D c n).isSome

def setKey (f : Key → Option V) (k : Key) (v : Option V) : Key → Option V := fun k' => if k' = k then v else f k'
def setVar (f : Text → Option Text) (x : Text) (v : Option Text) : Text → Option Text :=
  fun x' => if x' = x then v else f x'

/-- `ConfigValue.__set__`: `setattr(instance, setSlot + name, value)` -/
def cvSet (d : Desc) (e : Key → Option V) (c : Nat) (n : Text) (v : V) : Key → Option V :=
  setKey e (c, d.setSlot ++ n) (some v)

/-- `ConfigValue.__delete__`: `delattr(instance, delSlot + name)` (`AttributeError` when the attribute is absent) -/
def cvDelete (d : Desc) (e : Key → Option V) (c : Nat) (n : Text) : (Key → Option V) × Out :=
  match e (c, d.delSlot ++ n) with
  | some _ => (setKey e (c, d.delSlot ++ n) none, .ok)
  | none => (e, .err .attributeError)

/-- the loop of `ConfigMeta.update` (`setattr(cls, n, v)` runs the descriptor's `__set__`) -/
def updateLoop (d : Desc) (D : List CV) (c : Nat) : List (Text × V) → (Key → Option V) → (Key → Option V) × Out
  | [], e => (e, .ok)
  | (n, v) :: rest, e =>
    if known D c n then updateLoop d D c rest (cvSet d e c n v)
    else if d.updateRaises then (e, .err d.updateErr)
    else updateLoop d D c rest e

def step (d : Desc) (D : List CV) (s : State) : Op → State × Out
  | .assign c n v => if known D c n then ({ s with explicit := cvSet d s.explicit c n v }, .ok) else (s, .ok)
  | .delete c n => let (e, o) := cvDelete d s.explicit c n; ({ s with explicit := e }, o)
  | .setenv x t => ({ s with env := setVar s.env x (some t) }, .ok)
  | .unsetenv x => ({ s with env := setVar s.env x none }, .ok)
  | .update c upd => let (e, o) := updateLoop d D c upd s.explicit; ({ s with explicit := e }, o)

/-- a history, from a given state -/
def run (d : Desc) (D : List CV) (s : State) (h : List Op) : State := h.foldl (fun s op => (step d D s op).1) s

/-! ### `ConfigMeta.to_dict` and what `update` returns -/

/-- `{n: v for n, v in type(cls).__dict__.items() if isinstance(v, ConfigValue)}`: the declared values of class `c` in
declaration order, each name with its DESCRIPTOR object (not with the value it resolves to) -/
def toDict (d : Desc) (D : List CV) (c : Nat) : List (Text × V) :=
  (D.filter (fun cv => cv.cls == c)).map fun cv => (cv.name, match d.toDictYield with | .descriptor => .desc c cv.name)

/-- what `C.update(upd)` returns / raises -/
def updateResult (d : Desc) (D : List CV) (s : State) (c : Nat) (upd : List (Text × V)) : Except Err (Option (List (Text × V))) :=
  match (updateLoop d D c upd s.explicit).2 with
  | .ok => .ok (if d.updateReturnsToDict then some (toDict d D c) else none)
  | .err e => .error e

end Config
