import PyrollModel.ConfigBase
import PyrollModel.Gen.C20

/-
  Config — executable model of `pyroll/core/config.py` (C20).  Import-free (core Lean only).

  The model is an INTERPRETER of a description `Desc` of the source (branch order of `ConfigValue.parse`, the string
  methods and literals of the bool tests, the `try/except` chain of the enum branch, separators / `strip` calls of
  the mapping and iterable branches, the order of the sources in `__get__`, the format of `env_var`, whether the
  unknown-name branch of `ConfigMeta.update` raises).  `Config.src` is that description filled with the GENERATED
  constants of `PyrollModel/Gen/C20.lean`, which `driver/props/c20.py::translate` rewrites from the repository's
  working tree on every run; the theorems of `PyrollProps/C20.lean` are about `src`.

  Every recursive function is one structural recursion on a list or on a `fuel : Nat`.
-/

namespace Config

/-! ### characters and texts (python `str`; ASCII case mapping, white space of the Latin-1 range) -/

/-- code points below 256 for which python's `str.isspace` holds (what `str.strip()` / `int()` / `float()` remove) -/
def spaces : List Char := [9, 10, 11, 12, 13, 28, 29, 30, 31, 32, 133, 160].map Char.ofNat

def isSpace (c : Char) : Bool := spaces.contains c

def lowers : List Char := "abcdefghijklmnopqrstuvwxyz".toList
def uppers : List Char := "ABCDEFGHIJKLMNOPQRSTUVWXYZ".toList

/-- replace `c` by its partner when it occurs in `src` (table look-up; no arithmetic on code points) -/
def mapVia : List Char → List Char → Char → Char
  | a :: as, b :: bs, c => if c = a then b else mapVia as bs c
  | _, _, c => c

def lowerC (c : Char) : Char := mapVia uppers lowers c
def upperC (c : Char) : Char := mapVia lowers uppers c

/-- the cased characters of the Latin-1 range (code points below 256), as CPython's `str.isupper` / `str.islower` class
them; characters from 256 on are uncased in the model (true of CJK letters; the generators stay below 256 otherwise).
The tables are compared with `str.isupper()` by the harness (`isupper` lines). -/
def casedUppers : List Char :=
  uppers ++ ([192, 193, 194, 195, 196, 197, 198, 199, 200, 201, 202, 203, 204, 205, 206, 207, 208, 209, 210, 211, 212, 213,
    214, 216, 217, 218, 219, 220, 221, 222].map Char.ofNat)
def casedLowers : List Char :=
  lowers ++ ([170, 181, 186, 223, 224, 225, 226, 227, 228, 229, 230, 231, 232, 233, 234, 235, 236, 237, 238, 239, 240, 241,
    242, 243, 244, 245, 246, 248, 249, 250, 251, 252, 253, 254, 255].map Char.ofNat)

/-- `str.isupper()`: at least one cased character and no lower-case one (digits, `_` … are uncased and allowed) -/
def pyIsUpper (t : Text) : Bool := t.any (fun c => casedUppers.contains c) && !t.any (fun c => casedLowers.contains c)

/-- `str.startswith(p)` -/
def startsWith : Text → Text → Bool
  | [], _ => true
  | _ :: _, [] => false
  | a :: as, b :: bs => a == b && startsWith as bs

/-- what `int()` / `float()` skip around a number: as above without the separators FS, GS, RS, US (28–31) -/
def numSpaces : List Char := [9, 10, 11, 12, 13, 32, 133, 160].map Char.ofNat

def isNumSpace (c : Char) : Bool := numSpaces.contains c

/-- remove the leading / leading and trailing characters satisfying `p` -/
def lstripBy (p : Char → Bool) (t : Text) : Text := t.dropWhile p
def stripBy (p : Char → Bool) (t : Text) : Text := (lstripBy p (lstripBy p t).reverse).reverse

/-- `str.strip()` -/
def strip (t : Text) : Text := stripBy isSpace t

def applyOp : StrOp → Text → Text
  | .lower, t => t.map lowerC
  | .upper, t => t.map upperC
  | .strip, t => strip t

/-- `t.op1().op2()…` (application order) -/
def applyOps : List StrOp → Text → Text
  | [], t => t
  | o :: os, t => applyOps os (applyOp o t)

/-- `str.split(sep)` for a one-character separator: never empty, `"".split(",") == [""]` -/
def split (sep : Char) : Text → List Text
  | [] => [[]]
  | c :: cs =>
    if c = sep then [] :: split sep cs
    else match split sep cs with
      | [] => [[c]]
      | p :: ps => (c :: p) :: ps

/-- `sep.join(items)` -/
def join (sep : Char) : List Text → Text
  | [] => []
  | [x] => x
  | x :: y :: r => x ++ sep :: join sep (y :: r)

/-! ### integers: `str(n)` and `int(s)` -/

def digits : List Char := "0123456789".toList

def digitChar (d : Nat) : Char := digits.getD d '0'
def digitVal (c : Char) : Nat := digits.idxOf c
def isDigit (c : Char) : Bool := digits.contains c

/-- decimal digits of `n`, least significant first -/
def revDigits : Nat → Nat → Text
  | 0, _ => []
  | fuel + 1, n => if n < 10 then [digitChar n] else digitChar (n % 10) :: revDigits fuel (n / 10)

/-- `str(n)` for a natural number -/
def renderNat (n : Nat) : Text := (revDigits (n + 1) n).reverse

/-- `str(n)` -/
def renderInt : Int → Text
  | .ofNat n => renderNat n
  | .negSucc n => '-' :: renderNat (n + 1)

/-- value of a digit string given least significant digit first -/
def valueRev : Text → Nat
  | [] => 0
  | c :: cs => digitVal c + 10 * valueRev cs

/-- python's decimal integer literal body: digits, single underscores only between digits -/
def okDigits (prevDigit : Bool) : Text → Bool
  | [] => prevDigit
  | c :: cs =>
    if isDigit c then okDigits true cs
    else if c = '_' && prevDigit then okDigits false cs
    else false

def natBody (body : Text) : Option Nat :=
  if okDigits false body then some (valueRev (body.filter (fun c => c != '_')).reverse) else none

/-- `int(s)`: surrounding white space, optional sign, digits with single underscores; `none` = `ValueError` -/
def pyInt (t : Text) : Option Int :=
  match stripBy isNumSpace t with
  | [] => none
  | c :: body =>
    if c = '-' then (natBody body).map (fun n => - (Int.ofNat n))
    else if c = '+' then (natBody body).map Int.ofNat
    else (natBody (c :: body)).map Int.ofNat

/-! ### values, types, declarations -/

/-- python values the model distinguishes -/
inductive V where
  | none                                   -- `None`
  | bool (b : Bool)
  | int (n : Int)
  | str (t : Text)
  | path (t : Text)                        -- `Path(t)` (pathlib normalisation is not modelled: symbolic)
  | enum (value : Int)                     -- the member with this value
  | list (items : List Text)
  | tuple (items : List Text)
  | dict (kvs : List (Text × Text))        -- insertion order
  | sym (ctor : Nat) (t : Text)            -- `T(t)` for a constructor `T` the model does not interpret (float, …)
  | obj (id : Nat)                         -- any other object (only ever assigned explicitly / used as default)
  deriving DecidableEq, Repr

/-- the type of a default value, as far as `ConfigValue.parse` looks at it -/
inductive Ty where
  | bool | path | str | int
  | enum (members : List (Text × Int))      -- `(name, value)` of `__members__` (aliases included), int-valued
  | dict | list | tuple
  | other (ctor : Nat)                     -- anything else: `self.type(s)` is left symbolic (0 = float, 1 = NoneType, …)
  deriving DecidableEq, Repr

/-- which `if` tests of `ConfigValue.parse` hold for a value of this type (`hasParser`: a custom parser is set) -/
def Ty.passes (ty : Ty) (hasParser : Bool) : Branch → Bool
  | .custom => hasParser
  | .bool => ty == .bool
  | .path => ty == .path
  | .str => ty == .str
  | .enum => match ty with | .enum _ => true | _ => false
  | .mapping => ty == .dict
  | .iterable => match ty with
    | .str | .dict | .list | .tuple => true         -- `str`, `dict`, `list`, `tuple` all define `__iter__`
    | _ => false

/-- one declared configuration value (a `ConfigValue` descriptor after `__set_name__`) -/
structure CV where
  cls : Nat                  -- the config class it belongs to
  name : Text
  default : V
  ty : Ty
  parser : Option Nat        -- index of the custom parser
  envOverride : Text         -- `env_var=` ([] = not given / falsy)
  envPrefix : Text           -- `env_var_prefix=` ([] = not given / falsy: derived from the owner's module)
  module : Text              -- `owner.__module__`
  deriving Repr

abbrev Key := Nat × Text
/-- custom parsers: index ↦ function -/
abbrev Parsers := Nat → Text → Except Err V

/-- description of the source (see the header); `src` below is the generated instance -/
structure Desc where
  parseOrder : List Branch
  boolTests : List (List StrOp × Text × Bool)
  boolElse : Err
  enumLookups : List EnumLookup
  mapSep : Char
  mapKvSep : Char
  mapPairNorm : List StrOp
  mapPartNorm : List StrOp
  listSep : Char
  listItemNorm : List StrOp
  getOrder : List Source
  envSep : Text
  envNameNorm : List StrOp
  updateRaises : Bool
  updateErr : Err
  nameTests : List NameTest          -- `config` decorator: the conjuncts deciding which attributes become config values
  wrappedKeeps : List CVField        -- … and what it carries over from an attribute given as `ConfigValue(...)`

/-- the description generated from the repository's working tree -/
def src : Desc where
  parseOrder := Gen.C20.parseOrder
  boolTests := Gen.C20.boolTests
  boolElse := Gen.C20.boolElse
  enumLookups := Gen.C20.enumLookups
  mapSep := Gen.C20.mapSep
  mapKvSep := Gen.C20.mapKvSep
  mapPairNorm := Gen.C20.mapPairNorm
  mapPartNorm := Gen.C20.mapPartNorm
  listSep := Gen.C20.listSep
  listItemNorm := Gen.C20.listItemNorm
  getOrder := Gen.C20.getOrder
  envSep := Gen.C20.envSep
  envNameNorm := Gen.C20.envNameNorm
  updateRaises := Gen.C20.updateRaises
  updateErr := Gen.C20.updateErr
  nameTests := Gen.C20.nameTests
  wrappedKeeps := Gen.C20.wrappedKeeps

/-! ### `ConfigValue.env_var` -/

/-- `owner.__module__.upper().replace(".", "_")` -/
def modulePrefix (m : Text) : Text := (m.map upperC).map (fun c => if c = '.' then '_' else c)

def envName (d : Desc) (cv : CV) : Text :=
  if cv.envOverride ≠ [] then cv.envOverride
  else (if cv.envPrefix ≠ [] then cv.envPrefix else modulePrefix cv.module) ++ d.envSep ++ applyOps d.envNameNorm cv.name

/-! ### the `config` decorator: which attributes of the decorated class become configuration values -/

def nameTest (n : Text) : NameTest → Bool
  | .isUpper => pyIsUpper n
  | .notStartsWith p => !startsWith p n

/-- the `if` of the decorator's loop over `cls.__dict__` -/
def isConfigName (d : Desc) (n : Text) : Bool := d.nameTests.all (nameTest n)

/-- one attribute of the body of a decorated class: `NAME = default` or `NAME = ConfigValue(default, env_var=…, parser=…)` -/
structure Attr where
  name : Text
  default : V
  ty : Ty
  parser : Option Nat        -- only for attributes given as `ConfigValue(...)`
  envOverride : Text         -- ditto
  deriving Repr

/-- what the decorator `config(pre)` makes of one attribute of class `c` (metaclass created in module `m`):
a descriptor when the name passes the test, nothing (the attribute stays a plain class attribute) otherwise -/
def decorate1 (d : Desc) (c : Nat) (pre m : Text) (a : Attr) : Option CV :=
  if isConfigName d a.name then
    some ⟨c, a.name, a.default, a.ty, if d.wrappedKeeps.contains .parser then a.parser else none,
      if d.wrappedKeeps.contains .envVar then a.envOverride else [], pre, m⟩
  else none

/-- the declarations the decorator creates for the body `attrs` -/
def decorate (d : Desc) (c : Nat) (pre m : Text) (attrs : List Attr) : List CV := attrs.filterMap (decorate1 d c pre m)

/-! ### `ConfigValue.parse` -/

def parseBool (els : Err) (t : Text) : List (List StrOp × Text × Bool) → Except Err V
  | [] => .error els
  | (ops, lit, r) :: rest => if applyOps ops t = lit then .ok (.bool r) else parseBool els t rest

def memberByName (name : Text) : List (Text × Int) → Option Int
  | [] => none
  | (n, v) :: rest => if n = name then some v else memberByName name rest

def hasValue (v : Int) : List (Text × Int) → Bool
  | [] => false
  | (_, w) :: rest => w == v || hasValue v rest

/-- one attempt of the enum branch -/
def enumAttempt (ms : List (Text × Int)) (t : Text) : EnumLookup → Except Err V
  | .byNumber => match pyInt t with
    | some n => if hasValue n ms then .ok (.enum n) else .error .valueError
    | none => .error .valueError
  | .byName ops => match memberByName (applyOps ops t) ms with
    | some v => .ok (.enum v)
    | none => .error .keyError

/-- `try: a₁ except: try: a₂ except: … aₙ` — the error of the last attempt propagates -/
def enumChain (ms : List (Text × Int)) (t : Text) : List EnumLookup → Except Err V
  | [] => .error .other
  | a :: rest => match enumAttempt ms t a with
    | .ok v => .ok v
    | .error e => if rest.isEmpty then .error e else enumChain ms t rest

/-- `dict.__setitem__` on an insertion-ordered association list -/
def dictSet (k v : Text) : List (Text × Text) → List (Text × Text)
  | [] => [(k, v)]
  | (k', v') :: rest => if k' = k then (k, v) :: rest else (k', v') :: dictSet k v rest

/-- `dict(pairs)`: every element must have exactly two parts (else `ValueError`) -/
def dictOf (acc : List (Text × Text)) : List (List Text) → Except Err V
  | [] => .ok (.dict acc)
  | [k, v] :: rest => dictOf (dictSet k v acc) rest
  | _ :: _ => .error .valueError

/-- `self.type(s)` -/
def construct (ty : Ty) (t : Text) : Except Err V :=
  match ty with
  | .int => match pyInt t with | some n => .ok (.int n) | none => .error .valueError
  | .other c => .ok (.sym c t)
  | .bool => .ok (.bool (t ≠ []))
  | .str => .ok (.str t)
  | .path => .ok (.path t)
  | .list => .ok (.list (t.map fun c => [c]))
  | .tuple => .ok (.tuple (t.map fun c => [c]))
  | .dict => if t = [] then .ok (.dict []) else .error .valueError
  | .enum _ => .error .valueError

def runBranch (d : Desc) (P : Parsers) (cv : CV) (t : Text) : Branch → Except Err V
  | .custom => match cv.parser with | some i => P i t | none => .error .other
  | .bool => parseBool d.boolElse t d.boolTests
  | .path => .ok (.path t)
  | .str => .ok (.str t)
  | .enum => match cv.ty with
    | .enum ms => enumChain ms t d.enumLookups
    | _ => .error .other
  | .mapping =>
    dictOf [] ((split d.mapSep t).map fun p => (split d.mapKvSep (applyOps d.mapPairNorm p)).map (applyOps d.mapPartNorm))
  | .iterable =>
    let items := (split d.listSep t).map (applyOps d.listItemNorm)
    match cv.ty with
    | .list => .ok (.list items)
    | .tuple => .ok (.tuple items)
    | _ => .error .other                      -- not reached with the source order (str / dict / enum come first)

/-- the `if` cascade of `parse`: first test that holds decides; otherwise `self.type(s)` -/
def parseBranches (d : Desc) (P : Parsers) (cv : CV) (t : Text) : List Branch → Except Err V
  | [] => construct cv.ty t
  | b :: rest => if cv.ty.passes cv.parser.isSome b then runBranch d P cv t b else parseBranches d P cv t rest

def parse (d : Desc) (P : Parsers) (cv : CV) (t : Text) : Except Err V := parseBranches d P cv t d.parseOrder

/-! ### state, `__get__`, operations -/

structure State where
  explicit : Key → Option V         -- the underscore slot of the class (`none` = attribute absent)
  env : Text → Option Text          -- `os.environ`

def State.init : State := ⟨fun _ => none, fun _ => none⟩

/-- `ConfigValue.__get__`: the sources in order, each used when it is `not None` -/
def getFrom (d : Desc) (P : Parsers) (cv : CV) (s : State) : List Source → Except Err V
  | [] => .ok .none
  | .explicit :: rest => match s.explicit (cv.cls, cv.name) with
    | some v => if v ≠ .none then .ok v else getFrom d P cv s rest
    | none => getFrom d P cv s rest
  | .env :: rest => match s.env (envName d cv) with
    | some t => parse d P cv t
    | none => getFrom d P cv s rest
  | .default :: _ => .ok cv.default

def get (d : Desc) (P : Parsers) (cv : CV) (s : State) : Except Err V := getFrom d P cv s d.getOrder

inductive Op where
  | assign (c : Nat) (n : Text) (v : V)          -- `C.N = v`
  | delete (c : Nat) (n : Text)                  -- `del C.N`
  | setenv (var : Text) (t : Text)               -- `os.environ[var] = t`
  | unsetenv (var : Text)                        -- `os.environ.pop(var, None)`
  | update (c : Nat) (d : List (Text × V))       -- `C.update({...})`
  deriving Repr

inductive Out where
  | ok
  | err (e : Err)
  deriving DecidableEq, Repr

/-- the declared value `n` of class `c` -/
def lookupCV (D : List CV) (c : Nat) (n : Text) : Option CV :=
  D.find? (fun cv => cv.cls == c && cv.name == n)

def known (D : List CV) (c : Nat) (n : Text) : Bool := (lookupCV D c n).isSome

def setKey (f : Key → Option V) (k : Key) (v : Option V) : Key → Option V := fun k' => if k' = k then v else f k'
def setVar (f : Text → Option Text) (x : Text) (v : Option Text) : Text → Option Text :=
  fun x' => if x' = x then v else f x'

/-- the loop of `ConfigMeta.update` -/
def updateLoop (d : Desc) (D : List CV) (c : Nat) : List (Text × V) → (Key → Option V) → (Key → Option V) × Out
  | [], e => (e, .ok)
  | (n, v) :: rest, e =>
    if known D c n then updateLoop d D c rest (setKey e (c, n) (some v))
    else if d.updateRaises then (e, .err d.updateErr)
    else updateLoop d D c rest e

def step (d : Desc) (D : List CV) (s : State) : Op → State × Out
  | .assign c n v => if known D c n then ({ s with explicit := setKey s.explicit (c, n) (some v) }, .ok) else (s, .ok)
  | .delete c n => match s.explicit (c, n) with
    | some _ => ({ s with explicit := setKey s.explicit (c, n) none }, .ok)
    | none => (s, .err .attributeError)
  | .setenv x t => ({ s with env := setVar s.env x (some t) }, .ok)
  | .unsetenv x => ({ s with env := setVar s.env x none }, .ok)
  | .update c upd => let (e, o) := updateLoop d D c upd s.explicit; ({ s with explicit := e }, o)

/-- a history, from a given state -/
def run (d : Desc) (D : List CV) (s : State) (h : List Op) : State := h.foldl (fun s op => (step d D s op).1) s

end Config
