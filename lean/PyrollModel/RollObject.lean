/-
  C10 - what one `Roll` object remembers between two calls (pyroll/core/roll/roll.py, pyroll/core/roll/hookimpls.py).

  All representations of a roll surface (contour line, surface grid, interpolation) describe the shape of the data the roll
  has NOW only if nothing a call leaves behind on the object survives a change of that data.  Besides the hook cache
  (`__cache__`, refreshed by `HookHost.reevaluate_cache`) a `Roll` has private instance attributes; the translator
  (driver/translate/c10_depth.py, `extract_roll_state`) reads into `Gen.C10.roll_tables`

    * the private attributes `__init__` creates (`self._x = None`),
    * the ones `reevaluate_cache` empties BEFORE the hook values are re-evaluated (`super().reevaluate_cache()`) and the ones
      it empties AFTER that (the same attribute may be in both lists: `self._x = None; super()...; self._x = None`),
    * for every method / property of the class whether it touches private attributes at all (`pure`) or remembers its
      result in one (`memo`: `if self._f: return self._f` / `self._f = <value>` / `return self._f`), and which part of the
      roll's data that value is computed from (`Dep.shape`: the contour points only),
    * which hook functions read such a method (`min_radius` reads `contour_line`).

  `rollRun` replays a life of the object: changes of its data (each made visible by `reevaluate_cache()`, as the solver
  does in every iteration and a user does after setting a value) and calls.  Every answer is recorded together with the
  data the roll had at the time of the call; "the used roll answers like a new one" = the two agree.
  Import-free core Lean; every function is one structural recursion on a list.
-/
namespace RollObject

/-- which part of the roll's data a remembered value is computed from -/
inductive Dep where
  /-- the groove contour only (`self.contour_points`) -/
  | shape
  /-- anything else (radius, contact length, discretisation, ...) -/
  | all
  deriving Repr, DecidableEq, Inhabited

/-- version of the roll's data: `shape` counts the changes of the groove contour, `rest` the changes of everything else -/
structure Ver where
  shape : Nat := 0
  rest : Nat := 0
  deriving Repr, DecidableEq, Inhabited

/-- the data a value remembered at `stored` answers for when it is read at `now` -/
def Dep.eff : Dep → Ver → Ver → Ver
  | .shape, stored, now => { shape := stored.shape, rest := now.rest }
  | .all, stored, _ => stored

/-- a method / property of class `Roll`, as far as instance attributes outside the hook cache are concerned -/
inductive MethodKind where
  /-- touches no private attribute: computed from the hook values as they are now -/
  | pure
  /-- remembers its result in the private attribute `field` -/
  | memo (field : String)
  deriving Repr, DecidableEq, Inhabited

structure RollTables where
  /-- private attributes created by `__init__` -/
  privateFields : List String
  /-- private attributes `reevaluate_cache` empties BEFORE `super().reevaluate_cache()` (= before the cached hook values are
      re-evaluated; the hook functions then see no remembered value) -/
  resetsBefore : List String
  /-- private attributes `reevaluate_cache` empties AFTER `super().reevaluate_cache()` (what the hook functions left there
      while they were re-evaluated is dropped again) -/
  resetsAfter : List String
  /-- private attribute ↦ what the value kept there is computed from -/
  memoFields : List (String × Dep)
  methods : List (String × MethodKind)
  /-- hook ↦ method of the class its hook function reads -/
  hookReads : List (String × String)
  deriving Repr, DecidableEq, Inhabited

def lookupS {β : Type} : List (String × β) → String → Option β
  | [], _ => none
  | e :: r, n => if e.1 = n then some e.2 else lookupS r n

def RollTables.depOf (T : RollTables) (f : String) : Dep := (lookupS T.memoFields f).getD .all

/-- every private attribute `reevaluate_cache` empties, before or after the hook values are re-evaluated -/
def RollTables.resets (T : RollTables) : List String := T.resetsBefore ++ T.resetsAfter

/-- the static facts the theorems need: everything the object keeps is emptied by `reevaluate_cache`; every remembering
    method keeps its result in such an attribute; and an attribute that is emptied only AFTER the hook values were
    re-evaluated (so that hook functions still see the old remembered value) depends on the contour only -/
def RollTables.sound (T : RollTables) : Bool :=
  T.privateFields.all (fun f => T.resets.contains f) &&
  T.methods.all (fun m => match m.2 with
    | .pure => true
    | .memo f => T.privateFields.contains f
        && (T.resetsBefore.contains f || (T.resetsAfter.contains f && T.depOf f == .shape)))

/-- `reevaluate_cache` empties what EVERY remembering method keeps before the hook values are re-evaluated (the repaired
    statement order `self._x = None; super().reevaluate_cache(); …`): no hook function ever sees a value remembered for
    older data, whatever changed -/
def RollTables.emptiesFirst (T : RollTables) : Bool :=
  T.methods.all (fun m => match m.2 with
    | .pure => true
    | .memo f => T.resetsBefore.contains f)

structure RollObj where
  /-- the data the roll has now -/
  data : Ver := {}
  /-- non-empty private attributes ↦ the data their value was computed from -/
  store : List (String × Ver) := []
  /-- cached hooks (those of `hookReads`) ↦ the data their value answers for -/
  cache : List (String × Ver) := []
  deriving Repr, DecidableEq, Inhabited

/-- the first cached hook value that does not answer for the data `d`, `d` itself if there is none -/
def firstStale (d : Ver) : List (String × Ver) → Ver
  | [] => d
  | e :: r => if e.2 = d then firstStale d r else e.2

/-- read the private attribute `f` of a remembering method: the object afterwards and the data the answer is computed from -/
def callMemo (T : RollTables) (o : RollObj) (f : String) : RollObj × Ver :=
  match lookupS o.store f with
  | some v => (o, (T.depOf f).eff v o.data)
  | none => ({ o with store := (f, o.data) :: o.store }, o.data)

/-- read the hook `h` whose hook function reads the method `m`: the cached value if there is one, else the function is
    evaluated and its value cached -/
def readHook (T : RollTables) (o : RollObj) (h m : String) : RollObj × Ver :=
  match lookupS o.cache h with
  | some v => (o, v)
  | none =>
    match lookupS T.methods m with
    | some (.memo f) =>
      let a := callMemo T o f
      ({ a.1 with cache := (h, a.2) :: a.1.cache }, a.2)
    | _ => ({ o with cache := (h, o.data) :: o.cache }, o.data)

def readHooks (T : RollTables) : List (String × String) → RollObj → RollObj
  | [], o => o
  | hm :: r, o => readHooks T r (readHook T o hm.1 hm.2).1

/-- one call of a method / property: a remembering one answers from its attribute; any other one reads hook values (taken
    to be all of `hookReads`: `surface_interpolation` reads `surface_x`, which reads `min_radius`) and answers from them -/
def callMethod (T : RollTables) (o : RollObj) (m : String) : RollObj × Ver :=
  match lookupS T.methods m with
  | some (.memo f) => callMemo T o f
  | _ => (readHooks T T.hookReads o, firstStale o.data (readHooks T T.hookReads o).cache)

/-- `HookHost.reevaluate_cache`: every hook that WAS cached (`was`) is evaluated again (here: the hooks that read a method of
    the class; the cache has been emptied before, so `readHook` evaluates the hook function) -/
def refresh (T : RollTables) (was : List (String × Ver)) : List (String × String) → RollObj → RollObj
  | [], o => o
  | hm :: r, o =>
    match lookupS was hm.1 with
    | none => refresh T was r o
    | some _ => refresh T was r (readHook T o hm.1 hm.2).1

/-- the statements `self._x = None` for the attributes `fs` -/
def emptyFields (fs : List String) (o : RollObj) : RollObj :=
  { o with store := o.store.filter (fun e => !fs.contains e.1) }

/-- `Roll.reevaluate_cache`, statement order as read from the source: the attributes emptied first, the cached hook values
    re-evaluated (`HookHost.reevaluate_cache` empties the cache and evaluates every hook that was cached again), the
    attributes emptied afterwards -/
def reevaluate (T : RollTables) (o : RollObj) : RollObj :=
  emptyFields T.resetsAfter (refresh T o.cache T.hookReads { emptyFields T.resetsBefore o with cache := [] })

inductive RollOp where
  /-- radius / contact length / discretisation change, then `reevaluate_cache()` -/
  | changeRest
  /-- the groove contour changes (`roll.groove = …`), then `reevaluate_cache()` -/
  | changeShape
  /-- a method, a property or a hook of `hookReads` is read -/
  | call (name : String)
  deriving Repr, DecidableEq, Inhabited

/-- one step: the object afterwards and, for a call, (data the answer is computed from, data the roll has) -/
def rollStep (T : RollTables) (o : RollObj) : RollOp → RollObj × Option (Ver × Ver)
  | .changeRest => (reevaluate T { o with data := { o.data with rest := o.data.rest + 1 } }, none)
  | .changeShape => (reevaluate T { o with data := { o.data with shape := o.data.shape + 1 } }, none)
  | .call n =>
    match lookupS T.hookReads n with
    | some m => ((readHook T o n m).1, some ((readHook T o n m).2, o.data))
    | none => ((callMethod T o n).1, some ((callMethod T o n).2, o.data))

/-- the answers of a life of the object, in order -/
def rollRun (T : RollTables) : RollObj → List RollOp → List (Ver × Ver)
  | _, [] => []
  | o, op :: r =>
    match (rollStep T o op).2 with
    | some a => a :: rollRun T (rollStep T o op).1 r
    | none => rollRun T (rollStep T o op).1 r

/-- the objects of a life, after every step (for the correspondence: which private attributes are non-empty) -/
def rollTrace (T : RollTables) : RollObj → List RollOp → List (RollObj × Option (Ver × Ver))
  | _, [] => []
  | o, op :: r => (rollStep T o op) :: rollTrace T (rollStep T o op).1 r

end RollObject
