import PyrollModel.Num
/-
  Solve — model of `Unit.solve` (pyroll/core/unit/unit.py) for C05.

      def solve(self, in_profile):
          self.init_solve(in_profile)                  # pre-processors; in_profile := new; out_profile created IFF absent
          for i in range(1, self.max_iteration_count): # budget = max_iteration_count − 1 loop bodies
              self.in_profile.reevaluate_cache(); self._solve_subunits(); self.reevaluate_cache()
              self.out_profile.reevaluate_cache()
              current_results = self.get_root_hook_results()            # ── everything up to here is `step`
              if np.all(np.abs(current_results - self._old_results) <= np.abs(self._old_results) * self.iteration_precision):
                  log "Finished solving … after {i} iterations"; break  # `_old_results` is NOT updated on break
              self._old_results = current_results
          else:
              log WARNING "… exceeded the maximum iteration count …"    # and continue
          return copy of out_profile (+ post-processors)

  What one loop body does to the unit (caches, sub-units, hook evaluation) is NOT modelled: it is the parameter
      step : S → S × Except Exc (List α)
  (the state it leaves behind – also when it raises – and the vector of numeric root-hook results or the exception).
  Carried across solves, explicitly: `_old_results` (`Old`: the scalar NaN of a fresh unit, or the last vector that did
  not pass the test), whether `out_profile` exists (it is reused, not re-created), and `S`.
  The comparison is a parameter too (`w cur old`, `allQ` = `np.all` / `np.any`); it is instantiated with the `Expr`s the
  translator reads out of the source (PyrollModel/SolveGen.lean).  The loop is ONE structural recursion on the budget.
-/

namespace Solve

/-- Control skeleton of `Unit.solve` & friends as recognised by the translator (driver/translate/c05_loop.py).
    The hand-written model below is the model of exactly the `Shape` spelled out in `PyrollProps/C05.lean`
    (`loop_shape_as_modelled`); the `range` bounds and the comparison are generated separately (they feed the model). -/
structure Shape where
  /-- statement roles of `solve` before the loop, in source order -/
  prelude : List String
  /-- what bounds the loop: `range(<int>, self.<attr> + <int>)` – the attribute -/
  budgetAttr : String
  /-- statement roles of the loop body, in source order -/
  body : List String
  /-- the names compared by the stop test: (local holding the new vector, attribute holding the previous one, precision attribute) -/
  testVars : List String
  /-- `np.all` (true) / `np.any` (false) around the comparison -/
  testAll : Bool
  /-- statement roles of the `if <test>:` branch -/
  onBreak : List String
  /-- the `else:` of the `for`: "warn" | "silent" | "raise" -/
  onExhaustion : String
  /-- statement roles after the loop -/
  epilogue : List String
  /-- `Unit.__init__`: initial value of the attribute holding the previous vector -/
  oldInit : String
  /-- `init_solve`: statement roles, and how the out profile is (re)created: "create-if-absent" | "always" -/
  initSolve : List String
  outProfile : String
  /-- `Unit.get_root_hook_results`: evaluation order and concatenation order -/
  evalOrder : List String
  concatOrder : List String
  /-- overrides of `get_root_hook_results`: (class, concatenation order) -/
  resultOverrides : List (String × List String)
  /-- overrides of `reevaluate_cache`: (class, statement roles) -/
  cacheOverrides : List (String × List String)
  /-- `_solve_subunits`: roles, the exception class caught and the one raised (chained `from e`) -/
  subunits : List String
  subCatch : String
  subRaise : String
  /-- `HookFunction.__call__`: roles around the call of the implementation (re-entrancy mark) -/
  marks : List String
  deriving DecidableEq, Repr

/-- comparison operator of the stop test -/
inductive Cmp where
  | le | lt | ge | gt
  deriving DecidableEq, Repr

inductive Exc where
  | attributeError | valueError | zeroDivisionError | typeError | keyError | indexError | runtimeError | other
  deriving DecidableEq, Repr

/-- `Unit._old_results`: `np.nan` (scalar) on a unit that never completed an iteration, else a vector -/
inductive Old (α : Type) where
  | nan
  | vec (v : List α)
  deriving Repr

variable {α S S' : Type}

/-- numpy broadcasting of two 1-d arrays: equal lengths pair up, a length-1 array is repeated, anything else is a
    `ValueError` (`none`).  Pairs are (current, old). -/
def pairs (cur old : List α) : Option (List (α × α)) :=
  if cur.length = old.length then some (cur.zip old)
  else match old with
    | [o] => some (cur.map fun c => (c, o))
    | _ => match cur with
      | [c] => some (old.map fun o => (c, o))
      | _ => none

/-- `np.all(…)` / `np.any(…)` over the element-wise comparison -/
def quant (allQ : Bool) (bs : List Bool) : Bool := if allQ then bs.all id else bs.any id

/-- the stop test.  Against the scalar NaN every element-wise comparison is false (IEEE), so `np.all` is true only for
    the empty vector (`np.all([]) = True`) and `np.any` never; `none` = numpy raised `ValueError` (shapes). -/
def test (w : α → α → Bool) (allQ : Bool) (cur : List α) : Old α → Option Bool
  | .nan => some (quant allQ (cur.map fun _ => false))
  | .vec o => (pairs cur o).map fun ps => quant allQ (ps.map fun p => w p.1 p.2)

/-- what the `for` loop leaves behind -/
structure LoopOut (α S : Type) where
  old : Old α
  st : S
  /-- the vectors that were compared, newest first -/
  trace : List (List α)
  /-- the `else:` branch ran -/
  warned : Bool
  exc : Option Exc

/-- `for i in range(…)`: `fuel` is the remaining budget -/
def loop (w : α → α → Bool) (allQ : Bool) (step : S → S × Except Exc (List α)) :
    Nat → Old α → S → List (List α) → LoopOut α S
  | 0, old, s, tr => { old := old, st := s, trace := tr, warned := true, exc := none }
  | fuel + 1, old, s, tr =>
    match step s with
    | (s', .error e) => { old := old, st := s', trace := tr, warned := false, exc := some e }
    | (s', .ok cur) =>
      match test w allQ cur old with
      | none => { old := old, st := s', trace := tr, warned := false, exc := some .valueError }
      | some true => { old := old, st := s', trace := cur :: tr, warned := false, exc := none }
      | some false => loop w allQ step fuel (.vec cur) s' (cur :: tr)

/-- state of a unit between two `solve` calls -/
structure Carried (α S : Type) where
  old : Old α
  /-- `out_profile is not None` -/
  hasOut : Bool
  st : S

def Carried.fresh (s : S) : Carried α S := { old := .nan, hasOut := false, st := s }

def Carried.map (f : S → S') (c : Carried α S) : Carried α S' := { old := c.old, hasOut := c.hasOut, st := f c.st }

structure Result (α S : Type) where
  carried : Carried α S
  /-- number of loop bodies that got as far as the comparison (= vectors compared) -/
  iterations : Nat
  /-- the non-convergence warning was logged -/
  warned : Bool
  /-- `some e`: `solve` raised `e` (nothing returned); `none`: a profile was returned -/
  exc : Option Exc
  /-- `init_solve` created the out profile (false: the existing one was reused) -/
  createdOut : Bool
  trace : List (List α)

def Result.map (f : S → S') (r : Result α S) : Result α S' :=
  { carried := r.carried.map f, iterations := r.iterations, warned := r.warned, exc := r.exc, createdOut := r.createdOut,
    trace := r.trace }

def Result.returned (r : Result α S) : Bool := r.exc.isNone

/-- `Unit.solve` with `budget` loop bodies at most (`budget` is computed from `max_iteration_count` and the generated
    `range` bounds in `SolveGen.budget`) -/
def solve (w : α → α → Bool) (allQ : Bool) (step : S → S × Except Exc (List α)) (budget : Nat) (c : Carried α S) :
    Result α S :=
  let r := loop w allQ step budget c.old c.st []
  { carried := { old := r.old, hasOut := true, st := r.st }, iterations := r.trace.length, warned := r.warned,
    exc := r.exc, createdOut := !c.hasOut, trace := r.trace }

/-- the vector the last completed iteration produced (the persisted results), if any -/
def Result.last (r : Result α S) : Option (List α) := r.trace.head?

/-- `Unit._solve_subunits`: the sub-units are solved in order (each one's state feeds the next); an exception of a
    sub-unit is replaced by `RuntimeError` (chained), the remaining sub-units are not touched. -/
def solveSubunits : List (S → S × Except Exc Unit) → S → S × Except Exc Unit
  | [], s => (s, .ok ())
  | u :: us, s =>
    match u s with
    | (s', .ok _) => solveSubunits us s'
    | (s', .error _) => (s', .error .runtimeError)

/-- one loop body of a unit with sub-units: solve them, then evaluate the unit's own root hooks -/
def unitStep (subs : List (S → S × Except Exc Unit)) (own : S → S × Except Exc (List α)) (s : S) :
    S × Except Exc (List α) :=
  match solveSubunits subs s with
  | (s', .ok _) => own s'
  | (s', .error e) => (s', .error e)

/-! ### `init_solve`: what a re-used out profile takes over from the incoming profile (unit.py)

      self.in_profile = self.InProfile(self, in_profile)
      if not self.out_profile:
          self.out_profile = self.OutProfile(self, in_profile)      # copies the public entries of `in_profile`
      else:
          roots = {h.name for h in root_hooks if isinstance(self.out_profile, h.owner)}
          handed_over = {k: v for k, v in in_profile.__dict__.items() if not k.startswith("_")}
          outdated = [k for k in self.out_profile.__dict__ if not k.startswith("_") and k not in roots and k not in handed_over]
          for k in outdated: delattr(self.out_profile, k)
          for k, v in handed_over.items():
              if k not in roots or k not in self.out_profile.__dict__: setattr(self.out_profile, k, v)

  Public `__dict__` entries as an insertion-ordered association list name ↦ value (values are opaque: identities).
-/

abbrev Entries := List (String × Nat)

def Entries.get (e : Entries) (k : String) : Option Nat := (e.find? fun x => x.1 == k).map (·.2)

def Entries.has (e : Entries) (k : String) : Bool := e.any fun x => x.1 == k

/-- the `else:` branch on the public entries of the re-used out profile: entries that are neither root hooks nor handed
    over are dropped; the others keep their place, root hooks also their value (the previous result = start value of the
    iteration), the rest takes the incoming value; names the out profile does not have yet are appended in the order of
    the incoming profile (python `dict` semantics) -/
def handOver (roots : List String) (out tmpl : Entries) : Entries :=
  let kept : Entries := out.filter fun e => roots.contains e.1 || tmpl.has e.1
  kept.map (fun e => if roots.contains e.1 then e else (e.1, (tmpl.get e.1).getD e.2)) ++
    tmpl.filter fun e => !kept.has e.1

/-- public entries of `self.out_profile` after `init_solve(in_profile)`: `out = none` – there was no out profile (it is
    created from the incoming one); `handsOver = false` is the policy "re-use as it is" -/
def initOut (handsOver : Bool) (roots : List String) (out : Option Entries) (tmpl : Entries) : Entries :=
  match out with
  | none => tmpl
  | some o => if handsOver then handOver roots o tmpl else o

/-! ### re-entrancy marks of `HookFunction.__call__` (hooks.py)

      key = id(instance); cycle = key in self._active_instances
      self._active_instances.add(key)
      try: … call the implementation …
      finally:
          if not cycle: self._active_instances.discard(key)
-/

/-- `marks` = `_active_instances` of one hook function as a list of instance keys; `body` is the implementation
    (it may call the same function again, on the same or another instance) -/
def markedCall (key : Nat) (body : List Nat → Bool → List Nat × Except Exc α) (marks : List Nat) :
    List Nat × Except Exc α :=
  let cycle := marks.contains key
  let m1 := if cycle then marks else key :: marks
  let (m2, r) := body m1 cycle
  (if cycle then m2 else m2.erase key, r)

end Solve
