import PyrollModel.GrooveWF
/-!
# The lookup of `create_groove_by_type_name` among candidate classes (C03)

`GrooveWF.normalise` models WHICH NAME the by-name factory looks up.  This file models WHERE it looks, in which ORDER,
and which candidate it takes: the statement list of `create_groove_by_type_name` is read by
`driver/translate/c03_factory.py` into `Gen.C03Factory.steps : List FStep`; `runSteps` interprets such a list on a
`World` (the namespace of the package `pyroll.core.grooves` and the namespaces of all loaded modules in load order).

A python object is abstracted to what the factory can observe of it: is it a groove class
(`isinstance(o, type) and issubclass(o, GrooveBase)`), is it truthy (`bool(o)`), and its identity (`owner`, `name`:
the namespace that defines it and its name there; the same class object imported into several namespaces is the same
`Obj`).  Import-free core Lean, every function one structural recursion on a list.
-/
namespace GrooveWF

/-- what the factory can observe of a python object bound in some namespace -/
structure Obj where
  /-- where it is defined (`__module__` of a class); identity of the object together with `name` -/
  owner : String
  name : String
  /-- `isinstance(o, type) and issubclass(o, GrooveBase)` -/
  groove : Bool
  /-- `bool(o)` for objects that are not groove classes (classes are always truthy) -/
  truthyOther : Bool
  deriving Repr, DecidableEq, Inhabited

/-- `bool(o)` -/
def Obj.truthy (o : Obj) : Bool := o.groove || o.truthyOther

/-- attribute name ↦ object; the first binding of a name counts -/
abbrev Namespace := List (String × Obj)

/-- `getattr(mod, n, None)` -/
def attr : Namespace → String → Option Obj
  | [], _ => none
  | (k, o) :: r, n => if k = n then some o else attr r n

structure World where
  /-- `sys.modules[__name__]`: the namespace of the package `pyroll.core.grooves` -/
  pkg : Namespace
  /-- `sys.modules.values()` in load order (oldest first; the package itself is one of them) -/
  modules : List Namespace
  deriving Repr, Inhabited

/-- one statement (group) of `create_groove_by_type_name`; `groove_cls` = the candidate, `type_name` = the current name -/
inductive FStep where
  /-- `groove_cls = getattr(sys.modules[__name__], type_name, None)` -/
  | getPkg
  /-- `if isinstance(groove_cls, type) and issubclass(groove_cls, GrooveBase): return groove_cls(**kwargs)` -/
  | returnIfGroove
  /-- `type_name = re.sub(…, type_name.title()); type_name = type_name if type_name.endswith(S) else type_name + S` -/
  | normalise
  /-- `groove_cls = None` -/
  | clear
  /-- `[if not groove_cls:] for mod in [reversed](sys.modules.values()): c = getattr(mod, type_name, None);
      if <c | c is a groove class>: groove_cls = c; break`.
      `guarded`: only when the candidate so far is falsy; `rev`: most recently loaded module first; `grooveOnly`: only
      groove classes qualify (else: any truthy attribute); `keep`: the loop assigns the candidate only on a hit (else the
      loop variable IS the candidate and a search without a hit leaves a falsy value behind) -/
  | scan (guarded rev grooveOnly keep : Bool)
  /-- `if not groove_cls: raise ValueError(…)` -/
  | raiseIfNone
  /-- `return groove_cls(**kwargs)` -/
  | returnCand
  deriving Repr, DecidableEq, Inhabited

/-- what a call of the factory does -/
inductive FOut where
  /-- `o(**kwargs)` is evaluated and its result handed out -/
  | called (o : Obj)
  /-- `ValueError: No groove class named …` -/
  | notFound
  /-- `None(**kwargs)`: TypeError of python -/
  | calledNone
  /-- the statement list ends without `return` (python hands out `None`) -/
  | fellThrough
  deriving Repr, DecidableEq, Inhabited

/-- first module (in the given order) whose attribute `n` qualifies -/
def firstHit (n : String) (grooveOnly : Bool) : List Namespace → Option Obj
  | [] => none
  | m :: r =>
    match attr m n with
    | some o => if (if grooveOnly then o.groove else o.truthy) then some o else firstHit n grooveOnly r
    | none => firstHit n grooveOnly r

/-- `bool(groove_cls)` (`None` is falsy) -/
def candTruthy : Option Obj → Bool
  | some o => o.truthy
  | none => false

/-- the interpreter: one structural recursion on the statement list; state = current name, current candidate -/
def runSteps (F : FactorySpec) (W : World) : List FStep → String → Option Obj → FOut
  | [], _, _ => .fellThrough
  | .getPkg :: r, n, _ => runSteps F W r n (attr W.pkg n)
  | .returnIfGroove :: r, n, c =>
    match c with
    | some o => if o.groove then .called o else runSteps F W r n c
    | none => runSteps F W r n c
  | .normalise :: r, n, c => runSteps F W r (normalise F n) c
  | .clear :: r, n, _ => runSteps F W r n none
  | .scan guarded rev grooveOnly keep :: r, n, c =>
    if guarded && candTruthy c then runSteps F W r n c
    else
      match firstHit n grooveOnly (if rev then W.modules.reverse else W.modules) with
      | some o => runSteps F W r n (some o)
      | none => runSteps F W r n (if keep then c else none)
  | .raiseIfNone :: r, n, c => if candTruthy c then runSteps F W r n c else .notFound
  | .returnCand :: _, _, c =>
    match c with
    | some o => .called o
    | none => .calledNone

/-- `create_groove_by_type_name(name, …)` in the world `W`, for a translated statement list -/
def resolveObj (F : FactorySpec) (steps : List FStep) (W : World) (name : String) : FOut :=
  runSteps F W steps name none

/-! ## the documented lookup (docstring of the factory)

"Supports all grooves from the `pyroll.core.grooves` namespace as well as from all currently loaded modules.  The former
take precedence.  `type_name`: the name of the groove-type either exactly as the respective class name or with words
separated by spaces, dashes or underscores where the word capitalization is ignored": a groove class of the package
under the name as given; else whatever the package binds to the normalised name; else the attribute of that name of the
most recently loaded module that has one; else `ValueError`. -/

def documentedRest (F : FactorySpec) (W : World) (name : String) : FOut :=
  let n := normalise F name
  match (attr W.pkg n).filter Obj.truthy with
  | some o => .called o
  | none =>
    match firstHit n false W.modules.reverse with
    | some o => .called o
    | none => .notFound

def documented (F : FactorySpec) (W : World) (name : String) : FOut :=
  match attr W.pkg name with
  | some o => if o.groove then .called o else documentedRest F W name
  | none => documentedRest F W name

/-! ## worlds built from a class table -/

/-- the groove class `c` of the package -/
def coreObj (c : String) : Obj := { owner := "pyroll.core.grooves", name := c, groove := true, truthyOther := false }

/-- the package namespace holding exactly the classes of a table -/
def corePkg : List String → Namespace
  | [] => []
  | c :: r => (c, coreObj c) :: corePkg r

/-- a groove class `c` defined by another module `m` -/
def foreignObj (m c : String) : Obj := { owner := m, name := c, groove := true, truthyOther := false }

/-- the namespace of a module `m` defining groove classes under the given names -/
def pluginModule (m : String) : List String → Namespace
  | [] => []
  | c :: r => (c, foreignObj m c) :: pluginModule m r

end GrooveWF
