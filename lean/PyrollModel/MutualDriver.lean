import PyrollModel.Mutual
import PyrollModel.Proto
/-
  Line-protocol driver of the symbolic hook interpreter (C16).

    run <class> ext=<path/st,…|-> set=<a,b|-> order=<a,b> env=<name=bits,…|-> fuel=<n> [none=<a,b|->]

  `none`: names given explicitly as `None`.
  `st`: s (explicitly set), a (available), c (available and cached on its owner), n (opaque body returns None), ea / ei / ev / eo (raises Attribute-, Index-,
  Value-, other error).  Answer (one line):

    <name>=<V bits | N | Eattr | Eindex | Evalue | Eother | Efuel | Eunmodelled>:<steps>:<depth>:<calls>;…|cache=a,b|active=k,…

  `V bits` is the symbolic value evaluated over `Float` in the environment `env` (IEEE bit pattern).
  `sym …` (same arguments) prints the symbolic values instead.
-/
namespace MutualDriver
open Mutual

def splitList (s : String) : List String :=
  if s = "-" || s = "" then [] else s.splitOn ","

def parseErr : String → Option Ext
  | "s" => some .set
  | "a" => some .avail
  | "c" => some .cached
  | "n" => some .none
  | "ea" => some (.missing .attr)
  | "ei" => some (.missing .index)
  | "ev" => some (.missing .value)
  | "eo" => some (.missing .other)
  | _ => none

def parseExt (s : String) : Option (String × Ext) :=
  match s.splitOn "/" with
  | [p, st] => (parseErr st).map fun x => (p, x)
  | [h, f, st] => (parseErr st).map fun x => (h ++ "/" ++ f, x)      -- opaque keys are `@Host/fn`
  | _ => none

def parseBinding (s : String) : Option (String × Float) :=
  match s.splitOn "=" with
  | [k, v] => (floatOfBitsStr v).map fun x => (k, x)
  | _ => none

def field (pre : String) (t : String) : Option String :=
  if t.startsWith pre then some (t.drop pre.length).toString else none

def showErr : Err → String
  | .attr => "Eattr" | .index => "Eindex" | .value => "Evalue" | .other => "Eother"
  | .fuel => "Efuel" | .unmodelled => "Eunmodelled"

def showExpr : Expr → String
  | .var n => n
  | .nat n => toString n
  | .dec m e => s!"{m}e-{e}"
  | .pi => "pi"
  | .add a b => s!"({showExpr a}+{showExpr b})"
  | .sub a b => s!"({showExpr a}-{showExpr b})"
  | .mul a b => s!"({showExpr a}*{showExpr b})"
  | .div a b => s!"({showExpr a}/{showExpr b})"
  | .neg a => s!"-{showExpr a}"
  | .pow a n => s!"{showExpr a}^{n}"
  | .sqrt a => s!"sqrt({showExpr a})"
  | .sin a => s!"sin({showExpr a})"
  | .cos a => s!"cos({showExpr a})"
  | .tan a => s!"tan({showExpr a})"
  | .asin a => s!"asin({showExpr a})"
  | .acos a => s!"acos({showExpr a})"
  | .atan a => s!"atan({showExpr a})"
  | .log a => s!"log({showExpr a})"
  | .exp a => s!"exp({showExpr a})"
  | .abs a => s!"abs({showExpr a})"

def showRes (sym : Bool) (env : String → Float) : Res → String
  | .val e => if sym then "V" ++ showExpr e else "V" ++ floatToBitsStr (e.eval env)
  | .none => "N"
  | .err e => showErr e

def handle (classes : List (String × List String × List String × List Impl)) (line : String) : String :=
  -- optional eighth field `none=<a,b|->`: the names given explicitly as `None`
  let (toks, nones) := match Proto.toks line with
    | [cmd, cls, e, s, o, v, f, n] => ([cmd, cls, e, s, o, v, f], (field "none=" n).map splitList)
    | t => (t, some [])
  match toks, nones with
  | _, none => "bad-op"
  | [cmd, cls, e, s, o, v, f], some nones =>
    if cmd ≠ "run" && cmd ≠ "sym" then "bad-op" else
    match classes.find? (fun c => c.1 = cls), field "ext=" e, field "set=" s, field "order=" o, field "env=" v,
          (field "fuel=" f).bind String.toNat? with
    | some (_, mro, hooks, impls), some e, some s, some o, some v, some fuel =>
      match (splitList e).mapM parseExt, (splitList v).mapM parseBinding with
      | some ext, some env =>
        let w : World := { impls := impls, mro := mro, hooks := hooks, ext := ext }
        let (rs, obj) := scenarioN w fuel (splitList s) nones (splitList o)
        let envf := envOf (0.0 / 0.0 : Float) env
        let reads := ";".intercalate (rs.map fun r => s!"{r.name}={showRes (cmd = "sym") envf r.res}:{r.steps}:{r.depth}:{r.calls}")
        let cache := ",".intercalate (obj.cache.map (·.1))
        let act := ",".intercalate obj.active
        s!"{reads}|cache={cache}|active={act}"
      | _, _ => "bad-op"
    | none, _, _, _, _, _ => "unknown-class"
    | _, _, _, _, _, _ => "bad-op"
  | _, _ => "bad-op"

partial def loop (classes : List (String × List String × List String × List Impl)) (h : IO.FS.Stream) : IO Unit := do
  let line ← h.getLine
  if line.isEmpty then return ()
  IO.println (handle classes (line.trimAscii.toString))
  loop classes h

def main (classes : List (String × List String × List String × List Impl)) : IO Unit := do
  loop classes (← IO.getStdin)

end MutualDriver
