import PyrollModel.Mutual
import PyrollModel.Proto
/-
  Line-protocol driver of the symbolic hook interpreter (C16).

    run <class> ext=<path/st,…|-> set=<a,b|-> order=<a,b> env=<name=bits,…|-> fuel=<n> [none=<a,b|->] [call=<a:k,…|->]
        [tmpl=<class> text=<path/st,…|-> tset=<a,b|-> hist=<r:a,s:b,d:c,n:e|-> tenv=<name=bits,…|->]

  `none`: names given explicitly as `None`.  `call`: names (of `set`) whose explicit value is a callable with `k` parameters.
  `tmpl`: the object under test is built from a TEMPLATE object of class `tmpl` (externals `text`, initially `tset` explicitly
  set) that went through the history `hist` (r: read, s: supply a new value, d: delete, n: supply `None`) before it was handed to
  the copy site (`Gen.C16.copy_<class>`); `set`/`none`/`call` are then taken from the model's copy, and the answer carries two more
  parts `|set=<names in the copy's __dict__>|treads=<results of the history's reads>`; the reads that precede the first edit are
  evaluated with the template's INITIAL values (`tenv`, overriding `env`), the later ones with `env` (where `<name>@old` is the
  value a re-supplied / deleted name held before).
  `st`: s (explicitly set), a (available), c (available and cached on its owner), n (opaque body returns None), ea / ei / ev / eo (raises Attribute-, Index-,
  Value-, other error).  Answer (one line):

    <name>=<V bits | N | Eattr | Eindex | Evalue | Eother | Efuel | Eunmodelled>:<steps>:<depth>:<calls>;…|cache=a,b|active=k,…

  `V bits` is the symbolic value evaluated over `Float` in the environment `env` (IEEE bit pattern).
  `sym …` (same arguments) prints the symbolic values instead.
-/
namespace MutualDriver
open Mutual

def splitList (s : String) : List String :=
  if s = "-" || s = "" then [] else s.splitOn ","

def parseErr : String → Option Ext
  | "s" => some .set
  | "a" => some .avail
  | "c" => some .cached
  | "n" => some .none
  | "ea" => some (.missing .attr)
  | "ei" => some (.missing .index)
  | "ev" => some (.missing .value)
  | "eo" => some (.missing .other)
  | _ => none

def parseExt (s : String) : Option (String × Ext) :=
  match s.splitOn "/" with
  | [p, st] => (parseErr st).map fun x => (p, x)
  | [h, f, st] => (parseErr st).map fun x => (h ++ "/" ++ f, x)      -- opaque keys are `@Host/fn`
  | _ => none

def parseBinding (s : String) : Option (String × Float) :=
  match s.splitOn "=" with
  | [k, v] => (floatOfBitsStr v).map fun x => (k, x)
  | _ => none

def field (pre : String) (t : String) : Option String :=
  if t.startsWith pre then some (t.drop pre.length).toString else none

def showErr : Err → String
  | .attr => "Eattr" | .index => "Eindex" | .value => "Evalue" | .other => "Eother"
  | .fuel => "Efuel" | .unmodelled => "Eunmodelled"

def showExpr : Expr → String
  | .var n => n
  | .nat n => toString n
  | .dec m e => s!"{m}e-{e}"
  | .pi => "pi"
  | .add a b => s!"({showExpr a}+{showExpr b})"
  | .sub a b => s!"({showExpr a}-{showExpr b})"
  | .mul a b => s!"({showExpr a}*{showExpr b})"
  | .div a b => s!"({showExpr a}/{showExpr b})"
  | .neg a => s!"-{showExpr a}"
  | .pow a n => s!"{showExpr a}^{n}"
  | .sqrt a => s!"sqrt({showExpr a})"
  | .sin a => s!"sin({showExpr a})"
  | .cos a => s!"cos({showExpr a})"
  | .tan a => s!"tan({showExpr a})"
  | .asin a => s!"asin({showExpr a})"
  | .acos a => s!"acos({showExpr a})"
  | .atan a => s!"atan({showExpr a})"
  | .log a => s!"log({showExpr a})"
  | .exp a => s!"exp({showExpr a})"
  | .abs a => s!"abs({showExpr a})"

def showRes (sym : Bool) (env : String → Float) : Res → String
  | .val e => if sym then "V" ++ showExpr e else "V" ++ floatToBitsStr (e.eval env)
  | .none => "N"
  | .err e => showErr e

/-- optional `key=value` token -/
def opt (pre : String) : List String → Option String
  | [] => none
  | t :: r => match field pre t with
    | some v => some v
    | none => opt pre r

def parseCall (s : String) : Option (String × Nat) :=
  match s.splitOn ":" with
  | [n, k] => k.toNat?.map fun k => (n, k)
  | _ => none

def parseOp (s : String) : Option Op :=
  match s.splitOn ":" with
  | ["r", n] => some (.read n)
  | ["s", n] => some (.supply n)
  | ["d", n] => some (.unsupply n)
  | ["n", n] => some (.supplyNone n)
  | _ => none

/-- what the generated module provides: the class tables, the calling convention of `Hook.__get__` for callable explicit
    values, and per class the attribute sets a copy site takes over from its template -/
structure Gen where
  classes : List (String × List String × List String × List Impl)
  conv : CallConv
  copies : List (String × List String)

def showReads (sym : Bool) (envf : String → Float) (rs : List Read) : String :=
  ";".intercalate (rs.map fun r => s!"{r.name}={showRes sym envf r.res}:{r.steps}:{r.depth}:{r.calls}")

/-- number of reads before the first edit -/
def leadingReads : List Op → Nat
  | .read _ :: r => leadingReads r + 1
  | _ => 0

def handle (g : Gen) (line : String) : String :=
  match Proto.toks line with
  | cmd :: cls :: e :: s :: o :: v :: f :: rest =>
    if cmd ≠ "run" && cmd ≠ "sym" then "bad-op" else
    match g.classes.find? (fun c => c.1 = cls), field "ext=" e, field "set=" s, field "order=" o, field "env=" v,
          (field "fuel=" f).bind String.toNat? with
    | some (_, mro, hooks, impls), some e, some s, some o, some v, some fuel =>
      match (splitList e).mapM parseExt, (splitList v).mapM parseBinding,
            (splitList ((opt "call=" rest).getD "-")).mapM parseCall with
      | some ext, some env, some calls =>
        let nones := splitList ((opt "none=" rest).getD "-")
        let w : World := { impls := impls, mro := mro, hooks := hooks, ext := ext, conv := g.conv }
        let envf := envOf (0.0 / 0.0 : Float) env
        let sym := cmd = "sym"
        match opt "tmpl=" rest with
        | none =>
          let (rs, obj) := readAll w fuel (Obj.freshC (splitList s) calls nones) (splitList o)
          let cache := ",".intercalate (obj.cache.map (·.1))
          let act := ",".intercalate obj.active
          s!"{showReads sym envf rs}|cache={cache}|active={act}"
        | some tcls =>
          match g.classes.find? (fun c => c.1 = tcls), (splitList ((opt "text=" rest).getD "-")).mapM parseExt,
                (splitList ((opt "hist=" rest).getD "-")).mapM parseOp, lookup cls g.copies,
                (splitList ((opt "tenv=" rest).getD "-")).mapM parseBinding with
          | some (_, tmro, thooks, timpls), some text, some ops, some srcs, some tenv =>
            -- the hooks of the copy's class exist on the template's class as well (no implementation there: AttributeError)
            let tw : World := { impls := timpls, mro := tmro, hooks := thooks ++ hooks.filter (fun h => !thooks.contains h),
                                ext := text, conv := g.conv }
            let (trs, t) := applyOpsR tw fuel (Obj.freshC (splitList ((opt "tset=" rest).getD "-")) calls nones) ops
            match copyObj srcs t with
            | none => "unmodelled-copy"
            | some c =>
              let (rs, obj) := readAll w fuel c (splitList o)
              let cache := ",".intercalate (obj.cache.map (·.1))
              let act := ",".intercalate obj.active
              let dict := ",".intercalate (c.dictEntries.map (·.1))
              let k := leadingReads ops
              let envInit := envOf (0.0 / 0.0 : Float) (tenv ++ env)
              let t1 := showReads sym envInit (trs.take k)
              let t2 := showReads sym envf (trs.drop k)
              let sep := if t1 = "" || t2 = "" then "" else ";"
              s!"{showReads sym envf rs}|cache={cache}|active={act}|set={dict}|treads={t1}{sep}{t2}"
          | none, _, _, _, _ => "unknown-class"
          | _, _, _, _, _ => "bad-op"
      | _, _, _ => "bad-op"
    | none, _, _, _, _, _ => "unknown-class"
    | _, _, _, _, _, _ => "bad-op"
  | _ => "bad-op"

partial def loop (g : Gen) (h : IO.FS.Stream) : IO Unit := do
  let line ← h.getLine
  if line.isEmpty then return ()
  IO.println (handle g (line.trimAscii.toString))
  loop g h

def main (g : Gen) : IO Unit := do
  loop g (← IO.getStdin)

end MutualDriver
