import PyrollModel.Gen.C02Extra

/-
  LifecycleCopy — the hook value stores of `HookHost` objects as OBJECTS WITH IDENTITY (C02, shallow copy).

  `PyrollModel/Lifecycle.lean` gives every instance a `dict` and a `cache` of its own; that is what `HookHost.__init__`
  (`self.__cache__ = dict()`) and the hand-over constructor produce.  `HookHost.__copy__` is different:

      result = cls.__new__(cls); result.__dict__.update(self.__dict__); return result

  makes a NEW object with a NEW `__dict__` that receives the ENTRIES of the original's `__dict__` - and `__cache__` is one of
  these entries (an instance attribute holding a reference to a dictionary object).  So the explicit values are copied by
  value (entry by entry), the remembered-value dictionary is SHARED.  This module models exactly that: hosts hold their
  explicit values and a REFERENCE (index) to a dictionary object; dictionary objects live in a heap.

  Consumed from `PyrollModel/Gen/C02Extra.lean` (regenerated from `pyroll/core/hooks.py` on every run): `copyMode`
  (`HookHost.__copy__`), `initCache` (`HookHost.__init__`), `setWrites`, `deleteFrom` (`Hook.__set__ / __delete__`).
  Implementations are constants per hook (`World.impl`); reading = explicit value, else remembered value, else the
  constant, which is then remembered - in the dictionary object the host REFERS to.
  Executable; driven by driver/props/c02.py (`copy` histories) through the C02 line-protocol driver.
-/

namespace LifeCopy

abbrev Name := Nat
abbrev Ref := Nat            -- identity of a dictionary object
abbrev Host := Nat           -- identity of a host object

def lookup (n : Name) : List (Name × Int) → Option Int
  | [] => none
  | (k, v) :: l => if k = n then some v else lookup n l

def put (n : Name) (v : Int) : List (Name × Int) → List (Name × Int)
  | [] => [(n, v)]
  | (k, w) :: l => if k = n then (k, v) :: l else (k, w) :: put n v l

def del (n : Name) (l : List (Name × Int)) : List (Name × Int) := l.filter fun e => e.1 != n

/-- a host: the hook entries of its own `__dict__` and what its entry `__cache__` refers to -/
structure Obj where
  dict : List (Name × Int)
  cache : Option Ref                       -- `none`: the object has no attribute `__cache__`
  deriving DecidableEq, Repr

structure World where
  nHosts : Nat
  host : Host → Obj
  nDicts : Nat
  store : Ref → List (Name × Int)         -- the dictionary objects
  impl : Name → Option Int                 -- the (constant) implementation registered for a hook

def blank : Obj := { dict := [], cache := none }

def init : World := { nHosts := 0, host := fun _ => blank, nDicts := 0, store := fun _ => [], impl := fun _ => none }

def World.setHost (w : World) (i : Host) (o : Obj) : World := { w with host := fun j => if j = i then o else w.host j }
def World.setStore (w : World) (r : Ref) (d : List (Name × Int)) : World :=
  { w with store := fun q => if q = r then d else w.store q }

/-- `self.__cache__ = dict()`: a NEW dictionary object, bound to the host (as the GENERATED description of `__init__` says) -/
def World.bindFreshCache (w : World) (i : Host) : World :=
  if Gen.C02.Extra.initCache == "self.__cache__ := dict()" then
    { (w.setHost i { w.host i with cache := some w.nDicts }).setStore w.nDicts [] with nDicts := w.nDicts + 1 }
  else w

inductive Op where
  | new                                    -- `Cls()`
  | copy (i : Host)                        -- `copy.copy(obj)` = `HookHost.__copy__`
  | assign (i : Host) (n : Name) (v : Int) -- `Hook.__set__`
  | delete (i : Host) (n : Name)           -- `Hook.__delete__`
  | read (i : Host) (n : Name)             -- `Hook.__get__` (constant implementations)
  | clear (i : Host)                       -- `obj.__cache__.clear()`
  | rebind (i : Host)                      -- `obj.__cache__ = dict()` (what a constructor does)
  | setImpl (n : Name) (v : Option Int)    -- the implementation of hook `n` yields `v`
  deriving DecidableEq, Repr

inductive Out where
  | ok
  | val (v : Int)
  | attrErr
  deriving DecidableEq, Repr

/-- `HookHost.__copy__` as the GENERATED description says: a new object whose `__dict__` is updated with the entries of the
original's - the hook entries by value, the entry `__cache__` as the reference it is -/
def World.shallowCopy (w : World) (i : Host) : World :=
  if Gen.C02.Extra.copyMode == "new(cls); __dict__.update(self.__dict__)" then
    { w.setHost w.nHosts { dict := (w.host i).dict, cache := (w.host i).cache } with nHosts := w.nHosts + 1 }
  else { w.setHost w.nHosts blank with nHosts := w.nHosts + 1 }

def step (w : World) : Op → World × Out
  | .new => ({ w.setHost w.nHosts blank with nHosts := w.nHosts + 1 }.bindFreshCache w.nHosts, .ok)
  | .copy i => (w.shallowCopy i, .ok)
  | .assign i n v =>
    if Gen.C02.Extra.setWrites == "__dict__" then (w.setHost i { w.host i with dict := put n v (w.host i).dict }, .ok)
    else (w, .ok)
  | .delete i n =>
    if Gen.C02.Extra.deleteFrom == "__dict__" then (w.setHost i { w.host i with dict := del n (w.host i).dict }, .ok)
    else (w, .ok)
  | .read i n =>
    match lookup n (w.host i).dict with
    | some v => (w, .val v)
    | none =>
      match (w.host i).cache with
      | none => (w, .attrErr)                                      -- no `__cache__` attribute
      | some r =>
        match lookup n (w.store r) with
        | some v => (w, .val v)
        | none =>
          match w.impl n with
          | some v => (w.setStore r (put n v (w.store r)), .val v) -- remembered in the dictionary the host refers to
          | none => (w, .attrErr)
  | .clear i =>
    match (w.host i).cache with
    | some r => (w.setStore r [], .ok)
    | none => (w, .attrErr)
  | .rebind i => (w.bindFreshCache i, .ok)
  | .setImpl n v => ({ w with impl := fun m => if m = n then v else w.impl m }, .ok)

def run (w : World) (ops : List Op) : World := ops.foldl (fun s op => (step s op).1) w

/-- what a read of hook `n` on host `i` would serve from the remembered values -/
def World.remembered (w : World) (i : Host) (n : Name) : Option Int :=
  match (w.host i).cache with
  | some r => lookup n (w.store r)
  | none => none

end LifeCopy
