import PyrollModel.Rot
/-!
# RotNav — the object graph the backward walk runs on (C14)

`Rot.lean` feeds `detect` with the kinds of the units before the pass, nearest first.  In the code that list is not given:
`detect_already_rotated` *navigates* — `self.parent`, `self.prev`, `prev.prev` — over unit objects that point to their parent
(weak reference) and hold their own `subunits` (a sequence its units, a transport / roll pass its disk elements).  This file
models that graph and what maintains it:

* `pyroll/core/unit/unit.py` : `Unit.prev` (`PrevSpec`), `_SubUnitsList.__init__` / `.clear` (`ListOpsSpec`: who becomes parent
  of whom, in which statement order),
* `pyroll/core/sequence/sequence.py` : `PassSequence.flatten` (`FlattenSpec`: the statements of its loop and their order
  relative to the installation of the new list).

As in `Rot.lean`, what is *data* in the source is generated into `PyrollModel/Gen/C14.lean`; here are the types and their
interpreters.  Import-free apart from `Rot`.
-/

namespace Rot

/-- exceptions the navigation can raise -/
inductive NavErr where
  /-- `ValueError` (no parent; not a member of its parent's list) -/
  | value
  /-- `IndexError` (no previous unit) -/
  | index
  deriving DecidableEq, Repr

/-- `Unit.prev`, as data -/
structure PrevSpec where
  /-- raised when `self.parent is None` -/
  noParent : NavErr
  /-- raised when the unit is at index 0 of `self.parent.subunits` -/
  first : NavErr
  /-- `return self.parent.subunits[i - offset]` -/
  offset : Nat
  deriving DecidableEq, Repr

/-- the object graph: units by identity (a natural number); what the navigation reads of a unit -/
structure Heap where
  /-- class of the unit as the `isinstance` tests of the walk see it -/
  kind : Nat → Kind
  /-- `isinstance(unit, PassSequence)` -/
  isSeq : Nat → Bool
  /-- `unit.parent` (`none` = `None`) -/
  parent : Nat → Option Nat
  /-- `unit.subunits` -/
  subs : Nat → List Nat

/-- `unit.prev` -/
def prevOf (S : PrevSpec) (h : Heap) (i : Nat) : Except NavErr Nat :=
  match h.parent i with
  | none => .error S.noParent
  | some p =>
    let idx := (h.subs p).idxOf i            -- `parent.subunits.index(self)`: first occurrence
    if idx = (h.subs p).length then .error .value       -- `list.index` raises ValueError
    else if idx = 0 then .error S.first
    else match (h.subs p)[idx - S.offset]? with
      | some q => .ok q
      | none => .error .index

/-- outcome of the walk -/
inductive NavOut where
  /-- the function returns (`none` = `None`: the next hook function is asked) -/
  | val (b : Option Bool)
  | raises (e : NavErr)
  /-- the model's step budget is used up (never with a budget ≥ number of siblings) -/
  | fuel
  deriving DecidableEq, Repr

/-- the `while True` loop of `detect_already_rotated` on the object graph, entered with `prev = p` -/
def walkNav (w : WalkSpec) (S : PrevSpec) (h : Heap) : Nat → Nat → NavOut
  | 0, _ => .fuel
  | f + 1, p =>
    match testKind (h.kind p) w.tests with
    | some b => .val (some b)
    | none =>
      match prevOf S h p with
      | .ok q => walkNav w S h f q
      | .error .index => .val w.exhausted
      | .error e => .raises e

/-- `detect_already_rotated(unit i)` on the object graph -/
def detectNav (w : WalkSpec) (S : PrevSpec) (auto : Bool) (h : Heap) (i : Nat) (fuel : Nat) : NavOut :=
  if (!w.needsAuto || auto) && (!w.needsParent || (h.parent i).isSome) then
    match prevOf S h i with
    | .ok p => walkNav w S h fuel p
    | .error .index => .val w.noPrev
    | .error e => .raises e
  else .val none

/-! ## `_SubUnitsList`: who becomes parent of whom -/

/-- one statement of a `_SubUnitsList` method -/
inductive ListStmt where
  /-- `for u in self: u.parent = owner` (`true`) / `= None` (`false`) -/
  | eachParent (toOwner : Bool)
  /-- `super().<the method>(…)` : the underlying `list` operation -/
  | super
  deriving DecidableEq, Repr

/-- the two methods `flatten` goes through, as statement lists -/
structure ListOpsSpec where
  /-- `_SubUnitsList.__init__(self, owner, units)` -/
  init : List ListStmt
  /-- `_SubUnitsList.clear(self)` -/
  clear : List ListStmt
  deriving DecidableEq, Repr

def Heap.setParents (h : Heap) (us : List Nat) (p : Option Nat) : Heap :=
  { h with parent := fun u => if us.contains u then p else h.parent u }

def Heap.setSubs (h : Heap) (i : Nat) (l : List Nat) : Heap :=
  { h with subs := fun j => if j = i then l else h.subs j }

/-- `_SubUnitsList(owner, units)`; `cur` = content of the list under construction.  Result: heap and the new list -/
def runInit (owner : Nat) (units : List Nat) : List ListStmt → Heap × List Nat → Heap × List Nat
  | [], st => st
  | .super :: r, (h, _) => runInit owner units r (h, units)
  | .eachParent b :: r, (h, cur) => runInit owner units r (h.setParents cur (if b then some owner else none), cur)

/-- `unit.subunits.clear()` -/
def runClear (it : Nat) : List ListStmt → Heap → Heap
  | [], h => h
  | .super :: r, h => runClear it r (h.setSubs it [])
  | .eachParent b :: r, h => runClear it r (h.setParents (h.subs it) (if b then some it else none))

/-! ## `PassSequence.flatten` -/

/-- what `flatten` does with a member that is itself a sequence -/
inductive ItemOp where
  /-- `new_list.extend(item.units)` -/
  | collect
  /-- `item.subunits.clear()` -/
  | clear
  /-- `item.parent = None` -/
  | orphan
  /-- `<list>.append(item)` : the member is kept for a later loop -/
  | remember
  deriving DecidableEq, Repr

inductive Phase where
  /-- `for item in list(self): if isinstance(item, PassSequence): <ops> else: new_list.append(item)` -/
  | main (ops : List ItemOp)
  /-- `for item in <remembered>: <ops>` -/
  | deferred (ops : List ItemOp)
  /-- `self._subunits = self._SubUnitsList(self, new_list)` -/
  | install
  deriving DecidableEq, Repr

abbrev FlattenSpec := List Phase

/-- state of `flatten`: the graph, `new_list`, the remembered members -/
structure FS where
  h : Heap
  acc : List Nat
  kept : List Nat

def runItemOps (L : ListOpsSpec) (it : Nat) : List ItemOp → FS → FS
  | [], st => st
  | .collect :: r, st => runItemOps L it r { st with acc := st.acc ++ st.h.subs it }
  | .clear :: r, st => runItemOps L it r { st with h := runClear it L.clear st.h }
  | .orphan :: r, st => runItemOps L it r { st with h := st.h.setParents [it] none }
  | .remember :: r, st => runItemOps L it r { st with kept := st.kept ++ [it] }

def runMain (L : ListOpsSpec) (ops : List ItemOp) : List Nat → FS → FS
  | [], st => st
  | it :: r, st =>
    runMain L ops r (if st.h.isSeq it then runItemOps L it ops st else { st with acc := st.acc ++ [it] })

def runDeferred (L : ListOpsSpec) (ops : List ItemOp) : List Nat → FS → FS
  | [], st => st
  | it :: r, st => runDeferred L ops r (runItemOps L it ops st)

def runPhases (L : ListOpsSpec) (s : Nat) : List Phase → FS → FS
  | [], st => st
  | .main ops :: r, st => runPhases L s r (runMain L ops (st.h.subs s) st)
  | .deferred ops :: r, st => runPhases L s r (runDeferred L ops st.kept st)
  | .install :: r, st =>
    let i := runInit s st.acc L.init (st.h, [])
    runPhases L s r { st with h := i.1.setSubs s i.2 }

/-- `sequence s .flatten()` -/
def flatten (L : ListOpsSpec) (F : FlattenSpec) (h : Heap) (s : Nat) : Heap :=
  (runPhases L s F { h := h, acc := [], kept := [] }).h

/-- one level of nesting dissolved: members that are sequences replaced by their units -/
def flatMembers (h : Heap) (s : Nat) : List Nat :=
  (h.subs s).flatMap fun it => if h.isSeq it then h.subs it else [it]

/-! ## a graph written out node by node (driver, examples) -/

structure NodeRec where
  id : Nat
  kind : Kind
  isSeq : Bool
  parent : Option Nat
  subs : List Nat
  deriving Repr

def findNode (i : Nat) : List NodeRec → Option NodeRec
  | [] => none
  | n :: r => if n.id = i then some n else findNode i r

def Heap.ofNodes (ns : List NodeRec) : Heap :=
  { kind := fun i => match findNode i ns with | some n => n.kind | none => .other
    isSeq := fun i => match findNode i ns with | some n => n.isSeq | none => false
    parent := fun i => match findNode i ns with | some n => n.parent | none => none
    subs := fun i => match findNode i ns with | some n => n.subs | none => [] }

end Rot
