import PyrollModel.PassGeom
/-
  OutCS — the model behind C08 (a pass's outgoing profile is confined by the rolls and has the prescribed width).

  Part 1  the TERM language in which `driver/translate/c08_outcs.py` writes down what `out_cross_section`,
          `out_cross_section3`, `OutProfile.cross_section`, the usable cross-section seed and `Profile.from_groove`
          build (`Gen/C08Geom.lean`), over an UNINTERPRETED shapely signature, and its interpretation into ANY model
          `Sig α G` of that signature (scalars `α`, geometries `G`).  "Same shape as the profile-from-groove
          constructor" is an equality of terms and therefore holds under every interpretation of the library.
  Part 2  one concrete interpretation: vertex lists.  `translate` / `rotate` / `scale` vertex-wise (PassGeom's arithmetic =
          shapely's), `Polygon(...)` closes the ring, `clip_by_rect` = successive half-plane clips that walk along the
          ring, keep the inside vertices and insert the interpolated border crossings (Sutherland–Hodgman; exact when
          the clipped region is connected, e.g. for a z-monotone contour and its half-turn image), `segmentize` = identity
          (it only inserts collinear vertices), measurements = extreme coordinates and the area centroid.  GEOS's
          validity predicate is a parameter.  Generic in `PyNum`: the `Float` instance runs against shapely in the
          correspondence, ℝ is what the theorems of `PyrollProps/C08.lean` are about.
-/

namespace OutCS
open PassGeom

/-! ### Part 1: terms -/

/-- where a construction takes its contour from -/
inductive Src where
  | rollContour        -- `self.roll.contour_line` (pass side)
  | grooveContour      -- `groove.contour_line` (`Profile.from_groove`)
  deriving Repr, DecidableEq, Inhabited

/-- a border of a `clip_by_rect` window -/
inductive Bnd where
  | ninf               -- `-math.inf`
  | pinf               -- `math.inf`
  | fin (e : Expr)
  deriving Repr, DecidableEq, Inhabited

/-- geometry terms -/
inductive GT where
  | src (s : Src)
  | translate (g : GT) (xoff yoff : Expr)          -- shapely.affinity.translate(g, xoff, yoff)
  | rotate (g : GT) (deg : Expr)                   -- shapely.affinity.rotate(g, angle, origin=(0, 0))
  | scale (g : GT) (xfact yfact : Expr)            -- shapely.affinity.scale(g, xfact, yfact, origin=(0, 0)): a reflection for -1
  | reverse (g : GT)                               -- LineString(g.coords[::-1])
  | concat (a b : GT)                              -- np.concatenate([a.coords, b.coords]) / the lines of a MultiLineString
  | polygon (g : GT)                               -- Polygon(<coordinates of g>)
  | clipRect (g : GT) (xmin ymin xmax ymax : Bnd)  -- clip_by_rect(g, xmin, ymin, xmax, ymax)
  | refine (g : GT)                                -- refine_cross_section(g)
  | dedupe (g : GT) (rel : Expr)                   -- remove_repeated_points(g, tolerance=rel * g.length)
  deriving Repr, DecidableEq, Inhabited

/-- what the checks measure on a geometry -/
inductive Meas where
  | width              -- `.width`  (pyroll.core.shapes: bounds[2] - bounds[0])
  | height
  | bound (k : Nat)    -- `.bounds[k]`
  | centroidX
  | centroidY
  deriving Repr, DecidableEq, Inhabited

/-- conditions of `if c: raise ...`; scalar variables may be measurement variables of the program -/
inductive Cond where
  | lt (a b : Expr)
  | le (a b : Expr)
  | not (c : Cond)
  | and (a b : Cond)
  | or (a b : Cond)
  | invalid (g : GT)   -- `not g.is_valid`
  deriving Repr, DecidableEq, Inhabited

structure Check where
  cond : Cond
  exc : String
  deriving Repr, DecidableEq, Inhabited

/-- one translated construction: measurements (variable ↦ geometry, quantity), the checks in source order (the first
    one whose condition holds raises), and the geometry that is returned otherwise -/
structure Prog where
  meas : List (String × GT × Meas)
  checks : List Check
  result : GT
  deriving Repr, DecidableEq, Inhabited

/-- an evaluated window border -/
inductive Ext (α : Type) where
  | ninf
  | pinf
  | fin (a : α)
  deriving Repr, Inhabited

/-- a model of the shapely signature -/
structure Sig (α G : Type) where
  src : Src → G
  translate : G → α → α → G
  rotate : G → α → G
  scale : G → α → α → G
  reverse : G → G
  concat : G → G → G
  polygon : G → G
  clipRect : G → Ext α → Ext α → Ext α → Ext α → G
  refine : G → G
  dedupe : G → α → G
  measure : G → Meas → α
  isValid : G → Bool

inductive Out (G : Type) where
  | ok (g : G)
  | raised (exc : String)
  deriving Repr, Inhabited

section interp
variable {α G : Type} [PyNum α]

def Bnd.eval (ρ : String → α) : Bnd → Ext α
  | .ninf => .ninf
  | .pinf => .pinf
  | .fin e => .fin (e.eval ρ)

def GT.eval (S : Sig α G) (ρ : String → α) : GT → G
  | .src s => S.src s
  | .translate g dx dy => S.translate (g.eval S ρ) (dx.eval ρ) (dy.eval ρ)
  | .rotate g a => S.rotate (g.eval S ρ) (a.eval ρ)
  | .scale g fx fy => S.scale (g.eval S ρ) (fx.eval ρ) (fy.eval ρ)
  | .reverse g => S.reverse (g.eval S ρ)
  | .concat a b => S.concat (a.eval S ρ) (b.eval S ρ)
  | .polygon g => S.polygon (g.eval S ρ)
  | .clipRect g b0 b1 b2 b3 => S.clipRect (g.eval S ρ) (b0.eval ρ) (b1.eval ρ) (b2.eval ρ) (b3.eval ρ)
  | .refine g => S.refine (g.eval S ρ)
  | .dedupe g r => S.dedupe (g.eval S ρ) (r.eval ρ)

/-- the scalar environment extended by the measurements of a program -/
def measEnv (S : Sig α G) (ρ : String → α) : List (String × GT × Meas) → String → α
  | [] => ρ
  | (n, g, m) :: rest => fun v => if v = n then S.measure (g.eval S ρ) m else measEnv S ρ rest v

/-- `ρ` evaluates the geometry terms, `μ` (= `ρ` + measurements) the scalars -/
def Cond.eval (S : Sig α G) (ρ μ : String → α) : Cond → Bool
  | .lt a b => PyNum.lt (a.eval μ) (b.eval μ)
  | .le a b => PyNum.le (a.eval μ) (b.eval μ)
  | .not c => !(c.eval S ρ μ)
  | .and a b => a.eval S ρ μ && b.eval S ρ μ
  | .or a b => a.eval S ρ μ || b.eval S ρ μ
  | .invalid g => !(S.isValid (g.eval S ρ))

def runChecks (S : Sig α G) (ρ μ : String → α) : List Check → Option String
  | [] => none
  | c :: cs => if c.cond.eval S ρ μ then some c.exc else runChecks S ρ μ cs

def Prog.run (S : Sig α G) (ρ : String → α) (p : Prog) : Out G :=
  match runChecks S ρ (measEnv S ρ p.meas) p.checks with
  | some e => .raised e
  | none => .ok (p.result.eval S ρ)

end interp

def GT.mapSrc (f : Src → Src) : GT → GT
  | .src s => .src (f s)
  | .translate g dx dy => .translate (g.mapSrc f) dx dy
  | .rotate g a => .rotate (g.mapSrc f) a
  | .scale g fx fy => .scale (g.mapSrc f) fx fy
  | .reverse g => .reverse (g.mapSrc f)
  | .concat a b => .concat (a.mapSrc f) (b.mapSrc f)
  | .polygon g => .polygon (g.mapSrc f)
  | .clipRect g b0 b1 b2 b3 => .clipRect (g.mapSrc f) b0 b1 b2 b3
  | .refine g => .refine (g.mapSrc f)
  | .dedupe g r => .dedupe (g.mapSrc f) r

def Cond.mapSrc (f : Src → Src) : Cond → Cond
  | .lt a b => .lt a b
  | .le a b => .le a b
  | .not c => .not (c.mapSrc f)
  | .and a b => .and (a.mapSrc f) (b.mapSrc f)
  | .or a b => .or (a.mapSrc f) (b.mapSrc f)
  | .invalid g => .invalid (g.mapSrc f)

/-- the groove of a pass IS the roll's groove: both constructions start from one contour -/
def toGroove : Src → Src := fun _ => .grooveContour

/-! ### Part 2: vertex lists -/

inductive Axis where
  | x
  | y
  deriving Repr, DecidableEq, Inhabited

section vl
variable {α : Type} [PyNum α]

def coord (a : Axis) (p : Pt α) : α :=
  match a with
  | .x => p.x
  | .y => p.y

/-- where the segment `p q` meets the line `coord a = v` (linear interpolation, as GEOS inserts it) -/
def crossOn (a : Axis) (v : α) (p q : Pt α) : Pt α :=
  match a with
  | .x => ⟨v, p.y + (q.y - p.y) * ((v - p.x) / (q.x - p.x))⟩
  | .y => ⟨p.x + (q.x - p.x) * ((v - p.y) / (q.y - p.y)), v⟩

/-- the closed half-plane that is kept: `coord a ≤ v` (`keepLE`) or `v ≤ coord a` -/
def insideH (a : Axis) (keepLE : Bool) (v : α) (p : Pt α) : Bool :=
  if keepLE then PyNum.le (coord a p) v else PyNum.le v (coord a p)

/-- the border crossing of the segment from `p` to the next vertex, if it crosses strictly -/
def crossNext (a : Axis) (v : α) (p : Pt α) : List (Pt α) → List (Pt α)
  | [] => []
  | q :: _ => if between v (coord a p) (coord a q) then [crossOn a v p q] else []

/-- walk along the vertex list: keep the vertices inside, insert the border crossings where a segment crosses -/
def clipHalf (a : Axis) (keepLE : Bool) (v : α) : List (Pt α) → List (Pt α)
  | [] => []
  | p :: rest => (if insideH a keepLE v p then [p] else []) ++ crossNext a v p rest ++ clipHalf a keepLE v rest

def samePt (p q : Pt α) : Bool :=
  PyNum.le p.x q.x && PyNum.le q.x p.x && PyNum.le p.y q.y && PyNum.le q.y p.y

/-- `Polygon(coords)`: the ring is closed by repeating the first vertex (unless it already ends there) -/
def closeRing (l : List (Pt α)) : List (Pt α) :=
  match l.head?, l.getLast? with
  | some p, some q => if samePt p q && decide (1 < l.length) then l else l ++ [p]
  | _, _ => l

/-- clip of a closed ring against one border of the window -/
def clipExt (a : Axis) (keepLE : Bool) (b : Ext α) (l : List (Pt α)) : List (Pt α) :=
  match b with
  | .fin v => closeRing (clipHalf a keepLE v l)
  | .ninf => if keepLE then [] else l
  | .pinf => if keepLE then l else []

/-- the border crossings of the segment `p q` with an x-window, in the order in which the segment meets them -/
def crossBoth (lo hi : α) (p q : Pt α) : List (Pt α) :=
  if PyNum.lt p.x q.x then
    (if between lo p.x q.x then [crossOn .x lo p q] else []) ++ (if between hi p.x q.x then [crossOn .x hi p q] else [])
  else
    (if between hi p.x q.x then [crossOn .x hi p q] else []) ++ (if between lo p.x q.x then [crossOn .x lo p q] else [])

def crossBothNext (lo hi : α) (p : Pt α) : List (Pt α) → List (Pt α)
  | [] => []
  | q :: _ => crossBoth lo hi p q

/-- clip to the strip `lo ≤ x ≤ hi` in ONE walk along the vertex list: keep the vertices inside, insert the border
    crossings of every segment (where the boundary leaves and re-enters through the same border the two crossing points
    become neighbours: the piece of the window border between them) -/
def clipWalkX (lo hi : α) : List (Pt α) → List (Pt α)
  | [] => []
  | p :: rest => (if insideX lo hi p then [p] else []) ++ crossBothNext lo hi p rest ++ clipWalkX lo hi rest

/-- `clip_by_rect(polygon, xmin, ymin, xmax, ymax)` on a closed ring: an x-strip (the two-roll constructions) is clipped
    in one walk, any other window border by border -/
def clipRectVL (l : List (Pt α)) (xmin ymin xmax ymax : Ext α) : List (Pt α) :=
  match xmin, ymin, xmax, ymax with
  | .fin lo, .ninf, .fin hi, .pinf => closeRing (clipWalkX lo hi l)
  | _, _, _, _ => clipExt .y true ymax (clipExt .y false ymin (clipExt .x true xmax (clipExt .x false xmin l)))

/-- twice the signed area and the first moments of a closed ring (shoelace), one pass -/
def ringSums : List (Pt α) → α × α × α
  | [] => (PyNum.nat 0, PyNum.nat 0, PyNum.nat 0)
  | p :: rest =>
    let s := ringSums rest
    match rest with
    | [] => s
    | q :: _ =>
      let c := p.x * q.y - q.x * p.y
      (s.1 + c, s.2.1 + (p.x + q.x) * c, s.2.2 + (p.y + q.y) * c)

def measVL (l : List (Pt α)) : Meas → α
  | .width => bound 2 l - bound 0 l
  | .height => bound 3 l - bound 1 l
  | .bound k => bound k l
  | .centroidX => let s := ringSums l; s.2.1 / (PyNum.nat 3 * s.1)
  | .centroidY => let s := ringSums l; s.2.2 / (PyNum.nat 3 * s.1)

/-- the vertex-list interpretation; the contours and GEOS's validity predicate are parameters -/
def VL (contour : Src → List (Pt α)) (valid : List (Pt α) → Bool) : Sig α (List (Pt α)) where
  src := contour
  translate := fun g dx dy => g.map fun p => ⟨p.x + dx, p.y + dy⟩
  rotate := fun g a => g.map (rotPt a)
  scale := fun g fx fy => g.map fun p => ⟨p.x * fx, p.y * fy⟩
  reverse := List.reverse
  concat := fun a b => a ++ b
  polygon := closeRing
  clipRect := clipRectVL
  refine := fun g => g
  dedupe := fun g _ => g
  measure := measVL
  isValid := valid

/-- half turn about the origin -/
def ht (p : Pt α) : Pt α := ⟨-p.x, -p.y⟩

/-- mirror image at the pass line `y = 0` (`scale(g, yfact=-1, origin=(0, 0))` on one vertex) -/
def flipY (p : Pt α) : Pt α := ⟨p.x, -p.y⟩

/-- mirror image at the centre line `x = 0` of the groove (`scale(g, xfact=-1, origin=(0, 0))` on one vertex) -/
def flipX (p : Pt α) : Pt α := ⟨-p.x, p.y⟩

/-- a roll contour placed BELOW the pass line as the mirror image of the upper one, in the coordinate order of a closed
    ring (`scale(upper, yfact=-1)` followed by `coords[::-1]`): NOT what a two-roll pass is made of - both rolls are the
    same roll, the lower one is the upper one turned by 180 degrees (`List.map ht`) -/
def mirrorRev (u : List (Pt α)) : List (Pt α) := (u.map flipY).reverse

/-- the polygon formed by an upper chain and its half-turn image, clipped to `|x| ≤ w/2`
    (this is what the two-roll constructions evaluate to, see `PyrollProps/C08.lean`) -/
def clipStrip (w : α) (u : List (Pt α)) : List (Pt α) :=
  clipRectVL (closeRing (u ++ u.map ht)) (.fin (-w / PyNum.nat 2)) .ninf (.fin (w / PyNum.nat 2)) .pinf

end vl

end OutCS
