/-
  Refresh — who re-evaluates which hook cache between the iterations of `Unit.solve` (C06).

  The disk elements of a roll pass take their length from a HELPER object of the pass, the working roll
  (`roll_pass.roll.contact_length / disk_element_count`).  What they read is the roll's hook cache (`__cache__`): the
  value is computed on the first read and then kept until somebody calls `reevaluate_cache()` on the roll.  That the
  disk elements add up to the pass' length — also when the same pass object is solved again for another billet —
  rests on the `self.reevaluate_cache()` of the loop in `Unit.solve` reaching the roll.

  Mirrors, of `pyroll/core/hooks.py`, `unit/unit.py`, `roll_pass/*.py`, `roll/roll.py`:

  * `def reevaluate_cache(self)` of the classes along the MRO of an object's class: `super().reevaluate_cache()`
    continues with the NEXT class of the MRO of the object's type that defines the method   (`effects`)
  * `HookHost.reevaluate_cache`: every cached name gets the result of its hook again         (`Effect.own`)
  * `self.<attr>.reevaluate_cache()`                                                          (`Effect.refresh`)
  * the loop of `Unit.solve`: `_solve_subunits()` (the sub-units READ `<helper>.<hook>`), then `self.reevaluate_cache()`,
    then `get_root_hook_results()` (the explicit root hook values change: a new state)         (`iteration`)
  * `Unit.solve`: `init_solve` (the incoming profile is installed: a new state), then the iterations   (`solve`)
  * a hook read: the cached value if there is one, else the value of the current state, which is cached (`readHook`)

  Values are abstract: a cached value is represented by the INDEX OF THE STATE it was computed from (`Nat`, growing).
  The class hierarchy (`mros`), the method bodies (`reevalBodies`) and which helper values the translated formulas read
  (`helperReads`) are GENERATED from the source on every run (`Gen.C06`); `PyrollProps/C06.lean` proves about them
  (`refresh_certificate`) what the theorems about this model need.
-/

namespace Refresh

/-- one effect of a call of `reevaluate_cache` on an object -/
inductive Effect where
  /-- every cached hook value of the object itself is computed again from the current state -/
  | own
  /-- `self.<attr>.reevaluate_cache()` -/
  | refresh (attr : String)
  /-- `self.<attr> = None` -/
  | reset (attr : String)
  /-- a statement outside the translated subset -/
  | unknown (kind : String)
  deriving DecidableEq, Repr

def Effect.known : Effect → Bool
  | .unknown _ => false
  | _ => true

/-- the body of `reevaluate_cache` a class defines itself (`none`: inherited) -/
def bodyOf : List (String × List (String × String)) → String → Option (List (String × String))
  | [], _ => none
  | (c, b) :: r, q => if c = q then some b else bodyOf r q

/-- one normalised statement `(kind, attribute)`; `sup` = what `super().reevaluate_cache()` does here -/
def stmtEffects (sup : List Effect) (s : String × String) : List Effect :=
  if s.1 = "super" then sup
  else if s.1 = "own" then [.own]
  else if s.1 = "refresh" then [.refresh s.2]
  else if s.1 = "reset" then [.reset s.2]
  else [.unknown s.1]

/-- what `obj.reevaluate_cache()` does, in order, for an object whose class has the given MRO (python method
    resolution: the first class of the MRO that defines the method; `super()` inside it: the rest of the MRO) -/
def effects (bodies : List (String × List (String × String))) : List String → List Effect
  | [] => []
  | c :: rest =>
    let sup := effects bodies rest
    match bodyOf bodies c with
    | none => sup
    | some body => body.flatMap (stmtEffects sup)

def mroOf : List (String × List String) → String → List String
  | [], _ => []
  | (c, m) :: r, q => if c = q then m else mroOf r q

/-! ### hook caches as state indices -/

/-- a hook cache: name ↦ index of the state the cached value was computed from -/
abbrev Cache := List (String × Nat)

def lookup : Cache → String → Option Nat
  | [], _ => none
  | (k, s) :: r, n => if k = n then some s else lookup r n

/-- `HookHost.reevaluate_cache`: every cached name gets the value of the current state -/
def stampAll (now : Nat) (c : Cache) : Cache := c.map fun p => (p.1, now)

/-- `Hook.__get__` (no explicit value): the cached value, else the value of the current state, which is cached -/
def readHook (c : Cache) (now : Nat) (name : String) : Nat × Cache :=
  match lookup c name with
  | some s => (s, c)
  | none => (now, c ++ [(name, now)])

/-- a unit with one helper object (attribute `h`) between the iterations -/
structure St where
  /-- index of the current state of the unit (a new one with every `init_solve` and every evaluation of the root hooks) -/
  now : Nat
  /-- the unit's own hook cache -/
  own : Cache
  /-- the helper's hook cache -/
  helper : Cache
  /-- private memo attributes that are filled -/
  memos : List String
  /-- state index of the helper value the sub-units read, one entry per iteration, latest first -/
  reads : List Nat
  deriving Repr

/-- `h`: the attribute holding the helper; `helperOwn`: does the helper's own `reevaluate_cache` re-evaluate its cache -/
def applyEffect (h : String) (helperOwn : Bool) (st : St) : Effect → St
  | .own => { st with own := stampAll st.now st.own }
  | .refresh a => if a = h ∧ helperOwn = true then { st with helper := stampAll st.now st.helper } else st
  | .reset a => { st with memos := st.memos.filter fun m => m ≠ a }
  | .unknown _ => st

/-- one pass through the loop body of `Unit.solve` -/
def iteration (effs : List Effect) (h : String) (helperOwn : Bool) (name : String) (st : St) : St :=
  -- `self._solve_subunits()`: the sub-units read `<h>.<name>` through the unit
  let r := readHook st.helper st.now name
  let st := { st with helper := r.2, reads := r.1 :: st.reads }
  -- `self.reevaluate_cache()`
  let st := effs.foldl (applyEffect h helperOwn) st
  -- `self.get_root_hook_results()`: the explicit root hook values are replaced
  { st with now := st.now + 1 }

def iterate (effs : List Effect) (h : String) (helperOwn : Bool) (name : String) : Nat → St → St
  | 0, st => st
  | n + 1, st => iterate effs h helperOwn name n (iteration effs h helperOwn name st)

/-- `Unit.solve` with `n` iterations on a unit in state `st` (whatever its history) -/
def solve (effs : List Effect) (h : String) (helperOwn : Bool) (name : String) (n : Nat) (st : St) : St :=
  iterate effs h helperOwn name n { st with now := st.now + 1, reads := [] }

/-- consecutive solves of the same unit object (`ns`: iterations of each); the reads of every solve, first solve first,
    within a solve first iteration first -/
def solves (effs : List Effect) (h : String) (helperOwn : Bool) (name : String) : List Nat → St → List (List Nat)
  | [], _ => []
  | n :: ns, st =>
    let st' := solve effs h helperOwn name n st
    st'.reads.reverse :: solves effs h helperOwn name ns st'

def fresh : St := { now := 0, own := [], helper := [], memos := [], reads := [] }

end Refresh
