/-
  Tree — model of the unit tree of pyroll.core (C13).

  Mirrors `Unit._SubUnitsList` (pyroll/core/unit/unit.py), `Unit.parent/prev/next`, and the list API of
  `PassSequence` (pyroll/core/sequence/sequence.py): every mutator is a composition of the three
  primitives `setParents`, `setChildren` and allocation, in the ORDER in which the python code performs
  its side effects (this matters when a unit is inserted that is already listed somewhere).

  Units are natural numbers (allocation index).  Import-free; executable; tied to the code by
  driver/props/c13.py.
-/

namespace Tree

structure TState where
  n : Nat
  parent : Nat → Option Nat
  children : Nat → List Nat
  kind : Nat → Nat          -- 0 plain unit, 1 roll pass, 2 transport, 3 pass sequence
  label : Nat → Nat

def init : TState :=
  { n := 0, parent := fun _ => none, children := fun _ => [], kind := fun _ => 0, label := fun _ => 0 }

inductive Out where
  | ok
  | indexError
  | valueError
  | unit (u : Nat)
  deriving Repr, DecidableEq

/-! ### primitives -/

def setParents (st : TState) (us : List Nat) (p : Option Nat) : TState :=
  { st with parent := fun u => if u ∈ us then p else st.parent u }

def setChildren (st : TState) (s : Nat) (l : List Nat) : TState :=
  { st with children := fun x => if x = s then l else st.children x }

def alloc (st : TState) (kind label : Nat) : TState × Nat :=
  ({ st with n := st.n + 1,
             kind := fun u => if u = st.n then kind else st.kind u,
             label := fun u => if u = st.n then label else st.label u }, st.n)

/-! ### python index arithmetic -/

/-- `list[i]` index normalisation: `none` = IndexError -/
def normIdx (len : Nat) (i : Int) : Option Nat :=
  if 0 ≤ i then (if i < len then some i.toNat else none)
  else (if -(len : Int) ≤ i then some (len + i).toNat else none)

/-- `list.insert(i, x)` / slice bound clamping -/
def clampIdx (len : Nat) (i : Int) : Nat :=
  if 0 ≤ i then min i.toNat len else (len + i).toNat

/-- `list[i:j]` bounds with step 1 (None = open end); returns `(lo, hi)` with `lo ≤ hi ≤ len` -/
def sliceBounds (len : Nat) (i j : Option Int) : Nat × Nat :=
  let lo := match i with | none => 0 | some i => clampIdx len i
  let hi := match j with | none => len | some j => clampIdx len j
  (lo, max lo hi)

/-- `slice(i, j, k).indices(len)` for `k ≠ 0` (CPython `PySlice_AdjustIndices`): `(start, stop)`;
    for a negative step the open ends are `len - 1` and `-1` -/
def extBounds (len : Nat) (i j : Option Int) (k : Int) : Int × Int :=
  let n : Int := len
  if 0 < k then
    (match i with | none => 0 | some i => if i < 0 then max (i + n) 0 else min i n,
     match j with | none => n | some j => if j < 0 then max (j + n) 0 else min j n)
  else
    (match i with | none => n - 1 | some i => if i < 0 then max (i + n) (-1) else min i (n - 1),
     match j with | none => -1 | some j => if j < 0 then max (j + n) (-1) else min j (n - 1))

/-- the positions `cur, cur + k, …` strictly before `stop` (in the direction of `k`), at most `fuel` of them -/
def extPos : Nat → Int → Int → Int → List Nat
  | 0, _, _, _ => []
  | fuel + 1, cur, stop, k =>
    if (0 < k ∧ cur < stop) ∨ (k < 0 ∧ stop < cur) then cur.toNat :: extPos fuel (cur + k) stop k else []

/-- positions addressed by `l[i:j:k]` on a list of length `len` -/
def slicePositions (len : Nat) (i j : Option Int) (k : Int) : List Nat :=
  extPos len (extBounds len i j k).1 (extBounds len i j k).2 k

/-- the items of `l` at the positions `pos` (in that order) -/
def itemsAt (l pos : List Nat) : List Nat := pos.filterMap (fun p => l[p]?)

/-- `l` with the item at position `pos[t]` replaced by `us[t]` -/
def replaceAt (pos us l : List Nat) : List Nat :=
  l.mapIdx (fun p x => if p ∈ pos then us.getD (pos.idxOf p) x else x)

/-- `l` without the items at the positions `pos` -/
def dropAt (pos l : List Nat) : List Nat :=
  (l.zipIdx.filter (fun a => decide (a.2 ∉ pos))).map Prod.fst

/-! ### list mutators of `_SubUnitsList` (owner `s`) -/

def append (st : TState) (s u : Nat) : TState :=
  setChildren (setParents st [u] (some s)) s (st.children s ++ [u])

def insert (st : TState) (s : Nat) (i : Int) (u : Nat) : TState :=
  let l := st.children s
  let k := clampIdx l.length i
  setChildren (setParents st [u] (some s)) s (l.take k ++ [u] ++ l.drop k)

def extend (st : TState) (s : Nat) (us : List Nat) : TState :=
  setChildren (setParents st us (some s)) s (st.children s ++ us)

/-- `l[i] = u` : store, orphan the replaced item, adopt the new one (the store does not touch parents, so the
    model orphans first) -/
def setItem (st : TState) (s : Nat) (i : Int) (u : Nat) : TState × Out :=
  let l := st.children s
  match normIdx l.length i with
  | none => (st, .indexError)
  | some k =>
    let cur := (l.drop k).take 1
    let st1 := setParents st cur none
    let st2 := setChildren st1 s (l.take k ++ [u] ++ l.drop (k + 1))
    (setParents st2 [u] (some s), .ok)

def setSlice (st : TState) (s : Nat) (i j : Option Int) (us : List Nat) : TState :=
  let l := st.children s
  let (lo, hi) := sliceBounds l.length i j
  let cur := (l.drop lo).take (hi - lo)
  let st1 := setParents st cur none
  let st2 := setChildren st1 s (l.take lo ++ us ++ l.drop hi)
  setParents st2 us (some s)

def delItem (st : TState) (s : Nat) (i : Int) : TState × Out :=
  let l := st.children s
  match normIdx l.length i with
  | none => (st, .indexError)
  | some k =>
    let cur := (l.drop k).take 1
    let st1 := setParents st cur none
    (setChildren st1 s (l.take k ++ l.drop (k + 1)), .ok)

def delSlice (st : TState) (s : Nat) (i j : Option Int) : TState :=
  let l := st.children s
  let (lo, hi) := sliceBounds l.length i j
  let cur := (l.drop lo).take (hi - lo)
  let st1 := setParents st cur none
  setChildren st1 s (l.take lo ++ l.drop hi)

/-- `l[i:j:k] = us` with an explicit step.  `k = 0`: `self[i]` raises ValueError before anything happens;
    `k = 1` is the plain slice assignment; otherwise (extended slice) `list.__setitem__` raises ValueError when the
    sizes differ - the code stores first and touches parents only afterwards, so a failed assignment is a no-op. -/
def setSliceExt (st : TState) (s : Nat) (i j : Option Int) (k : Int) (us : List Nat) : TState × Out :=
  if k = 0 then (st, .valueError)
  else if k = 1 then (setSlice st s i j us, .ok)
  else
    let l := st.children s
    let pos := slicePositions l.length i j k
    if us.length = pos.length then
      let st1 := setParents st (itemsAt l pos) none
      let st2 := setChildren st1 s (replaceAt pos us l)
      (setParents st2 us (some s), .ok)
    else (st, .valueError)

/-- `del l[i:j:k]` with an explicit step -/
def delSliceExt (st : TState) (s : Nat) (i j : Option Int) (k : Int) : TState × Out :=
  if k = 0 then (st, .valueError)
  else if k = 1 then (delSlice st s i j, .ok)
  else
    let l := st.children s
    let pos := slicePositions l.length i j k
    let st1 := setParents st (itemsAt l pos) none
    (setChildren st1 s (dropAt pos l), .ok)

/-- `l.pop(i)` (default `-1`): remove, then orphan the removed unit -/
def pop (st : TState) (s : Nat) (i : Int) : TState × Out :=
  let l := st.children s
  match normIdx l.length i with
  | none => (st, .indexError)
  | some k =>
    let cur := (l.drop k).take 1
    let st1 := setChildren st s (l.take k ++ l.drop (k + 1))
    (setParents st1 cur none, match cur with | [u] => .unit u | _ => .indexError)

/-- `l.remove(u)`: first occurrence; ValueError when absent -/
def remove (st : TState) (s u : Nat) : TState × Out :=
  let l := st.children s
  if u ∈ l then (setParents (setChildren st s (l.erase u)) [u] none, .ok)
  else (st, .valueError)

def clear (st : TState) (s : Nat) : TState :=
  setChildren (setParents st (st.children s) none) s []

/-- `l.copy()` builds a new `_SubUnitsList(owner, l)`, which (re-)adopts every element -/
def listCopy (st : TState) (s : Nat) : TState :=
  setParents st (st.children s) (some s)

/-- `PassSequence.flatten` (one level): dissolved inner sequences are emptied and orphaned -/
def flattenAux (st : TState) : List Nat → List Nat → TState × List Nat
  | [], acc => (st, acc)
  | item :: rest, acc =>
    if st.kind item = 3 then
      let sub := st.children item
      let st1 := clear st item
      let st2 := setParents st1 [item] none
      flattenAux st2 rest (acc ++ sub)
    else flattenAux st rest (acc ++ [item])

def flatten (st : TState) (s : Nat) : TState :=
  let (st1, new) := flattenAux st (st.children s) []
  setParents (setChildren st1 s new) new (some s)

/-- `PassSequence(units, label)` -/
def construct (st : TState) (us : List Nat) (label : Nat) : TState × Nat :=
  let (st1, s) := alloc st 3 label
  (setParents (setChildren st1 s us) us (some s), s)

/-- `copy.deepcopy(u)`: fresh copies of the whole subtree; the copy of the root names no parent
    (the weakly referenced copy of the original's parent dies with the memo). -/
def deepCopy : Nat → TState → Nat → TState × Nat
  | 0, st, u => alloc st (st.kind u) (st.label u)
  | fuel + 1, st, u =>
    let (st1, u') := alloc st (st.kind u) (st.label u)
    let (st2, cs) := (st.children u).foldl
      (fun (acc : TState × List Nat) c =>
        let (a, c') := deepCopy fuel acc.1 c
        (a, acc.2 ++ [c'])) (st1, [])
    (setParents (setChildren st2 u' cs) cs (some u'), u')

/-! ### navigation and lookups -/

inductive Nav where
  | unit (u : Nat)
  | valueError     -- no parent / not in the parent's list
  | indexError     -- first / last
  | loop           -- `prev_of` / `next_of` did not terminate within the fuel (impossible when the invariant holds)
  deriving Repr, DecidableEq

def prev (st : TState) (u : Nat) : Nav :=
  match st.parent u with
  | none => .valueError
  | some p =>
    let l := st.children p
    if u ∈ l then
      let i := l.idxOf u
      if i = 0 then .indexError else
        match l[i - 1]? with
        | some v => .unit v
        | none => .indexError
    else .valueError

def next (st : TState) (u : Nat) : Nav :=
  match st.parent u with
  | none => .valueError
  | some p =>
    let l := st.children p
    if u ∈ l then
      let i := l.idxOf u
      match l[i + 1]? with
      | some v => .unit v
      | none => .indexError
    else .valueError

/-- type queries of `prev_of(t)` / `next_of(t)`: `0` = `Unit` (every unit), otherwise the kind
    (`1` roll pass, `2` transport, `3` pass sequence) -/
def isKind (st : TState) (q v : Nat) : Bool := q == 0 || st.kind v == q

/-- `u.prev_of(t)`: `prev = self.prev; while True: if isinstance(prev, t): return prev; prev = prev.prev`
    (the exceptions of `prev` propagate) -/
def prevOfAux : Nat → TState → Nat → Nat → Nav
  | 0, _, _, _ => .loop
  | fuel + 1, st, u, q =>
    match prev st u with
    | .unit v => if isKind st q v then .unit v else prevOfAux fuel st v q
    | e => e

def nextOfAux : Nat → TState → Nat → Nat → Nav
  | 0, _, _, _ => .loop
  | fuel + 1, st, u, q =>
    match next st u with
    | .unit v => if isKind st q v then .unit v else nextOfAux fuel st v q
    | e => e

def prevOf (st : TState) (u q : Nat) : Nav := prevOfAux (st.n + 1) st u q
def nextOf (st : TState) (u q : Nat) : Nav := nextOfAux (st.n + 1) st u q

def byLabel (st : TState) (s lab : Nat) : Option Nat :=
  (st.children s).find? (fun u => st.label u = lab)

def byIndex (st : TState) (s : Nat) (i : Int) : Option Nat :=
  match normIdx (st.children s).length i with
  | none => none
  | some k => (st.children s)[k]?

def bySlice (st : TState) (s : Nat) (i j : Option Int) : List Nat :=
  let l := st.children s
  let (lo, hi) := sliceBounds l.length i j
  (l.drop lo).take (hi - lo)

def ofKind (st : TState) (s k : Nat) : List Nat :=
  (st.children s).filter (fun u => st.kind u = k)

/-! ### operations as data -/

inductive Op where
  | newUnit (kind label : Nat)
  | construct (us : List Nat) (label : Nat)
  | append (s u : Nat)
  | prepend (s u : Nat)
  | insert (s : Nat) (i : Int) (u : Nat)
  | extend (s : Nat) (us : List Nat)
  | iadd (s : Nat) (us : List Nat)
  | setItem (s : Nat) (i : Int) (u : Nat)
  | setSlice (s : Nat) (i j : Option Int) (us : List Nat)
  | delItem (s : Nat) (i : Int)
  | delSlice (s : Nat) (i j : Option Int)
  | setSliceExt (s : Nat) (i j : Option Int) (k : Int) (us : List Nat)
  | delSliceExt (s : Nat) (i j : Option Int) (k : Int)
  | pop (s : Nat) (i : Int)
  | remove (s u : Nat)
  | clear (s : Nat)
  | drop (s : Nat) (i : Int)
  | flatten (s : Nat)
  | listCopy (s : Nat)
  | deepCopy (u : Nat)
  deriving Repr

def step (st : TState) : Op → TState × Out
  | .newUnit k l => let (st', u) := alloc st k l; (st', .unit u)
  | .construct us l => let (st', s) := construct st us l; (st', .unit s)
  | .append s u => (append st s u, .ok)
  | .prepend s u => (insert st s 0 u, .ok)
  | .insert s i u => (insert st s i u, .ok)
  | .extend s us => (extend st s us, .ok)
  | .iadd s us => (extend st s us, .ok)
  | .setItem s i u => setItem st s i u
  | .setSlice s i j us => (setSlice st s i j us, .ok)
  | .delItem s i => delItem st s i
  | .delSlice s i j => (delSlice st s i j, .ok)
  | .setSliceExt s i j k us => setSliceExt st s i j k us
  | .delSliceExt s i j k => delSliceExt st s i j k
  | .pop s i => pop st s i
  | .remove s u => remove st s u
  | .clear s => (clear st s, .ok)
  | .drop s i => delItem st s i
  | .flatten s => (flatten st s, .ok)
  | .listCopy s => (listCopy st s, .ok)
  | .deepCopy u => let (st', u') := deepCopy (st.n + 1) st u; (st', .unit u')

def run (st : TState) (ops : List Op) : TState :=
  ops.foldl (fun s o => (step s o).1) st

/-- units an operation inserts into a list (those that have to be fresh for the invariant) -/
def Op.inserted : Op → List Nat
  | .construct us _ => us
  | .append _ u | .prepend _ u | .insert _ _ u | .setItem _ _ u => [u]
  | .extend _ us | .iadd _ us | .setSlice _ _ _ us | .setSliceExt _ _ _ _ us => us
  | _ => []

/-- the units an item / slice assignment takes out of the edited list before it stores the new ones
    (re-inserting one of these is legitimate: afterwards it is listed once) -/
def Op.replaced (st : TState) : Op → List Nat
  | .setItem s i _ =>
    match normIdx (st.children s).length i with
    | none => []
    | some k => ((st.children s).drop k).take 1
  | .setSlice s i j _ => bySlice st s i j
  | .setSliceExt s i j k _ =>
    if k = 1 then bySlice st s i j
    else itemsAt (st.children s) (slicePositions (st.children s).length i j k)
  | _ => []

/-! ### how an iterable argument is handed over

`extend`, `+=`, slice assignment and the constructor take an ITERABLE.  The python code iterates it exactly once
before it touches anything (`units = list(units)` in `extend`, `value = list(value)` in `__setitem__`,
`list.__init__(units)` in `_SubUnitsList.__init__`) and works on the resulting list from then on; `stepSrc` mirrors
that.  `extendLazy` is the same method WITHOUT the materialising line (parent loop over the argument, then
`list.extend` over the argument): equal for re-iterable arguments, wrong for one-shot ones. -/

/-- An iterable argument.  `items`: what its first complete iteration yields.  A re-iterable argument (list, tuple, any
    `Sequence`, any object whose `__iter__` starts afresh) yields the same again; a one-shot one (generator, `iter(…)`,
    `map`, `reversed`, `itertools.chain`) yields nothing once it has been iterated. -/
structure Src where
  items : List Nat
  oneShot : Bool
  spent : Bool
  deriving Repr, DecidableEq

def Src.fresh (items : List Nat) (oneShot : Bool) : Src := { items := items, oneShot := oneShot, spent := false }

/-- one complete iteration (`list(arg)`, `for u in arg: …`, `list.extend(arg)`) -/
def Src.iterate (a : Src) : List Nat × Src :=
  (if a.oneShot && a.spent then [] else a.items, { a with spent := true })

/-- the iterable argument of an operation -/
def Op.arg? : Op → Option (List Nat)
  | .construct us _ | .extend _ us | .iadd _ us | .setSlice _ _ _ us | .setSliceExt _ _ _ _ us => some us
  | _ => none

/-- the operation with another list of units as its argument -/
def Op.withArg : Op → List Nat → Op
  | .construct _ l, us => .construct us l
  | .extend s _, us => .extend s us
  | .iadd s _, us => .iadd s us
  | .setSlice s i j _, us => .setSlice s i j us
  | .setSliceExt s i j k _, us => .setSliceExt s i j k us
  | op, _ => op

/-- an operation whose argument arrives as an iterable: ONE iteration, then the operation on the resulting list -/
def stepSrc (st : TState) (op : Op) (a : Src) : (TState × Out) × Src :=
  (step st (op.withArg a.iterate.1), a.iterate.2)

/-- `extend` without `units = list(units)`: `for u in units: u.parent = owner` iterates the argument, then
    `list.extend(units)` iterates it again -/
def extendLazy (st : TState) (s : Nat) (a : Src) : TState × Src :=
  let us1 := a.iterate.1
  let us2 := a.iterate.2.iterate.1
  (setChildren (setParents st us1 (some s)) s (st.children s ++ us2), a.iterate.2.iterate.2)

end Tree
