import PyrollModel.Expr
/-!
# GrooveWF — the model behind C03 (every groove handed out is a well-formed contour)

`construct S simple cfg p` mirrors `GenericElongationGroove.__init__` step by step.  Everything that is *formula or
table* in the source is NOT written here: it is the `Spec` that `driver/translate/c03_validate.py` regenerates from the
source on every run (`PyrollModel/Gen/C03.lean`):

* `nonneg`      the names in `mandatory_positive_or_zero` (checked `value is None or value >= 0`),
* `upper`       checks of the form `if v is not None and not v < bound: raise`,
* `resolution`  the if/elif cascade of the fourth-of-four resolution, in source order, with its `np.isclose` shortcuts,
* `padDefault`  `pad = pad if pad else usable_width * rel_pad`,
* `chain`, `fns` the junction chain `z0 … y12` and the contour-line functions (`Gen/C03Groove.lean`, via `groove.py`),
* `pieces`      `_enumerate_contour_points`: which arc is sampled between which junctions, under which guard,
* `mirror`      `left = right[:-1]`, z negated; `concatenate([left, right[::-1]])`,
* `checks`      every post-construction validation (`test_*` methods called by `__init__`), in call order.

What IS written here is the interpreter of those tables: python's evaluation order, `None` handling, `np.isclose`,
`np.linspace(..., endpoint=False)`, the exceptions as a small `Err` enum.  GEOS' `is_simple` is a parameter
(`simple : List (Pt α) → Bool`).  Generic in the `PyNum` carrier: `Float` runs against the real constructor
(`GrooveWFDriver`), ℝ is what `PyrollProps/C03.lean` is about.
-/

namespace GrooveWF

structure Pt (α : Type) where
  z : α
  y : α
  deriving Repr, Inhabited

inductive Err where
  | missing       -- a required positional parameter is absent (python: TypeError when binding the call)
  | negative      -- "Groove arguments have to be non-negative." (ValueError)
  | bound         -- an upper-bound check on an argument (ValueError)
  | arity         -- "Exactly three of usable_width, ground_width, flank_angle and depth must be given." (TypeError)
  | check (i : Nat)   -- the `i`-th post-construction validation raised
  | empty         -- `np.max` of an empty selection (ValueError)
  deriving Repr, DecidableEq, Inhabited

/-- one step of the fourth-of-four resolution: `if <target> is None: if isclose(a, b): target = degenerate else: target = value` -/
structure Resolve where
  target : String
  closeTo : Option (Expr × Expr)
  degenerate : Option Expr
  value : Expr
  deriving Repr, DecidableEq, Inhabited

/-- one statement of `_enumerate_contour_points` (names refer to entries of the junction chain / the contour functions) -/
inductive Piece where
  | pt (z y : String)                                  -- `yield self.z, self.y`
  | ptUnlessClose (a b : String) (z y : String)        -- `if not np.isclose(self.a, self.b): yield self.z, self.y`
  | arcUnlessClose (a b : String) (fn : String)        -- `if not np.isclose(a, b): for z in np.linspace(a, b, N, endpoint=False): yield z, fn(z)`
  deriving Repr, DecidableEq, Inhabited

/-- `left_side = right_side[:-dropLast]`, column `negCol` negated, `concatenate([left_side, right_side[::-1]])` -/
structure Mirror where
  dropLast : Nat
  negZ : Bool
  leftFirst : Bool
  deriving Repr, DecidableEq, Inhabited

/-- one post-construction validation; the payload `err` is the python exception class -/
inductive Check where
  | scalarGt (lhs rhs : Expr) (err : String)           -- `if lhs > rhs: raise`
  | simple (err : String)                              -- `if not self.contour_line.is_simple: raise`
  | finite (err : String)                              -- `if not np.all(np.isfinite(half)): raise`
  | zStrict (err : String)                             -- `if not np.all(np.diff(half[:, 0]) > 0): raise`
  | yBelow (bound : Expr) (err : String)               -- `if np.any(half[:, 1] < bound): raise`
  | deepest (zmax hi lo : Expr) (err : String)         -- `d = np.max(y[z <= zmax]); if d > hi or d < lo: raise`
  deriving Repr, DecidableEq, Inhabited

structure Spec where
  required : List String
  defaults : List (String × Expr)
  nonneg : List String
  upper : List (String × Expr)
  resolution : List Resolve
  padDefault : Expr
  chain : List (String × Expr)
  fns : List (String × Expr)
  pieces : List Piece
  mirror : Mirror
  checks : List Check
  deriving Repr, Inhabited

section model
variable {α : Type} [PyNum α]

def zero : α := PyNum.nat 0

/-- python `a >= 0` (False for NaN) -/
def geZero (a : α) : Bool := PyNum.le (zero : α) a

/-- `np.isfinite` on one number: `x - x` is `0` exactly for finite `x`, NaN otherwise -/
def finite (a : α) : Bool := PyNum.le (a - a) (zero : α) && PyNum.le (zero : α) (a - a)

/-- `np.isclose(a, b)` with numpy's defaults: `|a - b| <= 1e-8 + 1e-5 |b|` -/
def isclose (a b : α) : Bool :=
  PyNum.le (PyNum.abs (a - b)) (PyNum.dec 1 8 + PyNum.dec 1 5 * PyNum.abs b)

def maxN (a b : α) : α := if PyNum.lt a b then b else a

/-- argument environment: given values first, `dflt` for anything absent (NaN on Float, so that a formula reading
    something that was not supplied is visible) -/
def envOfL (dflt : α) (l : List (String × α)) : String → α :=
  fun n => match l.lookup n with
    | some v => v
    | none => dflt

def lookupE (tbl : List (String × Expr)) (n : String) : Expr := (tbl.lookup n).getD (.var ("<absent:" ++ n ++ ">"))

/-- value of the chain entry / input named `n` -/
def jv (S : Spec) (σ : String → α) (n : String) : α := (lookupE S.chain n).eval σ

/-- `fn(z)`: the contour-line function `fn` at the abscissa `z` -/
def fv (S : Spec) (σ : String → α) (fn : String) (z : α) : α :=
  (lookupE S.fns fn).eval (fun n => if n = "z" then z else σ n)

/-- `np.linspace(a, b, N, endpoint=False)`: `a + i * ((b - a) / N)`, `i = 0 … N-1` -/
def linspace (a b : α) (N : Nat) : List α :=
  (List.range N).map fun i => a + PyNum.nat i * ((b - a) / PyNum.nat N)

def piecePts (S : Spec) (σ : String → α) (N : Nat) : Piece → List (Pt α)
  | .pt z y => [⟨jv S σ z, jv S σ y⟩]
  | .ptUnlessClose a b z y => if isclose (jv S σ a) (jv S σ b) then [] else [⟨jv S σ z, jv S σ y⟩]
  | .arcUnlessClose a b fn =>
    if isclose (jv S σ a) (jv S σ b) then []
    else (linspace (jv S σ a) (jv S σ b) N).map fun z => ⟨z, fv S σ fn z⟩

/-- `list(self._enumerate_contour_points())` -/
def rightSide (S : Spec) (σ : String → α) (N : Nat) : List (Pt α) := S.pieces.flatMap (piecePts S σ N)

def negZ (p : Pt α) : Pt α := ⟨-p.z, p.y⟩

/-- `np.concatenate([left_side, right_side[::-1]])` with `left_side = mirror(right_side[:-k])` -/
def contour (m : Mirror) (right : List (Pt α)) : List (Pt α) :=
  let left := (right.take (right.length - m.dropLast)).map (fun p => if m.negZ then negZ p else p)
  if m.leftFirst then left ++ right.reverse else right.reverse ++ left

/-- `contour_points[len(contour_points) // 2:]` -/
def half (pts : List (Pt α)) : List (Pt α) := pts.drop (pts.length / 2)

/-- `np.all(np.diff(z) > 0)` -/
def strictInc : List α → Bool
  | a :: b :: r => PyNum.lt a b && strictInc (b :: r)
  | _ => true

def maxL : List α → Option α
  | [] => none
  | a :: r => some (r.foldl maxN a)

/-- outcome of one validation: `none` = passed -/
def runCheck (simple : List (Pt α) → Bool) (σ : String → α) (pts : List (Pt α)) (i : Nat) : Check → Option Err
  | .scalarGt l r _ => if PyNum.lt (r.eval σ) (l.eval σ) then some (.check i) else none
  | .simple _ => if simple pts then none else some (.check i)
  | .finite _ => if (half pts).all (fun p => finite p.z && finite p.y) then none else some (.check i)
  | .zStrict _ => if strictInc ((half pts).map (·.z)) then none else some (.check i)
  | .yBelow b _ => if (half pts).any (fun p => PyNum.lt p.y (b.eval σ)) then some (.check i) else none
  | .deepest zm hi lo _ =>
    match maxL (((half pts).filter (fun p => PyNum.le p.z (zm.eval σ))).map (·.y)) with
    | none => some .empty
    | some d => if PyNum.lt (hi.eval σ) d || PyNum.lt d (lo.eval σ) then some (.check i) else none

/-- the validations in call order; the first one that raises wins -/
def runChecks (simple : List (Pt α) → Bool) (σ : String → α) (pts : List (Pt α)) : Nat → List Check → Option Err
  | _, [] => none
  | i, c :: r =>
    match runCheck simple σ pts i c with
    | some e => some e
    | none => runChecks simple σ pts (i + 1) r

/-- the call arguments: `None`/absent = not in the list -/
structure Params (α : Type) where
  given : List (String × α)
  deriving Repr, Inhabited

def Params.get (p : Params α) (k : String) : Option α := p.given.lookup k

structure Groove (α : Type) where
  pts : List (Pt α)
  env : List (String × α)      -- the resolved arguments (`usable_width`, `ground_width`, `flank_angle`, `depth`, `pad`, …)
  deriving Repr, Inhabited

def Groove.val (g : Groove α) (dflt : α) (k : String) : α := envOfL dflt g.env k

/-- fourth-of-four resolution: the first target (in source order) that is `None` is computed from the other three;
    a second `None` surfaces as a `TypeError` (arithmetic on `None`), none at all as "Too many arguments given" -/
def resolve (S : Spec) (dflt : α) (given : List (String × α)) : Except Err (List (String × α)) :=
  let targets := S.resolution.map (·.target)
  let missing := targets.filter (fun t => (given.lookup t).isNone)
  match missing with
  | [t] =>
    match S.resolution.find? (fun r => r.target = t) with
    | none => .error .arity
    | some r =>
      let σ := envOfL dflt given
      let v := match r.closeTo, r.degenerate with
        | some (a, b), some d => if isclose (a.eval σ) (b.eval σ) then d.eval σ else r.value.eval σ
        | _, _ => r.value.eval σ
      .ok ((t, v) :: given)
  | _ => .error .arity

/-- the arguments after python has bound the call: given values, then the defaults of the optional numeric parameters
    (they may read `Config`) -/
def withDefaults (S : Spec) (cfg : List (String × α)) (dflt : α) (p : Params α) : List (String × α) :=
  p.given ++ (S.defaults.filter (fun d => (p.get d.1).isNone)).map (fun d => (d.1, d.2.eval (envOfL dflt cfg)))

/-- `not (value is None or value >= 0)` for the argument named `k` -/
def negViolated (wd : List (String × α)) (k : String) : Bool :=
  match wd.lookup k with
  | some v => !geZero v
  | none => false

/-- `v is not None and not v < bound` -/
def upperViolated (σ : String → α) (wd : List (String × α)) (u : String × Expr) : Bool :=
  match wd.lookup u.1 with
  | some v => !PyNum.lt v (u.2.eval σ)
  | none => false

/-- `pad = pad if pad else usable_width * rel_pad` (truthiness: `pad != 0`, NaN is truthy) -/
def padOf (S : Spec) (σ0 : String → α) : α :=
  let padv := σ0 "pad"
  if PyNum.le padv (zero : α) && PyNum.le (zero : α) padv then S.padDefault.eval σ0 else padv

/-- the first half of `GenericElongationGroove.__init__`: binding of the call, argument checks, fourth-of-four resolution,
    padding -> the resolved argument list the junction chain is evaluated in -/
def prepare (S : Spec) (cfg : List (String × α)) (dflt : α) (p : Params α) : Except Err (List (String × α)) :=
  -- python binds the call: required parameters must be present
  if S.required.any (fun k => (p.get k).isNone) then .error .missing else
  -- `all(value is None or value >= 0 for value in mandatory_positive_or_zero)`
  if S.nonneg.any (negViolated (withDefaults S cfg dflt p)) then .error .negative else
  -- `if v is not None and not v < bound: raise`
  if S.upper.any (upperViolated (envOfL dflt (withDefaults S cfg dflt p ++ cfg)) (withDefaults S cfg dflt p))
    then .error .bound else
  match resolve S dflt (withDefaults S cfg dflt p) with
  | .error e => .error e
  | .ok resolved => .ok (("pad", padOf S (envOfL dflt (resolved ++ cfg))) :: resolved)

/-- `GenericElongationGroove.__init__`.  `cfg` holds the `Config.*` constants the source reads, `N` is
    `Config.GROOVE_RADIUS_POINT_COUNT`, `dflt` the value of an unbound name (NaN on Float). -/
def construct (S : Spec) (simple : List (Pt α) → Bool) (cfg : List (String × α)) (N : Nat) (dflt : α)
    (p : Params α) : Except Err (Groove α) :=
  match prepare S cfg dflt p with
  | .error e => .error e
  | .ok env =>
    let pts := contour S.mirror (rightSide S (envOfL dflt (env ++ cfg)) N)
    match runChecks simple (envOfL dflt (env ++ cfg)) pts 0 S.checks with
    | some e => .error e
    | none => .ok ⟨pts, env⟩

end model

/-! ## the by-name factory: `create_groove_by_type_name` (ASCII fragment)

`type_name.title()`, then `re.sub(r"[<separators>]+(\w)", lambda m: m.group(1).capitalize(), …)`, then the suffix rule.
Characters outside ASCII are outside the model (python's `\w`, `\s` and `title()` are Unicode aware). -/

structure FactorySpec where
  /-- members of the character class in front of `+(\w)`: literal characters; `'s'` marks `\s` -/
  sepChars : List Char
  sepWhitespace : Bool
  title : Bool
  suffix : String
  /-- the repaired factory looks the name up as it is (exact class name) before normalising it -/
  tryExactFirst : Bool
  deriving Repr, DecidableEq, Inhabited

def isLower (c : Char) : Bool := 'a' ≤ c && c ≤ 'z'
def isUpper (c : Char) : Bool := 'A' ≤ c && c ≤ 'Z'
def isCased (c : Char) : Bool := isLower c || isUpper c
def toUpperA (c : Char) : Char := if isLower c then Char.ofNat (c.toNat - 32) else c
def toLowerA (c : Char) : Char := if isUpper c then Char.ofNat (c.toNat + 32) else c
/-- `\w` (ASCII): letters, digits, underscore -/
def isWord (c : Char) : Bool := isCased c || ('0' ≤ c && c ≤ '9') || c = '_'
/-- `\s` (ASCII): space, \t \n \v \f \r and the separators FS GS RS US (python's `str.isspace` for ASCII) -/
def isSpaceA (c : Char) : Bool := c = ' ' || (9 ≤ c.toNat && c.toNat ≤ 13) || (28 ≤ c.toNat && c.toNat ≤ 31)

/-- `str.title()`: a cased character is upper-cased after an uncased one and lower-cased after a cased one -/
def titleAux : Bool → List Char → List Char
  | _, [] => []
  | prevCased, c :: r =>
    if isCased c then (if prevCased then toLowerA c else toUpperA c) :: titleAux true r
    else c :: titleAux false r

def isSep (F : FactorySpec) (c : Char) : Bool := F.sepChars.contains c || (F.sepWhitespace && isSpaceA c)

/-- length of the separator run at the head -/
def sepRun (F : FactorySpec) : List Char → Nat
  | [] => 0
  | c :: r => if isSep F c then sepRun F r + 1 else 0

/-- index of the last `_` among the positions `1 … n-1` of the run (a `_` the regex can backtrack to as its `\w`) -/
def lastUnderscore : List Char → Nat → Nat → Option Nat → Option Nat
  | [], _, _, acc => acc
  | c :: r, i, n, acc =>
    if i ≥ n then acc else lastUnderscore r (i + 1) n (if c = '_' ∧ i ≥ 1 then some i else acc)

/-- `re.sub(r"[seps]+(\w)", lambda m: m.group(1).capitalize(), s)`, leftmost, non-overlapping, with the regex engine's
    backtracking (`_` is both a separator and a word character).  One structural recursion on `fuel`. -/
def subAux (F : FactorySpec) : Nat → List Char → List Char
  | 0, s => s
  | _, [] => []
  | fuel + 1, c :: r =>
    let s := c :: r
    let n := sepRun F s
    if n = 0 then c :: subAux F fuel r
    else
      match s.drop n with
      | w :: rest =>
        if isWord w then toUpperA w :: subAux F fuel rest
        else
          match lastUnderscore s 0 n none with
          | some k => '_' :: subAux F fuel (s.drop (k + 1))
          | none => s.take n ++ subAux F fuel (s.drop n)
      | [] =>
        match lastUnderscore s 0 n none with
        | some k => '_' :: subAux F fuel (s.drop (k + 1))
        | none => s

def endsWith (s suf : List Char) : Bool := suf.length ≤ s.length && s.drop (s.length - suf.length) == suf

/-- the class name the factory looks up for `name` (after normalisation) -/
def normalise (F : FactorySpec) (name : String) : String :=
  let cs := name.toList
  let t := if F.title then titleAux false cs else cs
  let u := subAux F (t.length + 1) t
  let suf := F.suffix.toList
  String.ofList (if endsWith u suf then u else u ++ suf)

/-- the names tried in order -/
def lookupNames (F : FactorySpec) (name : String) : List String :=
  if F.tryExactFirst then [name, normalise F name] else [normalise F name]

/-- which known class the factory resolves `name` to -/
def resolveClass (F : FactorySpec) (classes : List String) (name : String) : Option String :=
  (lookupNames F name).find? (fun n => classes.contains n)

/-! ### the documented spellings of a class name: "words separated by spaces, dashes or underscores where the word
capitalization is ignored" -/

def isDigit (c : Char) : Bool := '0' ≤ c && c ≤ '9'

/-- CamelCase → words; a digit group is a word of its own (`Oval3RadiiGroove` → oval, 3, radii, groove) -/
def camelWords : List Char → List Char → List (List Char)
  | [], cur => if cur.isEmpty then [] else [cur.reverse]
  | c :: r, cur =>
    let brk := isUpper c || (isDigit c && !(cur.head?.map isDigit).getD false)
      || ((cur.head?.map isDigit).getD false && !isDigit c)
    if brk && !cur.isEmpty then cur.reverse :: camelWords r [c] else camelWords r (c :: cur)

def joinWith (sep : List Char) : List (List Char) → List Char
  | [] => []
  | [w] => w
  | w :: r => w ++ sep ++ joinWith sep r

/-- for a class name: its words in lower / upper case, joined by each of ` `, `-`, `_`, ` -`, with
    and without the final word `groove` -/
def spellingsOf (cname : String) : List String :=
  let ws := camelWords cname.toList []
  let variants := [ws.map (·.map toLowerA), ws.map (·.map toUpperA)]
  let seps := [[' '], ['-'], ['_'], [' ', '-']]
  (variants.flatMap fun v => seps.flatMap fun s =>
    [String.ofList (joinWith s v), String.ofList (joinWith s v.dropLast)])

/-! ## `SplineGroove.__init__`: the shape checks, in source order

The third check asks whether the first and the last ordinate lie on the face line `y = 0`.  HOW the source decides that
(the *face test*) is read by the translator into `Gen.C03.splineFace : FaceTest`, whichever of the two forms is present:
`np.isclose(y, 0)` (numpy's defaults: absolute `1e-8`) or `np.abs(y) <= <tolerance>` with the tolerance a term over the
vertex array as given (`1e-9 * np.max(np.ptp(contour_points, axis=0))`: relative to the extent of the contour).  The
checks below take the face test as a value. -/

/-- terms over the columns of the `(n, 2)` array `contour_points` as handed to the constructor (after `np.asarray`) -/
inductive FTerm where
  | nat (n : Nat)
  | dec (m e : Nat)          -- decimal literal `m · 10^(-e)` (`1e-9`)
  | colMin (k : Nat)         -- `np.min(contour_points[:, k])`
  | colMax (k : Nat)         -- `np.max(contour_points[:, k])`
  | max (a b : FTerm)        -- `np.max` of two terms (`np.max(np.ptp(cp, axis=0))` = the larger of the two column extents)
  | add (a b : FTerm)
  | sub (a b : FTerm)
  | mul (a b : FTerm)
  | div (a b : FTerm)
  deriving Repr, DecidableEq, Inhabited

/-- how the source decides that an ordinate lies on the face line `y = 0` -/
inductive FaceTest where
  /-- `np.isclose(y, 0)` with numpy's default tolerances (absolute `1e-8`) -/
  | isclose
  /-- `np.abs(y) <= tol`, `tol` a term over the vertex array as given -/
  | within (tol : FTerm)
  deriving Repr, DecidableEq, Inhabited

inductive SplineCheck where
  | ndim (n : Nat)            -- `if contour_points.ndim != n: raise`
  | cols (n : Nat)            -- `if contour_points.shape[1] != n: raise`
  | endsOnFace                -- `if not F(cp[0, 1]) or not F(cp[-1, 1]): raise`, `F` = the face test
  deriving Repr, DecidableEq, Inhabited

section spline
variable {α : Type} [PyNum α]

/-- `np.maximum` on two numbers: NaN propagates (neither comparison holds); over ℝ the third branch is unreachable -/
def fmax (a b : α) : α := if PyNum.lt a b then b else if PyNum.le b a then a else a + b

def fmin (a b : α) : α := if PyNum.lt b a then b else if PyNum.le a b then a else a + b

/-- `np.max` of a column (`0` for the empty one: unreachable, the `cols` check comes first and needs a row) -/
def lmax : List α → α
  | [] => zero
  | [a] => a
  | a :: b :: r => fmax a (lmax (b :: r))

def lmin : List α → α
  | [] => zero
  | [a] => a
  | a :: b :: r => fmin a (lmin (b :: r))

/-- `contour_points[:, k]` of a nested-list argument (a missing entry reads as 1: off the face line) -/
def colOf (k : Nat) (rows : List (List α)) : List α := rows.map fun r => r.getD k (PyNum.nat 1)

def FTerm.eval (rows : List (List α)) : FTerm → α
  | .nat n => PyNum.nat n
  | .dec m e => PyNum.dec m e
  | .colMin k => lmin (colOf k rows)
  | .colMax k => lmax (colOf k rows)
  | .max a b => fmax (a.eval rows) (b.eval rows)
  | .add a b => a.eval rows + b.eval rows
  | .sub a b => a.eval rows - b.eval rows
  | .mul a b => a.eval rows * b.eval rows
  | .div a b => a.eval rows / b.eval rows

/-- the tolerance of the face test for the vertex array `rows` -/
def FaceTest.tol (ft : FaceTest) (rows : List (List α)) : α :=
  match ft with
  | .isclose => PyNum.dec 1 8
  | .within t => t.eval rows

/-- the face test for the vertex array `rows`, as a predicate on ordinates -/
def FaceTest.onFace (ft : FaceTest) (rows : List (List α)) (y : α) : Bool :=
  match ft with
  | .isclose => GrooveWF.isclose y (zero : α)
  | .within t => PyNum.le (PyNum.abs y) (t.eval rows)

/-- a nested-list argument: `ndim` and, for a 2-d array, the rows; `ft` = the face test read from the source -/
def splineAccepts (ft : FaceTest) (cs : List SplineCheck) (ndim : Nat) (rows : List (List α)) : Bool :=
  cs.all fun c => match c with
    | .ndim n => ndim = n
    | .cols n => rows.all (fun r => r.length = n) && !rows.isEmpty
    | .endsOnFace =>
      match rows.head?, rows.getLast? with
      | some a, some b => ft.onFace rows (a.getD 1 (PyNum.nat 1)) && ft.onFace rows (b.getD 1 (PyNum.nat 1))
      | _, _ => false

end spline

end GrooveWF
