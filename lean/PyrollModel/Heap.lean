/-
  Heap — model of the object graph that `Unit.solve`, `copy.deepcopy` and the list edits of
  pyroll.core work on (C12: no side effects on inputs, no aliasing between positions).

  Mirrors
    * `Unit.Profile.__init__`          (pyroll/core/unit/unit.py)        → `profCopy`   (public explicit entries, SAME value references)
    * `BaseRollPass.Roll.__init__`     (pyroll/core/roll_pass/base.py)   → `rollCopy`
    * `SymmetricRollPass.__init__`     (roll_pass/symmetric_roll_pass.py) → `mkPass` (`Unit.__init__` = `newUnit`, then
      `self.roll` bound in the form READ from the source: `RollStore`, `Gen.C12.rollStore`)
    * `Unit.init_solve` / `DiskElementUnit.init_solve` / `BaseRollPass.init_solve` → `initSolve`
      (what `init_solve` does with an out-profile left by an earlier solve is READ from the source: `Reuse`,
       `Gen.C12.outReuse` → `ensureOut`)
    * `Unit.solve`, `_solve_subunits`, `get_root_hook_results`, `evaluate_and_set_hooks`,
      `OutProfile.root_hook_fallback`  → `solveBody` / `solveU`  (an EFFECT TRACE: allocations, field writes,
                                          weak-link writes, in-place mutations)
    * the classifier producers (`rotator/hookimpls.py: classifiers`, `roll_pass/hookimpls/profile.py: classifiers`,
      `SymmetricRollPass.classifiers`) → programs of the small set language `Stmt`, TRANSLATED from the source
      (`Gen/C12.lean`) and executed by `runProg`
    * `HookHost.__deepcopy__`, `_SubUnitsList.__deepcopy__` (pyroll/core/hooks.py, unit.py) → `copyBody` / `copyObj`
      (memo; weak references re-pointed through the memo)
    * `_SubUnitsList.append` / `__setitem__`, a changed keyword value → `appendUnit` / `replaceUnit` / `setGap`.
    * `PassSequence.solve_velocities_forward` / `solve_velocities_backward` (pyroll/core/sequence/sequence.py) →
      `solveVel` (hooks of the roll passes read, `roll_pass.velocity = …`, `self.solve(in_profile)`, repeated)
    * an explicit value that is a CALLABLE holding references (bound method of another unit, `functools.partial`,
      callable object) → an object of kind `closure` (`bindCallable`); `copy.deepcopy` rebuilds it from the copies of
      what it refers to (`types.MethodType`: `_deepcopy_method`; `partial` / objects: `__reduce_ex__`), through the memo
    * the hook value cache (`HookHost.__init__`: `self.__cache__ = dict()`, `Hook.__get__`, `reevaluate_cache`,
      `rotator_factory`'s `pop`) → component `cache` of an object (the names cached), effect `cachew`,
      `cacheAdd` / `reCache`; both shallow copies start with an empty cache of their own.

  Objects are natural numbers (allocation index).  A field value is always an object id; immutable scalars
  (floats, strings, functions) are objects of kind `atom`, mutable third-party values (sets, lists, dicts,
  arrays, polygons) objects of kind `value` whose `content` is a list of atoms' codes.
  Import-free; executable; tied to the code by driver/props/c12.py.
-/

namespace Heap

inductive Kind where
  | atom          -- immutable scalar; shared freely; `deepcopy` returns the object itself
  | value         -- mutable value object (classifier set, material list, composition dict, array, polygon)
  | groove
  | rollTemplate  -- `Roll` given to a pass constructor
  | passRoll      -- `BaseRollPass.Roll`, the pass's own copy
  | profile       -- plain `Profile` (the caller's, or one returned by `solve`)
  | inProfile
  | outProfile
  | unit          -- any `Unit` (see `tag`)
  | subList       -- `Unit._SubUnitsList`
  | closure       -- a callable given as an explicit value that holds references (bound method `x.__self__`,
                  -- `functools.partial` arguments, attributes of a callable object); `deepcopy` rebuilds it from the
                  -- deep copies of what it refers to
  deriving DecidableEq, Repr

/-- unit tags: 1 roll pass, 2 transport, 3 pass sequence, 4 rotator, 5 disk element, 0 other -/
structure Obj where
  kind : Kind := .atom
  tag : Nat := 0
  rot : Bool := false          -- roll pass: `rotation` is truthy (the rotator pre-processor runs)
  disks : Nat := 0             -- `disk_element_count`
  ovr : Bool := false          -- a (user) hook implementation produces `OutProfile.classifiers` as a new set
  fields : List (Nat × Nat) := []   -- explicit `__dict__` entries holding references, insertion order
  weak : Option Nat := none    -- the weak back-link (`_parent` / `_unit` / `_roll_pass` / `_owner`)
  items : List Nat := []       -- sub-unit list: the listed units
  content : List Nat := []     -- value object: its content
  cache : List Nat := []       -- hook host: the names in its hook value cache (`__cache__`, a dict of its own)
  deriving DecidableEq, Repr

/-! ### field codes (`< 100` = public name, copied by the shallow copies) -/
def fCS : Nat := 0        -- cross_section
def fCL : Nat := 1        -- classifiers
def fTOCS : Nat := 2      -- technologically_orientated_cross_section
def fT : Nat := 3         -- t (a scalar produced by every unit)
def fVEL : Nat := 4       -- velocity (root hook of a pass's in-profile)
def fGROOVE : Nat := 30
def fRADIUS : Nat := 31
def fTORQUE : Nat := 32   -- roll_torque (root hook of the pass roll)
def fGAP : Nat := 40
def fRES : Nat := 41      -- a root-hook result of the unit itself (power …)
def fUVEL : Nat := 42     -- `velocity` of a roll pass, set by `PassSequence.solve_velocities_forward/backward`
def fBIND : Nat := 50     -- what a callable (`Kind.closure`) is bound to (`__self__`, a `partial` argument, an attribute)
def fIN : Nat := 100      -- structural entries of a unit; a profile never has them
def fOUT : Nat := 101
def fROLL : Nat := 102
def fSUB : Nat := 103

def isPublic (f : Nat) : Bool := f < 100
/-- the entries that define what a unit OWNS -/
def isOwn (f : Nat) : Bool := f == fOUT || f == fROLL || f == fSUB

structure H where
  next : Nat
  obj : Nat → Obj

def H.empty : H := { next := 0, obj := fun _ => {} }

def getF (h : H) (o f : Nat) : Option Nat := (h.obj o).fields.lookup f

/-- `d[f] = v`: keeps the position of an existing key -/
def setF : List (Nat × Nat) → Nat → Nat → List (Nat × Nat)
  | [], f, v => [(f, v)]
  | e :: r, f, v => if e.1 = f then (f, v) :: r else e :: setF r f v

def Obj.ptrs (ob : Obj) : List Nat := ob.fields.map (·.2) ++ ob.weak.toList ++ ob.items

/-! ### effects -/

inductive Eff where
  | alloc (o : Nat)
  | write (o f : Nat)     -- `o.__dict__[f] = …`
  | weakw (o : Nat)       -- the weak back-link of `o` re-pointed
  | mutate (o : Nat)      -- in-place change of a list / a value object
  | cachew (o : Nat)      -- `o.__cache__[name] = …` / `o.__cache__.pop(name)`: the hook value cache of `o` changed
  deriving DecidableEq, Repr

def Eff.target : Eff → Option Nat
  | .alloc _ => none
  | .write o _ => some o
  | .weakw o => some o
  | .mutate o => some o
  | .cachew o => some o

def targets (t : List Eff) : List Nat := t.filterMap Eff.target

/-- heap + trace + the iteration counts still to be consumed (one per `solve` call, in call order) -/
structure S where
  h : H
  tr : List Eff := []
  its : List Nat := []

def S.alloc (s : S) (ob : Obj) : S × Nat :=
  ({ s with h := { next := s.h.next + 1, obj := fun i => if i = s.h.next then ob else s.h.obj i },
            tr := s.tr ++ [.alloc s.h.next] }, s.h.next)

def H.upd (h : H) (o : Nat) (ob : Obj) : H := { h with obj := fun i => if i = o then ob else h.obj i }

def S.write (s : S) (o f v : Nat) : S :=
  { s with h := s.h.upd o { s.h.obj o with fields := setF (s.h.obj o).fields f v }, tr := s.tr ++ [.write o f] }

/-- `delattr(o, f)` / `o.__dict__.pop(f, None)`: the entry goes, the others keep their order -/
def S.del (s : S) (o f : Nat) : S :=
  { s with h := s.h.upd o { s.h.obj o with fields := (s.h.obj o).fields.filter (fun e => e.1 != f) },
           tr := s.tr ++ [.write o f] }

def S.setWeak (s : S) (o : Nat) (w : Option Nat) : S :=
  { s with h := s.h.upd o { s.h.obj o with weak := w }, tr := s.tr ++ [.weakw o] }

def S.setItems (s : S) (o : Nat) (l : List Nat) : S :=
  { s with h := s.h.upd o { s.h.obj o with items := l }, tr := s.tr ++ [.mutate o] }

def S.setContent (s : S) (o : Nat) (c : List Nat) : S :=
  { s with h := s.h.upd o { s.h.obj o with content := c }, tr := s.tr ++ [.mutate o] }

def S.setCache (s : S) (o : Nat) (c : List Nat) : S :=
  { s with h := s.h.upd o { s.h.obj o with cache := c }, tr := s.tr ++ [.cachew o] }

def S.popIt (s : S) : Nat × S :=
  match s.its with
  | [] => (1, s)
  | k :: r => (k, { s with its := r })

/-! ### the shallow copies -/

def pubFields (h : H) (o : Nat) : List (Nat × Nat) := (h.obj o).fields.filter (fun e => isPublic e.1)

/-- `Unit.Profile.__init__(unit, template)` (and `Profile(**public entries of out_profile)` with `unit = none`):
the public explicit entries of the template, SAME value references; the copy starts with an EMPTY cache of its own
(`HookHost.__init__`: `self.__cache__ = dict()`), whatever the template has evaluated already -/
def profCopy (h : H) (k : Kind) (unit : Option Nat) (tpl : Nat) : Obj :=
  { kind := k, fields := pubFields h tpl, weak := unit }

/-- `BaseRollPass.Roll.__init__(template, roll_pass)`; the groove is shared with the template, the hook value cache
is NOT (empty, the roll's own) -/
def rollCopy (h : H) (pass : Nat) (tpl : Nat) : Obj :=
  { kind := .passRoll, fields := pubFields h tpl, weak := some pass }

/-! ### construction of a unit / of a roll pass -/

/-- `Unit.__init__`: the unit and its (empty) sub-unit list -/
def newUnit (s : S) (ob : Obj) : S × Nat :=
  let (s1, u) := s.alloc ob
  let (s2, l) := s1.alloc { kind := .subList, weak := some u }
  (s2.write u fSUB l, u)

/-- how `SymmetricRollPass.__init__(self, roll, …)` binds `self.roll` (READ from the source: `Gen.C12.rollStore`) -/
inductive RollStore where
  /-- `self.roll = self.Roll(roll, self)`: a pass roll of its own, made from WHATEVER roll object is handed in (a
  plain `Roll` template, or the roll of another pass) -/
  | copy
  /-- `self.roll = roll`: the object handed in is kept -/
  | adopt
  deriving DecidableEq, Repr

/-- `TwoRollPass(roll=t, rotation=…, disk_element_count=…)` (`SymmetricRollPass.__init__`): `Unit.__init__`, then
`self.roll` is bound in the form read from the source.  `t` is ANY object handed in as `roll`: a roll template, or the
pass roll of another pass (`RollPass(roll=other_pass.roll, …)`) -/
def mkPass (rs : RollStore) (s : S) (rot : Bool) (disks : Nat) (t : Nat) : S × Nat :=
  let (s1, u) := newUnit s { kind := .unit, tag := 1, rot := rot, disks := disks }
  match rs with
  | .copy =>
    let (s2, r) := s1.alloc (rollCopy s1.h u t)
    (s2.write u fROLL r, u)
  | .adopt => (s1.write u fROLL t, u)

/-! ### classifier producers: a small language of set-valued statements (programs are generated from the source) -/

inductive SExpr where
  | foreign (p : Nat)          -- a value obtained from ANOTHER object (attribute chain number `p`)
  | var (v : Nat)
  | newSet (e : SExpr)         -- `set(e)`: a new object
  | union (a b : SExpr)        -- `a | b`: a new object
  | lit (elems : List Nat)     -- `{…}`: a new object
  deriving DecidableEq, Repr

inductive Act where
  | assign (v : Nat) (e : SExpr)
  | add (v : Nat) (x : Nat)        -- `v.add(x)`       in place
  | ior (v : Nat) (e : SExpr)      -- `v |= e`         in place
  | update (v : Nat) (e : SExpr)   -- `v.update(e)`    in place
  | ret (e : SExpr)
  deriving DecidableEq, Repr

/-- `guard = some g`: the statement sits under the `g`-th `if`/`elif` test of the function -/
structure Stmt where
  guard : Option Nat := none
  act : Act
  deriving DecidableEq, Repr

abbrev Prog := List Stmt
abbrev Env := List (Nat × Nat)

/-- evaluation allocates a new object for every `set(…)`, `|` and literal -/
def evalS (fe : Nat → Nat) (env : Env) : SExpr → S → S × Nat
  | .foreign p, s => (s, fe p)
  | .var v, s => (s, (env.lookup v).getD 0)
  | .newSet e, s =>
    let (s1, x) := evalS fe env e s
    s1.alloc { kind := .value, content := (s1.h.obj x).content }
  | .union a b, s =>
    let (s1, x) := evalS fe env a s
    let (s2, y) := evalS fe env b s1
    s2.alloc { kind := .value, content := (s2.h.obj x).content ++ (s2.h.obj y).content }
  | .lit el, s => s.alloc { kind := .value, content := el }

/-- run a producer; `gd g` tells whether the `g`-th test holds; result = the returned object -/
def runProg (fe : Nat → Nat) (gd : Nat → Bool) : Prog → Env → S → S × Option Nat
  | [], _, s => (s, none)
  | st :: rest, env, s =>
    if (match st.guard with | none => true | some g => gd g) then
      match st.act with
      | .assign v e =>
        let (s1, x) := evalS fe env e s
        runProg fe gd rest ((v, x) :: env) s1
      | .add v x =>
        let o := (env.lookup v).getD 0
        runProg fe gd rest env (s.setContent o ((s.h.obj o).content ++ [x]))
      | .ior v e =>
        let (s1, y) := evalS fe env e s
        let o := (env.lookup v).getD 0
        runProg fe gd rest env (s1.setContent o ((s1.h.obj o).content ++ (s1.h.obj y).content))
      | .update v e =>
        let (s1, y) := evalS fe env e s
        let o := (env.lookup v).getD 0
        runProg fe gd rest env (s1.setContent o ((s1.h.obj o).content ++ (s1.h.obj y).content))
      | .ret e =>
        let (s1, x) := evalS fe env e s
        (s1, some x)
    else runProg fe gd rest env s

/-- static check: which expressions denote an object created by this very run -/
def freshExpr (fv : List Nat) : SExpr → Bool
  | .foreign _ => false
  | .var v => fv.contains v
  | .newSet _ => true
  | .union _ _ => true
  | .lit _ => true

/-- static check of a producer: every in-place statement acts on a variable that is bound, on every path, to an
object created by this run (`fv` = the variables known to be so bound) -/
def safeFrom (fv : List Nat) : Prog → Bool
  | [] => true
  | st :: rest =>
    match st.act with
    | .assign v e =>
      -- an unguarded assignment of a new object makes `v` fresh; any other assignment to `v` ends that
      if freshExpr fv e && (st.guard.isNone || fv.contains v) then safeFrom (v :: fv) rest
      else safeFrom (fv.filter (· != v)) rest
    | .add v _ => fv.contains v && safeFrom fv rest
    | .ior v _ => fv.contains v && safeFrom fv rest
    | .update v _ => fv.contains v && safeFrom fv rest
    | .ret _ => safeFrom fv rest

def Prog.safe (p : Prog) : Bool := safeFrom [] p

/-- what `Unit.init_solve` does with the out-profile of a previous solve (`if not self.out_profile: … [else: …]`) -/
inductive Reuse where
  /-- no `else:` branch: the out-profile is used again exactly as the previous solve left it -/
  | keep
  /-- `else:` branch: public entries that are neither root hooks nor handed over by the current incoming profile are
  deleted, the incoming profile's public non-root-hook entries are set (by reference, as on creation), root-hook
  entries are only filled in where missing (the previous results stay as start values) -/
  | handOver
  deriving DecidableEq, Repr

/-- what the solve model takes from the TRANSLATED source: the producers it runs and the form of `init_solve` -/
structure Producers where
  rot : Prog       -- `Rotator.OutProfile.classifiers`     (foreign 0 = the rotator's in-profile classifiers)
  pass : Prog      -- `BaseRollPass.OutProfile.classifiers` (foreign 0 = `roll_pass.classifiers`)
  sym : Prog       -- `SymmetricRollPass.classifiers`       (foreign 0 = `roll.groove.classifiers`)
  reuse : Reuse := .keep   -- `Unit.init_solve`: treatment of a re-used out-profile

def Producers.Safe (P : Producers) : Prop := P.rot.safe = true ∧ P.pass.safe = true ∧ P.sym.safe = true

def runOn (p : Prog) (s : S) (src : Option Nat) : S × Option Nat :=
  match src with
  | none => (s, none)
  | some v => runProg (fun _ => v) (fun _ => true) p [] s

def writeOpt (s : S) (o f : Nat) (v : Option Nat) : S :=
  match v with
  | some v => s.write o f v
  | none => s

/-! ### the hook value cache -/

def cROT : Nat := 60      -- name codes: `rotation` of a roll pass
def cIN : Nat := 61       -- a hook of an in-profile asked by a hook function (equivalent_radius, velocity …)
def cOUT : Nat := 62      -- … of an out-profile (width, height, filling_ratio …)
def cUNIT : Nat := 63     -- … of the unit (volume, usable_width, contact length of the pass …)
def cROLL : Nat := 64     -- … of the pass roll (contact_area, working_radius, roll_power …)

/-- `Hook.__get__`: the value determined from hook functions is kept in the cache OF THE INSTANCE it was asked on
(`instance.__cache__[self.name] = result`) -/
def cacheAdd (s : S) (o c : Nat) : S :=
  s.setCache o (if (s.h.obj o).cache.contains c then (s.h.obj o).cache else (s.h.obj o).cache ++ [c])

/-- `HookHost.reevaluate_cache`: every cached name is evaluated anew; the names stay -/
def reCache (s : S) (o : Nat) : S := s.setCache o (s.h.obj o).cache

def onRoll (g : S → Nat → S) (s : S) (roll : Option Nat) : S :=
  match roll with
  | some r => g s r
  | none => s

/-! ### solve -/

abbrev Rec := S → Nat → Nat → S × Nat

/-- `_solve_subunits`: `last = self.in_profile; for u in subunits: last = u.solve(last)` -/
def solveChildren (f : Rec) (cs : List Nat) (s : S) (p : Nat) : S × Nat :=
  cs.foldl (fun a c => f a.1 c a.2) (s, p)

/-- `OutProfile.root_hook_fallback`: the last sub-unit's out-profile, or the own in-profile -/
def fallbackSrc (h : H) (cs : List Nat) (i : Nat) : Option Nat :=
  match cs.getLast? with
  | none => some i
  | some c => getF h c fOUT

/-- a root hook whose functions yield nothing: `setattr(self, name, getattr(src, name))` — the SAME reference -/
def copyField (s : S) (src : Option Nat) (o f : Nat) : S :=
  writeOpt s o f (src.bind (fun q => getF s.h q f))

/-- `[DiskElement(self, i) for i in range(n)]` -/
def mkDisks : Nat → S → Nat → S × List Nat
  | 0, s, _ => (s, [])
  | n + 1, s, u =>
    let (s1, d) := s.alloc { kind := .unit, tag := 5, weak := some u }
    let (s2, l) := s1.alloc { kind := .subList, weak := some d }
    let s3 := s2.write d fSUB l
    let (s4, ds) := mkDisks n s3 u
    (s4, d :: ds)

def subItems (h : H) (u : Nat) : List Nat :=
  match getF h u fSUB with
  | some l => (h.obj l).items
  | none => []

/-- root hooks of the in-profile (`BaseRollPass.InProfile.velocity`) -/
def inHooks (s : S) (tag i : Nat) : S :=
  if tag = 1 then
    let (s1, a) := s.alloc { kind := .atom }
    s1.write i fVEL a
  else s

/-- `Unit.OutProfile.cross_section`: produced by a pass (tag 1) and a rotator (tag 4), handed on otherwise -/
def hookCS (s : S) (tag i o : Nat) (cs : List Nat) : S :=
  if tag = 1 ∨ tag = 4 then
    let (a, v) := s.alloc { kind := .value, content := [tag] }
    a.write o fCS v
  else copyField s (fallbackSrc s.h cs i) o fCS

/-- `Unit.OutProfile.classifiers`: the translated producers for a pass and a rotator, a user hook (`ovr`), or handed on -/
def hookCL (P : Producers) (s : S) (tag : Nat) (ovr : Bool) (i o : Nat) (cs : List Nat) (roll : Option Nat) : S :=
  if tag = 1 then
    let gcl := (roll.bind (fun r => getF s.h r fGROOVE)).bind (fun g => getF s.h g fCL)
    let (a, c1) := runOn P.sym s gcl
    let (b, c2) := runOn P.pass a c1
    writeOpt b o fCL c2
  else if tag = 4 then
    let (a, c) := runOn P.rot s (getF s.h i fCL)
    writeOpt a o fCL c
  else if ovr = true then
    let (a, v) := s.alloc { kind := .value, content := [9] }
    a.write o fCL v
  else copyField s (fallbackSrc s.h cs i) o fCL

/-- `Unit.OutProfile.t`: a new scalar for every unit -/
def hookT (s : S) (o : Nat) : S :=
  let (a, x) := s.alloc { kind := .atom }
  a.write o fT x

/-- `BaseRollPass.OutProfile.technologically_orientated_cross_section`: with the default orientation the
cross-section object itself -/
def hookTOCS (s : S) (tag o : Nat) : S :=
  if tag = 1 then writeOpt s o fTOCS (getF s.h o fCS) else s

/-- root hooks of the out-profile, in the order of `root_hooks`:
cross_section, classifiers, t, technologically_orientated_cross_section -/
def outHooks (P : Producers) (s : S) (tag : Nat) (ovr : Bool) (i o : Nat) (cs : List Nat) (roll : Option Nat) : S :=
  hookTOCS (hookT (hookCL P (hookCS s tag i o cs) tag ovr i o cs roll) o) tag o

def unitHooks (s : S) (u : Nat) : S :=
  let (s1, a) := s.alloc { kind := .atom }
  s1.write u fRES a

/-- `self.roll.evaluate_and_set_hooks()` of a symmetric pass -/
def rollHooks (s : S) (roll : Option Nat) : S :=
  match roll with
  | some r =>
    let (s1, a) := s.alloc { kind := .atom }
    s1.write r fTORQUE a
  | none => s

/-- the hook functions evaluated for the root hooks ask other hooks of the in-profile, the out-profile, the unit
and (a pass) its roll; every such value is cached on the instance it was asked on (a MAY-effect: which names are
asked depends on the hook functions registered) -/
def cacheHooks (s : S) (u i o : Nat) (roll : Option Nat) : S :=
  onRoll (fun a r => cacheAdd a r cROLL) (cacheAdd (cacheAdd (cacheAdd s i cIN) o cOUT) u cUNIT) roll

/-- one pass of the solution loop:
`self.in_profile.reevaluate_cache(); self._solve_subunits(); self.reevaluate_cache()` (a pass: also
`self.roll.reevaluate_cache()`) `; self.out_profile.reevaluate_cache(); self.get_root_hook_results()` -/
def iterBody (P : Producers) (f : Rec) (u i o : Nat) (roll : Option Nat) (tag : Nat) (ovr : Bool)
    (cs : List Nat) (s : S) : S :=
  let s0 := reCache s i
  let s1 := (solveChildren f cs s0 i).1
  let s1a := reCache (onRoll reCache (reCache s1 u) roll) o
  let s2 := inHooks s1a tag i
  let s3 := outHooks P s2 tag ovr i o cs roll
  let s4 := unitHooks s3 u
  cacheHooks (rollHooks s4 roll) u i o roll

def iterN : Nat → (S → S) → S → S
  | 0, _, s => s
  | k + 1, g, s => iterN k g (g s)

/-- `Rotator(…, parent=roll_pass)` built by `rotator_factory`, and `pre_processor.solve(in_profile)` -/
def runRotator (f : Rec) (s : S) (u p : Nat) : S × Nat :=
  let (s1, r) := s.alloc { kind := .unit, tag := 4, weak := some u }
  let (s2, l) := s1.alloc { kind := .subList, weak := some r }
  let s3 := s2.write r fSUB l
  f s3 r p

/-- the pre-processor of a roll pass: `rotator_factory` forgets the cached `rotation` of the pass
(`roll_pass.__cache__.pop("rotation", None)`), then (rotation truthy) builds a throw-away rotator and solves it -/
def preProcess (f : Rec) (s : S) (u p : Nat) : S × Nat :=
  let ob := s.h.obj u
  if ob.tag = 1 then
    let s0 := s.setCache u (ob.cache.filter (· != cROT))
    if ob.rot = true then runRotator f s0 u p else (s0, p)
  else (s, p)

/-- `self.in_profile = self.InProfile(self, in_profile)` -/
def storeIn (s : S) (u p1 : Nat) : S × Nat :=
  let (a, i) := s.alloc (profCopy s.h .inProfile (some u) p1)
  (a.write u fIN i, i)

/-- the names of the root hooks of an out-profile (`{h.name for h in root_hooks if isinstance(self.out_profile, h.owner)}`),
as far as the model has them: what `outHooks` sets — `technologically_orientated_cross_section` is a root hook of
`BaseRollPass.OutProfile` only -/
def outRoots (tag : Nat) : List Nat := if tag = 1 then [fCS, fCL, fT, fTOCS] else [fCS, fCL, fT]

/-- `outdated = [k for k in self.out_profile.__dict__ if public and k not in roots and k not in handed_over]`
`for k in outdated: delattr(self.out_profile, k)`; `fs` = the entries of the out-profile when the list was made -/
def delOutdated (roots : List Nat) (handed : List (Nat × Nat)) (o : Nat) : List (Nat × Nat) → S → S
  | [], s => s
  | e :: r, s =>
    delOutdated roots handed o r
      (if isPublic e.1 && !roots.contains e.1 && (handed.lookup e.1).isNone then s.del o e.1 else s)

/-- `for k, v in handed_over.items(): if k not in roots or k not in self.out_profile.__dict__: setattr(self.out_profile, k, v)`
(`handed` is a dict: `v = handed[k]`); `setattr` keeps the position of an existing entry -/
def handOver (roots : List Nat) (handed : List (Nat × Nat)) (o : Nat) : List (Nat × Nat) → S → S
  | [], s => s
  | e :: r, s =>
    handOver roots handed o r
      (if roots.contains e.1 && (getF s.h o e.1).isSome then s else s.write o e.1 ((handed.lookup e.1).getD e.2))

/-- the `else:` branch of `init_solve` (form `Reuse.handOver`): `handed_over` = the public entries of the incoming
profile, taken BEFORE anything is deleted or set -/
def reuseOut (tag : Nat) (s : S) (o p1 : Nat) : S :=
  let roots := outRoots tag
  let handed := pubFields s.h p1
  handOver roots handed o handed (delOutdated roots handed o (s.h.obj o).fields s)

/-- `if not self.out_profile: self.out_profile = self.OutProfile(self, in_profile)` and, in the form `handOver`,
`else:` hand the current incoming profile's entries over to the re-used out-profile -/
def ensureOut (rf : Reuse) (tag : Nat) (s : S) (u p1 : Nat) : S × Nat :=
  match getF s.h u fOUT with
  | some o =>
    match rf with
    | .keep => (s, o)
    | .handOver => (reuseOut tag s o p1, o)
  | none =>
    let (a, o) := s.alloc (profCopy s.h .outProfile (some u) p1)
    (a.write u fOUT o, o)

/-- `DiskElementUnit.init_solve`: `if not self._subunits: self._subunits = _SubUnitsList(self, [DiskElement …])` -/
def ensureDisks (s : S) (u : Nat) (ob : Obj) : S :=
  if (ob.tag = 1 ∨ ob.tag = 2) ∧ (subItems s.h u).isEmpty = true then
    let (a, ds) := mkDisks ob.disks s u
    let (b, l) := a.alloc { kind := .subList, weak := some u, items := ds }
    b.write u fSUB l
  else s

/-- `BaseRollPass.init_solve`: `self.out_profile.cross_section = self.usable_cross_section` -/
def passInit (s : S) (ob : Obj) (o : Nat) : S :=
  if ob.tag = 1 then
    let (a, v) := s.alloc { kind := .value, content := [7] }
    a.write o fCS v
  else s

/-- `Unit.init_solve`, `DiskElementUnit.init_solve`, `BaseRollPass.init_solve`; returns (state, in-profile, out-profile) -/
def initSolve (rf : Reuse) (f : Rec) (s : S) (u p : Nat) : S × Nat × Nat :=
  let ob := s.h.obj u
  let (s1, p1) := preProcess f s u p
  let (s2, i) := storeIn s1 u p1
  let (s3, o) := ensureOut rf ob.tag s2 u p1
  (passInit (ensureDisks s3 u ob) ob o, i, o)

/-- `Unit.solve(in_profile)`; `f` solves a sub-unit -/
def solveBody (P : Producers) (f : Rec) (s : S) (u p : Nat) : S × Nat :=
  let (k, s0) := s.popIt
  let ob := s0.h.obj u
  let (s1, i, o) := initSolve P.reuse f s0 u p
  let roll := if ob.tag = 1 then getF s1.h u fROLL else none
  let cs := subItems s1.h u
  let s2 := iterN k (iterBody P f u i o roll ob.tag ob.ovr cs) s1
  s2.alloc (profCopy s2.h .profile none o)

/-- solve by fuel (depth of the unit tree); out of fuel: only the returned copy is made -/
def solveU (P : Producers) : Nat → Rec
  | 0, s, _, p => s.alloc (profCopy s.h .profile none p)
  | fuel + 1, s, u, p => solveBody P (solveU P fuel) s u p

/-! ### deep copy -/

abbrev Memo := List (Nat × Nat)
abbrev CRec := S → Memo → Nat → S × Memo × Nat

/-- the `__dict__` loop of `HookHost.__deepcopy__` for the strong entries -/
def copyFields (f : CRec) (r : Nat) (fs : List (Nat × Nat)) (s : S) (m : Memo) : S × Memo :=
  fs.foldl (fun a e =>
    let (s', m', v') := f a.1 a.2 e.2
    (s'.write r e.1 v', m')) (s, m)

/-- a weak entry: a dead/absent reference stays so; otherwise the referent's copy (through the memo) -/
def copyWeak (f : CRec) (s : S) (m : Memo) (w : Option Nat) : S × Memo × Option Nat :=
  match w with
  | none => (s, m, none)
  | some t =>
    let (s', m', t') := f s m t
    (s', m', some t')

/-- `for e in self: result.append(copy.deepcopy(e, memo))` — `append` re-parents the copy to the list's owner -/
def copyItems (f : CRec) (r : Nat) (owner : Option Nat) (us : List Nat) (s : S) (m : Memo) : S × Memo :=
  us.foldl (fun a e =>
    let (s', m', e') := f a.1 a.2 e
    let s'' := if (s'.h.obj e').kind = .unit then s'.setWeak e' owner else s'
    (s''.setItems r ((s''.h.obj r).items ++ [e']), m')) (s, m)

def copyBody (f : CRec) (s : S) (m : Memo) (o : Nat) : S × Memo × Nat :=
  match m.lookup o with
  | some o' => (s, m, o')
  | none =>
    let ob := s.h.obj o
    match ob.kind with
    | .atom => (s, m, o)
    | .value =>
      -- third-party `deepcopy`: a new object with equal content (PARAMETER)
      let (s1, r) := s.alloc { kind := .value, content := ob.content }
      (s1, (o, r) :: m, r)
    | .subList =>
      -- `_SubUnitsList.__deepcopy__`; `copy.deepcopy` enters the memo only after it returned
      let (s1, r) := s.alloc { kind := .subList }
      let (s2, m2, w) := copyWeak f s1 m ob.weak
      let s3 := s2.setWeak r w
      let (s4, m4) := copyItems f r w ob.items s3 m2
      (s4, (o, r) :: m4, r)
    | _ =>
      -- `HookHost.__deepcopy__` (and the default reconstruction of plain objects): memo first, then the entries
      let (s1, r) := s.alloc { ob with fields := [], weak := none, items := [], content := [] }
      let (s2, m2) := copyFields f r ob.fields s1 ((o, r) :: m)
      let (s3, m3, w) := copyWeak f s2 m2 ob.weak
      (s3.setWeak r w, m3, r)

def copyObj : Nat → CRec
  | 0, s, m, o =>
    match m.lookup o with
    | some o' => (s, m, o')
    | none =>
      if (s.h.obj o).kind = .atom then (s, m, o)
      else
        let (s1, r) := s.alloc { kind := (s.h.obj o).kind }
        (s1, (o, r) :: m, r)
  | fuel + 1, s, m, o => copyBody (copyObj fuel) s m o

/-- `copy.deepcopy(o)` with an empty memo -/
def deepCopy (s : S) (o : Nat) : S × Memo × Nat := copyObj (s.h.next + 1) s [] o

/-! ### edits -/

/-- `PassSequence.append(unit)` → `_SubUnitsList.append`: `unit.parent = owner; list.append(unit)` -/
def appendUnit (s : S) (q u : Nat) : S :=
  match getF s.h q fSUB with
  | some l => (s.setWeak u (s.h.obj l).weak).setItems l ((s.h.obj l).items ++ [u])
  | none => s

/-- `seq._subunits[i] = unit`: `list[i] = unit; current.parent = None; unit.parent = owner`
(the item is stored first, so that a failing assignment touches no parent) -/
def replaceUnit (s : S) (q i u : Nat) : S :=
  match getF s.h q fSUB with
  | some l =>
    match (s.h.obj l).items[i]? with
    | some cur =>
      let s1 := s.setItems l ((s.h.obj l).items.set i u)
      let s2 := s1.setWeak cur none
      s2.setWeak u (s2.h.obj l).weak
    | none => s
  | none => s

/-- `roll_pass.gap = x` (any keyword value replaced by a new scalar) -/
def setGap (s : S) (u : Nat) : S :=
  let (s1, a) := s.alloc { kind := .atom }
  s1.write u fGAP a

/-- the caller gives unit `u` an explicit value that is a callable bound to object `t` (`Transport(duration=
first_pass.pause_after)`, `gap=functools.partial(same_gap_as, first_pass)`, a callable object holding `t`), under the
entry `f` -/
def bindCallable (s : S) (u f t : Nat) : S :=
  let (s1, c) := s.alloc { kind := .closure, fields := [(fBIND, t)] }
  s1.write u f c

/-! ### the velocity solvers of a pass sequence -/

/-- `usable_cross_section_areas = [roll_pass.usable_cross_section.area for roll_pass in self.roll_passes]`: hooks of the
roll passes listed directly in the sequence (and of their rolls) are evaluated - their caches may gain names -/
def velRead (cs : List Nat) (s : S) : S :=
  cs.foldl (fun a c =>
    if (a.h.obj c).tag = 1 then onRoll (fun b r => cacheAdd b r cROLL) (cacheAdd a c cUNIT) (getF a.h c fROLL) else a) s

/-- `set_velocities_to_roll_passes`: `roll_pass.velocity = velocity` (a new scalar) for every roll pass listed
directly in the sequence -/
def setVels (cs : List Nat) (s : S) : S :=
  cs.foldl (fun a c =>
    if (a.h.obj c).tag = 1 then
      let (s1, x) := a.alloc { kind := .atom }
      s1.write c fUVEL x
    else a) s

/-- one round of `PassSequence.solve_velocities_forward` / `solve_velocities_backward`: the velocities are set on the
roll passes, then `self.solve(in_profile)` - with the caller's profile as it is; the returned profile is dropped -/
def velRound (P : Producers) (s : S) (u p : Nat) : S :=
  let s1 := setVels (subItems s.h u) s
  (solveU P (s1.h.next + 1) s1 u p).1

def velRounds (P : Producers) : Nat → S → Nat → Nat → S
  | 0, s, _, _ => s
  | n + 1, s, u, p => velRounds P n (velRound P s u p) u p

/-- `seq.solve_velocities_forward(in_profile, …)` / `solve_velocities_backward(…)` with `n` rounds in all (the first
solve and the passes of the velocity loop; `n` is numeric, an input of the model); nothing is returned -/
def solveVel (P : Producers) (n : Nat) (s : S) (u p : Nat) : S :=
  velRounds P n (velRead (subItems s.h u) s) u p

/-! ### histories -/

inductive Op where
  | solve (u p : Nat)
  | append (q u : Nat)
  | replace (q i u : Nat)
  | gap (u : Nat)
  | solveVel (u p n : Nat)     -- a velocity solver of the sequence `u` with the caller's profile `p`, `n` rounds
  | bind (u f t : Nat)         -- an explicit value of unit `u` (entry `f`, not structural) := a callable bound to `t`
  deriving Repr

/-- one op of a history; an op that names an unallocated object or a non-unit is a no-op -/
def step (P : Producers) (s : S) : Op → S
  | .solve u p =>
    if u < s.h.next ∧ p < s.h.next ∧ (s.h.obj u).kind = .unit then (solveU P (s.h.next + 1) s u p).1 else s
  | .append q u => if u < s.h.next ∧ (s.h.obj u).kind = .unit then appendUnit s q u else s
  | .replace q i u => if u < s.h.next ∧ (s.h.obj u).kind = .unit then replaceUnit s q i u else s
  | .gap u => if u < s.h.next ∧ (s.h.obj u).kind = .unit then setGap s u else s
  | .solveVel u p n =>
    if u < s.h.next ∧ p < s.h.next ∧ (s.h.obj u).kind = .unit then solveVel P n s u p else s
  | .bind u f t =>
    if u < s.h.next ∧ t < s.h.next ∧ (s.h.obj u).kind = .unit ∧ isPublic f = true then bindCallable s u f t else s

def run (P : Producers) (s : S) (ops : List Op) : S := ops.foldl (step P) s

end Heap
