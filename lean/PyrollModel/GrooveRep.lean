import PyrollModel.Impl
/-
  GrooveRep — the model behind C10 (all representations of one groove / roll surface describe the same shape).

  Part 1  generic elongation groove: the analytic depth function (`np.piecewise` over a table of half-open pieces, the
          last true condition wins, the extra function is the default) and the polyline sampler
          (`_enumerate_contour_points`: junction vertices, `np.linspace(a, b, N, endpoint=False)` samples of one piece
          function each, guarded by `np.isclose`), run on the piece / segment TABLES that
          `driver/translate/c10_depth.py` reads out of the source on every run (`Gen/C10.lean`).  The ARGUMENT of the depth
          function is part of the model: which numeric kind the caller hands over (`PyScalar`, `PyArg`: integer / float /
          array of either), what the source does to it before `np.piecewise` (`ArgOp` list read by the translator), and
          the dtype `np.piecewise` hands the value back in (`localDepthElem`, `localDepthArg`).
  Part 2  roll: the surface grid (`surface_x` = mirrored concatenation of `linspace`s mapped through a translated outer
          formula, `surface_y` = a translated formula of one contour ordinate and one grid abscissa), linear
          interpolation on a polyline (`scipy.interpolate.interp1d`, kind linear, extrapolating) and the tensor-product
          (bi)linear interpolation on a rectilinear grid (`scipy.interpolate.interpn`, method linear);
          `Roll.surface_interpolation(x, z)` with the conversions of its two positions and the layout of its result
          (`surfaceInterpElem`, `surfaceInterpArg`).
  Part 3  spline groove: face test and boundary stripping (the kinds the translator found), centring by a translated list term, half width / width / usable width / depth
          as translated list terms, depth function = `interp1` of the centred polyline; `Refines` = insertion of collinear
          vertices.

  Everything is generic in the `PyNum` carrier: `Float` runs against numpy / scipy in the correspondence, ℝ is what the
  theorems of `PyrollProps/C10.lean` are about.
-/

namespace GrooveRep

/-- one condition / function pair of `np.piecewise`: `(lo <= z) & (z < hi)` (`lo = none`: `z < hi`), function `fn` over
    the variable `z` -/
structure Piece where
  lo : Option Expr
  hi : Expr
  fn : Expr
  deriving Repr, DecidableEq, Inhabited

/-- one statement of `_enumerate_contour_points` -/
inductive Seg where
  /-- `yield z, y` -/
  | pt (z y : Expr)
  /-- `if not np.isclose(ga, gb): yield z, y` -/
  | ptIf (ga gb z y : Expr)
  /-- `if not np.isclose(ga, gb): for z in np.linspace(a, b, N, endpoint=False): yield z, fn(z)` -/
  | arc (ga gb a b fn : Expr)
  deriving Repr, DecidableEq, Inhabited

/-- `np.linspace(start, stop, N, endpoint=…)` with translated end points -/
structure LinSpec where
  start : Expr
  stop : Expr
  endpoint : Bool
  deriving Repr, DecidableEq, Inhabited

/-- terms over the columns of an `(n, 2)` vertex array (what `SplineGroove.__init__` computes from `contour_points`) -/
inductive LTerm where
  | colMean (k : Nat)        -- np.mean(pts[:, k])
  | colMin (k : Nat)         -- np.min(pts[:, k])
  | colMax (k : Nat)         -- np.max(pts[:, k])
  | first (k : Nat)          -- pts[0, k]
  | last (k : Nat)           -- pts[-1, k]
  | nat (n : Nat)
  | dec (m e : Nat)          -- decimal literal `m · 10^(-e)` (`1e-9`)
  | max (a b : LTerm)        -- `np.max` of two terms (`np.max(np.ptp(pts, axis=0))` = max of the two column extents)
  | add (a b : LTerm)
  | sub (a b : LTerm)
  | mul (a b : LTerm)
  | div (a b : LTerm)
  deriving Repr, DecidableEq, Inhabited

/-- one abscissa as the caller holds it: an integer (python `int`, `np.int8 … np.uint64`, an entry of an integer list /
    array; unbounded here - fixed-width overflow is not modelled) or a float -/
inductive PyScalar (α : Type) where
  | int (n : Int)
  | float (x : α)
  deriving Repr, DecidableEq, Inhabited

/-- the argument of `local_depth`: a scalar (also a 0-d array) or an array / list / tuple, of integers or of floats (a list
    mixing both is a float array for numpy) -/
inductive PyArg (α : Type) where
  | int (n : Int)
  | float (x : α)
  | intArray (ns : List Int)
  | floatArray (xs : List α)
  deriving Repr, DecidableEq, Inhabited

/-- one conversion of the argument (read from the source, in execution order) -/
inductive ArgOp where
  /-- `np.abs(z)`: keeps the dtype -/
  | abs
  /-- `np.asarray(z)` without a dtype: keeps the dtype -/
  | asArray
  /-- `np.asarray(z, dtype=float)` and friends: every numeric kind becomes float64 -/
  | asFloat
  deriving Repr, DecidableEq, Inhabited

/-- the C cast `double → integer` numpy performs when a float is stored into an integer array: toward zero -/
class PyTrunc (α : Type) where
  trunc : α → Int

instance : PyTrunc Float where
  trunc x := x.toInt64.toInt

section generic
variable {α : Type} [PyNum α]

def nan : α := PyNum.nat 0 / PyNum.nat 0

/-- environment update -/
def setVar (ρ : String → α) (k : String) (v : α) : String → α := fun n => if n = k then v else ρ n

/-- `np.isclose(a, b)` with the default tolerances: `|a − b| ≤ 1e-8 + 1e-5·|b|` -/
def isclose (a b : α) : Bool :=
  PyNum.le (PyNum.abs (a - b)) (PyNum.dec 1 8 + PyNum.dec 1 5 * PyNum.abs b)

/-! ### Part 1: depth function and polyline of the generic elongation groove -/

def pieceCond (ρ : String → α) (p : Piece) (z : α) : Bool :=
  (match p.lo with
   | none => true
   | some l => PyNum.le (Expr.eval ρ l) z) && PyNum.lt z (Expr.eval ρ p.hi)

/-- `np.piecewise(z, conds, funcs)`: every condition in order overwrites, the extra function fills the rest -/
def piecewise (ρ : String → α) (z : α) : List Piece → α → α
  | [], acc => acc
  | p :: ps, acc => piecewise ρ z ps (if pieceCond ρ p z then Expr.eval (setVar ρ "z" z) p.fn else acc)

/-- `GenericElongationGroove.local_depth`: `z = np.abs(z)` first (when `useAbs`) -/
def localDepth (useAbs : Bool) (pieces : List Piece) (dflt : Expr) (ρ : String → α) (z : α) : α :=
  let a := if useAbs then PyNum.abs z else z
  piecewise ρ a pieces (Expr.eval (setVar ρ "z" a) dflt)

/-! #### the ARGUMENT of `local_depth`: which numeric kind the caller hands over, and what the source does to it

`local_depth(z)` is called with python ints and floats, numpy integer / float scalars, lists and arrays of either.  numpy
gives every such argument ONE dtype (an integer one or a float one); `np.abs` and `np.asarray(z)` keep it,
`np.asarray(z, dtype=float)` turns integers into floats, and `np.piecewise(z, …)` allocates its RESULT with the dtype of `z`:
a float computed by a contour-line function is stored into an integer result by the C cast (toward zero).  The statements
before the `np.piecewise` call are read by the translator into a list of `ArgOp`; `localDepthElem` runs them. -/

/-- the embedding of the integers into the carrier (`float(n)`) -/
def ofInt (n : Int) : α := if n < 0 then -(PyNum.nat n.natAbs) else PyNum.nat n.natAbs

/-- the position a scalar stands for -/
def PyScalar.val : PyScalar α → α
  | .int n => ofInt n
  | .float x => x

def ArgOp.onElem : ArgOp → PyScalar α → PyScalar α
  | .abs, .int n => .int n.natAbs
  | .abs, .float x => .float (PyNum.abs x)
  | .asArray, s => s
  | .asFloat, s => .float s.val

/-- the statements before `np.piecewise`, run on one entry of the argument -/
def convElem (ops : List ArgOp) (s : PyScalar α) : PyScalar α := ops.foldl (fun s o => o.onElem s) s

/-- `np.piecewise` stores the value `v` into a result that has the dtype of (the converted) `z` -/
def storeLike [PyTrunc α] (s : PyScalar α) (v : α) : PyScalar α :=
  match s with
  | .int _ => .int (PyTrunc.trunc v)
  | .float _ => .float v

/-- `GenericElongationGroove.local_depth` on one entry of its argument, as the caller gets it back: conversions, then
    `np.piecewise` at the position the converted entry stands for, stored with the converted entry's dtype -/
def localDepthElem [PyTrunc α] (ops : List ArgOp) (pieces : List Piece) (dflt : Expr) (ρ : String → α)
    (s : PyScalar α) : PyScalar α :=
  let c := convElem ops s
  storeLike c (piecewise ρ c.val pieces (Expr.eval (setVar ρ "z" c.val) dflt))

def PyArg.elems : PyArg α → List (PyScalar α)
  | .int n => [.int n]
  | .float x => [.float x]
  | .intArray ns => ns.map .int
  | .floatArray xs => xs.map .float

/-- `local_depth(arg)`: entry by entry (numpy broadcasts the conversions and `np.piecewise` over the array) -/
def localDepthArg [PyTrunc α] (ops : List ArgOp) (pieces : List Piece) (dflt : Expr) (ρ : String → α)
    (a : PyArg α) : List (PyScalar α) :=
  a.elems.map (localDepthElem ops pieces dflt ρ)

/-- `np.linspace(a, b, n, endpoint=False)`: `arange(n) * ((b − a) / n) + a` -/
def linspaceOpen (a b : α) (n : Nat) : List α :=
  (List.range n).map fun k => PyNum.nat k * ((b - a) / PyNum.nat n) + a

/-- `np.linspace(a, b, n)`: `arange(n) * ((b − a) / (n − 1)) + a`, last entry overwritten with `b` -/
def linspaceClosed (a b : α) : Nat → List α
  | 0 => []
  | 1 => [a]
  | m + 2 => ((List.range (m + 1)).map fun k => PyNum.nat k * ((b - a) / PyNum.nat (m + 1)) + a) ++ [b]

def segPoints (ρ : String → α) (n : Nat) : Seg → List (α × α)
  | .pt z y => [(Expr.eval ρ z, Expr.eval ρ y)]
  | .ptIf ga gb z y =>
    if isclose (Expr.eval ρ ga) (Expr.eval ρ gb) then [] else [(Expr.eval ρ z, Expr.eval ρ y)]
  | .arc ga gb a b fn =>
    if isclose (Expr.eval ρ ga) (Expr.eval ρ gb) then []
    else (linspaceOpen (Expr.eval ρ a) (Expr.eval ρ b) n).map fun z => (z, Expr.eval (setVar ρ "z" z) fn)

/-- the vertices `_enumerate_contour_points` yields (outer end of the right half first, centre last) -/
def rightSide (ρ : String → α) (n : Nat) (segs : List Seg) : List (α × α) :=
  segs.flatMap (segPoints ρ n)

def mirrorPt (p : α × α) : α × α := (-p.1, p.2)

/-- `np.concatenate([left_side, right_side[::-1]])` with `left_side = right_side[:-1]`, abscissae negated -/
def assemble (r : List (α × α)) : List (α × α) := r.dropLast.map mirrorPt ++ r.reverse

def contour (ρ : String → α) (n : Nat) (segs : List Seg) : List (α × α) := assemble (rightSide ρ n segs)

/-! ### Part 2: roll surface grid and interpolation -/

def linPoints (ρ : String → α) (n : Nat) (s : LinSpec) : List α :=
  if s.endpoint then linspaceClosed (Expr.eval ρ s.start) (Expr.eval ρ s.stop) n
  else linspaceOpen (Expr.eval ρ s.start) (Expr.eval ρ s.stop) n

/-- `outer(np.concatenate([-points[::-1], points[1:]]))` with `points` the concatenated `linspace`s; `outer` over `t` -/
def surfaceX (ρ : String → α) (n : Nat) (specs : List LinSpec) (outer : Expr) : List α :=
  let pts := specs.flatMap (linPoints ρ n)
  (pts.reverse.map (fun t => -t) ++ pts.tail).map fun t => Expr.eval (setVar ρ "t" t) outer

/-- one grid value: the translated `surface_y` formula at contour ordinate `cy` and grid abscissa `sx` -/
def surfacePoint (ρ : String → α) (e : Expr) (cy sx : α) : α :=
  Expr.eval (setVar (setVar ρ "cy" cy) "sx" sx) e

/-- the grid in the layout handed to `interpn` (`surface_y.T`): outer index = grid abscissa, inner = contour vertex -/
def surfaceGridT (ρ : String → α) (e : Expr) (ys xs : List α) : List (List α) :=
  xs.map fun x => ys.map fun y => surfacePoint ρ e y x

/-- `surface_y` itself: outer index = contour vertex -/
def surfaceGrid (ρ : String → α) (e : Expr) (ys xs : List α) : List (List α) :=
  ys.map fun y => xs.map fun x => surfacePoint ρ e y x

/-- scipy's linear piece: `slope * (z − x_lo) + y_lo`, `slope = (y_hi − y_lo) / (x_hi − x_lo)` -/
def lerp (p q : α × α) (z : α) : α := (q.2 - p.2) / (q.1 - p.1) * (z - p.1) + p.2

/-- `interp1d(xs, ys, fill_value="extrapolate")(z)` for ascending `xs`: the first segment whose right end is `≥ z`
    (`searchsorted(..., side="left")` clipped to `[1, n−1]`), the last segment beyond the right end -/
def interp1 : List (α × α) → α → α
  | [], _ => nan
  | [p], _ => p.2
  | p :: q :: rest, z => if rest.isEmpty || PyNum.le z q.1 then lerp p q z else interp1 (q :: rest) z

/-- `interpn((xs, zs), G, (x, z))`, method linear, as the tensor product of two linear interpolations
    (`G` indexed `[x][z]`) -/
def bilinear (xs zs : List α) (G : List (List α)) (x z : α) : α :=
  interp1 (xs.zip (G.map fun row => interp1 (zs.zip row) z)) x

/-- `Roll.surface_interpolation(x, z)` at ONE pair of positions as the caller holds them (integers or floats): the
    conversions the source applies to `x` resp. `z` (read by the translator), then `interpn` at the positions the converted
    entries stand for (scipy evaluates in float64 whatever the dtype of the query points) -/
def surfaceInterpElem (opsX opsZ : List ArgOp) (xs zs : List α) (G : List (List α)) (x z : PyScalar α) : α :=
  bilinear xs zs G (convElem opsX x).val (convElem opsZ z).val

/-- the array form `surface_interpolation(xq, zq)`: `np.meshgrid(x, z)` + `reshape(z.size, x.size)` = one ROW per entry of
    `zq`, one column per entry of `xq` -/
def surfaceInterpArg (opsX opsZ : List ArgOp) (xs zs : List α) (G : List (List α)) (xq zq : PyArg α) : List (List α) :=
  zq.elems.map fun z => xq.elems.map fun x => surfaceInterpElem opsX opsZ xs zs G x z

/-! ### Part 3: spline groove -/

def sumL : List α → α
  | [] => PyNum.nat 0
  | a :: as => a + sumL as

def minL : List α → α
  | [] => nan
  | [a] => a
  | a :: b :: as => let m := minL (b :: as); if PyNum.lt m a then m else a

def maxL : List α → α
  | [] => nan
  | [a] => a
  | a :: b :: as => let m := maxL (b :: as); if PyNum.lt a m then m else a

def col (k : Nat) (pts : List (α × α)) : List α := pts.map fun p => if k = 0 then p.1 else p.2

def LTerm.eval (pts : List (α × α)) : LTerm → α
  | .colMean k => sumL (col k pts) / PyNum.nat pts.length
  | .colMin k => minL (col k pts)
  | .colMax k => maxL (col k pts)
  | .first k => (col k pts).headD nan
  | .last k => (col k pts).getLastD nan
  | .nat n => PyNum.nat n
  | .dec m e => PyNum.dec m e
  | .max a b => maxL [a.eval pts, b.eval pts]
  | .add a b => a.eval pts + b.eval pts
  | .sub a b => a.eval pts - b.eval pts
  | .mul a b => a.eval pts * b.eval pts
  | .div a b => a.eval pts / b.eval pts

/-- cyclic predecessors / successors of the ordinates (`np.roll(y, 1)`, `np.roll(y, -1)`) -/
def rollR (l : List α) : List α :=
  match l.getLast? with
  | some x => x :: l.dropLast
  | none => []

def rollL : List α → List α
  | [] => []
  | a :: as => as ++ [a]

/-- which boundary stripping the source performs (read by the translator) -/
inductive StripKind where
  /-- mask `~(onface(roll(y, 1)) & onface(roll(y, -1)))`: every vertex whose two cyclic neighbours lie on the face line -/
  | bothNeighbours
  /-- slice `[first non-zero − 1 : last non-zero + 2]`: the horizontal runs at both ends only -/
  | faceRuns
  deriving Repr, DecidableEq, Inhabited

/-- how the source decides that an ordinate lies on the face line `y = 0` (read by the translator) -/
inductive FaceTest where
  /-- `np.isclose(y, 0)` with numpy's default tolerances (absolute `1e-8`) -/
  | isclose
  /-- `np.abs(y) <= tol` with `tol` a term over the vertex array AS GIVEN (before stripping), e.g.
      `1e-9 * np.max(np.ptp(contour_points, axis=0))`: relative to the extent of the contour -/
  | within (tol : LTerm)
  deriving Repr, DecidableEq, Inhabited

/-- the tolerance of the face test for the polyline `pts` -/
def FaceTest.tol (ft : FaceTest) (pts : List (α × α)) : α :=
  match ft with
  | .isclose => PyNum.dec 1 8
  | .within t => t.eval pts

/-- the face test for the polyline `pts`, as a predicate on ordinates -/
def FaceTest.onFace (ft : FaceTest) (pts : List (α × α)) (y : α) : Bool :=
  match ft with
  | .isclose => GrooveRep.isclose y (PyNum.nat 0)
  | .within t => PyNum.le (PyNum.abs y) (t.eval pts)

/-- a vertex is dropped when both cyclic neighbours have an ordinate on the face line -/
def stripBoth (f : α → Bool) (pts : List (α × α)) : List (α × α) :=
  let ys := col 1 pts
  ((pts.zip ((rollR ys).zip (rollL ys))).filter fun t => !(f t.2.1 && f t.2.2)).map (·.1)

/-- leading vertices are dropped as long as the NEXT vertex still lies on the face line -/
def dropFaceRun (f : α → Bool) : List (α × α) → List (α × α)
  | p :: q :: rest => if f q.2 then dropFaceRun f (q :: rest) else p :: q :: rest
  | l => l

/-- `pts[inner[0] - 1 : inner[-1] + 2]` with `inner` the indices of the ordinates not on the face line (all of `pts` if none) -/
def stripFaceRuns (f : α → Bool) (pts : List (α × α)) : List (α × α) :=
  if (col 1 pts).all f then pts
  else (dropFaceRun f (dropFaceRun f pts).reverse).reverse

/-- boundary stripping of kind `k` with the face predicate `f` (ONE predicate for the whole array: its tolerance is
    computed from the array as given) -/
def strip (k : StripKind) (f : α → Bool) (pts : List (α × α)) : List (α × α) :=
  match k with
  | .bothNeighbours => stripBoth f pts
  | .faceRuns => stripFaceRuns f pts

def shiftX (c : α) (pts : List (α × α)) : List (α × α) := pts.map fun p => (p.1 - c, p.2)

/-- `contour_points[:, 0] -= <centre term>(contour_points)` -/
def centred (centre : LTerm) (pts : List (α × α)) : List (α × α) := shiftX (centre.eval pts) pts

/-- the vertex array a `SplineGroove` ends up with -/
def splinePoints (k : StripKind) (ft : FaceTest) (centre : LTerm) (pts : List (α × α)) : List (α × α) :=
  centred centre (strip k (ft.onFace pts) pts)

/-- are the end ordinates accepted (first and last ordinate on the face line) -/
def splineAccepts (f : α → Bool) (pts : List (α × α)) : Bool :=
  f ((col 1 pts).headD nan) && f ((col 1 pts).getLastD nan)

end generic

/-! ### Part 4: who owns the vertex array of a spline groove

`SplineGroove.__init__` works on ONE local name `contour_points` that starts out as the caller's object.  What the groove
keeps (`self._contour_points`) describes the same shape as its depth function / contour line / depth for the rest of its
life only if it is not the caller's memory, and the polyline "it was given" stays what the caller sees only if the
constructor does not write into the caller's memory.  The statements of `__init__` that decide this are read by the
translator into a list of `ArrOp`; `ownRun` replays them. -/

/-- one statement of `SplineGroove.__init__`, as far as the identity of the array behind the local name is concerned -/
inductive ArrOp where
  /-- `contour_points = np.asarray(contour_points, dtype="float64")`: the caller's array ITSELF when that already is a
      float64 `ndarray` (any memory layout), a fresh array for every other container -/
  | asarray
  /-- `contour_points = contour_points[a:b]` (basic slicing, also under an `if`): a view of the same memory -/
  | view
  /-- `contour_points = contour_points[mask]` (boolean / index array): a fresh array -/
  | select
  /-- `contour_points = contour_points.copy()` -/
  | copy
  /-- `contour_points[:, k] -= …`: writes into whatever memory the local name refers to -/
  | write
  /-- `self._contour_points = contour_points` -/
  | store
  deriving Repr, DecidableEq, Inhabited

structure Own where
  /-- the local name refers to the caller's memory -/
  localIsCallers : Bool := true
  /-- the constructor wrote into the caller's memory -/
  callerWritten : Bool := false
  /-- the groove's vertex array is the caller's memory -/
  storedIsCallers : Bool := false
  /-- a vertex array was stored at all -/
  stored : Bool := false
  deriving Repr, DecidableEq, Inhabited

def ownStep (inputIsF64Array : Bool) (s : Own) : ArrOp → Own
  | .asarray => { s with localIsCallers := s.localIsCallers && inputIsF64Array }
  | .view => s
  | .select => { s with localIsCallers := false }
  | .copy => { s with localIsCallers := false }
  | .write => { s with callerWritten := s.callerWritten || s.localIsCallers }
  | .store => { s with storedIsCallers := s.localIsCallers, stored := true }

/-- replay of the statement list for a caller who hands over a float64 `ndarray` (`true`) or any other container -/
def ownRun (inputIsF64Array : Bool) (ops : List ArrOp) : Own := ops.foldl (ownStep inputIsF64Array) {}

/-- what `groove.contour_points` shows when the caller's memory meanwhile holds `callerNow` and the array the constructor
    allocated holds `own` -/
def grooveReads {β : Type} (o : Own) (callerNow own : β) : β := if o.storedIsCallers then callerNow else own

/-- one insertion of a vertex on an existing segment (`p.1 < r.1 < q.1`, `r` on the chord `p q`), anywhere in the list -/
inductive Refine1 {α : Type} (onChord : α × α → α × α → α × α → Prop) : List (α × α) → List (α × α) → Prop where
  | here (p q r : α × α) (rest : List (α × α)) : onChord p q r →
      Refine1 onChord (p :: q :: rest) (p :: r :: q :: rest)
  | there (p : α × α) (l l' : List (α × α)) : Refine1 onChord l l' → Refine1 onChord (p :: l) (p :: l')

/-- any number of insertions of collinear vertices -/
inductive Refines {α : Type} (onChord : α × α → α × α → α × α → Prop) : List (α × α) → List (α × α) → Prop where
  | refl (l : List (α × α)) : Refines onChord l l
  | step (l l' l'' : List (α × α)) : Refines onChord l l' → Refine1 onChord l' l'' → Refines onChord l l''

end GrooveRep
