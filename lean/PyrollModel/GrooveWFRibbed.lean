import PyrollModel.GrooveWF
/-!
# `EquivalentRibbedGroove.__init__` (C03)

The constructor is straight-line code: it stores some arguments, converts the two angles to radian, works out the radius
`r2` of the circular segment that has the same mean cross-section as the ribbed bar, asks `solve_r123` for the flank angle
and `alpha3`, and hands everything to `GenericElongationGroove.__init__`.  `driver/translate/c03_ribbed.py` reads the
statements into `Gen.C03Ribbed.ribbed : RibbedSpec`; this file interprets such a table (generic over `PyNum`): the
`validated` decorator, the locals (sequentially: a parameter may be re-bound), the keyword arguments of the solver call and
of the `super().__init__` call.  The root finder itself is outside the model: its results are a parameter (`sol`).
-/
namespace GrooveWF

structure RibbedSpec where
  /-- parameters of `__init__` after `self` (name, required) -/
  params : List (String × Bool)
  /-- `validated(signed = …)`: the arguments that may be negative -/
  signed : List String
  /-- is the constructor decorated with `validated` at all -/
  validated : Bool
  /-- `self.<attribute> = <parameter>` (before anything is re-bound) -/
  stored : List (String × String)
  /-- `<local> = <term>` in statement order; terms over the parameters and EARLIER bindings -/
  locals : List (String × Expr)
  solver : String
  solverArgs : List (String × Expr)
  /-- keywords of `super().__init__(…)`; `sol.<key>` = entry `<key>` of the solver's result -/
  superArgs : List (String × Expr)
  /-- `**kwargs` is forwarded to the generic constructor -/
  forwardsKwargs : Bool
  deriving Repr, Inhabited

section
variable {α : Type} [PyNum α]

/-- the statements `<local> = <term>`, one after the other (a later binding of a name shadows the earlier one) -/
def bindLocals (dflt : α) : List (String × Expr) → List (String × α) → List (String × α)
  | [], env => env
  | (n, e) :: r, env => bindLocals dflt r ((n, e.eval (envOfL dflt env)) :: env)

/-- the `validated` decorator on the numbers that were given: each finite, and non-negative unless listed in `signed` -/
def ribbedInputOk (R : RibbedSpec) (given : List (String × α)) : Bool :=
  !R.validated || given.all (fun kv => finite kv.2 && (R.signed.contains kv.1 || geZero kv.2))

/-- the environment after the last local is bound -/
def ribbedEnv (R : RibbedSpec) (dflt : α) (given : List (String × α)) : List (String × α) :=
  bindLocals dflt R.locals given

/-- the keyword arguments of the solver call -/
def ribbedSolverArgs (R : RibbedSpec) (dflt : α) (given : List (String × α)) : List (String × α) :=
  R.solverArgs.map (fun ke => (ke.1, ke.2.eval (envOfL dflt (ribbedEnv R dflt given))))

/-- the arguments handed to `GenericElongationGroove.__init__`: the keywords of the `super().__init__` call (with the
    solver's results `sol`, named `sol.<key>`), then the forwarded `**kwargs` -/
def ribbedArgs (R : RibbedSpec) (dflt : α) (given sol kwargs : List (String × α)) : Params α :=
  ⟨R.superArgs.map (fun ke => (ke.1, ke.2.eval (envOfL dflt (sol ++ ribbedEnv R dflt given))))
    ++ (if R.forwardsKwargs then kwargs else [])⟩

/-- `EquivalentRibbedGroove(**given, **kwargs)` with the solver's answer `sol` -/
def constructRibbed (S : Spec) (R : RibbedSpec) (simple : List (Pt α) → Bool) (cfg : List (String × α)) (N : Nat)
    (dflt : α) (given sol kwargs : List (String × α)) : Except Err (Groove α) :=
  if ribbedInputOk R given then construct S simple cfg N dflt (ribbedArgs R dflt given sol kwargs)
  else .error .negative

end

end GrooveWF
