/-
  HookSource - the shape of `pyroll/core/hooks.py` that the hand-written models of C01 (`HookReg`, `HookEval`, `HookOps`,
  `HookUse`), C02 (`Lifecycle`) and C07 (`Failure`) mirror, written down BY HAND as role lines (canonical statements, see
  `driver/translate/hooks_skeleton.py` for the canonical form: positional parameters named by position, locals numbered
  `v0, v1, …` in the order they are bound, single-use temporaries substituted, doc strings / logging / annotations /
  exception messages dropped, keyword arguments sorted).

  The certificate theorems `hooks_source_as_modelled` of `PyrollProps/C01.lean`, `C02.lean`, `C07.lean` state that the
  tables GENERATED from the working tree on every run (`PyrollModel/Gen/C01Hooks.lean`, `C02Hooks.lean`, `C07Hooks.lean`)
  equal these.  When the source is changed on purpose, the model has to be re-read against the new statements and this
  file updated together with it - that is the point.  Import-free.
-/

namespace HookSource

/-- `_all_finite` - mirrored by `Failure.af` / `allFinite`: `np.isfinite(value).all()`, element-wise on TypeError for lists / tuples / arrays, element-wise on ValueError (ragged); everything else counts as finite -/
def allFinite : List String :=
  ["def(value)",
   "try:",
   "  return bool(np.isfinite(value).all())",
   "except TypeError:",
   "  if (isinstance(value, (list, tuple)) or (isinstance(value, np.ndarray) and value.ndim > 0)):",
   "    return all((_all_finite(v0) for v0 in value))",
   "  return True",
   "except ValueError:",
   "  return all((_all_finite(v0) for v0 in value))"]

/-- `HookFunction.__init__` - mirrored by a `HookFunction` is created with an EMPTY mark set of its own (`HF` + the marks keyed by function id); the flags are stored, nothing else happens -/
def hookFunction_init : List String :=
  ["def(self, func, hook, tryfirst=False, trylast=False, wrapper=False)",
   "self.function := func",
   "self.module := func.__module__",
   "self.qualname := func.__qualname__",
   "self.name := func.__name__",
   "self.hook := hook",
   "self._active_instances := set()",
   "self.wrapper := wrapper",
   "self._tryfirst := tryfirst",
   "self._trylast := trylast"]

/-- `HookFunction.cycle` - mirrored by the public flag the C01 correspondence reads between operations (`obs … c:`), C07 `marks` -/
def hookFunction_cycle : List String :=
  ["def(self) @property",
   "return len(self._active_instances) > 0"]

/-- `HookFunction.__call__` - mirrored by `HookEval.ev` / `HookUse.evx` (wrapper and plain case, marks as state, `excUnmark`), `Failure.eval … (.chain i h (f :: fs))` -/
def hookFunction_call : List String :=
  ["def(self, instance)",
   "v0 := id(instance)",
   "v1 := v0 in self._active_instances",
   "v2 := self._determine_extra_args(v1)",
   "self._active_instances.add(v0)",
   "try:",
   "  if self.wrapper:",
   "    v3 := self.function(instance, **v2)",
   "    next(v3)",
   "    v3.send(getattr(type(instance), self.hook.name, self.hook).get_result(instance))",
   "    raise SyntaxError",
   "  else:",
   "    v4 := self.function(instance, **v2)",
   "except StopIteration as v5:",
   "  v4 := v5.value",
   "finally:",
   "  if not v1:",
   "    self._active_instances.discard(v0)",
   "return v4"]

/-- `HookFunction._determine_extra_args` - mirrored by `cycle` is handed over exactly when the function has a parameter of that name (`Flags.aware`, C07 `Body.ifCycle`) -/
def hookFunction_determineExtraArgs : List String :=
  ["def(self, cycle)",
   "v0 := {}",
   "if 'cycle' in inspect.signature(self.function).parameters:",
   "  v0['cycle'] := cycle",
   "return v0"]

/-- `HookFunction.__enter__` - mirrored by `with hf:` does nothing on entry -/
def hookFunction_enter : List String :=
  ["def(self)",
   "pass"]

/-- `HookFunction.__exit__` - mirrored by … and removes the registration through ITS hook on exit (`Op.remove` through the owner) -/
def hookFunction_exit : List String :=
  ["def(self, exc_type, exc_val, exc_tb)",
   "self.hook.remove_function(self)"]

/-- `Hook.__init__` - mirrored by a new `Hook` has six EMPTY stores (`HookObj` default) -/
def hook_init : List String :=
  ["def(self, name=None, owner=None)",
   "self.name := name",
   "self.owner := owner",
   "self._first_functions := []",
   "self._last_functions := []",
   "self._functions := []",
   "self._wrappers := []",
   "self._first_wrappers := []",
   "self._last_wrappers := []",
   "self.__orig_class__ := None"]

/-- `Hook.__set_name__` - mirrored by name and owner are set when the hook is put on a class (`Op.defClass … hook`, `Op.extension`) -/
def hook_setName : List String :=
  ["def(self, owner, name)",
   "self.name := name",
   "self.owner := owner"]

/-- `Hook.__get__`, class-level part - mirrored by `HookReg.touch` / `HookReg.askAs`: asked for a class other than its
    owner (a hook found on a base class by attribute lookup - also when the access goes through an instance -, `super(K, x).h`,
    an explicit descriptor call) the question is handed to the hook object of THAT class: with `reuse` the one the class
    carries in its own `__dict__`, a new empty one being created only when it carries none (or one that belongs to another
    class); without `reuse` a NEW empty hook object every time, which replaces whatever the class carried.  On the class
    itself the descriptor is returned.  The flag is the generated fact `getOwnerReuse`. -/
def hook_getClass (reuse : Bool) : List String :=
  ["def(self, instance, owner)",
   "if self.owner != owner:"] ++
  (if reuse then
    ["  v0 := owner.__dict__.get(self.name, None)",
     "  if (not isinstance(v0, Hook) or v0.owner != owner):",
     "    v0 := Hook()",
     "    v0.__orig_class__ := self.__orig_class__",
     "    setattr(owner, self.name, v0)"]
  else
    ["  v0 := Hook()",
     "  v0.__orig_class__ := self.__orig_class__",
     "  setattr(owner, self.name, v0)"]) ++
  ["  return v0.__get__(instance, owner)",
   "if instance is None:",
   "  return self"]

/-- `Hook.__get__`, explicit value - mirrored by `Life.ev … (.get i n)` (plain value / callable by the number of parameters `inspect.signature` reports / `None` reads as unset) and `Failure.eval … (.read i h)` (`present (st.dict i h)`) -/
def hook_getExplicit : List String :=
  ["v1 := instance.__dict__.get(self.name, None)",
   "if v1 is not None:",
   "  if callable(v1):",
   "    if len(inspect.signature(v1).parameters) == 0:",
   "      v1 := v1()",
   "    else:",
   "      v1 := v1(instance)",
   "    return v1",
   "  return v1"]

/-- `Hook.__get__`, remembered value - mirrored by `Life.ev … (.unset i n)`, `Failure.eval` (`present (st.cache i h)`), `Hooks.computes` (a cached value is served without evaluation) -/
def hook_getCached : List String :=
  ["v1 := instance.__cache__.get(self.name, None)",
   "if v1 is not None:",
   "  return v1"]

/-- `Hook.__get__`, computing part (documentation only: the recogniser accepts nothing but `get_result`, conversions that raise, one store and the return, and the models CONSUME the facts `getChecks`, `getStoreAfter` read from it; `getStore` is pinned) - mirrored by `Failure.post` / `stored` / `store`, `Life.finishGet` / `noneOutcome`, `Hooks.useEval` -/
def hook_getCompute : List String :=
  ["try:",
   "  v1 := self.get_result(instance)",
   "except RecursionError as v2:",
   "  raise AttributeError from caught",
   "if v1 is None:",
   "  raise AttributeError",
   "if not _all_finite(v1):",
   "  raise ValueError",
   "instance.__cache__[self.name] := v1",
   "return v1"]

/-- `Hook.__set__` - mirrored by `Life.step … (.assign i n v)`: writes `__dict__` only -/
def hook_set : List String :=
  ["def(self, instance, value)",
   "instance.__dict__[self.name] := value"]

/-- `Hook.__delete__` - mirrored by `Life.step … (.delete i n)`: pops from `__dict__` only, an absent name is no error -/
def hook_delete : List String :=
  ["def(self, instance)",
   "instance.__dict__.pop(self.name, None)"]

/-- `Hook._yield_functions_from` - mirrored by `HookReg.walk` (documentation only: the certificate pins the facts `yieldOver`, `yieldGuard`, `yieldReversed` read from it, the model consumes `yieldReversed`) -/
def hook_yieldFunctionsFrom : List String :=
  ["def(self, attr)",
   "for v0 in self.owner.__mro__:",
   "  v1 := getattr(getattr(v0, self.name, None), attr, None)",
   "  if v1:",
   "    yield from reversed(v1)"]

/-- `Hook.functions_gen` - mirrored by `HookReg.walkAll … implTiers` (documentation only: the model consumes `functionsGenOrder`) -/
def hook_functionsGen : List String :=
  ["def(self) @property",
   "yield from self._yield_functions_from('_first_wrappers')",
   "yield from self._yield_functions_from('_wrappers')",
   "yield from self._yield_functions_from('_last_wrappers')",
   "yield from self._yield_functions_from('_first_functions')",
   "yield from self._yield_functions_from('_functions')",
   "yield from self._yield_functions_from('_last_functions')"]

/-- `Hook.functions` - mirrored by `HookReg.functionsOf`: the list of `functions_gen` -/
def hook_functions : List String :=
  ["def(self) @property",
   "return list(self.functions_gen)"]

/-- `Hook.get_result` - mirrored by `HookEval.ev` / `Life.ev … (.chain i rs)` / `Failure.eval … (.chain i h fs)`: the first result that `is not None`, else `None` (falls off the loop) -/
def hook_getResult : List String :=
  ["def(self, instance)",
   "for v0 in self.functions_gen:",
   "  v1 := v0(instance)",
   "  if v1 is not None:",
   "    return v1"]

/-- `Hook.add_function` - mirrored by `HookObj.push` through `addStore?` (the selection is consumed as `addStores`); a `HookFunction` handed in is unwrapped; one NEW `HookFunction` per call; it is returned -/
def hook_addFunction : List String :=
  ["def(self, func, tryfirst=False, trylast=False, wrapper=False)",
   "if isinstance(func, HookFunction):",
   "  func := func.function",
   "v0 := HookFunction(func, self, tryfirst=tryfirst, trylast=trylast, wrapper=wrapper)",
   "if wrapper:",
   "  if tryfirst:",
   "    self._first_wrappers.append(v0)",
   "  elif trylast:",
   "    self._last_wrappers.append(v0)",
   "  else:",
   "    self._wrappers.append(v0)",
   "elif tryfirst:",
   "  self._first_functions.append(v0)",
   "elif trylast:",
   "  self._last_functions.append(v0)",
   "else:",
   "  self._functions.append(v0)",
   "return v0"]

/-- `Hook.__call__` - mirrored by the decorator entry: with and without a function it is `add_function` with the same flags -/
def hook_call : List String :=
  ["def(self, func=None, tryfirst=False, trylast=False, wrapper=False)",
   "if func is None:",
   "  return partial(self.add_function, tryfirst=tryfirst, trylast=trylast, wrapper=wrapper)",
   "return self.add_function(func, tryfirst=tryfirst, trylast=trylast, wrapper=wrapper)"]

/-- `Hook.remove_function` - mirrored by `HookObj.erase` (documentation only: the model consumes `removeStores`, the certificate pins `removeIgnoresAbsent`) -/
def hook_removeFunction : List String :=
  ["def(self, func)",
   "for v0 in [self._functions, self._last_functions, self._first_functions, self._wrappers, self._last_wrappers, self._first_wrappers]:",
   "  try:",
   "    v0.remove(func)",
   "  except ValueError:",
   "    continue",
   "return func.function"]

/-- `_HookHostMeta.__setattr__` - mirrored by a `Hook` put on an existing class gets name and owner (`Op.extension`) -/
def hookHostMeta_setattr : List String :=
  ["def(self, key, value)",
   "if isinstance(value, Hook):",
   "  value.__set_name__(self, key)",
   "super().__setattr__(key, value)"]

/-- `HookHost.__init__` - mirrored by a new object has an empty `__cache__` (`Life.blank`, `Hooks.Obj`) -/
def hookHost_init : List String :=
  ["def(self)",
   "self.__cache__ := dict()"]

/-- `HookHost.reevaluate_cache` - mirrored by `Life.reevalLoop`, `Hooks.useEval … true`: every remembered name (copy of the keys) is recomputed with `get_result` of the hook of `type(self)` and stored in `__cache__` whatever the result -/
def hookHost_reevaluateCache : List String :=
  ["def(self)",
   "for v0 in list(self.__cache__.keys()):",
   "  self.__cache__[v0] := getattr(type(self), v0).get_result(self)"]

/-- `HookHost.has_set` - mirrored by `Life.hasSet` -/
def hookHost_hasSet : List String :=
  ["def(self, name)",
   "return name in self.__dict__"]

/-- `HookHost.has_cached` - mirrored by `Life.hasCached` -/
def hookHost_hasCached : List String :=
  ["def(self, name)",
   "return name in self.__cache__"]

/-- `HookHost.has_set_or_cached` - mirrored by `Life.step … (.hasSetOrCached i n)` -/
def hookHost_hasSetOrCached : List String :=
  ["def(self, name)",
   "return (self.has_set(name) or self.has_cached(name))"]

/-- `HookHost.has_value` - mirrored by `Life.step … (.hasValue i n)`, `Failure.step … (.has i h)`, `Hooks.UOp.has`: `hasattr` = the read, AttributeError → False -/
def hookHost_hasValue : List String :=
  ["def(self, name)",
   "return hasattr(self, name)"]

/-- `HookHost.extension_class` - mirrored by `Hooks.step … (.extension c)`: only hooks the class does not have in its own `__dict__` -/
def hookHost_extensionClass : List String :=
  ["def(cls, source) @classmethod",
   "for (v0, v1) in source.__dict__.items():",
   "  if (isinstance(v1, Hook) and v0 not in cls.__dict__):",
   "    setattr(cls, v0, v1)",
   "return cls"]

/-- `HookHost.__attrs__` - mirrored by explicit | remembered values without private names and weak references (not a template of the hand-over: `Unit.Profile.__init__` copies `__dict__`; pinned so that a change is noticed) -/
def hookHost_attrs : List String :=
  ["def(self) @property",
   "return {v0: v1 for (v0, v1) in (self.__dict__ | self.__cache__).items() if (not v0.startswith('_') and not isinstance(v1, weakref.ref))}"]

/-- `HookHost.root_hook_fallback` - mirrored by `Life.fallback` default: `None` -/
def hookHost_rootHookFallback : List String :=
  ["def(self, hook)",
   "return None"]

/-- `HookHost.evaluate_and_set_hooks` - mirrored by `Life.rootLoop`: applicable root hooks in list order, `get_result` of the hook of `type(self)`, fall-back, AttributeError, `setattr` (explicit value); the numeric flattening is outside the model -/
def hookHost_evaluateAndSetHooks : List String :=
  ["def(self)",
   "def v0():",
   "  for v1 in root_hooks:",
   "    if issubclass(type(self), v1.owner):",
   "      v1 := getattr(type(self), v1.name)",
   "      v2 := v1.get_result(self)",
   "      if v2 is None:",
   "        v2 := self.root_hook_fallback(v1)",
   "      if v2 is None:",
   "        raise AttributeError",
   "      setattr(self, v1.name, v2)",
   "      try:",
   "        v3 := np.array(v2)",
   "        yield from v3[((np.isfinite(v3) | np.isinf(v3)) | np.isnan(v3))].flat",
   "      except TypeError:",
   "        continue",
   "return list(v0())"]

/-- `_RootHooksList.add` - mirrored by `root_hooks` is a plain list (`Life.State.roots`, set by `Op.setRoots`) -/
def rootHooksList_add : List String :=
  ["def(self, item)",
   "self.append(item)"]

/-- `_RootHooksList.insert_before` - mirrored by list editing helpers of `root_hooks` -/
def rootHooksList_insertBefore : List String :=
  ["def(self, position, item)",
   "self.insert(self.index(position), item)"]

/-- `_RootHooksList.insert_after` -/
def rootHooksList_insertAfter : List String :=
  ["def(self, position, item)",
   "self.insert((self.index(position) + 1), item)"]

/-- `_RootHooksList.remove_last` -/
def rootHooksList_removeLast : List String :=
  ["def(self, item)",
   "del self[(-1 - list(reversed(self)).index(item))]"]

/-- every place of `hooks.py` that writes `__dict__`, `__cache__`, `_active_instances` or one of the six stores:
    (function, container, operation), sorted.  `setattr(x)` = `setattr(x, name, value)`: a write to `x.__dict__` or, for a
    hook name on an instance, `Hook.__set__`.  `__copy__` / `__deepcopy__` build NEW objects. -/
def stateWriters : List (String × String × String) :=
  [("Hook.__delete__", "__dict__", "pop"),
   ("Hook.__get__", "__cache__", "[]="),
   ("Hook.__get__", "__dict__", "setattr(owner)"),
   ("Hook.__init__", "_first_functions", "="),
   ("Hook.__init__", "_first_wrappers", "="),
   ("Hook.__init__", "_functions", "="),
   ("Hook.__init__", "_last_functions", "="),
   ("Hook.__init__", "_last_wrappers", "="),
   ("Hook.__init__", "_wrappers", "="),
   ("Hook.__set__", "__dict__", "[]="),
   ("Hook.add_function", "_first_functions", "append"),
   ("Hook.add_function", "_first_wrappers", "append"),
   ("Hook.add_function", "_functions", "append"),
   ("Hook.add_function", "_last_functions", "append"),
   ("Hook.add_function", "_last_wrappers", "append"),
   ("Hook.add_function", "_wrappers", "append"),
   ("Hook.remove_function", "_first_functions", "remove"),
   ("Hook.remove_function", "_first_wrappers", "remove"),
   ("Hook.remove_function", "_functions", "remove"),
   ("Hook.remove_function", "_last_functions", "remove"),
   ("Hook.remove_function", "_last_wrappers", "remove"),
   ("Hook.remove_function", "_wrappers", "remove"),
   ("HookFunction.__call__", "_active_instances", "add"),
   ("HookFunction.__call__", "_active_instances", "discard"),
   ("HookFunction.__init__", "_active_instances", "="),
   ("HookHost.__copy__", "__dict__", "update"),
   ("HookHost.__deepcopy__", "__dict__", "setattr(result)"),
   ("HookHost.__init__", "__cache__", "="),
   ("HookHost.evaluate_and_set_hooks", "__dict__", "setattr(self)"),
   ("HookHost.extension_class", "__dict__", "setattr(cls)"),
   ("HookHost.reevaluate_cache", "__cache__", "[]=")]

def writersOf (cs : List String) : List (String × String × String) := stateWriters.filter fun w => cs.contains w.2.1

/-- the names defined in the class bodies (sorted): no `__getattr__`, `__getattribute__`, `__setattr__` on `HookHost`,
    no further descriptor method on `Hook` -/
def classMembers : List (String × List String) :=
  [("HookFunction()", ["__call__", "__enter__", "__exit__", "__init__", "__repr__", "__str__", "_determine_extra_args", "cycle", "tryfirst", "trylast"]),
   ("Hook(Generic[T])", ["__call__", "__delete__", "__get__", "__init__", "__repr__", "__set__", "__set_name__", "__str__", "_yield_functions_from", "add_function", "functions", "functions_gen", "get_result", "remove_function", "type"]),
   ("_HookHostMeta(ABCMeta)", ["__init__", "__setattr__"]),
   ("HookHost(ReprMixin, LogMixin, metaclass=_HookHostMeta)", ["__attrs__", "__copy__", "__deepcopy__", "__hooks__", "__init__", "evaluate_and_set_hooks", "extension_class", "has_cached", "has_set", "has_set_or_cached", "has_value", "reevaluate_cache", "root_hook_fallback"]),
   ("_RootHooksList(list)", ["add", "insert_after", "insert_before", "remove_last"])]

def membersOf (cs : List String) : List (String × List String) := classMembers.filter fun m => cs.contains m.1

/-- module level: `root_hooks` is one module-wide instance of the list subclass -/
def moduleLevel : List String := ["root_hooks := _RootHooksList()"]

end HookSource
