import PyrollModel.Config
import PyrollModel.Proto
open Proto

/-
  Line-protocol driver of the configuration model (C20), run by `driver/props/c20.py` through `Drivers/c20.lean`.

  texts:   `e` = empty, else decimal code points joined by `.`            (97.98 = "ab")
  values:  N | B0 | B1 | I<int> | S<text> | P<text> | E<int> | L[<text>,…] | T[<text>,…] | D[<text>:<text>,…]
           | Y<ctor>:<text> | O<id>          (`L`, `T`, `D` alone = empty collection)
           | U<k>:<value> (instance of the user-defined class #k) | C<class>:<text> (the descriptor of a value)
  types:   bool path str int dict list tuple other<k> ntuple<k> sub<k>:<type>
           enumP:<text>=<int>,… (plain) | enumS:… (str mix-in) | enumI:… (int mix-in) | enumF<k>:… (IntFlag #k)
  ops:     reset | cv … (a descriptor of a hand-written metaclass) | attr … (an attribute of a decorated class: -> cv | plain)
           | assign | delete | setenv | unsetenv | update | updret (what the update would return) | todict | get | envname
           | parse | lattice | select | render | join | pyint | isupper
-/

namespace Config

def decText (s : String) : Option Text :=
  if s = "e" then some [] else (s.splitOn ".").mapM (fun t => t.toNat?.map Char.ofNat)

def encText (t : Text) : String :=
  if t.isEmpty then "e" else ".".intercalate (t.map fun c => toString c.toNat)

def decTexts (s : String) : Option (List Text) :=
  if s = "" then some [] else (s.splitOn ",").mapM decText

def decPair (s : String) : Option (Text × Text) :=
  match s.splitOn ":" with
  | [k, v] => do pure (← decText k, ← decText v)
  | _ => none

def decBaseV (s : String) : Option V :=
  let r := (s.drop 1).toString
  match s.front with
  | 'N' => some .none
  | 'B' => some (.bool (r = "1"))
  | 'I' => r.toInt?.map .int
  | 'S' => (decText r).map .str
  | 'P' => (decText r).map .path
  | 'E' => r.toInt?.map .enum
  | 'L' => (decTexts r).map .list
  | 'T' => (decTexts r).map .tuple
  | 'D' => if r = "" then some (.dict []) else ((r.splitOn ",").mapM decPair).map .dict
  | 'Y' => match r.splitOn ":" with
    | [c, t] => do pure (.sym (← c.toNat?) (← decText t))
    | _ => none
  | 'O' => r.toNat?.map .obj
  | 'C' => match r.splitOn ":" with
    | [c, n] => do pure (.desc (← c.toNat?) (← decText n))
    | _ => none
  | _ => none

/-- `U<k>:<value>` = an instance of the user-defined class #k -/
def decV (s : String) : Option V :=
  if s.front = 'U' then
    match (s.drop 1).toString.splitOn ":" with
    | k :: rest => do pure (.inst (← k.toNat?) (← decBaseV (":".intercalate rest)))
    | [] => none
  else decBaseV s

def encV : V → String
  | .none => "N"
  | .bool b => if b then "B1" else "B0"
  | .int n => s!"I{n}"
  | .str t => "S" ++ encText t
  | .path t => "P" ++ encText t
  | .enum v => s!"E{v}"
  | .list l => "L" ++ ",".intercalate (l.map encText)
  | .tuple l => "T" ++ ",".intercalate (l.map encText)
  | .dict kvs => "D" ++ ",".intercalate (kvs.map fun (k, v) => encText k ++ ":" ++ encText v)
  | .sym c t => s!"Y{c}:" ++ encText t
  | .obj i => s!"O{i}"
  | .inst k v => s!"U{k}:" ++ encV v
  | .desc c n => s!"C{c}:" ++ encText n

def decMember (s : String) : Option (Text × Int) :=
  match s.splitOn "=" with
  | [n, v] => do pure (← decText n, ← v.toInt?)
  | _ => none

def decMix (s : String) : Option Mix :=
  match s with
  | "P" => some .plain
  | "S" => some .str
  | "I" => some .int
  | _ => if s.startsWith "F" then (s.drop 1).toString.toNat?.map .flag else none

def decBaseTy (s : String) : Option Ty :=
  match s with
  | "bool" => some .bool
  | "path" => some .path
  | "str" => some .str
  | "int" => some .int
  | "dict" => some .dict
  | "list" => some .list
  | "tuple" => some .tuple
  | _ =>
    if s.startsWith "other" then (s.drop 5).toString.toNat?.map .other
    else if s.startsWith "ntuple" then (s.drop 6).toString.toNat?.map .ntuple
    else if s.startsWith "enum" then
      match ((s.drop 4).toString).splitOn ":" with
      | [mix, ms] => do
        let members ← if ms = "" then some [] else (ms.splitOn ",").mapM decMember
        pure (.enum (← decMix mix) members)
      | _ => none
    else none

/-- `sub<k>:sub<j>:<base type>` -/
def decTyParts : List String → Option Ty
  | [] => none
  | p :: rest =>
    if p.startsWith "sub" then do pure (.sub (← (p.drop 3).toString.toNat?) (← decTyParts rest))
    else decBaseTy (":".intercalate (p :: rest))

def decTy (s : String) : Option Ty := decTyParts (s.splitOn ":")

def encErr : Err → String
  | .valueError => "ValueError"
  | .keyError => "KeyError"
  | .typeError => "TypeError"
  | .attributeError => "AttributeError"
  | .other => "Other"

def branchName : Branch → String
  | .custom => "custom" | .bool => "bool" | .path => "path" | .str => "str" | .enum => "enum" | .mapping => "mapping"
  | .iterable => "iterable" | .int => "int"

def encRes : Except Err V → String
  | .ok v => "ok " ++ encV v
  | .error e => "err " ++ encErr e

def encOut : Out → String
  | .ok => "ok"
  | .err e => "err " ++ encErr e

/-- the custom parsers the harness registers (same table in `driver/props/c20.py: PARSERS`) -/
def parsers : Parsers
  | 0, t => match pyInt t with | some n => .ok (.int n) | none => .error .valueError     -- `int`
  | 1, t => .ok (.str ((strip t).map upperC))                                             -- `lambda s: s.strip().upper()`
  | 2, _ => .error .valueError                                                            -- always raises ValueError
  | 3, t => .ok (.int t.length)                                                           -- `len`
  | 4, _ => .ok .none                                                                     -- `lambda s: None`
  | 5, t => .ok (.list (split ';' t))                                                     -- `lambda s: s.split(";")`
  | _, _ => .error .other

def optParser (s : String) : Option (Option Nat) := if s = "-" then some none else s.toNat?.map some

def decUpd (s : String) : Option (Text × V) :=
  match s.splitOn "=" with
  | [n, v] => do pure (← decText n, ← decV v)
  | _ => none

def encDict (d : List (Text × V)) : String :=
  if d.isEmpty then "empty" else " ".intercalate (d.map fun (n, v) => encText n ++ "=" ++ encV v)

structure DState where
  decl : List CV
  st : State

def handle (ds : DState) (line : String) : DState × String :=
  let bad := (ds, "bad-op")
  let stepWith (op : Op) : DState × String :=
    let (s', o) := step src ds.decl ds.st op
    ({ ds with st := s' }, encOut o)
  match toks line with
  | ["reset"] => (⟨[], State.init⟩, "ok")
  | ["cv", c, n, ty, dflt, p, ov, pre, m] =>
    match nat? c, decText n, decTy ty, decV dflt, optParser p, decText ov, decText pre, decText m with
    | some c, some n, some ty, some dflt, some p, some ov, some pre, some m =>
      ({ ds with decl := ds.decl ++ [declare src ⟨dflt, ty, ov, pre, p⟩ c n m] }, "ok")
    | _, _, _, _, _, _, _, _ => bad
  -- one attribute of the body of a class decorated with `config(pre)`: the model's decorator decides what it becomes
  | ["attr", c, n, ty, dflt, p, ov, pre, m] =>
    match nat? c, decText n, decTy ty, decV dflt, optParser p, decText ov, decText pre, decText m with
    | some c, some n, some ty, some dflt, some p, some ov, some pre, some m =>
      match decorate1 src c pre m ⟨n, dflt, ty, p, ov⟩ with
      | some cv => ({ ds with decl := ds.decl ++ [cv] }, "cv")
      | none => (ds, "plain")
    | _, _, _, _, _, _, _, _ => bad
  | ["isupper", t] => match decText t with
    | some t => (ds, if pyIsUpper t then "1" else "0")
    | none => bad
  | ["assign", c, n, v] => match nat? c, decText n, decV v with
    | some c, some n, some v => stepWith (.assign c n v)
    | _, _, _ => bad
  | ["delete", c, n] => match nat? c, decText n with
    | some c, some n => stepWith (.delete c n)
    | _, _ => bad
  | ["setenv", x, t] => match decText x, decText t with
    | some x, some t => stepWith (.setenv x t)
    | _, _ => bad
  | ["unsetenv", x] => match decText x with
    | some x => stepWith (.unsetenv x)
    | _ => bad
  | "update" :: c :: upd => match nat? c, upd.mapM decUpd with
    | some c, some upd => stepWith (.update c upd)
    | _, _ => bad
  | "updret" :: c :: upd => match nat? c, upd.mapM decUpd with
    | some c, some upd => (ds, match updateResult src ds.decl ds.st c upd with
      | .ok (some d) => "ok " ++ encDict d
      | .ok none => "ok none"
      | .error e => "err " ++ encErr e)
    | _, _ => bad
  | ["todict", c] => match nat? c with
    | some c => (ds, encDict (toDict src ds.decl c))
    | none => bad
  | ["get", c, n] => match nat? c, decText n with
    | some c, some n => match lookupCV ds.decl c n with
      | some cv => (ds, encRes (get src parsers cv ds.st))
      | none => (ds, "unknown")
    | _, _ => bad
  | ["envname", c, n] => match nat? c, decText n with
    | some c, some n => match lookupCV ds.decl c n with
      | some cv => (ds, encText (envName src cv))
      | none => (ds, "unknown")
    | _, _ => bad
  | ["parse", ty, p, t] => match decTy ty, optParser p, decText t with
    | some ty, some p, some t => (ds, encRes (parse src parsers ⟨0, [], .none, ty, p, [], [], []⟩ t))
    | _, _, _ => bad
  -- the place of a type in the lattice: `<exact|none> <dispatch classes it is a subclass of, in a fixed order>`
  | ["lattice", ty] => match decTy ty with
    | some ty =>
      let order : List Branch := [.bool, .int, .path, .str, .enum, .mapping, .iterable]
      let ex := match ty.exact with | some b => branchName b | none => "none"
      (ds, ex ++ " " ++ ",".intercalate ((order.filter ty.supers.contains).map branchName))
    | none => bad
  -- which test of `parse` a value of this type takes: `<position> <class>` | `none`
  | ["select", ty] => match decTy ty with
    | some ty => (ds, match selectedTest ty src.parseTests with
      | some b => s!"{src.parseTests.idxOf b} {branchName b.cls}"
      | none => "none")
    | none => bad
  | ["render", n] => match int? n with
    | some n => (ds, encText (renderInt n))
    | none => bad
  | ["join", l] => match decV l with
    | some (.list items) => (ds, encText (join ',' items))
    | _ => bad
  | ["pyint", t] => match decText t with
    | some t => (ds, match pyInt t with | some n => s!"I{n}" | none => "none")
    | none => bad
  | _ => bad

partial def loop (h : IO.FS.Stream) (ds : DState) : IO Unit := do
  let line ← h.getLine
  if line.isEmpty then return ()
  let (ds', out) := handle ds (line.trimAscii.toString)
  IO.println out
  loop h ds'

def main : IO Unit := do loop (← IO.getStdin) ⟨[], State.init⟩

end Config
