import PyrollModel.Num
/-!
# GeomRot — the vertex-list fragment of shapely a rotator needs (C14)

`shapely.affinity.rotate(geom, angle, origin=(0, 0))` acts vertex-wise with the matrix `[[cos r, -sin r], [sin r, cos r]]`,
`r = angle·π/180`; a polygon is its closed coordinate ring (`first = last`, as `exterior.coords` gives it); `area` is the
shoelace formula and `length` the sum of the edge lengths.  (shapely additionally snaps `|cos r|, |sin r| < 2.5e-16` to `0`;
that is a rounding artefact of IEEE `cos(π/2)` and is not part of the model — the correspondence compares within a tolerance.)

Generic in the carrier: `Float` for running against the code, `ℝ` in `PyrollProofs/RotGeom.lean`.
-/

namespace GeomRot

structure Pt (α : Type) where
  x : α
  y : α
  deriving Repr

variable {α : Type} [PyNum α]

/-- degrees → radians, as shapely computes it: `angle * pi / 180.0` -/
def rad (deg : α) : α := deg * PyNum.pi / PyNum.nat 180

/-- rotation about the origin by `t` radians (counter-clockwise) -/
def rotate (t : α) (p : Pt α) : Pt α :=
  ⟨PyNum.cos t * p.x - PyNum.sin t * p.y, PyNum.sin t * p.x + PyNum.cos t * p.y⟩

def rotateDeg (d : α) (p : Pt α) : Pt α := rotate (rad d) p

/-- `rotate(polygon, angle=d, origin=(0, 0))` on the coordinate ring -/
def rotPoly (d : α) (ps : List (Pt α)) : List (Pt α) := ps.map (rotateDeg d)

def cross (p q : Pt α) : α := p.x * q.y - q.x * p.y

/-- `Σ (x_i·y_{i+1} − x_{i+1}·y_i)` over consecutive vertices = twice the signed area of a closed ring -/
def sumCross : List (Pt α) → α
  | p :: q :: r => cross p q + sumCross (q :: r)
  | _ => PyNum.nat 0

/-- shoelace area of a closed ring -/
def area (ring : List (Pt α)) : α := PyNum.abs (sumCross ring) / PyNum.nat 2

def dist (p q : Pt α) : α := PyNum.sqrt ((q.x - p.x) * (q.x - p.x) + (q.y - p.y) * (q.y - p.y))

/-- length of the ring = perimeter -/
def perimeter : List (Pt α) → α
  | p :: q :: r => dist p q + perimeter (q :: r)
  | _ => PyNum.nat 0

end GeomRot
