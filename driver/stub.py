"""Stub `self` objects for running a real hook-implementation function body on a flat environment
{"in_profile.cross_section.area": 1.2, ...} - used to differential-test translated formulas against the
python function they were generated from."""
import math
import struct


class Stub:
    def __init__(self, env, prefix="", present=None, set_=None, cached=None):
        object.__setattr__(self, "_env", env)
        object.__setattr__(self, "_prefix", prefix)
        object.__setattr__(self, "_present", present)
        object.__setattr__(self, "_set", set_)
        object.__setattr__(self, "_cached", cached)

    def _full(self, name):
        return self._prefix + name

    def __getattr__(self, name):
        if name.startswith("__"):
            raise AttributeError(name)
        full = self._full(name)
        env = self._env
        if full in env:
            return env[full]
        if any(k.startswith(full + ".") or k.startswith(full + "[") for k in env):
            return Stub(env, full + ".", self._present, self._set, self._cached)
        raise AttributeError(full)

    def __getitem__(self, i):
        key = self._prefix[:-1] + f"[{i}]"
        if key in self._env:
            return self._env[key]
        raise IndexError(key)

    def has_value(self, name):
        if self._present is not None:
            return self._full(name) in self._present
        try:
            getattr(self, name)
            return True
        except AttributeError:
            return False

    def has_set(self, name):
        return self._full(name) in (self._set if self._set is not None else self._env)

    def has_cached(self, name):
        return self._full(name) in (self._cached or ())

    def has_set_or_cached(self, name):
        return self.has_set(name) or self.has_cached(name)


def bits(x):
    return struct.unpack("<Q", struct.pack("<d", float(x)))[0]


def unbits(s):
    return struct.unpack("<d", struct.pack("<Q", int(s)))[0]


def close(a, b, rtol=1e-11, atol=1e-300):
    if a is None or b is None:
        return a is b
    if isinstance(a, float) and isinstance(b, float):
        if math.isnan(a) or math.isnan(b):
            return math.isnan(a) and math.isnan(b)
        if math.isinf(a) or math.isinf(b):
            return a == b
    return abs(a - b) <= atol + rtol * max(abs(a), abs(b))


def call_impl(hook_function, env, cycle=False, **stub_kw):
    """call the raw python function behind a HookFunction on a Stub built from env"""
    import inspect
    fn = getattr(hook_function, "function", hook_function)
    kw = {}
    if "cycle" in inspect.signature(fn).parameters:
        kw["cycle"] = cycle
    return fn(Stub(env, **stub_kw), **kw)


def formula_correspondence(ctx, model, found, sampler, n_each=20, module_of=None):
    """For every translated implementation with a main formula: evaluate (a) the real python function on a stub object,
    (b) the generated Lean `Expr` over Float via the model driver, on the same random environments; compare.
    `found`: {lean_name: HookImpl}; `sampler(rng, var_name) -> float`."""
    import importlib
    from .translate import pyexpr
    lines, expect = [], []
    for name, impl in sorted(found.items()):
        exprs = [(g, e) for (g, e, k) in impl.alts if k == "expr"]
        if not exprs:
            continue
        e = exprs[0][1]
        vs = sorted(set(pyexpr.expr_vars(e)))
        modname = "pyroll.core." + impl.module[:-3].replace("/", ".")
        pyfn = getattr(importlib.import_module(modname), impl.fn, None)
        if pyfn is None:
            ctx.tie_breaks.append(f"correspondence: {modname}.{impl.fn} not importable")
            continue
        for _ in range(n_each):
            env = {v: sampler(ctx.rng, v) for v in vs}
            cfg = {k: v for k, v in env.items() if k.startswith("Config.")}
            try:
                if cfg:
                    from pyroll.core import Config
                    for k, v in cfg.items():
                        env[k] = float(getattr(Config, k[7:]))
                real = call_impl(pyfn, {k: v for k, v in env.items() if not k.startswith("Config.")}, cycle=False)
                real = None if real is None else float(real)
            except Exception as ex:  # the function needs more than the formula's variables: guards etc.
                real = ("raised", type(ex).__name__)
            lines.append(name + " " + " ".join(f"{k}={bits(v)}" for k, v in env.items()))
            expect.append((name, env, real))
    if not lines:
        return
    out = ctx.lean_model(model, lines)
    for (name, env, real), o in zip(expect, out):
        ctx.count("formula-eval")
        if isinstance(real, tuple):
            ctx.count("formula-eval-python-raised:" + real[1])
            continue
        if real is None:
            ctx.count("formula-eval-python-none")
            continue
        try:
            lean = unbits(o)
        except Exception:
            ctx.disagreement(f"generated formula {name}: model driver answered {o!r}", {"formula": name, "env": env})
            continue
        if close(real, lean):
            ctx.validated()
        else:
            ctx.disagreement(f"generated formula {name} evaluates differently from the python function",
                             {"formula": name, "env": env, "python": real, "lean_float": lean})
