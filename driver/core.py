"""Check driver core: translate -> build -> audit -> correspondence -> oracle -> decide -> evidence.

See DESIGN.md section 2.6.  Every property module in driver/props/cXX.py exposes

    ID            = "C13"
    LEAN_MODULES  = ["PyrollProps.C13"]           # lake targets holding the property theorems
    MODEL         = "c13"                         # sub-command of Main.lean (or None)
    def translate(ctx) -> None                    # optional: regenerate lean/PyrollModel/Gen/*.lean
    def run(ctx) -> None                          # correspondence + oracle; reports through ctx
"""
import fcntl
import hashlib
import importlib
import json
import os
import random
import re
import subprocess
import sys
import tempfile
import time
import traceback

VERIF = os.path.dirname(os.path.dirname(os.path.abspath(__file__)))
LEAN_DIR = os.path.join(VERIF, "lean")
REPO = os.environ.get("VERIF_REPO", "/repo")
ALLOWED_AXIOMS = {"propext", "Classical.choice", "Quot.sound"}
FORBIDDEN = re.compile(r"\b(sorry|admit|native_decide|bv_decide|implemented_by|unsafe)\b|^axiom\s|maxHeartbeats\s+0\b")

TRUSTED_BASE = [
    "Lean 4.33.0 kernel (thorough tier re-checks the compiled modules with leanchecker)",
    "axioms allowed in property theorems: propext, Classical.choice, Quot.sound (audited with #print axioms on every run); no native_decide/bv_decide/sorry",
    "Python ast->Lean translator (driver/translate) for generated definitions; every generated definition is also run against the code it came from",
    "correspondence harness (driver/props) ties hand-written models to the implementation by sampled differential runs",
    "IEEE-754 rounding, CPython/numpy/scipy/shapely semantics are modelled as parameters (DESIGN.md section 3)",
]


class InfraError(Exception):
    pass


def strip_comments(text):
    """Remove Lean block and line comments (nested block comments handled)."""
    out = []
    i = 0
    depth = 0
    n = len(text)
    while i < n:
        if text.startswith("/-", i):
            depth += 1
            i += 2
        elif depth and text.startswith("-/", i):
            depth -= 1
            i += 2
        elif depth:
            if text[i] == "\n":
                out.append("\n")
            i += 1
        elif text.startswith("--", i):
            while i < n and text[i] != "\n":
                i += 1
        else:
            out.append(text[i])
            i += 1
    return "".join(out)


class Ctx:
    def __init__(self, pid, tier, seed, extended=False):
        self.pid = pid
        self.tier = tier
        self.seed = seed
        self.extended = extended          # failing-input search after a broken tie: larger budgets
        self.rng = random.Random(seed if not extended else seed * 7919 + 13)
        self.evaluations = 0
        self.nontrivial = set()
        self.samples = []
        self.violations = []              # (key, what, replay_obj)
        self.disagreements = []           # (what, replay_obj)  model vs implementation
        self.traces_validated = 0
        self.notes = {}
        self.histogram = {}
        self.assumptions = []
        self.tie_breaks = []              # textual reasons the tie is broken (build, audit, translator gaps)
        self.t0 = time.time()

    # ---- budgets -------------------------------------------------------------------------
    def budget(self, quick, thorough):
        n = quick if self.tier == "quick" else thorough
        if self.extended:
            n *= 5
        scale = float(os.environ.get("VERIF_SCALE", "1"))
        return max(1, int(n * scale))

    # ---- reporting -----------------------------------------------------------------------
    def case(self, canon, nontrivial=True):
        """Count one generated case; canon is any JSON-able canonical form used for distinctness."""
        self.evaluations += 1
        if nontrivial:
            h = hashlib.sha1(json.dumps(canon, sort_keys=True, default=str).encode()).hexdigest()
            self.nontrivial.add(h)

    def sample(self, obj, limit=4):
        if len(self.samples) < limit:
            self.samples.append(obj)

    def count(self, key, n=1):
        self.histogram[key] = self.histogram.get(key, 0) + n

    def violation(self, key, what, replay):
        """The property itself fails on the implementation for a concrete input."""
        self.violations.append((key, what, replay))

    def disagreement(self, what, replay):
        """Model and implementation disagree (tie broken) - not by itself a violation."""
        self.disagreements.append((what, replay))

    def validated(self, n=1):
        self.traces_validated += n

    # ---- Lean model driver ---------------------------------------------------------------
    def lean_model(self, model, lines):
        """Pipe `lines` to the Lean model driver, return list of output lines."""
        return run_model(model, lines)


# -------------------------------------------------------------------------------------------
# Lean: build / audit / model runs
# -------------------------------------------------------------------------------------------
class _Lock:
    def __enter__(self):
        self.f = open(os.path.join(LEAN_DIR, ".build.lock"), "w")
        fcntl.flock(self.f, fcntl.LOCK_EX)
        return self

    def __exit__(self, *a):
        fcntl.flock(self.f, fcntl.LOCK_UN)
        self.f.close()


def lake(args, timeout=3000, input_text=None):
    env = dict(os.environ)
    p = subprocess.run(["lake"] + args, cwd=LEAN_DIR, capture_output=True, text=True, timeout=timeout,
                       input=input_text, env=env)
    return p.returncode, p.stdout + p.stderr


def build(targets):
    with _Lock():
        rc, out = lake(["build"] + targets)
    errors = []
    for line in out.splitlines():
        m = re.match(r"error: (\S+\.lean):(\d+):(\d+): (.*)", line)
        if m:
            errors.append((m.group(1), int(m.group(2)), m.group(4)))
    return rc == 0, out, errors


def module_path(mod):
    return os.path.join(LEAN_DIR, *mod.split(".")) + ".lean"


def theorems_of(mod):
    """Names of theorems declared in a module (namespace-aware, comments stripped), with line numbers."""
    path = module_path(mod)
    if not os.path.exists(path):
        return []
    text = strip_comments(open(path).read())
    ns = []
    res = []
    for ln, line in enumerate(text.splitlines(), 1):
        m = re.match(r"\s*namespace\s+(\S+)", line)
        if m:
            ns.append(m.group(1))
            continue
        m = re.match(r"\s*end\s+(\S+)\s*$", line)
        if m and ns and ns[-1] == m.group(1):
            ns.pop()
            continue
        m = re.match(r"\s*(?:@\[[^\]]*\]\s*)?(?:private\s+|protected\s+)?(?:theorem|lemma)\s+([^\s:({\[]+)", line)
        if m:
            res.append((".".join(ns + [m.group(1)]), ln))
    return res


def imported_project_modules(mod, seen=None):
    """Transitive closure of project-local imports of a module."""
    seen = seen if seen is not None else []
    if mod in seen:
        return seen
    path = module_path(mod)
    if not os.path.exists(path):
        return seen
    seen.append(mod)
    for line in open(path):
        m = re.match(r"\s*import\s+(Pyroll\w+(?:\.\w+)*)", line)
        if m:
            imported_project_modules(m.group(1), seen)
    return seen


def grep_forbidden(mods):
    hits = []
    for mod in mods:
        path = module_path(mod)
        text = strip_comments(open(path).read())
        for ln, line in enumerate(text.splitlines(), 1):
            if FORBIDDEN.search(line):
                hits.append(f"{mod}:{ln}: {line.strip()[:100]}")
    return hits


def audit_axioms(mods, theorems):
    """Run `#print axioms` on every property theorem; returns (ok, {thm: [axioms]}, raw)."""
    src = "".join(f"import {m}\n" for m in mods)
    src += "".join(f"#print axioms {t}\n" for t in theorems)
    with tempfile.NamedTemporaryFile("w", suffix=".lean", delete=False) as f:
        f.write(src)
        tmp = f.name
    try:
        rc, out = lake(["env", "lean", tmp])
    finally:
        os.unlink(tmp)
    result = {}
    # output may wrap over lines: join then regex
    flat = out.replace("\n", " ")
    for m in re.finditer(r"'([^']+)' depends on axioms: \[([^\]]*)\]", flat):
        result[m.group(1)] = [a.strip() for a in m.group(2).split(",") if a.strip()]
    for m in re.finditer(r"'([^']+)' does not depend on any axioms", flat):
        result[m.group(1)] = []
    bad = []
    for t in theorems:
        if t not in result:
            bad.append(f"{t}: no #print axioms output")
        elif not set(result[t]) <= ALLOWED_AXIOMS:
            bad.append(f"{t}: axioms {result[t]}")
    return (rc == 0 and not bad), result, bad, out


def run_model(model, lines):
    data = "\n".join(lines) + "\n"
    with tempfile.NamedTemporaryFile("w", suffix=".ops", delete=False) as f:
        f.write(data)
        tmp = f.name
    try:
        with open(tmp) as fin:
            p = subprocess.run(["lake", "env", "lean", "--run", f"Drivers/{model}.lean"], cwd=LEAN_DIR, stdin=fin,
                               capture_output=True, text=True, timeout=3000)
    finally:
        os.unlink(tmp)
    if p.returncode != 0:
        raise InfraError(f"model driver failed rc={p.returncode}: {p.stderr[:2000]} {p.stdout[-500:]}")
    return p.stdout.splitlines()


def leanchecker(mods):
    rc, out = lake(["env", "leanchecker"] + mods, timeout=3000)
    return rc == 0, out


# -------------------------------------------------------------------------------------------
# known findings
# -------------------------------------------------------------------------------------------
def load_findings():
    known = {}
    path = os.path.join(VERIF, "KNOWN_FINDINGS.txt")
    if os.path.exists(path):
        for line in open(path):
            line = line.strip()
            m = re.match(r"known:\s+property=(\S+)\s+key=(\S+)\s+(.*)", line)
            if m:
                known[(m.group(1), m.group(2))] = m.group(3)
    return known


# -------------------------------------------------------------------------------------------
# main entry
# -------------------------------------------------------------------------------------------
def _raised_in_impl(e):
    """was the exception raised by code of the package under test (innermost frames inside .../pyroll/)?"""
    tb = traceback.extract_tb(e.__traceback__)
    return any("/pyroll/" in f.filename for f in tb[-6:])


def write_json(path, obj):
    os.makedirs(os.path.dirname(path), exist_ok=True)
    tmp = path + ".tmp%d" % os.getpid()
    with open(tmp, "w") as f:
        json.dump(obj, f, indent=1, default=str)
    os.replace(tmp, path)


def run_check(pid, tier, seed, replay=None):
    t0 = time.time()
    mod = importlib.import_module(f"driver.props.{pid.lower()}")
    ctx = Ctx(pid, tier, seed)
    lean_mods = list(getattr(mod, "LEAN_MODULES", []))
    tie_broken = []
    build_log = ""
    theorems = []
    axioms = {}

    # 1. translate -----------------------------------------------------------------------
    if hasattr(mod, "translate"):
        try:
            with _Lock():
                mod.translate(ctx)
        except InfraError:
            raise
        except Exception as e:  # the source left the translatable subset: the tie is broken, not a violation yet
            tie_broken.append({"kind": "translator", "what": f"{type(e).__name__}: {e}",
                               "trace": traceback.format_exc()[-1500:]})
    tie_broken.extend({"kind": "translator-gap", "what": w} for w in ctx.tie_breaks)
    ctx.tie_breaks = []

    # 2. build ---------------------------------------------------------------------------
    ok, build_log, errors = build(lean_mods + list(getattr(mod, "MODEL_MODULES", [])))
    for m in lean_mods:
        theorems += [(m, t, ln) for (t, ln) in theorems_of(m)]
    if not ok:
        if not errors and "error" not in build_log:
            raise InfraError("lake build failed without Lean errors:\n" + build_log[-3000:])
        failing = []
        for (f, ln, msg) in errors:
            owner = None
            for (m, t, tl) in theorems:
                if module_path(m).endswith(f) and tl <= ln:
                    owner = t
            failing.append({"file": f, "line": ln, "theorem": owner, "msg": msg[:300]})
        tie_broken.append({"kind": "proof-obligation", "what": "lake build failed", "errors": failing[:20],
                           "log_tail": build_log[-1500:]})

    # 3. audit ---------------------------------------------------------------------------
    all_mods = []
    for m in lean_mods:
        imported_project_modules(m, all_mods)
    hits = grep_forbidden(all_mods)
    if hits:
        tie_broken.append({"kind": "audit", "what": "forbidden construct", "hits": hits})
    discharged = 0
    if ok and theorems:
        aok, axioms, bad, raw = audit_axioms(lean_mods, [t for (_, t, _) in theorems])
        if not aok:
            tie_broken.append({"kind": "audit", "what": "axiom audit failed", "bad": bad, "raw": raw[-1500:]})
        discharged = sum(1 for (_, t, _) in theorems if t in axioms and set(axioms[t]) <= ALLOWED_AXIOMS)
    checker = "lake build " + " ".join(lean_mods) + " && #print axioms (driver/core.py audit)"
    if ok and tier == "thorough" and lean_mods:
        cok, cout = leanchecker(lean_mods)
        checker += " && lake env leanchecker " + " ".join(lean_mods)
        if not cok:
            tie_broken.append({"kind": "audit", "what": "leanchecker rejected", "raw": cout[-1500:]})

    # 4+5. correspondence and oracle --------------------------------------------------------
    model_ok = ok or not getattr(mod, "MODEL_NEEDS_BUILD", True)
    ctx.model_available = ok
    try:
        if replay:
            mod.replay(ctx, json.load(open(replay)))
        else:
            mod.run(ctx)
    except InfraError:
        raise
    except Exception as e:
        # An exception escaping the harness: if it was raised from inside the implementation, the harness could not
        # complete against this source tree (tie broken; the extended search below looks for a concrete failing input);
        # otherwise it is a bug of the harness itself = infrastructure error.
        if not _raised_in_impl(e):
            raise
        tie_broken.append({"kind": "correspondence", "what": f"the implementation raised {type(e).__name__}: {e} "
                           "where the harness expects none", "trace": traceback.format_exc()[-2500:]})
    for (what, rp) in ctx.disagreements:
        tie_broken.append({"kind": "correspondence", "what": what, "replay": rp})
    tie_broken.extend({"kind": "translator-gap", "what": w} for w in ctx.tie_breaks)

    # 6. decide --------------------------------------------------------------------------
    known = load_findings()
    unlisted = [(k, w, r) for (k, w, r) in ctx.violations if (pid, k) not in known]
    listed = {}
    for (k, w, r) in ctx.violations:
        if (pid, k) in known:
            listed.setdefault(k, w)
    ext = None
    if tie_broken and not unlisted and not replay:
        # the tie is broken but no concrete failing input so far: extended search on the implementation
        ext = Ctx(pid, tier, seed, extended=True)
        ext.model_available = False
        try:
            mod.run(ext)
        except InfraError:
            raise
        except Exception as e:
            if not _raised_in_impl(e):
                raise
            tie_broken.append({"kind": "correspondence", "what": f"extended search: the implementation raised "
                               f"{type(e).__name__}: {e}", "trace": traceback.format_exc()[-2500:]})
        unlisted = [(k, w, r) for (k, w, r) in ext.violations if (pid, k) not in known]
        for (k, w, r) in ext.violations:
            if (pid, k) in known:
                listed.setdefault(k, w)

    lines = []
    exit_code = 0
    os.makedirs(os.path.join(VERIF, "replays"), exist_ok=True)
    listed_replays = {}
    for (k, w, r) in list(ctx.violations) + (list(ext.violations) if ext is not None else []):
        if (pid, k) in known and k not in listed_replays:
            listed_replays[k] = r
    for k, w in listed.items():
        lines.append(f"KNOWN-FINDING: property={pid} key={k} {w}")
        # the concrete input of a listed finding is kept as well (not a violation: for the record / for a later repair)
        write_json(os.path.join(VERIF, "replays", f"{pid}_known_{k.replace(':', '_').replace('/', '_')[:60]}.json"),
                   {"property": pid, "key": k, "what": w, "replay": listed_replays.get(k), "listed_in": "KNOWN_FINDINGS.txt",
                    "seed": seed, "tier": tier})
    if unlisted:
        seen = set()
        for i, (k, w, r) in enumerate(unlisted):
            if k in seen:
                continue
            seen.add(k)
            path = os.path.join("replays", f"{pid}_{k.replace(':', '_').replace('/', '_')[:60]}.json")
            write_json(os.path.join(VERIF, path), {"property": pid, "key": k, "what": w, "replay": r,
                                                    "tie_broken": tie_broken[:5], "seed": seed, "tier": tier})
            lines.append(f"VIOLATION property={pid} replay={path}")
            if len(seen) >= 5:
                break
        exit_code = 1
    elif tie_broken:
        path = os.path.join("replays", f"{pid}_tie_broken.json")
        write_json(os.path.join(VERIF, path), {"property": pid, "what": "tie between model and source broken; "
                   "extended search on the implementation found no failing input",
                   "no_longer_checks": tie_broken[:10], "seed": seed, "tier": tier})
        lines.append(f"VIOLATION property={pid} replay={path} no-failing-input-found")
        exit_code = 1

    # 7. evidence ------------------------------------------------------------------------
    n_obl = len(theorems)
    cov = {
        "obligations": n_obl,
        "discharged": discharged,
        "checker_cmd": checker,
        "trusted_base": TRUSTED_BASE + list(getattr(mod, "TRUSTED_EXTRA", [])),
        "theorems": [t for (_, t, _) in theorems],
        "axioms_used": sorted({a for v in axioms.values() for a in v}),
        "evaluations": ctx.evaluations,
        "distinct_nontrivial": len(ctx.nontrivial),
        "rule": getattr(mod, "RULE", ""),
        "samples": ctx.samples,
        "traces_validated_against_impl": ctx.traces_validated,
        "input_distribution": ctx.histogram,
        "correspondence_disagreements": len(ctx.disagreements),
        "tie_broken": [t["kind"] + ": " + str(t["what"])[:200] for t in tie_broken],
        "known_findings_reproduced": sorted(listed),
        "notes": ctx.notes,
    }
    if ext is not None:
        cov["extended_search_evaluations"] = ext.evaluations
    ev = {
        "property_id": pid,
        "tier": tier,
        "seed": seed,
        "level": "proof",
        "coverage": cov,
        "assumptions": list(getattr(mod, "ASSUMPTIONS", [])) + ctx.assumptions,
        "wall_s": round(time.time() - t0, 2),
        "violations": len({k for (k, _, _) in unlisted}) + (1 if (tie_broken and not unlisted) else 0),
    }
    if os.path.realpath(REPO) == "/repo":
        write_json(os.path.join(VERIF, "evidence", f"{pid}.json"), ev)
    else:
        # a run against another tree (VERIF_REPO: seeded change, builder worktree) is not evidence about /repo
        ev["repo"] = REPO
        write_json(os.path.join(VERIF, "replays", f"evidence_{pid}_other_tree.json"), ev)
    for line in lines:
        print(line)
    print(f"[{pid}] tier={tier} seed={seed} theorems={discharged}/{n_obl} cases={ctx.evaluations} "
          f"nontrivial={len(ctx.nontrivial)} disagreements={len(ctx.disagreements)} "
          f"violations={len(unlisted)} tie_broken={len(tie_broken)} wall={time.time() - t0:.1f}s")
    return exit_code


class _PropLocks:
    """one check of a property at a time: a check regenerates that property's Gen modules from the tree it is pointed
    at (VERIF_REPO), builds them and runs the model driver on the build products - a concurrent run of the same property
    against another tree (seeded changes, builder worktrees) would swap the generated files under it.  Checks of different
    properties still run in parallel.  Locks are taken in sorted order (a module may name further properties whose
    generated modules its theorems import: ALSO_LOCKS)."""
    def __init__(self, pids):
        self.pids = sorted(set(pids))
        self.fs = []

    def __enter__(self):
        for p in self.pids:
            f = open(os.path.join(LEAN_DIR, f".lock.{p}"), "w")
            fcntl.flock(f, fcntl.LOCK_EX)
            self.fs.append(f)
        return self

    def __exit__(self, *a):
        for f in reversed(self.fs):
            fcntl.flock(f, fcntl.LOCK_UN)
            f.close()


def main(argv):
    import argparse
    ap = argparse.ArgumentParser()
    ap.add_argument("pid")
    ap.add_argument("--tier", default=os.environ.get("VERIF_TIER", "quick"), choices=["quick", "thorough"])
    ap.add_argument("--replay", default=None)
    ap.add_argument("--seed", type=int, default=None)
    a = ap.parse_args(argv)
    seed = a.seed if a.seed is not None else int(os.environ.get("VERIF_SEED", "0") or 0)
    try:
        pid = a.pid.upper()
        mod = importlib.import_module(f"driver.props.{pid.lower()}")
        with _PropLocks([pid] + list(getattr(mod, "ALSO_LOCKS", []))):
            return run_check(pid, a.tier, seed, a.replay)
    except InfraError as e:
        print(f"INFRASTRUCTURE-ERROR {e}", file=sys.stderr)
        return 2
    except subprocess.TimeoutExpired as e:
        print(f"INFRASTRUCTURE-TIMEOUT {e}", file=sys.stderr)
        return 2
    except Exception:
        traceback.print_exc()
        return 2
